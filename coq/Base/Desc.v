(* Argument descriptors for the native entry-point guards (C11): what PyArray_* macros can observe of an argument. *)
Require Import ZArith List Bool.
Import ListNotations.
Open Scope Z_scope.

Record desc := {
  d_none : bool;           (* the argument is Py_None *)
  d_arr : bool;            (* PyArray_Check *)
  d_shape : list Z;        (* PyArray_DIMS, length = PyArray_NDIM *)
  d_type : Z;              (* type class: PyArray_EquivTypenums is equality of classes *)
  d_carray : bool;         (* PyArray_ISCARRAY: C-contiguous, aligned, writeable *)
  d_carray_ro : bool;      (* PyArray_ISCARRAY_RO *)
  d_contig : bool          (* PyArray_ISCONTIGUOUS *)
}.

Definition ndim (a : desc) : Z := Z.of_nat (length (d_shape a)).
Definition dimZ (a : desc) (i : Z) : Z := nth (Z.to_nat i) (d_shape a) 0.
Definition sizeZ (a : desc) : Z := fold_right Z.mul 1 (d_shape a).
Definition NPY_MAXDIMS : Z := 64.

Fixpoint list_eqbZ (a b : list Z) : bool :=
  match a, b with
  | [], [] => true
  | x :: a', y :: b' => (x =? y) && list_eqbZ a' b'
  | _, _ => false
  end.
Definition shape_eqb (a b : desc) : bool := list_eqbZ (d_shape a) (d_shape b).

Lemma list_eqbZ_eq a b : list_eqbZ a b = true <-> a = b.
Proof.
  revert b; induction a as [|x a IH]; intros [|y b]; cbn; split; intro H; try reflexivity; try discriminate.
  - apply andb_true_iff in H. destruct H as [H1 H2]. apply Z.eqb_eq in H1. apply IH in H2. subst. reflexivity.
  - injection H as -> ->. apply andb_true_iff. split; [apply Z.eqb_refl | apply IH; reflexivity].
Qed.
Lemma shape_eqb_eq a b : shape_eqb a b = true <-> d_shape a = d_shape b.
Proof. apply list_eqbZ_eq. Qed.
