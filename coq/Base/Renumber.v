(* First-seen renumbering through a std::map (modelled as an association list), as used by
   _labeled.cpp label() (background key -1) and relabel() (background key 0). *)
Require Import MV.Base.Prelude.

Fixpoint assoc (k : Z) (m : list (Z * Z)) : option Z :=
  match m with
  | [] => None
  | (a, b) :: t => if a =? k then Some b else assoc k t
  end.

(* seen[bg] = 0; next = 1; for each val: if unseen then data[i] = next, seen[val] = next, ++next else data[i] = seen[val] *)
Fixpoint renum_go (seen : list (Z * Z)) (next : Z) (l : list Z) : list Z * Z :=
  match l with
  | [] => ([], next - 1)
  | v :: t =>
      match assoc v seen with
      | Some n => let r := renum_go seen next t in (n :: fst r, snd r)
      | None => let r := renum_go ((v, next) :: seen) (next + 1) t in (next :: fst r, snd r)
      end
  end.
Definition renumber (bg : Z) (l : list Z) : list Z * Z := renum_go [(bg, 0)] 1 l.

(* the map after the whole scan *)
Fixpoint final (seen : list (Z * Z)) (next : Z) (l : list Z) : list (Z * Z) * Z :=
  match l with
  | [] => (seen, next)
  | v :: t => match assoc v seen with
              | Some _ => final seen next t
              | None => final ((v, next) :: seen) (next + 1) t
              end
  end.

Definition get (k : Z) (m : list (Z * Z)) : Z := match assoc k m with Some n => n | None => -1 end.

Lemma final_extends seen next l k n : assoc k seen = Some n -> assoc k (fst (final seen next l)) = Some n.
Proof.
  revert seen next; induction l as [|v t IH]; intros seen next H; simpl; [exact H|].
  destruct (assoc v seen) eqn:E; [apply IH; exact H|].
  apply IH. simpl. destruct (v =? k) eqn:F; [|exact H].
  assert (v = k) by lia. subst. congruence.
Qed.

Lemma renum_go_final seen next l :
  fst (renum_go seen next l) = map (fun v => get v (fst (final seen next l))) l /\
  snd (renum_go seen next l) = snd (final seen next l) - 1.
Proof.
  revert seen next; induction l as [|v t IH]; intros seen next; simpl; [split; reflexivity|].
  destruct (assoc v seen) as [n|] eqn:E; simpl.
  - destruct (IH seen next) as [I1 I2]. rewrite I1, I2. split; [|reflexivity]. f_equal.
    unfold get. now rewrite (final_extends seen next t v n E).
  - destruct (IH ((v, next) :: seen) (next + 1)) as [I1 I2]. rewrite I1, I2. split; [|reflexivity]. f_equal.
    unfold get. rewrite (final_extends ((v, next) :: seen) (next + 1) t v next); [reflexivity|].
    simpl. now rewrite Z.eqb_refl.
Qed.

(* invariant of the map: injective, values in [0,next), bg -> 0 and only bg -> 0, every value in [0,next) taken *)
Record Inv (bg : Z) (m : list (Z * Z)) (next : Z) : Prop := {
  inv_bg : assoc bg m = Some 0;
  inv_rng : forall k n, assoc k m = Some n -> 0 <= n < next;
  inv_inj : forall k k' n, assoc k m = Some n -> assoc k' m = Some n -> k = k';
  inv_sur : forall n, 0 <= n < next -> exists k, assoc k m = Some n;
  inv_next : 1 <= next
}.

Lemma Inv_init bg : Inv bg [(bg, 0)] 1.
Proof.
  constructor; simpl.
  - now rewrite Z.eqb_refl.
  - intros k n. destruct (bg =? k); [|discriminate]. intros E; apply some_inj in E. lia.
  - intros k k' n. destruct (bg =? k) eqn:A; [|discriminate]. destruct (bg =? k') eqn:B; [|discriminate]. lia.
  - intros n Hn. exists bg. rewrite Z.eqb_refl. f_equal. lia.
  - lia.
Qed.

Lemma Inv_step bg m next v : Inv bg m next -> assoc v m = None -> Inv bg ((v, next) :: m) (next + 1).
Proof.
  intros [Hb Hr Hi Hs Hn] Hv. constructor; simpl.
  - destruct (v =? bg) eqn:E; [|exact Hb]. assert (v = bg) by lia. subst. congruence.
  - intros k n. destruct (v =? k); [intros E; apply some_inj in E; lia|]. intros E. specialize (Hr k n E). lia.
  - intros k k' n. destruct (v =? k) eqn:A; destruct (v =? k') eqn:B; intros E1 E2.
    + lia.
    + apply some_inj in E1. subst n. specialize (Hr k' next E2). lia.
    + apply some_inj in E2. subst n. specialize (Hr k next E1). lia.
    + eapply Hi; eauto.
  - intros n Hn'. destruct (Z.eq_dec n next) as [->|Ne].
    + exists v. now rewrite Z.eqb_refl.
    + destruct (Hs n ltac:(lia)) as [k Hk]. exists k. destruct (v =? k) eqn:E; [|exact Hk].
      assert (v = k) by lia. subst. congruence.
  - lia.
Qed.

Lemma Inv_final bg m next l : Inv bg m next -> Inv bg (fst (final m next l)) (snd (final m next l)).
Proof.
  revert m next; induction l as [|v t IH]; intros m next H; simpl; [exact H|].
  destruct (assoc v m) eqn:E; [apply IH; exact H|]. apply IH. apply Inv_step; auto.
Qed.

(* every scanned value is in the final map *)
Lemma final_covers m next l v : In v l -> exists n, assoc v (fst (final m next l)) = Some n.
Proof.
  revert m next; induction l as [|a t IH]; intros m next H; [destruct H|].
  simpl. destruct H as [->|H].
  - destruct (assoc v m) as [n|] eqn:E.
    + exists n. now apply final_extends.
    + exists next. apply final_extends. simpl. now rewrite Z.eqb_refl.
  - destruct (assoc a m); now apply IH.
Qed.

Section Props.
  Variable bg : Z.
  Variable l : list Z.
  Let out := fst (renumber bg l).
  Let cnt := snd (renumber bg l).
  Let M := fst (final [(bg, 0)] 1 l).
  Let NX := snd (final [(bg, 0)] 1 l).

  Lemma out_eq : out = map (fun v => get v M) l.
  Proof. unfold out, renumber. now destruct (renum_go_final [(bg, 0)] 1 l) as [H _]. Qed.
  Lemma cnt_eq : cnt = NX - 1.
  Proof. unfold cnt, renumber. now destruct (renum_go_final [(bg, 0)] 1 l) as [_ H]. Qed.
  Lemma M_inv : Inv bg M NX.
  Proof. apply Inv_final, Inv_init. Qed.

  Lemma out_length : length out = length l.
  Proof. rewrite out_eq. apply map_length. Qed.

  Lemma out_nth i : (i < length l)%nat -> nth i out 0 = get (nth i l 0) M.
  Proof.
    intros Hi. rewrite out_eq. rewrite nth_indep with (d' := get 0 M) by (rewrite map_length; lia).
    apply (map_nth (fun v => get v M)).
  Qed.

  (* two cells get the same label exactly when they held the same value *)
  Theorem renumber_same_iff i j : (i < length l)%nat -> (j < length l)%nat ->
    (nth i out 0 = nth j out 0 <-> nth i l 0 = nth j l 0).
  Proof.
    intros Hi Hj. rewrite !out_nth by auto. split; [|intros ->; reflexivity].
    destruct (final_covers [(bg, 0)] 1 l (nth i l 0) (nth_In _ _ Hi)) as [a Ha].
    destruct (final_covers [(bg, 0)] 1 l (nth j l 0) (nth_In _ _ Hj)) as [b Hb].
    fold M in Ha, Hb. unfold get. rewrite Ha, Hb. intros ->. eapply (inv_inj _ _ _ M_inv); eauto.
  Qed.

  (* label 0 exactly on the background value *)
  Theorem renumber_zero_iff i : (i < length l)%nat -> (nth i out 0 = 0 <-> nth i l 0 = bg).
  Proof.
    intros Hi. rewrite out_nth by auto.
    destruct (final_covers [(bg, 0)] 1 l (nth i l 0) (nth_In _ _ Hi)) as [a Ha]. fold M in Ha.
    unfold get. rewrite Ha. split.
    - intros ->. eapply (inv_inj _ _ _ M_inv); eauto. apply (inv_bg _ _ _ M_inv).
    - intros E. rewrite E in Ha. pose proof (inv_bg _ _ _ M_inv) as B. congruence.
  Qed.

  (* labels lie in 0..count *)
  Theorem renumber_range i : (i < length l)%nat -> 0 <= nth i out 0 <= cnt.
  Proof.
    intros Hi. rewrite out_nth by auto.
    destruct (final_covers [(bg, 0)] 1 l (nth i l 0) (nth_In _ _ Hi)) as [a Ha]. fold M in Ha.
    unfold get. rewrite Ha. pose proof (inv_rng _ _ _ M_inv _ _ Ha). rewrite cnt_eq. lia.
  Qed.
End Props.

(* scan-order numbering: each cell's label is at most one more than the largest label before it;
   together with [renumber_range]/surjectivity below this says labels are 1..n in order of first appearance *)
Lemma renum_go_scan seen next l : (forall k n, assoc k seen = Some n -> n < next) ->
  forall pre, (forall x, In x pre -> x < next) -> (1 < next -> In (next - 1) pre) ->
  forall i, (i < length l)%nat ->
    nth i (fst (renum_go seen next l)) 0 <= 1 + maxl 0 (pre ++ firstn i (fst (renum_go seen next l))).
Proof.
  revert seen next; induction l as [|v t IH]; intros seen next Hs pre Hp Hlast i Hi; [simpl in Hi; lia|].
  simpl. destruct (assoc v seen) as [n|] eqn:E; cbn [fst].
  - destruct i as [|i]; cbn [nth firstn].
    + rewrite app_nil_r. specialize (Hs v n E).
      destruct (Z_le_gt_dec next 1); [pose proof (maxl_ge_d 0 pre); lia|].
      pose proof (maxl_ge_in 0 pre (next - 1) (Hlast ltac:(lia))). lia.
    + simpl in Hi. specialize (IH seen next Hs (pre ++ [n])).
      replace (pre ++ n :: firstn i (fst (renum_go seen next t))) with ((pre ++ [n]) ++ firstn i (fst (renum_go seen next t)))
        by (rewrite <- app_assoc; reflexivity).
      apply IH; [| |lia].
      * intros x Hx. apply in_app_iff in Hx. destruct Hx as [Hx|[<-|[]]]; [auto|]. eapply Hs; eauto.
      * intros H1. apply in_app_iff. left. auto.
  - destruct i as [|i]; cbn [nth firstn].
    + rewrite app_nil_r.
      destruct (Z_le_gt_dec next 1); [pose proof (maxl_ge_d 0 pre); lia|].
      pose proof (maxl_ge_in 0 pre (next - 1) (Hlast ltac:(lia))). lia.
    + simpl in Hi. specialize (IH ((v, next) :: seen) (next + 1)).
      replace (pre ++ next :: firstn i (fst (renum_go ((v, next) :: seen) (next + 1) t)))
        with ((pre ++ [next]) ++ firstn i (fst (renum_go ((v, next) :: seen) (next + 1) t)))
        by (rewrite <- app_assoc; reflexivity).
      apply IH; [| | |lia].
      * intros k n. simpl. destruct (v =? k); [intros H; apply some_inj in H; lia|]. intros H. specialize (Hs k n H). lia.
      * intros x Hx. apply in_app_iff in Hx. destruct Hx as [Hx|[<-|[]]]; [specialize (Hp x Hx); lia|lia].
      * intros _. apply in_app_iff. right. left. lia.
Qed.

Theorem renumber_scan_order bg l i : (i < length l)%nat ->
  nth i (fst (renumber bg l)) 0 <= 1 + maxl 0 (firstn i (fst (renumber bg l))).
Proof.
  intros Hi. unfold renumber.
  apply (renum_go_scan [(bg, 0)] 1 l) with (pre := []); auto.
  - intros k n. simpl. destruct (bg =? k); [intros H; apply some_inj in H; lia|discriminate].
  - intros x [].
  - lia.
Qed.

(* every label 1..count is used: count is the number of distinct non-background values *)
Theorem renumber_all_labels_used bg l n : 1 <= n <= snd (renumber bg l) -> In n (fst (renumber bg l)).
Proof.
  intros Hn. pose proof (M_inv bg l) as I. rewrite (cnt_eq bg l) in Hn.
  destruct (inv_sur _ _ _ I n ltac:(lia)) as [k Hk].
  rewrite (out_eq bg l). apply in_map_iff. exists k. split; [unfold get; now rewrite Hk|].
  (* k was inserted during the scan, hence occurs in l (it is not bg since n <> 0) *)
  assert (G : forall seen next l0 k0 n0, assoc k0 (fst (final seen next l0)) = Some n0 -> assoc k0 seen = Some n0 \/ In k0 l0).
  { intros seen next l0; revert seen next; induction l0 as [|v t IH]; intros seen next k0 n0 H; simpl in *; [auto|].
    destruct (assoc v seen) eqn:E.
    - destruct (IH _ _ _ _ H); auto.
    - destruct (IH _ _ _ _ H) as [H1|H1]; auto. simpl in H1. destruct (v =? k0) eqn:F; auto. right. left. lia. }
  destruct (G _ _ _ _ _ Hk) as [H|H]; [|exact H].
  simpl in H. destruct (bg =? k); [apply some_inj in H; lia|discriminate].
Qed.
