(* Mathematical definition of the six border rules (independent of the code). *)
Require Import MV.Base.Prelude.

Definition M_nearest : Z := 0.
Definition M_wrap : Z := 1.
Definition M_reflect : Z := 2.
Definition M_mirror : Z := 3.
Definition M_constant : Z := 4.
Definition M_ignore : Z := 5.

Definition clamp (x len : Z) : Z := Z.max 0 (Z.min (len - 1) x).

Definition reflect_spec (cc len : Z) : Z :=
  let r := cc mod (2 * len) in if r <? len then r else 2 * len - 1 - r.

Definition mirror_spec (cc len : Z) : Z :=
  if len <=? 1 then 0 else
  let r := cc mod (2 * len - 2) in if r <? len then r else 2 * len - 2 - r.

(* None = the sample is outside the image (constant / ignore modes) *)
Definition border_map (mode cc len : Z) : option Z :=
  if mode =? M_nearest then Some (clamp cc len)
  else if mode =? M_wrap then Some (cc mod len)
  else if mode =? M_reflect then Some (reflect_spec cc len)
  else if mode =? M_mirror then Some (mirror_spec cc len)
  else if (0 <=? cc) && (cc <? len) then Some cc else None.

Definition valid_mode (m : Z) : Prop := 0 <= m <= 5.

Fixpoint border_pos (mode : Z) (sh pos : list Z) : option (list Z) :=
  match sh, pos with
  | d :: r, p :: q =>
      match border_map mode p d, border_pos mode r q with
      | Some c, Some t => Some (c :: t)
      | _, _ => None
      end
  | _, _ => Some []
  end.

Definition clampos (sh pos : list Z) : list Z :=
  map (fun dp => clamp (snd dp) (fst dp)) (combine sh pos).
