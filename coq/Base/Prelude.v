(* Common header: arithmetic automation set-up and a few list helpers over Z. *)
From Coq Require Export ZArith List Bool Lia ZifyBool.
Export ListNotations.
Open Scope Z_scope.

Ltac Zify.zify_post_hook ::= Z.to_euclidean_division_equations.
Global Arguments Z.mul : simpl never.
Global Arguments Z.add : simpl never.
Global Arguments Z.sub : simpl never.
Global Arguments Z.quot : simpl never.
Global Arguments Z.rem : simpl never.
Global Arguments Z.div : simpl never.
Global Arguments Z.modulo : simpl never.
Global Arguments Z.pow : simpl never.

Lemma some_inj {A} (x y : A) : Some x = Some y -> x = y.
Proof. intro H; injection H; auto. Qed.

(* Z-indexed access with default. *)
Definition nthZ {A} (d : A) (l : list A) (i : Z) : A :=
  if i <? 0 then d else nth (Z.to_nat i) l d.

Definition Zlen {A} (l : list A) : Z := Z.of_nat (length l).

(* [Zseq a n] = a, a+1, ..., a+n-1 *)
Fixpoint Zseq (a : Z) (n : nat) : list Z :=
  match n with O => [] | S k => a :: Zseq (a + 1) k end.

Lemma Zseq_length a n : length (Zseq a n) = n.
Proof. revert a; induction n; simpl; intros; auto. Qed.

Lemma in_Zseq a n x : In x (Zseq a n) <-> a <= x < a + Z.of_nat n.
Proof.
  revert a; induction n as [|n IH]; intros a; simpl.
  - split; [tauto | lia].
  - rewrite IH. split; intros H.
    + destruct H as [H|H]; lia.
    + destruct (Z.eq_dec a x); [left; auto | right; lia].
Qed.

Lemma nth_Zseq a n i : (i < n)%nat -> nth i (Zseq a n) 0 = a + Z.of_nat i.
Proof.
  revert a i; induction n as [|n IH]; intros a i Hi; [lia|].
  destruct i as [|i]; simpl; [lia|]. rewrite IH by lia. lia.
Qed.

Lemma nthZ_Zseq a n i : 0 <= i < Z.of_nat n -> nthZ 0 (Zseq a n) i = a + i.
Proof.
  intros Hi. unfold nthZ. destruct (i <? 0) eqn:E; [lia|].
  rewrite nth_Zseq by lia. lia.
Qed.

Lemma nthZ_map {A B} (f : A -> B) da db l i :
  0 <= i < Zlen l -> nthZ db (map f l) i = f (nthZ da l i).
Proof.
  unfold nthZ, Zlen. intros Hi. destruct (i <? 0) eqn:E; [lia|].
  rewrite nth_indep with (d' := f da) by (rewrite map_length; lia).
  apply map_nth.
Qed.

Lemma nthZ_In {A} (d : A) l i : 0 <= i < Zlen l -> In (nthZ d l i) l.
Proof.
  unfold nthZ, Zlen. intros Hi. destruct (i <? 0) eqn:E; [lia|].
  apply nth_In. lia.
Qed.

Lemma In_nthZ {A} (d : A) l x : In x l -> exists i, 0 <= i < Zlen l /\ nthZ d l i = x.
Proof.
  intros H. destruct (In_nth l x d H) as [n [Hn Hx]].
  exists (Z.of_nat n). unfold nthZ, Zlen. split; [lia|].
  destruct (Z.of_nat n <? 0) eqn:E; [lia|]. now rewrite Nat2Z.id.
Qed.

(* replace element i *)
Fixpoint upd {A} (l : list A) (i : nat) (v : A) : list A :=
  match l, i with
  | [], _ => []
  | _ :: t, O => v :: t
  | h :: t, S k => h :: upd t k v
  end.
Definition updZ {A} (l : list A) (i : Z) (v : A) : list A :=
  if i <? 0 then l else upd l (Z.to_nat i) v.

Lemma upd_length {A} (l : list A) i v : length (upd l i v) = length l.
Proof. revert i; induction l; destruct i; simpl; auto. Qed.

Lemma nth_upd {A} (d : A) l i j v :
  nth j (upd l i v) d = if Nat.eqb i j then (if Nat.ltb i (length l) then v else d) else nth j l d.
Proof.
  revert i j; induction l as [|h t IH]; intros i j; simpl.
  - destruct (Nat.eqb i j); destruct j; auto.
  - destruct i, j; simpl; auto. rewrite IH.
    destruct (Nat.eqb i j); auto.
Qed.

Definition sumZ (l : list Z) : Z := fold_right Z.add 0 l.
Definition minl (d : Z) (l : list Z) : Z := fold_right Z.min d l.
Definition maxl (d : Z) (l : list Z) : Z := fold_right Z.max d l.

Lemma minl_le_d d l : minl d l <= d.
Proof. induction l; simpl; lia. Qed.
Lemma minl_le_in d l x : In x l -> minl d l <= x.
Proof. induction l; simpl; intros H; [tauto|]. destruct H; [subst|specialize (IHl H)]; lia. Qed.
Lemma minl_attained d l : minl d l = d \/ In (minl d l) l.
Proof.
  induction l as [|a l IH]; simpl; [auto|].
  destruct (Z.min_spec a (minl d l)) as [[_ E]|[_ E]]; rewrite E; [right; auto|].
  destruct IH; [left|right]; auto.
Qed.
Lemma minl_glb d l m : m <= d -> (forall x, In x l -> m <= x) -> m <= minl d l.
Proof. intros Hd H. destruct (minl_attained d l) as [E|E]; [lia | apply H; auto]. Qed.

Lemma maxl_ge_d d l : d <= maxl d l.
Proof. induction l; simpl; lia. Qed.
Lemma maxl_ge_in d l x : In x l -> x <= maxl d l.
Proof. induction l; simpl; intros H; [tauto|]. destruct H; [subst|specialize (IHl H)]; lia. Qed.
Lemma maxl_attained d l : maxl d l = d \/ In (maxl d l) l.
Proof.
  induction l as [|a l IH]; simpl; [auto|].
  destruct (Z.max_spec a (maxl d l)) as [[_ E]|[_ E]]; rewrite E; [|right; auto].
  destruct IH; [left|right]; auto.
Qed.
Lemma maxl_lub d l m : d <= m -> (forall x, In x l -> x <= m) -> maxl d l <= m.
Proof. intros Hd H. destruct (maxl_attained d l) as [E|E]; [lia | apply H; auto]. Qed.
