(* Boolean comparisons on R used by the generated colour models. *)
Require Import Reals.
Open Scope R_scope.
Definition rleb (a b : R) : bool := if Rle_dec a b then true else false.
Definition rltb (a b : R) : bool := if Rlt_dec a b then true else false.
Lemma rleb_true a b : a <= b -> rleb a b = true.
Proof. intros H. unfold rleb. destruct (Rle_dec a b); [reflexivity|contradiction]. Qed.
Lemma rleb_false a b : b < a -> rleb a b = false.
Proof. intros H. unfold rleb. destruct (Rle_dec a b) as [L|L]; [exfalso; apply (Rlt_irrefl a); eapply Rle_lt_trans; eauto|reflexivity]. Qed.
