(* Boolean comparison on Q used by the generated Python models. *)
Require Import QArith ZArith Lia.
Definition qltb (a b : Q) : bool := (Qnum a * QDen b <? Qnum b * QDen a)%Z.
Lemma qltb_spec a b : qltb a b = true <-> (a < b)%Q.
Proof. unfold qltb, Qlt. apply Z.ltb_lt. Qed.
Lemma qltb_false a b : qltb a b = false <-> (b <= a)%Q.
Proof. unfold qltb, Qle. rewrite Z.ltb_ge. reflexivity. Qed.
