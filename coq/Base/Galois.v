(* Abstract adjunction => the algebraic laws of opening and closing. *)
Section Galois.
  Variable X : Type.
  Variable P : X -> Prop.                 (* carrier: well-formed images *)
  Variable le : X -> X -> Prop.
  Variable delta eps : X -> X.
  Hypothesis le_refl : forall x, P x -> le x x.
  Hypothesis le_trans : forall x y z, le x y -> le y z -> le x z.
  Hypothesis delta_P : forall x, P x -> P (delta x).
  Hypothesis eps_P : forall x, P x -> P (eps x).
  Hypothesis adj : forall f g, P f -> P g -> (le (delta f) g <-> le f (eps g)).

  Definition opening f := delta (eps f).
  Definition closing f := eps (delta f).

  Lemma delta_incr f g : P f -> P g -> le f g -> le (delta f) (delta g).
  Proof.
    intros Pf Pg H. apply adj; auto. eapply le_trans; [exact H|]. apply adj; auto.
  Qed.

  Lemma eps_incr f g : P f -> P g -> le f g -> le (eps f) (eps g).
  Proof.
    intros Pf Pg H. apply adj; auto. eapply le_trans; [|exact H]. apply adj; auto.
  Qed.

  Lemma opening_antiextensive f : P f -> le (opening f) f.
  Proof. intros Pf. unfold opening. apply adj; auto. Qed.

  Lemma closing_extensive f : P f -> le f (closing f).
  Proof. intros Pf. unfold closing. apply adj; auto. Qed.

  Lemma opening_incr f g : P f -> P g -> le f g -> le (opening f) (opening g).
  Proof. intros. unfold opening. apply delta_incr; auto. apply eps_incr; auto. Qed.

  Lemma closing_incr f g : P f -> P g -> le f g -> le (closing f) (closing g).
  Proof. intros. unfold closing. apply eps_incr; auto. apply delta_incr; auto. Qed.

  (* idempotence up to the order's antisymmetry: both inequalities *)
  Lemma opening_idem_le f : P f -> le (opening (opening f)) (opening f) /\ le (opening f) (opening (opening f)).
  Proof.
    intros Pf. split.
    - apply opening_antiextensive. unfold opening. auto.
    - unfold opening. apply delta_incr; auto.
      apply (closing_extensive (eps f)). auto.
  Qed.

  Lemma closing_idem_le f : P f -> le (closing (closing f)) (closing f) /\ le (closing f) (closing (closing f)).
  Proof.
    intros Pf. split.
    - unfold closing. apply eps_incr; auto.
      apply (opening_antiextensive (delta f)). auto.
    - apply closing_extensive. unfold closing. auto.
  Qed.
End Galois.
