(* Fixed-width integer types as used by the C++ kernels (two's complement, wrap on conversion). *)
Require Import MV.Base.Prelude.

Record ity := { bits : Z; signed : bool }.

Definition tmin (t : ity) : Z := if signed t then - 2 ^ (bits t - 1) else 0.
Definition tmax (t : ity) : Z := if signed t then 2 ^ (bits t - 1) - 1 else 2 ^ (bits t) - 1.
Definition in_range (t : ity) (x : Z) : Prop := tmin t <= x <= tmax t.
Definition in_rangeb (t : ity) (x : Z) : bool := (tmin t <=? x) && (x <=? tmax t).

(* conversion of an arbitrary integer to type t (modular) *)
Definition wrap (t : ity) (x : Z) : Z :=
  let m := 2 ^ bits t in
  let r := x mod m in
  if signed t then (if r <? 2 ^ (bits t - 1) then r else r - m) else r.

(* saturation *)
Definition sat (t : ity) (x : Z) : Z := Z.max (tmin t) (Z.min (tmax t) x).

Definition wf_ity (t : ity) : Prop := 1 <= bits t.

Definition u8 := {| bits := 8; signed := false |}.
Definition i8 := {| bits := 8; signed := true |}.
Definition u16 := {| bits := 16; signed := false |}.
Definition i16 := {| bits := 16; signed := true |}.
Definition u32 := {| bits := 32; signed := false |}.
Definition i32 := {| bits := 32; signed := true |}.
Definition u64 := {| bits := 64; signed := false |}.
Definition i64 := {| bits := 64; signed := true |}.

Lemma pow2_split b : 1 <= b -> 2 ^ b = 2 * 2 ^ (b - 1).
Proof. intros H. replace b with (Z.succ (b - 1)) at 1 by lia. rewrite Z.pow_succ_r; lia. Qed.

Lemma pow2_pos b : 0 <= b -> 0 < 2 ^ b.
Proof. intros; apply Z.pow_pos_nonneg; lia. Qed.

Lemma tmin_le_tmax t : wf_ity t -> tmin t < tmax t \/ (bits t = 1 /\ signed t = true /\ tmin t = -1 /\ tmax t = 0) .
Proof.
  unfold wf_ity, tmin, tmax; intros H. destruct (signed t).
  - destruct (Z.eq_dec (bits t) 1) as [E|E].
    + right. rewrite E. simpl. repeat split; auto.
    + left. assert (2 <= 2 ^ (bits t - 1)).
      { replace 2 with (2 ^ 1) at 1 by reflexivity. apply Z.pow_le_mono_r; lia. }
      lia.
  - left. assert (2 <= 2 ^ bits t).
    { replace 2 with (2 ^ 1) at 1 by reflexivity. apply Z.pow_le_mono_r; lia. }
    lia.
Qed.

Lemma tmin_le_tmax' t : wf_ity t -> tmin t <= tmax t.
Proof. intros H. destruct (tmin_le_tmax t H) as [?|(_&_&?&?)]; lia. Qed.

Lemma wrap_in_range t x : wf_ity t -> in_range t (wrap t x).
Proof.
  unfold wf_ity, in_range, wrap, tmin, tmax. intros H.
  pose proof (pow2_split (bits t) H) as E.
  pose proof (pow2_pos (bits t - 1) ltac:(lia)) as P.
  set (h := 2 ^ (bits t - 1)) in *. rewrite E.
  assert (0 <= x mod (2 * h) < 2 * h) by (apply Z.mod_pos_bound; lia).
  destruct (signed t).
  - destruct (x mod (2 * h) <? h) eqn:C; lia.
  - lia.
Qed.

Lemma wrap_id t x : wf_ity t -> in_range t x -> wrap t x = x.
Proof.
  unfold wf_ity, in_range, wrap, tmin, tmax. intros H R.
  pose proof (pow2_split (bits t) H) as E.
  pose proof (pow2_pos (bits t - 1) ltac:(lia)) as P.
  set (h := 2 ^ (bits t - 1)) in *. rewrite E in *.
  destruct (signed t).
  - destruct (Z_lt_le_dec x 0).
    + assert (Hm : x mod (2 * h) = x + 2 * h).
      { symmetry. apply Z.mod_unique with (q := -1); lia. }
      rewrite Hm. destruct (x + 2 * h <? h) eqn:C; lia.
    + rewrite Z.mod_small by lia. destruct (x <? h) eqn:C; lia.
  - apply Z.mod_small; lia.
Qed.

(* wrap of a value that overshoots by less than one period *)
Lemma wrap_over t x : wf_ity t -> tmax t < x <= tmax t + 2 ^ bits t -> wrap t x = x - 2 ^ bits t.
Proof.
  intros H R. unfold wf_ity in H.
  assert (in_range t (x - 2 ^ bits t)).
  { unfold in_range, tmin, tmax in *. pose proof (pow2_split (bits t) H).
    pose proof (pow2_pos (bits t - 1) ltac:(lia)). destruct (signed t); lia. }
  rewrite <- (wrap_id t (x - 2 ^ bits t)) by auto.
  unfold wrap. replace (x - 2 ^ bits t) with (x + (-1) * 2 ^ bits t) by lia.
  rewrite Z.mod_add; auto. pose proof (pow2_pos (bits t) ltac:(lia)). lia.
Qed.

Lemma wrap_under t x : wf_ity t -> tmin t - 2 ^ bits t <= x < tmin t -> wrap t x = x + 2 ^ bits t.
Proof.
  intros H R. unfold wf_ity in H.
  assert (in_range t (x + 2 ^ bits t)).
  { unfold in_range, tmin, tmax in *. pose proof (pow2_split (bits t) H).
    pose proof (pow2_pos (bits t - 1) ltac:(lia)). destruct (signed t); lia. }
  rewrite <- (wrap_id t (x + 2 ^ bits t)) by auto.
  unfold wrap. replace (x + 2 ^ bits t) with (x + 1 * 2 ^ bits t) by lia.
  rewrite Z.mod_add; auto. pose proof (pow2_pos (bits t) ltac:(lia)). lia.
Qed.

Lemma range_width t : wf_ity t -> tmax t - tmin t = 2 ^ bits t - 1.
Proof.
  unfold wf_ity, tmin, tmax; intros H. pose proof (pow2_split (bits t) H).
  destruct (signed t); lia.
Qed.

Lemma sat_in_range t x : wf_ity t -> in_range t (sat t x).
Proof. intros H. pose proof (tmin_le_tmax' t H). unfold in_range, sat. lia. Qed.

Lemma sat_id t x : in_range t x -> sat t x = x.
Proof. unfold in_range, sat. lia. Qed.
