(* Shapes, positions (lists of Z), C-order ravel/unravel, enumeration of all positions. *)
Require Import MV.Base.Prelude.

Fixpoint size (sh : list Z) : Z :=
  match sh with [] => 1 | d :: r => d * size r end.

Fixpoint ravel (sh pos : list Z) : Z :=
  match sh, pos with
  | _ :: r, p :: q => p * size r + ravel r q
  | _, _ => 0
  end.

Fixpoint unravel (sh : list Z) (i : Z) : list Z :=
  match sh with
  | [] => []
  | _ :: r => (i / size r) :: unravel r (i mod size r)
  end.

Fixpoint in_shape (sh pos : list Z) : Prop :=
  match sh, pos with
  | [], [] => True
  | d :: r, p :: q => 0 <= p < d /\ in_shape r q
  | _, _ => False
  end.

Fixpoint in_shapeb (sh pos : list Z) : bool :=
  match sh, pos with
  | [], [] => true
  | d :: r, p :: q => (0 <=? p) && (p <? d) && in_shapeb r q
  | _, _ => false
  end.

Definition pos_shape (sh : list Z) : Prop := Forall (fun d => 0 < d) sh.

Definition all_positions (sh : list Z) : list (list Z) :=
  map (unravel sh) (Zseq 0 (Z.to_nat (size sh))).

Lemma in_shapeb_iff sh pos : in_shapeb sh pos = true <-> in_shape sh pos.
Proof.
  revert pos; induction sh as [|d r IH]; destruct pos as [|p q]; simpl; try tauto;
    try (split; [discriminate|tauto]).
  rewrite !andb_true_iff, IH, Z.leb_le, Z.ltb_lt. tauto.
Qed.

Lemma size_pos sh : pos_shape sh -> 0 < size sh.
Proof. induction 1; simpl; lia. Qed.

Lemma ravel_bound sh pos : pos_shape sh -> in_shape sh pos -> 0 <= ravel sh pos < size sh.
Proof.
  intros Hs; revert pos; induction Hs as [|d r Hd Hr IH]; destruct pos as [|p q]; simpl; try tauto; try lia.
  intros [Hp Hq]. specialize (IH q Hq). pose proof (size_pos r Hr). nia.
Qed.

Lemma unravel_in_shape sh i : pos_shape sh -> 0 <= i < size sh -> in_shape sh (unravel sh i).
Proof.
  intros Hs; revert i; induction Hs as [|d r Hd Hr IH]; simpl; intros i Hi; [tauto|].
  pose proof (size_pos r Hr) as P. split.
  - split; [apply Z.div_pos; lia|]. apply Z.div_lt_upper_bound; lia.
  - apply IH. apply Z.mod_pos_bound; lia.
Qed.

Lemma ravel_unravel sh i : pos_shape sh -> 0 <= i < size sh -> ravel sh (unravel sh i) = i.
Proof.
  intros Hs; revert i; induction Hs as [|d r Hd Hr IH]; simpl; intros i Hi; [lia|].
  pose proof (size_pos r Hr) as P. rewrite IH by (apply Z.mod_pos_bound; lia).
  rewrite (Z.div_mod i (size r)) at 3 by lia. lia.
Qed.

Lemma unravel_ravel sh pos : pos_shape sh -> in_shape sh pos -> unravel sh (ravel sh pos) = pos.
Proof.
  intros Hs; revert pos; induction Hs as [|d r Hd Hr IH]; destruct pos as [|p q]; simpl; try tauto.
  intros [Hp Hq]. pose proof (size_pos r Hr) as P. pose proof (ravel_bound r q Hr Hq) as B.
  f_equal.
  - rewrite Z.add_comm, Z.div_add by lia. rewrite Z.div_small by lia. lia.
  - rewrite Z.add_comm, Z.mod_add by lia. rewrite Z.mod_small by lia. apply IH; auto.
Qed.

Lemma all_positions_length sh : length (all_positions sh) = Z.to_nat (size sh).
Proof. unfold all_positions. now rewrite map_length, Zseq_length. Qed.

Lemma in_all_positions sh pos : pos_shape sh -> (In pos (all_positions sh) <-> in_shape sh pos).
Proof.
  intros Hs. unfold all_positions. rewrite in_map_iff. split.
  - intros [i [E Hi]]. subst. apply in_Zseq in Hi. apply unravel_in_shape; auto. lia.
  - intros H. exists (ravel sh pos). split; [apply unravel_ravel; auto|].
    apply in_Zseq. pose proof (ravel_bound sh pos Hs H). lia.
Qed.

Lemma nthZ_all_positions sh i : 0 <= i < size sh ->
  nthZ [] (all_positions sh) i = unravel sh i.
Proof.
  intros Hi. unfold all_positions.
  rewrite nthZ_map with (da := 0) by (unfold Zlen; rewrite Zseq_length; lia).
  rewrite nthZ_Zseq by lia. f_equal.
Qed.

(* array = shape + data in C order *)
Record arr := { shape : list Z; data : list Z }.
Definition aget (a : arr) (pos : list Z) : Z := nthZ 0 (data a) (ravel (shape a) pos).
Definition wf_arr (a : arr) : Prop := pos_shape (shape a) /\ Zlen (data a) = size (shape a).

(* pointwise position arithmetic *)
Fixpoint padd (p q : list Z) : list Z :=
  match p, q with a :: p', b :: q' => (a + b) :: padd p' q' | _, _ => [] end.
Fixpoint psub (p q : list Z) : list Z :=
  match p, q with a :: p', b :: q' => (a - b) :: psub p' q' | _, _ => [] end.
Definition centre (sh : list Z) : list Z := map (fun d => Z.quot d 2) sh.
