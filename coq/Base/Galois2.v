(* Adjunction between two carriers => the algebraic laws of opening and closing.
   delta is only adjoint on a sub-carrier PF (images that the dilation does not saturate); eps maps everything into PF. *)
Section Galois2.
  Variable X : Type.
  Variable PF PG : X -> Prop.
  Variable le : X -> X -> Prop.
  Variable delta eps : X -> X.
  Hypothesis sub : forall x, PF x -> PG x.
  Hypothesis le_refl : forall x, PG x -> le x x.
  Hypothesis le_trans : forall x y z, le x y -> le y z -> le x z.
  Hypothesis delta_P : forall x, PF x -> PG (delta x).
  Hypothesis eps_P : forall x, PG x -> PF (eps x).
  Hypothesis adj : forall f g, PF f -> PG g -> (le (delta f) g <-> le f (eps g)).

  Definition opening2 f := delta (eps f).
  Definition closing2 f := eps (delta f).

  Lemma closing2_extensive f : PF f -> le f (closing2 f).
  Proof. intros Pf. unfold closing2. apply adj; auto. Qed.

  Lemma opening2_antiextensive f : PG f -> le (opening2 f) f.
  Proof. intros Pf. unfold opening2. apply adj; auto. Qed.

  Lemma delta2_incr f g : PF f -> PF g -> le f g -> le (delta f) (delta g).
  Proof. intros Pf Pg H. apply adj; auto. eapply le_trans; [exact H|]. apply (closing2_extensive g Pg). Qed.

  Lemma eps2_incr f g : PG f -> PG g -> le f g -> le (eps f) (eps g).
  Proof. intros Pf Pg H. apply adj; auto. eapply le_trans; [|exact H]. apply (opening2_antiextensive f Pf). Qed.

  Lemma opening2_incr f g : PG f -> PG g -> le f g -> le (opening2 f) (opening2 g).
  Proof. intros. unfold opening2. apply delta2_incr; auto. apply eps2_incr; auto. Qed.

  Lemma closing2_incr f g : PF f -> PF g -> le f g -> le (closing2 f) (closing2 g).
  Proof. intros. unfold closing2. apply eps2_incr; auto. apply delta2_incr; auto. Qed.

  Lemma opening2_idem_le f : PG f -> le (opening2 (opening2 f)) (opening2 f) /\ le (opening2 f) (opening2 (opening2 f)).
  Proof.
    intros Pf. split.
    - apply opening2_antiextensive. unfold opening2. auto.
    - unfold opening2. apply delta2_incr; auto. apply (closing2_extensive (eps f)). auto.
  Qed.

  Lemma closing2_idem_le f : PF f -> le (closing2 (closing2 f)) (closing2 f) /\ le (closing2 f) (closing2 (closing2 f)).
  Proof.
    intros Pf. split.
    - unfold closing2. apply eps2_incr; auto. apply (opening2_antiextensive (delta f)). auto.
    - apply closing2_extensive. unfold closing2. auto.
  Qed.
End Galois2.
