(* Executable model of _morph.cpp cwatershed<T> -- with the neighbour table of flat deltas and the
   lower-bound margin that skips bounds checks -- and the textbook priority flood with explicit position checks.
   The two loops are the same function [ws_run] instantiated with two neighbour-resolution functions;
   Proof/WatershedProof.v shows they compute the same result.
   MarkerInfo::operator< (markerinfo_lt) is GENERATED from the C++ source. *)
Require Import MV.Base.Prelude MV.Base.CInt MV.Base.Index MV.Base.BorderSpec.
Require Import MV.Gen.Scalar_gen MV.Model.Filter.

Record qe := { q_cost : Z; q_idx : Z; q_pos : Z; q_margin : Z }.

(* std::priority_queue::top(): the greatest element under operator< *)
Definition qe_lt (a b : qe) : bool := markerinfo_lt (q_cost a) (q_idx a) (q_cost b) (q_idx b).
Definition q_top (q : list qe) : option qe :=
  match q with
  | [] => None
  | e :: r => Some (fold_left (fun best x => if qe_lt best x then x else best) r e)
  end.
Fixpoint q_remove (i : Z) (q : list qe) : list qe :=
  match q with
  | [] => []
  | e :: r => if q_idx e =? i then r else e :: q_remove i r
  end.

(* neighbour table: (flat delta, Chebyshev step, relative position), entries with delta = 0 skipped *)
Record nb := { nb_delta : Z; nb_step : Z; nb_dpos : list Z }.
Definition cheb (p : list Z) : Z := fold_left (fun m x => Z.max (Z.abs x) m) p 0.
Definition ws_neighbours (sh : list Z) (bc : arr) : list nb :=
  flat_map (fun k => if aget bc k =? 0 then []
                     else let np := psub k (centre (shape bc)) in
                          let delta := ravel sh np in
                          if delta =? 0 then [] else [{| nb_delta := delta; nb_step := cheb np; nb_dpos := np |}])
           (all_positions (shape bc)).

(* the definition's neighbour list: every member of the element except the centre itself *)
Definition ws_neighbours_all (sh : list Z) (bc : arr) : list nb :=
  flat_map (fun k => if aget bc k =? 0 then []
                     else let np := psub k (centre (shape bc)) in
                          if forallb (Z.eqb 0) np then [] else [{| nb_delta := ravel sh np; nb_step := cheb np; nb_dpos := np |}])
           (all_positions (shape bc)).

(* margin_of: distance to the nearest face (negative = outside) *)
Definition big : Z := 2 ^ 62.
Definition margin_of (sh pos : list Z) : Z :=
  fold_left (fun m dp => let '(d, p) := dp in
                         let m1 := if p <? m then p else m in
                         let r := d - p - 1 in if r <? m1 then r else m1)
            (combine sh pos) big.

(* how a neighbour is resolved: returns (Some (flat position, margin to store) | None = outside, updated lower bound) *)
Definition resolver := list Z -> Z -> Z -> nb -> option (Z * Z) * Z.

Definition resolve_margin : resolver := fun sh pos margin n =>
  let npos := pos + nb_delta n in
  let nmargin := margin - nb_step n in
  if nmargin <? 0 then
    let long_pos := padd (unravel sh pos) (nb_dpos n) in
    let nm := margin_of sh long_pos in
    if nm <? 0 then (None, margin)
    else (Some (npos, nm), if nm - nb_step n >? margin then nm - nb_step n else margin)
  else (Some (npos, nmargin), margin).

Definition resolve_checked : resolver := fun sh pos margin n =>
  let long_pos := padd (unravel sh pos) (nb_dpos n) in
  if in_shapeb sh long_pos then (Some (ravel sh long_pos, 0), margin) else (None, margin).

Record wstate := { w_res : list Z; w_lines : list Z; w_status : list Z; w_queue : list qe; w_idx : Z }.
Definition WHITE := 0. Definition GREY := 1. Definition BLACK := 2.

Definition ws_visit (surf : list Z) (want_lines : bool) (from : Z) (st : wstate) (tgt : Z * Z) : wstate :=
  let '(npos, nmargin) := tgt in
  let s := nthZ 0 (w_status st) npos in
  if s =? WHITE then
    {| w_res := updZ (w_res st) npos (nthZ 0 (w_res st) from);
       w_lines := w_lines st;
       w_status := updZ (w_status st) npos GREY;
       w_queue := {| q_cost := nthZ 0 surf npos; q_idx := w_idx st; q_pos := npos; q_margin := nmargin |} :: w_queue st;
       w_idx := w_idx st + 1 |}
  else if s =? GREY then
    if want_lines && negb (nthZ 0 (w_res st) from =? nthZ 0 (w_res st) npos)
    then {| w_res := w_res st; w_lines := updZ (w_lines st) npos 1; w_status := w_status st;
            w_queue := w_queue st; w_idx := w_idx st |}
    else st
  else st.

Definition ws_pop (R : resolver) (sh : list Z) (nbs : list nb) (surf : list Z) (want_lines : bool)
                  (next : qe) (st : wstate) : wstate :=
  let st1 := {| w_res := w_res st; w_lines := w_lines st; w_status := updZ (w_status st) (q_pos next) BLACK;
                w_queue := q_remove (q_idx next) (w_queue st); w_idx := w_idx st |} in
  fst (fold_left (fun sm n => let '(tgt, m') := R sh (q_pos next) (snd sm) n in
                              match tgt with
                              | Some t => (ws_visit surf want_lines (q_pos next) (fst sm) t, m')
                              | None => (fst sm, m')
                              end)
                 nbs (st1, q_margin next)).

Fixpoint ws_loop (R : resolver) (fuel : nat) (sh : list Z) (nbs : list nb) (surf : list Z) (want_lines : bool)
                 (st : wstate) : wstate :=
  match fuel with
  | O => st
  | S k => match q_top (w_queue st) with
           | None => st
           | Some next => ws_loop R k sh nbs surf want_lines (ws_pop R sh nbs surf want_lines next st)
           end
  end.

(* marker scan in C order: push (surface value, idx++, position, margin_of), res = marker, status grey *)
Definition ws_init (sh : list Z) (surf markers : list Z) (res0 lines0 : list Z) : wstate :=
  fold_left (fun st im => let '(i, m) := im in
                          if m =? 0 then st
                          else {| w_res := updZ (w_res st) i m; w_lines := w_lines st;
                                  w_status := updZ (w_status st) i GREY;
                                  w_queue := {| q_cost := nthZ 0 surf i; q_idx := w_idx st; q_pos := i;
                                                q_margin := margin_of sh (unravel sh i) |} :: w_queue st;
                                  w_idx := w_idx st + 1 |})
            (combine (Zseq 0 (length markers)) markers)
            {| w_res := res0; w_lines := lines0; w_status := repeat WHITE (length markers); w_queue := []; w_idx := 0 |}.

Definition ws_run (R : resolver) (NB : list Z -> arr -> list nb) (surf markers bc : arr) (want_lines : bool)
                  (res0 lines0 : list Z) : list Z * list Z :=
  let sh := shape surf in
  let st := ws_loop R (S (length (data surf))) sh (NB sh bc) (data surf) want_lines
                    (ws_init sh (data surf) (data markers) res0 lines0) in
  (w_res st, w_lines st).

(* the code: outputs zero-filled, margin shortcut *)
Definition cwatershed (surf markers bc : arr) (want_lines : bool) : list Z * list Z :=
  let z := repeat 0 (length (data surf)) in ws_run resolve_margin ws_neighbours surf markers bc want_lines z z.
(* the definition: explicit position checks *)
Definition flood_spec (surf markers bc : arr) (want_lines : bool) : list Z * list Z :=
  let z := repeat 0 (length (data surf)) in ws_run resolve_checked ws_neighbours_all surf markers bc want_lines z z.
