(* Executable models for C15: thin (thin.py + _thin.cpp; elements GENERATED), euler (euler.py; tables GENERATED),
   convex hull (_convex.cpp in-place Graham scan as two monotone chains). *)
Require Import MV.Base.Prelude MV.Base.CInt MV.Base.Index MV.Base.BorderSpec.
Require Import MV.Gen.Scalar_gen MV.Gen.Tables_gen MV.Model.Filter MV.Model.Morph MV.Model.Convolve MV.Model.Labeled.

(* ---------- thin ---------- *)
Definition fgb (img : arr) (p : list Z) : bool := negb (aget img p =? 0).

(* match(): centre set and every listed neighbour has the required value *)
Definition tmatch (img : arr) (elem : list (Z * Z * bool)) (p : list Z) : bool :=
  fgb img p && forallb (fun e => let '(dy, dx, v) := e in Bool.eqb v (fgb img (padd p [dy; dx]))) elem.

(* one hit-or-miss pass followed by the deletion loop *)
Definition thin_pass (img : arr) (elem : list (Z * Z * bool)) : arr :=
  {| shape := shape img;
     data := map (fun p => if tmatch img elem p then 0 else aget img p) (all_positions (shape img)) |}.
Definition thin_round (img : arr) : arr := fold_left thin_pass thin_elems img.

Fixpoint thin_loop (fuel : nat) (img : arr) : arr :=
  match fuel with
  | O => img
  | S k => let img' := thin_round img in
           if list_eqb (data img') (data img) then img' else thin_loop k img'
  end.

(* thin.py: crop to the bounding box, add a one-pixel zero frame, thin, paste back *)
Definition thin (f : arr) : list Z :=
  let bb := bbox_generic f in
  let min0 := nthZ 0 bb 0 in let max0 := nthZ 0 bb 1 in let min1 := nthZ 0 bb 2 in let max1 := nthZ 0 bb 3 in
  let r := max0 - min0 in let c := max1 - min1 in
  let esh := [r + 2; c + 2] in
  let exp := {| shape := esh;
                data := map (fun p => let y := nthZ 0 p 0 in let x := nthZ 0 p 1 in
                                      if (1 <=? y) && (y <=? r) && (1 <=? x) && (x <=? c)
                                      then (if aget f [min0 + y - 1; min1 + x - 1] =? 0 then 0 else 1) else 0)
                            (all_positions esh) |} in
  let res := thin_loop (S (length (data exp))) exp in
  map (fun p => let y := nthZ 0 p 0 in let x := nthZ 0 p 1 in
                if (min0 <=? y) && (y <? max0) && (min1 <=? x) && (x <? max1)
                then aget res [y - min0 + 1; x - min1 + 1] else 0)
      (all_positions (shape f)).

(* ---------- euler ---------- *)
(* the image extended by one row/column of zeros at the bottom/right, so that every 2x2 window meeting the image
   is the window ending at some pixel of the extended image *)
Definition pad_br (f : arr) : arr :=
  let H := nthZ 0 (shape f) 0 in let W := nthZ 0 (shape f) 1 in
  {| shape := [H + 1; W + 1];
     data := map (fun p => if (nthZ 0 p 0 <? H) && (nthZ 0 p 1 <? W) then (if aget f p =? 0 then 0 else 1) else 0)
                 (all_positions [H + 1; W + 1]) |}.
Definition euler_x4 (n8 : bool) (f : arr) : Z :=
  let g := pad_br f in
  let pw := {| shape := [2; 2]; data := concat euler_powers |} in
  let codes := convolve_generic M_constant g pw in
  sumZ (map (fun c => nthZ 0 (if n8 then euler_lookup8_x4 else euler_lookup4_x4) c) codes).

(* local contributions of one 2x2 window (code = tl + 2 tr + 4 bl + 8 br) to V - E + F, times 4 *)
Definition bit (c k : Z) : Z := (c / 2 ^ k) mod 2.
Definition orz (a b : Z) : Z := if (a =? 0) && (b =? 0) then 0 else 1.
Definition andz (a b : Z) : Z := if (a =? 0) || (b =? 0) then 0 else 1.
Definition quad_closed_x4 (c : Z) : Z :=      (* closed pixels: 8-connectivity *)
  let tl := bit c 0 in let tr := bit c 1 in let bl := bit c 2 in let br := bit c 3 in
  4 * (if c =? 0 then 0 else 1) - 2 * (orz tl tr + orz bl br + orz tl bl + orz tr br) + (tl + tr + bl + br).
Definition quad_open_x4 (c : Z) : Z :=        (* open pixels: 4-connectivity *)
  let tl := bit c 0 in let tr := bit c 1 in let bl := bit c 2 in let br := bit c 3 in
  4 * (andz (andz tl tr) (andz bl br)) - 2 * (andz tl tr + andz bl br + andz tl bl + andz tr br) + (tl + tr + bl + br).

(* ---------- convex hull: sort, monotone chain, twice ---------- *)
Definition pt := (Z * Z)%type.                 (* (y, x) *)
Definition forward_lt (a b : pt) : bool := if fst a =? fst b then snd a <? snd b else fst a <? fst b.
Definition reverse_lt (a b : pt) : bool := if fst a =? fst b then snd a >? snd b else fst a >? fst b.
Definition is_left (p0 p1 p2 : pt) : Z :=
  (fst p1 - fst p0) * (snd p2 - snd p0) - (fst p2 - fst p0) * (snd p1 - snd p0).

Fixpoint pinsert (lt : pt -> pt -> bool) (x : pt) (l : list pt) : list pt :=
  match l with [] => [x] | y :: t => if lt y x then y :: pinsert lt x t else x :: l end.
Definition psort (lt : pt -> pt -> bool) (l : list pt) : list pt := fold_right (pinsert lt) [] l.

(* the stack (top first) and the discarded points *)
Fixpoint chain_pop (stack : list pt) (p : pt) (disc : list pt) : list pt * list pt :=
  match stack with
  | a :: rest =>
      match rest with
      | b :: _ => if is_left b a p >=? 0 then chain_pop rest p (a :: disc) else (stack, disc)
      | [] => (stack, disc)
      end
  | [] => ([], disc)
  end.
Definition chain_step (sd : list pt * list pt) (p : pt) : list pt * list pt :=
  let '(st, disc) := chain_pop (fst sd) p (snd sd) in (p :: st, disc).
(* inPlaceScan: returns (hull bottom-first, discarded) *)
Definition scan (lt : pt -> pt -> bool) (pts : list pt) : list pt * list pt :=
  match psort lt pts with
  | [] => ([], [])
  | p0 :: rest => let '(st, disc) := fold_left chain_step rest ([p0], []) in (rev st, disc)
  end.

Definition graham (pts : list pt) : list pt :=
  if (length pts <=? 3)%nat then pts else
  let '(h1, disc) := scan forward_lt pts in
  match h1 with
  | [] => []
  | p0 :: t => (* rotate left by one; second scan over [last of h1; p0] ++ discarded *)
      let lastp := last h1 p0 in
      let '(h2, _) := scan reverse_lt (lastp :: p0 :: disc) in
      removelast t ++ h2
  end.

Definition fg_points (f : arr) : list pt :=
  map (fun p => (nthZ 0 p 0, nthZ 0 p 1)) (filter (fgb f) (all_positions (shape f))).
Definition convexhull (f : arr) : list pt := graham (fg_points f).

(* ---------- simple points in a 3x3 neighbourhood (ring index 0..7 clockwise from the top-left corner) ---------- *)
Definition ring_offsets : list (Z * Z) := [(-1,-1); (-1,0); (-1,1); (0,1); (1,1); (1,0); (1,-1); (0,-1)].
Definition ring_bits (code : Z) : list Z := map (fun k => (code / 2 ^ k) mod 2) (Zseq 0 8).
Definition qf8 (cls : list Z) (i j : Z) : list Z :=
  let ci := nthZ 0 cls i in let cj := nthZ 0 cls j in map (fun c => if c =? ci then cj else c) cls.
Definition count_distinct (l : list Z) : Z := Zlen (nodup Z.eq_dec l).
(* number of 8-connected components of the foreground ring pixels *)
Definition ring_fg_components (bits : list Z) : Z :=
  let on k := negb (nthZ 0 bits k =? 0) in
  let edges := [(0,1);(1,2);(2,3);(3,4);(4,5);(5,6);(6,7);(7,0);(1,3);(3,5);(5,7);(7,1)] in
  let cls := fold_left (fun c e => if on (fst e) && on (snd e) then qf8 c (fst e) (snd e) else c) edges (Zseq 0 8) in
  count_distinct (map (fun k => nthZ 0 cls k) (filter on (Zseq 0 8))).
(* number of 4-connected components of the background ring pixels that are 4-adjacent to the centre *)
Definition ring_bg_components_adjacent (bits : list Z) : Z :=
  let off k := nthZ 0 bits k =? 0 in
  let edges := [(0,1);(1,2);(2,3);(3,4);(4,5);(5,6);(6,7);(7,0)] in
  let cls := fold_left (fun c e => if off (fst e) && off (snd e) then qf8 c (fst e) (snd e) else c) edges (Zseq 0 8) in
  count_distinct (map (fun k => nthZ 0 cls k) (filter off [1; 3; 5; 7])).
Definition simple_point (bits : list Z) : bool :=
  (ring_fg_components bits =? 1) && (ring_bg_components_adjacent bits =? 1).
(* does the element match a set centre with this ring? *)
Definition elem_matches_ring (elem : list (Z * Z * bool)) (bits : list Z) : bool :=
  forallb (fun e => let '(dy, dx, v) := e in
     existsb (fun ko => let '(k, o) := ko in (fst o =? dy) && (snd o =? dx) && Bool.eqb v (negb (nthZ 0 bits k =? 0)))
             (combine (Zseq 0 8) ring_offsets)) elem.
