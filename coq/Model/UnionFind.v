(* Executable model of the union-find structure of _labeled.cpp as it is written there: a parent array, recursive find with
   full path compression, join = "root of i now points to root of j", a final compression pass, then the first-appearance
   numbering.  Background entries are -1 and are never visited.  Model/Label.v abstracts this structure by class merging
   (quick-find); Proof/UnionFindProof.v shows that the two produce the same labels. *)
Require Import MV.Base.Prelude MV.Base.CInt MV.Base.Index MV.Base.BorderSpec MV.Base.Renumber.
Require Import MV.Gen.Scalar_gen MV.Model.Filter MV.Model.Label.

(* find(data, i): walk to the root, then point every node of the walked path at it.  Written recursively here
   ({ if (data[i] == i) return i; int j = find(data, data[i]); data[i] = j; return j; }), as the C++ was until the repair 635be0d
   made it two loops (the recursion overflowed the C stack on chains of a million pixels): same root returned, same parent
   array afterwards. *)
Fixpoint uf_find (fuel : nat) (p : list Z) (i : Z) : list Z * Z :=
  match fuel with
  | O => (p, i)
  | S k => let pi := nthZ 0 p i in
           if pi =? i then (p, i)
           else let r := uf_find k p pi in (updZ (fst r) i (snd r), snd r)
  end.

(* void join(data, i, j) { i = find(data, i); j = find(data, j); data[i] = j; } *)
Definition uf_join (fuel : nat) (p : list Z) (i j : Z) : list Z :=
  let a := uf_find fuel p i in
  let b := uf_find fuel (fst a) j in
  updZ (fst b) (snd a) (snd b).

Definition uf_classes (f bc : arr) : list Z :=
  let N := length (data f) in
  let joined := fold_left (fun p ij => uf_join N p (fst ij) (snd ij)) (label_pairs f bc) (init_classes f) in
  (* for (i) if (data[i] != -1) compress(data, i); *)
  fold_left (fun p i => if nthZ 0 p i =? -1 then p else fst (uf_find N p i)) (Zseq 0 N) joined.

Definition uf_label (f bc : arr) : list Z * Z := renumber (-1) (uf_classes f bc).
