(* Executable model of _convolve.cpp convolve<T> (generic N-D) and of the convolve1d fast path,
   over exact integers (the correspondence check runs the implementation in the regime where
   every double operation is exact). *)
Require Import MV.Base.Prelude MV.Base.CInt MV.Base.Index MV.Base.BorderSpec MV.Gen.Scalar_gen MV.Model.Filter.

(* convolve<T>: filter_iterator(array, filter, mode, compress=true);
   cur += val * fiter[j] whenever retrieve succeeds *)
Definition conv_at (mode : Z) (f w : arr) (p : list Z) : Z :=
  fold_left (fun acc e => match retrieve mode f p (fst e) with
                          | Some v => acc + v * snd e
                          | None => acc
                          end) (entries true w) 0.

Definition convolve_generic (mode : Z) (f w : arr) : list Z :=
  map (conv_at mode f w) (all_positions (shape f)).

(* ---------- specification: the defining sum with the mathematical border rule ---------- *)
Definition sample (mode : Z) (f : arr) (q : list Z) : Z :=
  match border_pos mode (shape f) q with Some r => aget f r | None => 0 end.

Definition conv_spec (mode : Z) (f w : arr) (p : list Z) : Z :=
  sumZ (map (fun k => aget w k * sample mode f (padd p (psub k (centre (shape w)))))
            (all_positions (shape w))).

Definition conv_spec_all mode f w := map (conv_spec mode f w) (all_positions (shape f)).

(* ---------- convolve1d<T> fast path on one row (native loops as written) ---------- *)
(* interior loop: for x = centre .. N1-centre-1:  out[x] = sum_j row[x+j-centre]*w[j] *)
Definition dot_interior (row w : list Z) (centre x : Z) : Z :=
  sumZ (map (fun j => nthZ 0 row (x + j - centre) * nthZ 0 w j) (Zseq 0 (length w))).
(* border loop: offsets[j] = fix_offset(mode, x+(j-centre), N1); flagged samples count as 0 *)
Definition dot_border (mode : Z) (row w : list Z) (centre x : Z) : Z :=
  let N1 := Zlen row in
  sumZ (map (fun j => let o := fix_offset mode (x + (j - centre)) N1 in
                      (if o =? border_flag_value then 0 else nthZ 0 row o) * nthZ 0 w j)
            (Zseq 0 (length w))).

Definition row_fast (mode : Z) (row w garbage : list Z) : list Z :=
  let N1 := Zlen row in
  let Nf := Zlen w in
  let centre := Z.quot Nf 2 in
  (* the guard `if (centre >= N1) break;` *)
  let out1 := if centre >=? N1 then garbage
              else fold_left (fun o x => updZ o x (dot_interior row w centre x))
                             (Zseq centre (Z.to_nat (N1 - centre - centre))) garbage in
  fold_left (fun o x_ => let x := if x_ <? centre then x_ else (N1 - 1) - (x_ - centre) in
                         updZ o x (dot_border mode row w centre x))
            (Zseq 0 (Z.to_nat (Z.min (2 * centre) N1))) out1.

(* 1-D defining sum for one row, through the generic spec *)
Definition row_spec (mode : Z) (row w : list Z) : list Z :=
  conv_spec_all mode {| shape := [Zlen row]; data := row |} {| shape := [Zlen w]; data := w |}.
