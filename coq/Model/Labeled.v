(* Executable models of _labeled.cpp (folds, relabel, is_same_labeling, remove_regions, borders, border),
   _bbox.cpp (bbox generic / C-contiguous 2-D skip-ahead / labeled), _histogram.cpp fullhistogram and
   _center_of_mass.cpp, with their specifications. *)
Require Import MV.Base.Prelude MV.Base.CInt MV.Base.Index MV.Base.BorderSpec MV.Base.Renumber.
Require Import MV.Gen.Scalar_gen MV.Model.Filter.

(* ---------- labeled_foldl<T,F>: std::fill(result, start); result[l] = f(a, result[l]) for 0 <= l < maxlabel ---------- *)
Definition fstep (f : Z -> Z -> Z) (maxlabel : Z) (res : list Z) (al : Z * Z) : list Z :=
  let l := snd al in if (0 <=? l) && (l <? maxlabel) then updZ res l (f (fst al) (nthZ 0 res l)) else res.
Definition foldl_labeled (f : Z -> Z -> Z) (start maxlabel : Z) (arr lab : list Z) : list Z :=
  fold_left (fstep f maxlabel) (combine arr lab) (repeat start (Z.to_nat maxlabel)).

(* std::plus<T> in T (wrap-around); std_like_max(a,b) = (a<b)?b:a ; std_like_min(a,b) = !(b<a)?a:b *)
Definition f_sum (t : option ity) (a r : Z) : Z := match t with Some ty => wrap ty (a + r) | None => a + r end.
Definition f_max (a r : Z) : Z := if a <? r then r else a.
Definition f_min (a r : Z) : Z := if negb (r <? a) then a else r.

Definition labeled_sum t maxlabel arr lab := foldl_labeled (f_sum t) 0 maxlabel arr lab.
Definition labeled_max start maxlabel arr lab := foldl_labeled f_max start maxlabel arr lab.
Definition labeled_min start maxlabel arr lab := foldl_labeled f_min start maxlabel arr lab.

(* values carrying label k, in scan order *)
Definition region (k : Z) (arr lab : list Z) : list Z :=
  map fst (filter (fun al => snd al =? k) (combine arr lab)).

(* ---------- relabel ---------- *)
Definition relabel (l : list Z) : list Z * Z := renumber 0 l.

(* ---------- is_same_labeling: two std::maps, insert-if-absent ---------- *)
Fixpoint same_go (index rindex : list (Z * Z)) (a b : list Z) : bool :=
  match a, b with
  | x :: a', y :: b' =>
      let index' := match assoc x index with Some _ => index | None => (x, y) :: index end in
      let rindex' := match assoc y rindex with Some _ => rindex | None => (y, x) :: rindex end in
      if (get x index' =? y) && (get y rindex' =? x) then same_go index' rindex' a' b' else false
  | _, _ => true
  end.
Definition is_same_labeling (a b : list Z) : bool := same_go [(0, 0)] [(0, 0)] a b.

(* specification: the maps are related by a bijection fixing 0 -- in relational form *)
Definition same_labeling_spec (a b : list Z) : bool :=
  forallb (fun pq => let '(x, y) := fst pq in let '(x', y') := snd pq in
                     Bool.eqb (x =? x') (y =? y') && Bool.eqb (x =? 0) (y =? 0))
          (list_prod (combine a b) (combine a b)).

(* ---------- remove_regions: regions sorted & unique (np.unique); std::binary_search = membership ---------- *)
Definition remove_regions (lab regions : list Z) : list Z :=
  map (fun v => if negb (v =? 0) && existsb (Z.eqb v) regions then 0 else v) lab.

(* ---------- borders<T> / border<T> (output pre-filled with False by the Python wrapper) ---------- *)
Definition borders_at (mode : Z) (f bc : arr) (p : list Z) : bool :=
  existsb (fun e => match retrieve mode f p (fst e) with Some v => negb (v =? aget f p) | None => false end)
          (entries true bc).
Definition borders (mode : Z) (f bc : arr) : list Z :=
  map (fun p => if borders_at mode f bc p then 1 else 0) (all_positions (shape f)).

Definition border_at (f bc : arr) (i j : Z) (p : list Z) : bool :=
  let cur := aget f p in
  let other := if cur =? i then Some j else if cur =? j then Some i else None in
  match other with
  | None => false
  | Some o => existsb (fun e => match retrieve ExtendConstant f p (fst e) with Some v => v =? o | None => false end)
                      (entries true bc)
  end.
Definition border (f bc : arr) (i j : Z) : list Z :=
  map (fun p => if border_at f bc i j p then 1 else 0) (all_positions (shape f)).

(* specification: some neighbour (offset in the neighbourhood, mapped by the border rule, dropped when outside
   in constant/ignore mode) carries a different label *)
Definition borders_spec (mode : Z) (f bc : arr) (p : list Z) : bool :=
  existsb (fun k => negb (aget bc k =? 0) &&
                    match border_pos mode (shape f) (padd p (psub k (centre (shape bc)))) with
                    | Some q => negb (aget f q =? aget f p)
                    | None => false
                    end) (all_positions (shape bc)).

(* ---------- bbox ---------- *)
(* extrema initialised to [dim_0, 0, dim_1, 0, ...]; generic N-D scan *)
Fixpoint upd_ext (ext pos : list Z) : list Z :=
  match ext, pos with
  | lo :: hi :: r, p :: q => Z.min lo p :: Z.max hi (p + 1) :: upd_ext r q
  | _, _ => ext
  end.
Definition ext_init (sh : list Z) : list Z := flat_map (fun d => [d; 0]) sh.
Definition bbox_scan (f : arr) : list Z :=
  fold_left (fun ext p => if aget f p =? 0 then ext else upd_ext ext p) (all_positions (shape f)) (ext_init (shape f)).
(* py_bbox: if extrema[1] == 0 then all zeros *)
Definition bbox_generic (f : arr) : list Z :=
  let e := bbox_scan f in if nthZ 0 e 1 =? 0 then map (fun _ => 0) e else e.

(* carray2_bbox: the skip-ahead loop, on fuel *)
Fixpoint bbox2_row (fuel : nat) (row : list Z) (y x N1 : Z) (e : list Z) : list Z :=
  match fuel with
  | O => e
  | S k =>
      if x <? N1 then
        if nthZ 0 row x =? 0 then bbox2_row k row y (x + 1) N1 e
        else
          let e1 := [Z.min (nthZ 0 e 0) y; Z.max (nthZ 0 e 1) (y + 1); Z.min (nthZ 0 e 2) x; nthZ 0 e 3] in
          if x + 1 <? nthZ 0 e 3 then bbox2_row k row y (x + (nthZ 0 e 3 - x - 1) + 1) N1 e1
          else bbox2_row k row y (x + 1) N1 [nthZ 0 e1 0; nthZ 0 e1 1; nthZ 0 e1 2; x + 1]
      else e
  end.
Fixpoint rows_of (n : nat) (w : nat) (l : list Z) : list (list Z) :=
  match n with O => [] | S k => firstn w l :: rows_of k w (skipn w l) end.
Definition bbox_fast2 (f : arr) : list Z :=
  let N0 := nthZ 0 (shape f) 0 in let N1 := nthZ 0 (shape f) 1 in
  let e := snd (fold_left (fun ye row => (fst ye + 1, bbox2_row (S (Z.to_nat N1)) row (fst ye) 0 N1 (snd ye)))
                          (rows_of (Z.to_nat N0) (Z.to_nat N1) (data f)) (0, [N0; 0; N1; 0])) in
  if nthZ 0 e 1 =? 0 then [0; 0; 0; 0] else e.

(* specification: tight box of the non-zero positions; all zeros when there are none *)
Definition nz_positions (f : arr) : list (list Z) := filter (fun p => negb (aget f p =? 0)) (all_positions (shape f)).
Definition bbox_spec (f : arr) : list Z :=
  match nz_positions f with
  | [] => flat_map (fun _ => [0; 0]) (shape f)
  | ps => flat_map (fun j => [minl (nthZ 0 (shape f) j) (map (fun p => nthZ 0 p j) ps);
                              maxl 0 (map (fun p => nthZ 0 p j + 1) ps)])
                   (Zseq 0 (length (shape f)))
  end.

(* labeled bbox: per label, initial (dim, 0) pairs; after the scan labels without pixels are reset to 0 in Python/C *)
Definition bbox_labeled_spec (f : arr) (n : Z) : list (list Z) :=
  map (fun l => bbox_spec {| shape := shape f; data := map (fun v => if v =? l then 1 else 0) (data f) |})
      (Zseq 0 (Z.to_nat (n + 1))).

(* ---------- fullhistogram ---------- *)
(* for each pixel: ++hist[value]  (hist sized max+1, zero-filled) -- an instance of the per-label fold *)
Definition fullhistogram (l : list Z) : list Z := foldl_labeled (fun _ r => r + 1) 0 (maxl 0 l + 1) l l.
Definition count_eq (v : Z) (l : list Z) : Z := Zlen (filter (Z.eqb v) l).

(* ---------- center_of_mass: per label (total weight, weighted coordinate sums) as exact integers ---------- *)
Definition com_sums (f : arr) (lab : list Z) (l : Z) : Z * list Z :=
  fold_left (fun acc ip => let '(i, p) := ip in
                           if nthZ 0 lab i =? l then (fst acc + aget f p, map (fun sc => fst sc + aget f p * snd sc) (combine (snd acc) p))
                           else acc)
            (combine (Zseq 0 (Z.to_nat (size (shape f)))) (all_positions (shape f)))
            (0, map (fun _ => 0) (shape f)).

(* ---------- labeled bbox (_bbox.cpp bbox_labeled + the reset loop of py_bbox_labeled) ----------
   one row of extrema per label 0..n, all initialised to (dim, 0) pairs; every pixel updates the row of its label (negative
   values are skipped: "not a label"); afterwards rows whose extrema[1] is still 0 are set to zeros *)
Definition lbb_update (rows : list (list Z)) (l : Z) (p : list Z) : list (list Z) :=
  if l <? 0 then rows else updZ rows l (upd_ext (nthZ [] rows l) p).
Definition lbb_scan (f : arr) (n : Z) : list (list Z) :=
  fold_left (fun rows p => lbb_update rows (aget f p) p) (all_positions (shape f))
            (repeat (ext_init (shape f)) (Z.to_nat (n + 1))).
Definition bbox_labeled (f : arr) (n : Z) : list (list Z) :=
  map (fun e => if nthZ 0 e 1 =? 0 then map (fun _ => 0) e else e) (lbb_scan f n).
