(* Executable models of _convolve.cpp rank_filter / mean_filter / template_match / find2d
   and of the Python glue median_filter (rank = Bc.sum()//2), with their specifications. *)
Require Import MV.Base.Prelude MV.Base.CInt MV.Base.Index MV.Base.BorderSpec MV.Gen.Scalar_gen MV.Model.Filter.

(* ---------- gathering the samples of one pixel ----------
   for j in 0..N2: if retrieve -> sample; else if mode == ExtendConstant -> cval; else dropped *)
Definition gather (mode : Z) (f bc : arr) (cval : Z) (p : list Z) : list Z :=
  flat_map (fun e => match retrieve mode f p (fst e) with
                     | Some v => [v]
                     | None => if mode =? ExtendConstant then [cval] else []
                     end) (entries true bc).

(* std::nth_element is modelled by its specification: the element at position k of the sorted range *)
Fixpoint insert (x : Z) (l : list Z) : list Z :=
  match l with
  | [] => [x]
  | y :: t => if x <=? y then x :: l else y :: insert x t
  end.
Fixpoint isort (l : list Z) : list Z :=
  match l with [] => [] | x :: t => insert x (isort t) end.

(* rank_filter<T>: None = the output cell is left unwritten (rank out of range) *)
Definition rank_at (mode : Z) (f bc : arr) (rank : Z) (p : list Z) : option Z :=
  let N2 := Zlen (entries true bc) in
  if (rank <? 0) || (rank >=? N2) then None
  else
    let s := gather mode f bc 0 p in
    let n := Zlen s in
    let currank := if n =? N2 then rank else Z.quot (n * rank) N2 in
    Some (nthZ 0 (isort s) currank).

Definition rank_filter (mode : Z) (f bc : arr) (rank : Z) (garbage : list Z) : list Z :=
  map (fun ip => match rank_at mode f bc rank (snd ip) with Some v => v | None => nthZ 0 garbage (fst ip) end)
      (combine (Zseq 0 (Z.to_nat (size (shape f)))) (all_positions (shape f))).

(* median_filter: rank = (number of non-zero entries of Bc) // 2 -- the middle of the selected samples, whatever non-zero
   values mark the members *)
Definition median_rank (bc : arr) : Z := Zlen (filter (fun v => negb (v =? 0)) (data bc)) / 2.

(* mean_filter<T>: (sum, n) -- the implementation returns the double sum/n *)
Definition mean_at (mode : Z) (f bc : arr) (p : list Z) : Z * Z :=
  fold_left (fun sn e => match retrieve mode f p (fst e) with
                         | Some v => (fst sn + v, snd sn)
                         | None => if mode =? ExtendConstant then (fst sn + 0, snd sn) else (fst sn, snd sn - 1)
                         end) (entries true bc) (0, Zlen (entries true bc)).
Definition mean_filter (mode : Z) (f bc : arr) : list (Z * Z) := map (mean_at mode f bc) (all_positions (shape f)).

(* template_match<T> (just_equality = 0): compress = false; arithmetic in T *)
Definition wrapd (d : dt) (x : Z) : Z := match d with DBool => (if x =? 0 then 0 else 1) | DInt t => wrap t x end.
(* the sample of one template entry: retrieve; failing that the padding constant in constant mode (cval = 0, the only value
   the wrapper lets through), nothing in ignore mode *)
Definition tm_sample (mode : Z) (f : arr) (p off : list Z) : option Z :=
  match retrieve mode f p off with
  | Some v => Some v
  | None => if mode =? ExtendConstant then Some 0 else None
  end.
Definition tm_at (d : dt) (mode : Z) (f t : arr) (p : list Z) : Z :=
  fold_left (fun diff2 e => match tm_sample mode f p (fst e) with
                            | Some v => let tj := snd e in
                                        let delta := wrapd d (if v >? tj then v - tj else tj - v) in
                                        wrapd d (diff2 + delta * delta)
                            | None => diff2
                            end) (entries false t) 0.
Definition template_match (d : dt) (mode : Z) (f t : arr) : list Z := map (tm_at d mode f t) (all_positions (shape f)).

(* find2d<T>: out filled with false; for y, x with the whole template inside: all entries equal *)
Definition window_eq (f t : arr) (y x : Z) : bool :=
  forallb (fun k => aget f (padd [y; x] k) =? aget t k) (all_positions (shape t)).
Definition find2d (f t : arr) : list Z :=
  let N0 := nthZ 0 (shape f) 0 in let N1 := nthZ 0 (shape f) 1 in
  let T0 := nthZ 0 (shape t) 0 in let T1 := nthZ 0 (shape t) 1 in
  map (fun p => let y := nthZ 0 p 0 in let x := nthZ 0 p 1 in
                if (y <=? N0 - T0) && (x <=? N1 - T1) && window_eq f t y x then 1 else 0)
      (all_positions (shape f)).

(* ---------- specifications ---------- *)
(* the samples selected by the neighbourhood under the border rule (mathematical border map) *)
Definition samples_spec (mode : Z) (f bc : arr) (p : list Z) : list Z :=
  flat_map (fun k => if aget bc k =? 0 then []
                     else match border_pos mode (shape f) (padd p (psub k (centre (shape bc)))) with
                          | Some q => [aget f q]
                          | None => if mode =? M_constant then [0] else []
                          end) (all_positions (shape bc)).

Definition count_lt (x : Z) (l : list Z) : Z := Zlen (filter (fun y => y <? x) l).
Definition count_le (x : Z) (l : list Z) : Z := Zlen (filter (fun y => y <=? x) l).
(* v is the r-th smallest (0-based) value of l *)
Definition is_rth_smallest (l : list Z) (r v : Z) : Prop := In v l /\ count_lt v l <= r < count_le v l.

(* the window sample at template offset off: the border-mapped pixel; the padding constant (cval = 0, the only value the
   wrapper accepts) in constant mode; no sample in ignore mode *)
Definition window_sample (mode : Z) (f : arr) (p off : list Z) : option Z :=
  match border_pos mode (shape f) (padd p off) with
  | Some q => Some (aget f q)
  | None => if mode =? M_constant then Some 0 else None
  end.
(* sum of squared differences between the template and the window centred at p *)
Definition ssd_spec (mode : Z) (f t : arr) (p : list Z) : Z :=
  sumZ (map (fun k => match window_sample mode f p (psub k (centre (shape t))) with
                      | Some v => (v - aget t k) * (v - aget t k)
                      | None => 0
                      end) (all_positions (shape t))).

(* the template occurs with its top-left corner at (y,x) *)
Definition occurs_at (f t : arr) (y x : Z) : Prop :=
  y + nthZ 0 (shape t) 0 <= nthZ 0 (shape f) 0 /\ x + nthZ 0 (shape t) 1 <= nthZ 0 (shape f) 1 /\
  forall k, in_shape (shape t) k -> aget f (padd [y; x] k) = aget t k.
