(* Model of numpypp/array.hpp: the stride-aware iterator (steps_ / operator++), flat element access at_flat, and the
   flat <-> positional index maps.  Strides are in elements; the iterator keeps positions REVERSED (last axis first). *)
Require Import MV.Base.Prelude MV.Base.Index.

(* steps_[i] = stride_rev[i] - cummul; cummul = cummul*dim + steps*dim *)
Fixpoint steps_go (cummul : Z) (dims strides : list Z) : list Z :=
  match dims, strides with
  | d :: dims', s :: strides' => let st := s - cummul in st :: steps_go (cummul * d + st * d) dims' strides'
  | _, _ => []
  end.
Definition steps (dims_rev strides_rev : list Z) : list Z := steps_go 0 dims_rev strides_rev.

(* operator++ : (data offset, reversed position) *)
Fixpoint iter_next (off : Z) (pos dims stp : list Z) : Z * list Z :=
  match pos, dims, stp with
  | p :: pos', d :: dims', s :: stp' =>
      if p + 1 =? d then let r := iter_next (off + s) pos' dims' stp' in (fst r, 0 :: snd r)
      else (off + s, (p + 1) :: pos')
  | _, _, _ => (off, pos)
  end.

Definition dot (a b : list Z) : Z := sumZ (map (fun xy => fst xy * snd xy) (combine a b)).

(* little-endian mixed-radix value of a reversed position = its C-order index *)
Fixpoint value_rev (pos dims : list Z) : Z :=
  match pos, dims with p :: pos', d :: dims' => p + d * value_rev pos' dims' | _, _ => 0 end.

(* at_flat (non-contiguous branch): for d = nd-1 .. 0: c = p % dim(d); p /= dim(d); base += c * stride(d) *)
Fixpoint at_flat_rev (p : Z) (dims_rev strides_rev : list Z) : Z :=
  match dims_rev, strides_rev with
  | d :: dims', s :: strides' => (p mod d) * s + at_flat_rev (p / d) dims' strides'
  | _, _ => 0
  end.
Definition at_flat (p : Z) (sh strides : list Z) : Z := at_flat_rev p (rev sh) (rev strides).
