(* Executable models of _convolve.cpp haar / ihaar (exact over Z for integer images; the energy-preserving /2 and *2 are
   applied by convolve.py afterwards), wavelet / iwavelet (over Q, coefficient tables GENERATED), and of
   convolve.py wavelet_center / wavelet_decenter. *)
Require Import QArith.
Require Import MV.Base.Prelude MV.Gen.Tables_gen.
Open Scope Z_scope.

(* ---------- Haar rows ---------- *)
Fixpoint pairs (l : list Z) : list (Z * Z) :=
  match l with a :: b :: t => (a, b) :: pairs t | _ => [] end.
(* low[x] = d[2x] + d[2x+1]; high[x] = d[2x+1] - d[2x]; row = low ++ high *)
Definition haar_row (l : list Z) : list Z :=
  map (fun ab => fst ab + snd ab) (pairs l) ++ map (fun ab => snd ab - fst ab) (pairs l).
(* buffer[2x] = (l-h)/2; buffer[2x+1] = (l+h)/2 *)
Definition ihaar_row (l : list Z) : list Z :=
  let n := (length l / 2)%nat in
  flat_map (fun lh => [(fst lh - snd lh) / 2; (fst lh + snd lh) / 2]) (combine (firstn n l) (skipn n l)).

Fixpoint transpose (w : nat) (rows : list (list Z)) : list (list Z) :=     (* w = row length *)
  match w with
  | O => []
  | S k => map (fun r => hd 0 r) rows :: transpose k (map (@tl Z) rows)
  end.
Definition haar2d (w h : nat) (rows : list (list Z)) : list (list Z) :=    (* haar(f); haar(f.T) *)
  transpose h (map haar_row (transpose w (map haar_row rows))).
Definition ihaar2d (w h : nat) (rows : list (list Z)) : list (list Z) :=   (* ihaar(f); ihaar(f.T) *)
  transpose h (map ihaar_row (transpose w (map ihaar_row rows))).
Definition sumsq (l : list Z) : Z := sumZ (map (fun x => x * x) l).

(* ---------- general wavelet rows over Q ---------- *)
Definition qacc (l : list Q) (p : Z) : Q := if (p <? 0) || (p >=? Zlen l) then 0%Q else nthZ 0%Q l p.
Definition qsum (l : list Q) : Q := fold_right Qplus 0%Q l.
Definition wavelet_row (c : list Q) (l : list Q) : list Q :=
  let nc := Zlen c in
  let half := Z.to_nat (Zlen l / 2) in
  map (fun x => qsum (map (fun ci => (nthZ 0%Q c (nc - ci - 1) * qacc l (2 * x + ci))%Q) (Zseq 0 (length c)))) (Zseq 0 half) ++
  map (fun x => qsum (map (fun ci => ((if Z.even ci then -(1) else 1) * nthZ 0%Q c ci * qacc l (2 * x + ci))%Q) (Zseq 0 (length c)))) (Zseq 0 half).
Definition iwavelet_row (c : list Q) (l : list Q) : list Q :=
  let nc := Zlen c in
  let n := Zlen l in
  let low := firstn (Z.to_nat (n / 2)) l in let high := skipn (Z.to_nat (n / 2)) l in
  map (fun x =>
         let terms := map (fun ci => let xmap2 := x + ci - nc + 2 in
                                     if Z.even xmap2 then (0%Q, 0%Q)
                                     else let xmap := Z.quot xmap2 2 in
                                          ((nthZ 0%Q c ci * qacc low xmap)%Q,
                                           ((if Z.even ci then 1 else -(1)) * nthZ 0%Q c (nc - ci - 1) * qacc high xmap)%Q))
                          (Zseq 0 (length c)) in
         ((qsum (map fst terms) + qsum (map snd terms)) / 2)%Q)
      (Zseq 0 (length l)).

(* filter orthonormality of a coefficient table: sum_k c_k c_{k+2m} (should be 2 for m = 0 and 0 otherwise), and sum_k c_k = 2 *)
Definition autocorr2 (c : list Q) (m : Z) : Q :=
  qsum (map (fun k => (nthZ 0%Q c k * qacc c (k + 2 * m))%Q) (Zseq 0 (length c))).

(* ---------- wavelet_center / wavelet_decenter ---------- *)
(* _wavelet_center_compute: the smallest c >= 1 such that on EVERY axis (2^(floor(log2 n) + c) - n) // 2 > border;
   returns per axis (new length, offset); None when the search range 1 .. 15+border is exhausted *)
Definition axis_geom (c n : Z) : Z * Z := let ns := 2 ^ (Z.log2 n + c) in (ns, (ns - n) / 2).
Fixpoint center_search (fuel : nat) (dims : list Z) (border c : Z) : option (list (Z * Z)) :=
  match fuel with
  | O => None
  | S k => if existsb (fun n => snd (axis_geom c n) <=? border) dims || match dims with [] => true | _ => false end
           then center_search k dims border (c + 1) else Some (map (axis_geom c) dims)
  end.
Definition center_geom (dims : list Z) (border : Z) : option (list (Z * Z)) :=
  center_search (Z.to_nat (15 + border)) dims border 1.
(* one axis, given its geometry *)
Definition center1 (l : list Z) (ns d : Z) : list Z :=
  repeat 0 (Z.to_nat d) ++ l ++ repeat 0 (Z.to_nat (ns - d - Zlen l)).
Definition decenter1 (w : list Z) (olen d : Z) : list Z := firstn (Z.to_nat olen) (skipn (Z.to_nat d) w).
