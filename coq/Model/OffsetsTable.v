(* Model of the border-region offsets table of _filters.cpp / _filters.h: init_filter_offsets (one row of element offsets
   per border REGION of the array), init_filter_iterator (strides / backstrides / bounds of the table) and
   filter_iterator::iterate_both (the table pointer moved in step with the array iterator).  The per-axis arithmetic is the
   re-translated text of Gen/Offsets_gen.v; the loop skeletons around it are recognised verbatim by the translator.

   Convention: all per-axis lists are LITTLE-ENDIAN (head = last axis = fastest), as the iterator's own reversed arrays
   (strides_, backstrides_, minbound_, maxbound_ after std::reverse, index_rev, dimension_rev). *)
Require Import MV.Base.Prelude MV.Base.CInt MV.Base.Index MV.Gen.Scalar_gen MV.Gen.Offsets_gen.

(* array length, filter length, array stride (in elements) along one axis *)
Record axis := { alen : Z; flen : Z; astr : Z }.

Definition forg (x : axis) : Z := gen_forigin (flen x).
Definition nreg (x : axis) : Z := gen_nregions (alen x) (flen x).

(* the inner loop of init_filter_offsets for one axis: the coordinate handed to fix_offset and the stored relative
   offset; None = border_flag_value *)
Definition axis_off (mode : Z) (x : axis) (q c : Z) : option Z :=
  let cc := fix_offset mode (gen_cc c (forg x) q) (alen x) in
  if cc =? border_flag_value then None else Some (cc - q).

(* one table entry: offset += astrides[ii] * cc over the axes, the flag as soon as one axis is outside.  (The C++ loop
   visits the axes first-to-last, this list is last-to-first: the result does not depend on the order, entry_char.) *)
Fixpoint entry (mode : Z) (axes : list axis) (pos coords : list Z) (acc : Z) : Z :=
  match axes, pos, coords with
  | x :: axes', q :: pos', c :: coords' =>
      match axis_off mode x q c with
      | None => border_flag_value
      | Some d => entry mode axes' pos' coords' (acc + astr x * d)
      end
  | _, _, _ => acc
  end.

(* little-endian digits of a C-order index *)
Fixpoint le_digits (dims : list Z) (i : Z) : list Z :=
  match dims with [] => [] | d :: r => (i mod d) :: le_digits r (i / d) end.
Fixpoint le_value (digits dims : list Z) : Z :=
  match digits, dims with p :: ps, d :: ds => p + d * le_value ps ds | _, _ => 0 end.
Fixpoint prodZ (l : list Z) : Z := match l with [] => 1 | d :: r => d * prodZ r end.

(* the odometer used for the filter coordinates ("next point in the filter") and by the array iterator *)
Fixpoint odo_next (dims pos : list Z) : list Z :=
  match dims, pos with
  | d :: dims', p :: pos' => if p <? d - 1 then (p + 1) :: pos' else 0 :: odo_next dims' pos'
  | _, _ => []
  end.

Definition fdims (axes : list axis) : list Z := map flen axes.
Definition adims (axes : list axis) : list Z := map alen axes.
Definition nregs (axes : list axis) : list Z := map nreg axes.
Definition zeros (axes : list axis) : list Z := map (fun _ => 0) axes.

(* one row: for kk in 0..filter_size-1 (coordinates in C order), an entry for every kk the footprint keeps *)
Definition row (mode : Z) (axes : list axis) (fp : list bool) (pos : list Z) : list Z :=
  flat_map (fun kb : Z * bool => if snd kb then [entry mode axes pos (le_digits (fdims axes) (fst kb)) 0] else [])
           (combine (Zseq 0 (List.length fp)) fp).

(* "move to the next array region" *)
Fixpoint regions_next (axes : list axis) (pos : list Z) : list Z :=
  match axes, pos with
  | x :: axes', p :: pos' =>
      let p' := gen_next_region p (forg x) (alen x) (flen x) in
      if p' <? alen x then p' :: pos' else 0 :: regions_next axes' pos'
  | _, _ => []
  end.

Fixpoint table_rows (mode : Z) (axes : list axis) (fp : list bool) (n : nat) (pos : list Z) : list (list Z) :=
  match n with
  | O => []
  | S k => row mode axes fp pos :: table_rows mode axes fp k (regions_next axes pos)
  end.
Definition offsets_size (axes : list axis) : Z := prodZ (nregs axes).
Definition table (mode : Z) (axes : list axis) (fp : list bool) : list Z :=
  concat (table_rows mode axes fp (Z.to_nat (offsets_size axes)) (zeros axes)).

(* init_filter_iterator (after the four std::reverse calls) *)
Fixpoint it_strides (s : Z) (axes : list axis) : list Z :=
  match axes with
  | [] => []
  | x :: r => s :: it_strides (gen_it_stride s (gen_it_step_next (alen x) (flen x))) r
  end.
Definition it_back (x : axis) (s : Z) : Z := gen_it_backstride (gen_it_step (alen x) (flen x)) s.
Definition it_minb (x : axis) : Z := gen_it_minbound (alen x) (flen x) (gen_it_orgn (flen x)).
Definition it_maxb (x : axis) : Z := gen_it_maxbound (alen x) (flen x) (gen_it_orgn (flen x)).

(* iterate_both: the table index after the step that leaves array position pos *)
Fixpoint ib_step (axes : list axis) (strides pos : list Z) (cur : Z) : Z :=
  match axes, strides, pos with
  | x :: axes', s :: strides', p :: pos' =>
      if gen_ib_not_last p (alen x) then (if gen_ib_in_border p (it_minb x) (it_maxb x) then cur + s else cur)
      else ib_step axes' strides' pos' (cur - it_back x s)
  | _, _, _ => cur
  end.

(* n steps of the filtering loop: (table index, array position) *)
Fixpoint walk (axes : list axis) (rowlen : Z) (n : nat) : Z * list Z :=
  match n with
  | O => (0, zeros axes)
  | S k => let cp := walk axes rowlen k in
           (ib_step axes (it_strides rowlen axes) (snd cp) (fst cp), odo_next (adims axes) (snd cp))
  end.

Definition rowlen_of (fp : list bool) : Z := Zlen (filter (fun b => b) fp).
