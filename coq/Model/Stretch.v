(* Model of stretch.py over exact rationals: img -= min; img *= (hi - lo)/ptp; img += lo  (constant image: lo). *)
Require Import QArith.
Open Scope Q_scope.
Definition stretch_px (v vmin ptp lo hi : Q) : Q :=
  if Qeq_bool ptp 0 then lo else (v - vmin) * ((hi - lo) / ptp) + lo.
