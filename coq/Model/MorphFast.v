(* Executable model of _morph.cpp fast_binary_dilate_erode_2d (the path py_erode / py_dilate take for C-contiguous 2-D
   boolean arrays): the non-centre members of the element as (dy, dx) pairs; the result seeded with a copy of the input (centre
   in the element) or with the neutral value; then for every row y and member j, three column segments [0,x0) [x0,x1) [x1,Nx)
   whose neighbour column is 0, x+dx, Nx-1; erosion ANDs array[y+dy'][...] into res[y][x], dilation ORs array[y][x] into
   res[y+dy'][...], where dy' is dy clamped so that y+dy' is a row of the image.  Booleans are 0/1 with min = AND, max = OR. *)
Require Import MV.Base.Prelude MV.Base.CInt MV.Base.Index.

Definition fb_positions (bc : arr) : list (Z * Z) :=
  match shape bc with
  | [By; Bx] =>
      flat_map (fun k => match k with
                         | [y; x] => if aget bc k =? 0 then []
                                     else let dy := y - Z.quot By 2 in let dx := x - Z.quot Bx 2 in
                                          if (dy =? 0) && (dx =? 0) then [] else [(dy, dx)]
                         | _ => []
                         end) (all_positions [By; Bx])
  | _ => []
  end.

Definition fb_centre (bc : arr) : bool :=
  match shape bc with [By; Bx] => negb (aget bc [Z.quot By 2; Z.quot Bx 2] =? 0) | _ => false end.

Definition fb_dy (y dy Ny : Z) : Z := if y + dy <? 0 then - y else if y + dy >=? Ny then - y + (Ny - 1) else dy.
Definition fb_x0 (dx Nx : Z) : Z := Z.min Nx (Z.max 0 (- dx)).
Definition fb_x1 (dx Nx : Z) : Z := Z.max (fb_x0 dx Nx) (Z.min Nx (Nx - dx)).

(* (this row, other row, this column, neighbour column) for one (y, member) in execution order *)
Definition fb_cols (dx Nx : Z) : list (Z * Z) :=
  let x0 := fb_x0 dx Nx in let x1 := fb_x1 dx Nx in
  map (fun x => (x, 0)) (Zseq 0 (Z.to_nat x0)) ++
  map (fun x => (x, x + dx)) (Zseq x0 (Z.to_nat (x1 - x0))) ++
  map (fun x => (x, Nx - 1)) (Zseq x1 (Z.to_nat (Nx - x1))).

(* (target flat index, source flat index) *)
Definition fb_updates (is_erosion : bool) (Ny Nx : Z) (pos : list (Z * Z)) : list (Z * Z) :=
  flat_map (fun y =>
    flat_map (fun d => let '(dy, dx) := d in
                       let y2 := y + fb_dy y dy Ny in
                       map (fun xc => let '(x, c) := xc in
                                      if is_erosion then (y * Nx + x, y2 * Nx + c) else (y2 * Nx + c, y * Nx + x))
                           (fb_cols dx Nx)) pos)
    (Zseq 0 (Z.to_nat Ny)).

Definition fb_step (is_erosion : bool) (a : list Z) (o : list Z) (ts : Z * Z) : list Z :=
  let v := nthZ 0 a (snd ts) in
  updZ o (fst ts) (if is_erosion then Z.min (nthZ 0 o (fst ts)) v else Z.max (nthZ 0 o (fst ts)) v).

Definition fast2d (is_erosion : bool) (a bc : arr) : list Z :=
  match shape a with
  | [Ny; Nx] =>
      let init := if fb_centre bc then data a else repeat (if is_erosion then 1 else 0) (length (data a)) in
      fold_left (fb_step is_erosion (data a)) (fb_updates is_erosion Ny Nx (fb_positions bc)) init
  | _ => data a
  end.
