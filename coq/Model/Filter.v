(* Shared model of the filter machinery at the level the kernels use it:
   entries of a structuring element / kernel (offset from the centre, value) and the
   per-axis border map (GENERATED fix_offset) applied to an N-D position. *)
Require Import MV.Base.Prelude MV.Base.CInt MV.Base.Index MV.Gen.Scalar_gen.

(* element types of the kernels *)
Inductive dt := DBool | DInt (t : ity).
Definition dmin d := match d with DBool => 0 | DInt t => tmin t end.
Definition dmax d := match d with DBool => 1 | DInt t => tmax t end.
Definition is_bool d := match d with DBool => true | DInt _ => false end.
Definition d_in_range d x := dmin d <= x <= dmax d.

(* per-axis application of the border rule; None = "outside" flag (constant/ignore modes) *)
Fixpoint fixpos (mode : Z) (sh pos : list Z) : option (list Z) :=
  match sh, pos with
  | d :: r, p :: q =>
      let c := fix_offset mode p d in
      if c =? border_flag_value then None
      else match fixpos mode r q with Some t => Some (c :: t) | None => None end
  | _, _ => Some []
  end.

Definition entries (compress : bool) (bc : arr) : list (list Z * Z) :=
  filter (fun e => negb compress || negb (snd e =? 0))
    (map (fun k => (psub k (centre (shape bc)), aget bc k)) (all_positions (shape bc))).

Definition retrieve (mode : Z) (f : arr) (p off : list Z) : option Z :=
  match fixpos mode (shape f) (padd p off) with
  | Some q => Some (aget f q)
  | None => None
  end.
