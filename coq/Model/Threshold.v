(* Executable models of _histogram.cpp otsu() and thresholding.py rc() over exact rationals, with specifications.
   gbernsen / soft_threshold element functions are GENERATED (Gen/PyThresh_gen.v). *)
Require Import QArith Qabs Qminmax.
Require Import MV.Base.Prelude MV.Base.QHelp.
Open Scope Z_scope.

Definition zq (z : Z) : Q := inject_Z z.

(* cumulative counts nB[i] = hist[0] + .. + hist[i] *)
Fixpoint prefix_sums (acc : Z) (l : list Z) : list Z :=
  match l with [] => [] | x :: t => (acc + x) :: prefix_sums (acc + x) t end.

Record ostate := { o_muB : Q; o_muO : Q; o_best : Q; o_bestT : Z; o_stop : bool }.

Definition otsu_step (hist nB nO : list Z) (s : ostate) (T : Z) : ostate :=
  if o_stop s then s
  else if nthZ 0 nB T =? 0 then s                                   (* continue *)
  else if nthZ 0 nO T =? 0 then {| o_muB := o_muB s; o_muO := o_muO s; o_best := o_best s; o_bestT := o_bestT s; o_stop := true |}
  else
    let hT := nthZ 0 hist T in
    let nBT := nthZ 0 nB T in let nBp := nthZ 0 nB (T - 1) in
    let nOT := nthZ 0 nO T in let nOp := nthZ 0 nO (T - 1) in
    let thT := T * hT in
    let muB := Qred ((o_muB s * zq nBp + zq thT) / zq nBT)%Q in
    let muO := Qred ((o_muO s * zq nOp - zq thT) / zq nOT)%Q in
    let sigma := Qred (zq nBT * zq nOT * (muB - muO) * (muB - muO))%Q in
    if qltb (o_best s) sigma
    then {| o_muB := muB; o_muO := muO; o_best := sigma; o_bestT := T; o_stop := false |}
    else {| o_muB := muB; o_muO := muO; o_best := o_best s; o_bestT := o_bestT s; o_stop := false |}.

Definition weighted (l : list Z) : Z := sumZ (map (fun iv => fst iv * snd iv) (combine (Zseq 0 (length l)) l)).

Definition otsu (hist : list Z) : Z :=
  let n := Zlen hist in
  if n <=? 1 then 0 else
  let Hsum := sumZ (tl hist) in
  if Hsum =? 0 then 0 else
  let nB := prefix_sums 0 hist in
  let tot := nthZ 0 nB (n - 1) in
  let nO := map (fun b => tot - b) nB in
  let muO := (zq (weighted hist) / zq Hsum)%Q in
  let nB0 := nthZ 0 nB 0 in let nO0 := nthZ 0 nO 0 in
  let best := (zq nB0 * zq nO0 * (0 - muO) * (0 - muO))%Q in
  o_bestT (fold_left (otsu_step hist nB nO) (Zseq 1 (length hist - 1))
                     {| o_muB := 0; o_muO := muO; o_best := best; o_bestT := 0; o_stop := false |}).

(* specification: between-class variance (times N^2) of the split "levels <= T" / "levels > T" *)
Definition cnt_le (hist : list Z) (T : Z) : Z := sumZ (firstn (Z.to_nat (T + 1)) hist).
Definition sum_le (hist : list Z) (T : Z) : Z := weighted (firstn (Z.to_nat (T + 1)) hist).
Definition sigma_spec (hist : list Z) (T : Z) : Q :=
  let nB := cnt_le hist T in let nO := sumZ hist - nB in
  let sB := sum_le hist T in let sO := weighted hist - sB in
  if (nB =? 0) || (nO =? 0) then 0
  else (zq nB * zq nO * (zq sB / zq nB - zq sO / zq nO) * (zq sB / zq nB - zq sO / zq nO))%Q.
(* first maximiser *)
Definition otsu_spec (hist : list Z) : Z :=
  fst (fold_left (fun bt T => if qltb (snd bt) (sigma_spec hist T) then (T, sigma_spec hist T) else bt)
                 (Zseq 1 (length hist - 1)) (0, sigma_spec hist 0)).

(* ---------- rc (Riddler-Calvard), thresholding.py ---------- *)
Definition cnt_gt (hist : list Z) (t : Z) : Z := sumZ hist - cnt_le hist t.       (* r_cumsum[t+1] *)
Definition sum_gt (hist : list Z) (t : Z) : Z := weighted hist - sum_le hist t.   (* r_first_moment[t+1] *)
Definition rc_mid (hist : list Z) (t : Z) : Q :=
  ((zq (sum_le hist t) / zq (cnt_le hist t) + zq (sum_gt hist t) / zq (cnt_gt hist t)) / zq 2)%Q.

Fixpoint last_nonzero (l : list Z) (i : Z) (best : Z) : Z :=
  match l with [] => best | x :: t => last_nonzero t (i + 1) (if x =? 0 then best else i) end.

(* while t < min(maxt, res): if cumsum[t] and r_cumsum[t+1]: res = mid(t); t += 1 *)
Fixpoint rc_loop (fuel : nat) (hist : list Z) (maxt : Z) (res : Q) (t : Z) : Q :=
  match fuel with
  | O => res
  | S k =>
      if qltb (zq t) (Qmin (zq maxt) res)
      then let res' := if (cnt_le hist t =? 0) || (cnt_gt hist t =? 0) then res else rc_mid hist t in
           rc_loop k hist maxt res' (t + 1)
      else res
  end.
Definition rc (hist : list Z) : Q :=
  let maxt := last_nonzero hist 0 0 in
  rc_loop (length hist) hist maxt (zq maxt) 0.
