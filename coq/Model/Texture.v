(* Executable models for C19: co-occurrence counting (_texture.cpp, one-hot neighbourhood, ExtendIgnore), LBP code
   mapping (_lbp.cpp roll_right / map), SURF integral image (_surf.cpp integral, in-place recurrence), moments. *)
Require Import MV.Base.Prelude MV.Base.CInt MV.Base.Index MV.Base.BorderSpec.
Require Import MV.Gen.Scalar_gen MV.Model.Filter MV.Model.Labeled.

(* ---------- co-occurrence ---------- *)
(* for every pixel p whose neighbour p + delta lies inside the image: ++res[f[p], f[p + delta]] *)
Definition cooc_pairs (f : arr) (delta : list Z) : list (Z * Z) :=
  flat_map (fun p => match fixpos ExtendIgnore (shape f) (padd p delta) with
                     | Some q => [(aget f p, aget f q)]
                     | None => []
                     end) (all_positions (shape f)).
Definition cooc (f : arr) (delta : list Z) (m : Z) : list Z :=      (* m x m matrix, C order *)
  let codes := map (fun ab => fst ab * m + snd ab) (cooc_pairs f delta) in
  foldl_labeled (fun _ r => r + 1) 0 (m * m) codes codes.
Definition cooc_sym (f : arr) (delta : list Z) (m : Z) : list Z :=  (* C + C^T *)
  let c := cooc f delta m in
  map (fun yx => nthZ 0 c (fst yx * m + snd yx) + nthZ 0 c (snd yx * m + fst yx))
      (list_prod (Zseq 0 (Z.to_nat m)) (Zseq 0 (Z.to_nat m))).
(* specification: number of positions p with p + delta inside, f[p] = a and f[p+delta] = b *)
Definition cooc_spec (f : arr) (delta : list Z) (a b : Z) : Z :=
  Zlen (filter (fun p => in_shapeb (shape f) (padd p delta) && (aget f p =? a) && (aget f (padd p delta) =? b))
               (all_positions (shape f))).

(* ---------- LBP ---------- *)
(* (v >> 1) | ((v & 1) << (points-1)) on codes below 2^points *)
Definition roll_right (v points : Z) : Z := v / 2 + (v mod 2) * 2 ^ (points - 1).
Fixpoint lbp_map_go (n : nat) (v best points : Z) : Z :=
  match n with
  | O => best
  | S k => let v' := roll_right v points in lbp_map_go k v' (if v' <? best then v' else best) points
  end.
Definition lbp_map (v points : Z) : Z := lbp_map_go (Z.to_nat points) v v points.
Fixpoint rotations (n : nat) (v points : Z) : list Z :=
  match n with O => [] | S k => v :: rotations k (roll_right v points) points end.

(* ---------- integral image: in-place recurrence, rows as lists ---------- *)
Fixpoint prefix_row (acc : Z) (row : list Z) : list Z :=                 (* first row: running sum *)
  match row with [] => [] | x :: t => (acc + x) :: prefix_row (acc + x) t end.
(* next row from the finished previous row: out[j] = f[j] + prev[j] + out[j-1] - prev[j-1] *)
Fixpoint next_row (prev row : list Z) (left upleft : Z) : list Z :=
  match prev, row with
  | u :: prev', x :: row' => let v := x + u + left - upleft in v :: next_row prev' row' v u
  | _, _ => []
  end.
Fixpoint integral_go (prev : list Z) (rows : list (list Z)) : list (list Z) :=
  match rows with
  | [] => []
  | r :: rest => let cur := next_row prev r 0 0 in cur :: integral_go cur rest
  end.
Definition integral (rows : list (list Z)) : list (list Z) :=
  match rows with
  | [] => []
  | r0 :: rest => let first := prefix_row 0 r0 in first :: integral_go first rest
  end.
(* specification: 2-D prefix sums *)
Definition rect_sum (rows : list (list Z)) (i j : nat) : Z :=
  sumZ (map (fun r => sumZ (firstn (S j) r)) (firstn (S i) rows)).

(* ---------- moments: sum_{y,x} (y - c0)^p0 (x - c1)^p1 f[y,x] ---------- *)
Definition moments (f : arr) (p0 p1 c0 c1 : Z) : Z :=
  sumZ (map (fun p => (nthZ 0 p 0 - c0) ^ p0 * (nthZ 0 p 1 - c1) ^ p1 * aget f p) (all_positions (shape f))).
