(* Buffer-flow model of the out= convention: _get_output (GENERATED decision) and the multi-axis Gaussian ping-pong
   of convolve.py gaussian_filter. Buffers are identified by natural numbers; a trace records, per pass, which buffer was written. *)
Require Import List Bool Arith. Import ListNotations.
Require Import MV.Gen.OutConv_gen.

(* gaussian_filter:
     output = _get_output(array, out); output0 = output; output[...] = array; noutput = None
     for axis: noutput = gaussian_filter1d(output, ..., out=noutput)   (* writes noutput, or a fresh buffer when None *)
               output, noutput = noutput, output
     if output is not output0: output0[...] = output; output = output0
     return output *)
Record gstate := { g_out : nat; g_nout : option nat; g_fresh : nat; g_trace : list (nat * nat) }.   (* (source, destination) per pass *)
Definition g_pass (s : gstate) : gstate :=
  let dst := match g_nout s with Some b => b | None => g_fresh s end in
  {| g_out := dst; g_nout := Some (g_out s);
     g_fresh := (match g_nout s with Some _ => g_fresh s | None => S (g_fresh s) end);
     g_trace := g_trace s ++ [(g_out s, dst)] |}.
Fixpoint g_loop (n : nat) (s : gstate) : gstate := match n with O => s | S k => g_loop k (g_pass s) end.
(* returns (returned buffer, trace of (source, destination) writes incl. the final copy) *)
Definition gaussian_filter_flow (ndim out0 : nat) : nat * list (nat * nat) :=
  let s := g_loop ndim {| g_out := out0; g_nout := None; g_fresh := S out0; g_trace := [] |} in
  if Nat.eqb (g_out s) out0 then (out0, g_trace s) else (out0, g_trace s ++ [(g_out s, out0)]).
