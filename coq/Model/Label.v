(* Executable model of _labeled.cpp label() and its specification.
   The union-find structure (find with path compression / join) is modelled by its specification:
   a class assignment in which join(i,j) merges the class of i into the class of j ("quick-find").
   The observable result does not depend on the representation: labels are the first-appearance numbering
   of the classes (Base/Renumber.v), which is canonical for a partition. *)
Require Import MV.Base.Prelude MV.Base.CInt MV.Base.Index MV.Base.BorderSpec MV.Base.Renumber.
Require Import MV.Gen.Scalar_gen MV.Model.Filter.

Definition qf_join (cls : list Z) (i j : Z) : list Z :=
  let ci := nthZ 0 cls i in let cj := nthZ 0 cls j in
  map (fun c => if c =? ci then cj else c) cls.

(* the joins performed by the scan, in order: for each non-zero pixel p (C order), for each entry of the
   (compressed) element, the neighbour p+off if it is INSIDE the image (ExtendConstant: retrieve fails outside)
   and non-zero *)
Definition label_pairs (f bc : arr) : list (Z * Z) :=
  flat_map (fun p =>
      if aget f p =? 0 then []
      else flat_map (fun e =>
             match fixpos ExtendConstant (shape f) (padd p (fst e)) with
             | Some q => if aget f q =? 0 then [] else [(ravel (shape f) p, ravel (shape f) q)]
             | None => []
             end) (entries true bc))
    (all_positions (shape f)).

(* data[i] = data[i] ? i : -1 *)
Definition init_classes (f : arr) : list Z :=
  map (fun i => if nthZ 0 (data f) i =? 0 then -1 else i) (Zseq 0 (length (data f))).

Definition label_classes (f bc : arr) : list Z :=
  fold_left (fun cls ij => qf_join cls (fst ij) (snd ij)) (label_pairs f bc) (init_classes f).

Definition label (f bc : arr) : list Z * Z := renumber (-1) (label_classes f bc).

(* ---------- specification ---------- *)
(* equivalence closure of a set of index pairs *)
Inductive conn (E : list (Z * Z)) : Z -> Z -> Prop :=
| conn_refl : forall a, conn E a a
| conn_edge : forall a b, In (a, b) E -> conn E a b
| conn_sym : forall a b, conn E a b -> conn E b a
| conn_trans : forall a b c, conn E a b -> conn E b c -> conn E a c.

(* adjacency of the property: both non-zero, both inside the image, q = p + (offset of an element member) *)
Definition adjacent (f bc : arr) (i j : Z) : Prop :=
  exists p k, in_shape (shape f) p /\ in_shape (shape bc) k /\ aget bc k <> 0 /\
              let q := padd p (psub k (centre (shape bc))) in
              in_shape (shape f) q /\ aget f p <> 0 /\ aget f q <> 0 /\
              i = ravel (shape f) p /\ j = ravel (shape f) q.
