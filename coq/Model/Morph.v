(* Executable model of _morph.cpp erode / dilate (generic iterator path; the 2-D boolean
   fast path is specified to be the same function and both are run against this model). *)
Require Import MV.Base.Prelude MV.Base.CInt MV.Base.Index MV.Base.BorderSpec MV.Gen.Scalar_gen MV.Model.Filter.

Definition esub d a b := match d with DBool => erode_sub_bool a b | DInt t => erode_sub t a b end.
Definition dadd d a b := match d with DBool => dilate_add_bool a b | DInt t => dilate_add t a b end.

Definition getn (f : arr) (p off : list Z) : Z :=
  match retrieve ExtendNearest f p off with Some x => x | None => 0 end.

(* erode<T>: value = max(); for j: value = min(value, erode_sub(arr_val, filter[j])) *)
Definition erode_at (d : dt) (f bc : arr) (p : list Z) : Z :=
  fold_left (fun v e => Z.min v (esub d (getn f p (fst e)) (snd e)))
            (entries (is_bool d) bc) (dmax d).

Definition erode_generic (d : dt) (f bc : arr) : list Z :=
  map (erode_at d f bc) (all_positions (shape f)).

(* dilate<T>: res filled with min(); every non-min pixel scatters value+height to the
   (clamped) neighbour positions, keeping the maximum. *)
Definition dilate_entry (d : dt) (f : arr) (p : list Z) (v : Z) (o : list Z) (e : list Z * Z) : list Z :=
  match fixpos ExtendNearest (shape f) (padd p (fst e)) with
  | Some q =>
      let i := ravel (shape f) q in
      let nval := dadd d v (snd e) in
      if nval >? nthZ 0 o i then updZ o i nval else o
  | None => o
  end.

Definition dilate_step (d : dt) (f bc : arr) (o : list Z) (p : list Z) : list Z :=
  let v := aget f p in
  if v =? dmin d then o
  else fold_left (dilate_entry d f p v) (entries (is_bool d) bc) o.

Definition dilate_generic (d : dt) (f bc : arr) : list Z :=
  fold_left (dilate_step d f bc) (all_positions (shape f))
            (repeat (dmin d) (Z.to_nat (size (shape f)))).

(* ---------- specification: lattice definition ---------- *)
Definition satd (d : dt) (x : Z) : Z := Z.max (dmin d) (Z.min (dmax d) x).
(* boolean elements are flat *)
Definition height (d : dt) (h : Z) : Z := if is_bool d then 0 else h.
(* membership: an entry equal to the smallest value of the dtype is "not in the element" *)
Definition in_se (d : dt) (h : Z) : bool := negb (h =? dmin d).

Definition support (d : dt) (bc : arr) : list (list Z * Z) :=
  filter (fun e => in_se d (snd e)) (entries false bc).

(* erosion: min over the support of (edge-replicated value - height), saturated *)
Definition erode_spec (d : dt) (f bc : arr) (p : list Z) : Z :=
  minl (dmax d)
    (map (fun e => satd d (aget f (clampos (shape f) (padd p (fst e))) - height d (snd e)))
         (support d bc)).

(* dilation, gather form: max over the support of (value at p - offset, edge-replicated, + height) *)
Definition dilate_spec (d : dt) (f bc : arr) (p : list Z) : Z :=
  maxl (dmin d)
    (map (fun e =>
            let v := aget f (clampos (shape f) (psub p (fst e))) in
            if v =? dmin d then dmin d else satd d (v + height d (snd e)))
         (support d bc)).

Definition erode_spec_all d f bc := map (erode_spec d f bc) (all_positions (shape f)).
Definition dilate_spec_all d f bc := map (dilate_spec d f bc) (all_positions (shape f)).

(* does the whole neighbourhood of p lie inside the image? *)
Definition nbh_inside (d : dt) (f bc : arr) (p : list Z) : bool :=
  forallb (fun e => in_shapeb (shape f) (psub p (fst e)) && in_shapeb (shape f) (padd p (fst e))) (support d bc).

(* ---------- Python-level compositions (morph.py) ---------- *)
Definition mk (f : arr) (x : list Z) : arr := {| shape := shape f; data := x |}.
Definition pmin (a b : list Z) : list Z := map (fun ab => Z.min (fst ab) (snd ab)) (combine a b).
Definition pmax (a b : list Z) : list Z := map (fun ab => Z.max (fst ab) (snd ab)) (combine a b).

Definition mh_open (d : dt) (f bc : arr) : list Z := dilate_generic d (mk f (erode_generic d f bc)) bc.
Definition mh_close (d : dt) (f bc : arr) : list Z := erode_generic d (mk f (dilate_generic d f bc)) bc.

Definition list_eqb (a b : list Z) : bool :=
  (Nat.eqb (length a) (length b)) && forallb (fun ab => fst ab =? snd ab) (combine a b).

(* cdilate: f = min(f,g); repeat n times: prev = f; f = min(dilate f, g); stop when unchanged *)
Fixpoint cdilate_loop (d : dt) (f : arr) (g : list Z) (bc : arr) (n : nat) : list Z :=
  match n with
  | O => data f
  | S k =>
      let f' := pmin (dilate_generic d f bc) g in
      if list_eqb f' (data f) then f' else cdilate_loop d (mk f f') g bc k
  end.
Definition mh_cdilate (d : dt) (f : arr) (g : list Z) (bc : arr) (n : nat) : list Z :=
  cdilate_loop d (mk f (pmin (data f) g)) g bc n.

(* cerode: f = max(f,g); f = erode(f); return max(f,g) *)
Definition mh_cerode (d : dt) (f : arr) (g : list Z) (bc : arr) : list Z :=
  pmax (erode_generic d (mk f (pmax (data f) g)) bc) g.

Definition subm_d (d : dt) (a b : Z) : Z :=
  match d with DBool => subm {| bits := 1; signed := false |} a b | DInt t => subm t a b end.
Definition psubm (d : dt) (a b : list Z) : list Z := map (fun ab => subm_d d (fst ab) (snd ab)) (combine a b).
Definition mh_tophat_open (d : dt) (f bc : arr) : list Z := psubm d (data f) (mh_open d f bc).
Definition mh_tophat_close (d : dt) (f bc : arr) : list Z := psubm d (mh_close d f bc) (data f).
