(* C12 -- a model of concurrent kernel calls.

   Memory is a map from locations to values.  Every location has an owner: `Some t` (private to call t: its output array, its
   scratch buffers, its stack) or `None` (an input shared read-only between calls).  A call is a deterministic step function over
   its own local state and the memory it may read; one step returns the new local state and a list of writes.  The scheduler
   picks, at each moment, which call performs its next step: a schedule is an arbitrary list of call identifiers -- releasing
   the global lock means exactly that any call may be interleaved at step granularity.

   `disciplined` states the access discipline the source inventory (Gen/Threads_gen.v) establishes for the kernels:
   a step depends only on locations it owns or that are shared, and writes only locations it owns.  Static or module-level
   mutable storage is a location that is neither: it is written by one call and read by another. *)
Require Import ZArith List Bool Lia.
Import ListNotations.

Definition tid := nat.
Definition loc := Z.
Definition mem := loc -> Z.

Section Calls.
  Variable L : Type.                                   (* local (per-call) state *)
  Variable owner : loc -> option tid.
  Variable step : tid -> L -> mem -> L * list (loc * Z).

  Definition upd (m : mem) (x : loc) (v : Z) : mem := fun y => if Z.eqb y x then v else m y.
  Definition apply_writes (m : mem) (ws : list (loc * Z)) : mem := fold_left (fun m w => upd m (fst w) (snd w)) ws m.

  Definition visible (t : tid) (x : loc) : Prop := owner x = Some t \/ owner x = None.
  Definition agree (t : tid) (m m' : mem) : Prop := forall x, visible t x -> m x = m' x.

  Record disciplined : Prop := {
    reads_visible : forall t l m m', agree t m m' -> step t l m = step t l m';
    writes_owned : forall t l m x v, In (x, v) (snd (step t l m)) -> owner x = Some t }.

  (* the system: local states of all calls + the memory *)
  Definition locals := tid -> L.
  Definition set_local (ls : locals) (t : tid) (l : L) : locals := fun u => if Nat.eqb u t then l else ls u.

  Definition sys_step (s : locals * mem) (t : tid) : locals * mem :=
    let '(l', ws) := step t (fst s t) (snd s) in (set_local (fst s) t l', apply_writes (snd s) ws).
  Definition run (sched : list tid) (s : locals * mem) : locals * mem := fold_left sys_step sched s.

  (* the same call running alone: n of its steps, nobody else *)
  Fixpoint solo (t : tid) (n : nat) (l : L) (m : mem) : L * mem :=
    match n with
    | O => (l, m)
    | S k => let '(l', ws) := step t l m in solo t k l' (apply_writes m ws)
    end.
  Definition steps_of (t : tid) (sched : list tid) : nat := length (filter (Nat.eqb t) sched).
End Calls.

(* lazily initialised module-level value: every caller that finds the cell empty computes the same complete value v0 and publishes
   it with one store; callers that find it full use what they read *)
Section LazyInit.
  Variable v0 : Z.
  Inductive cell := Empty | Full (v : Z).
  (* one call: read the cell, (maybe) compute, (maybe) publish, use *)
  Inductive ev := Read (t : tid) | Publish (t : tid).
  Definition lazy_step (c : cell) (e : ev) : cell :=
    match e with
    | Read _ => c
    | Publish _ => Full v0
    end.
  Definition observed (c : cell) : Z := match c with Empty => v0 (* computes it itself *) | Full v => v end.
  Definition cell_ok (c : cell) : Prop := c = Empty \/ c = Full v0.
End LazyInit.

(* the RAII lock release of utils.hpp: constructor releases, destructor restores iff still active, restore() deactivates *)
Section Gil.
  Record gil := { held : bool; active : bool }.
  Definition g_ctor (_ : gil) : gil := {| held := false; active := true |}.
  Definition g_restore (_ : gil) : gil := {| held := true; active := false |}.
  Definition g_dtor (g : gil) : gil := if active g then g_restore g else g.
  (* a kernel body between construction and scope exit: may call restore() explicitly any number of times it is active,
     and leaves either normally or by an exception -- the destructor runs in both cases *)
  Inductive body_ev := ExplicitRestore | Work.
  Definition g_body (g : gil) (e : body_ev) : gil :=
    match e with ExplicitRestore => if active g then g_restore g else g | Work => g end.
  Definition call_scope (body : list body_ev) (g0 : gil) : gil := g_dtor (fold_left g_body body (g_ctor g0)).
End Gil.
