(* Executable model of _distance.cpp (dist_transform: Felzenszwalb-Huttenlocher lower envelope; py_dt: one pass per
   axis over every line of an n-D array) and of distance.py / segmentation.gvoronoi, with the specification
   (exact squared Euclidean distance transform as a min-plus convolution). *)
Require Import MV.Base.Prelude MV.Base.CInt MV.Base.Index.

(* ---------- 1-D pass: lower envelope of the parabolas (q-p)^2 + f[p] ----------
   intersections s are rationals num/den (den > 0), compared exactly; z[0] = -inf, the sentinel z[k+1] = +inf implicit *)
Inductive ext := NegInf | Fin (num den : Z).
Definition ext_lt_frac (z : ext) (a b : Z) : bool :=      (* z < a/b , b > 0 *)
  match z with NegInf => true | Fin c d => c * b <? a * d end.
Definition ext_lt_int (z : ext) (q : Z) : bool :=         (* z < q *)
  match z with NegInf => true | Fin c d => c <? q * d end.

(* hull: (v_k, z_k) with the top of the stack first *)
Fixpoint hull_pop (f : list Z) (q : Z) (hull : list (Z * ext)) : list (Z * ext) :=
  match hull with
  | [] => [(q, NegInf)]                                    (* not reachable: z[0] = -inf always breaks *)
  | (vk, zk) :: rest =>
      let num := (nthZ 0 f q + q * q) - (nthZ 0 f vk + vk * vk) in
      let den := 2 * (q - vk) in
      if ext_lt_frac zk num den then (q, Fin num den) :: hull   (* s > z[k]: break; ++k; v[k]=q; z[k]=s *)
      else hull_pop f q rest                                     (* --k *)
  end.

Definition build_hull (f : list Z) : list (Z * ext) :=
  fold_left (fun h q => hull_pop f q h) (Zseq 1 (length f - 1)) [(0, NegInf)].

(* second sweep: k advances while z[k+1] < q; hull given bottom first *)
Fixpoint sweep_adv (fuel : nat) (q : Z) (h : list (Z * ext)) : list (Z * ext) :=
  match fuel with
  | O => h
  | S n => match h with
           | e0 :: ((_, z1) :: _) as t => if ext_lt_int z1 q then sweep_adv n q t else h
           | _ => h
           end
  end.

Definition dt1d_with_origin (f : list Z) : list (Z * Z) :=   (* (Df[q], v[k]) *)
  match f with
  | [] => []
  | _ =>
    let hull := rev (build_hull f) in
    snd (fold_left (fun st q => let h := sweep_adv (length f) q (fst st) in
                                let vk := match h with (v, _) :: _ => v | [] => 0 end in
                                (h, snd st ++ [((q - vk) * (q - vk) + nthZ 0 f vk, vk)]))
                   (Zseq 0 (length f)) (hull, []))
  end.
Definition dt1d (f : list Z) : list Z := map fst (dt1d_with_origin f).

(* specification of one pass: Df[q] = min_p (q-p)^2 + f[p] *)
Definition lmin (l : list Z) : Z := match l with [] => 0 | x :: t => fold_left Z.min t x end.
Definition minplus1d (f : list Z) : list Z :=
  map (fun q => lmin (map (fun p => (q - p) * (q - p) + nthZ 0 f p) (Zseq 0 (length f)))) (Zseq 0 (length f)).

(* ---------- n-D: one pass per axis, axis 0 first (C order: axis 0 runs across blocks of size(rest)) ---------- *)
Section ND.
  Variable T1 : list Z -> list Z.          (* the 1-D pass *)

  Definition line0 (d sz : Z) (dat : list Z) (j : Z) : list Z := map (fun i => nthZ 0 dat (i * sz + j)) (Zseq 0 (Z.to_nat d)).
  Definition pass_axis0 (d sz : Z) (dat : list Z) : list Z :=
    flat_map (fun i => map (fun j => nthZ 0 (T1 (line0 d sz dat j)) i) (Zseq 0 (Z.to_nat sz))) (Zseq 0 (Z.to_nat d)).
  Definition block (sz i : Z) (dat : list Z) : list Z := firstn (Z.to_nat sz) (skipn (Z.to_nat (i * sz)) dat).

  Fixpoint dt_nd (sh : list Z) (dat : list Z) : list Z :=
    match sh with
    | [] => dat
    | d :: r =>
        let sz := size r in
        let g := pass_axis0 d sz dat in
        flat_map (fun i => dt_nd r (block sz i g)) (Zseq 0 (Z.to_nat d))
    end.
End ND.

(* distance.py: f = INF on foreground (non-zero), 0 on background; INF = ndim * max(shape)^2 + 1 *)
Definition dist_inf (sh : list Z) : Z := Zlen sh * (maxl 0 sh * maxl 0 sh) + 1.
Definition dist_init (a : arr) : list Z := map (fun v => if v =? 0 then 0 else dist_inf (shape a)) (data a).
Definition distance (a : arr) : list Z := dt_nd dt1d (shape a) (dist_init a).

(* specification: exact squared Euclidean distance transform of f0 as a min-plus convolution over the whole grid *)
Definition sqdist (p q : list Z) : Z := sumZ (map (fun ab => (fst ab - snd ab) * (fst ab - snd ab)) (combine p q)).
Definition edt_spec (sh : list Z) (f0 : list Z) (p : list Z) : Z :=
  lmin (map (fun q => sqdist p q + nthZ 0 f0 (ravel sh q)) (all_positions sh)).
Definition distance_spec (a : arr) : list Z :=
  let bg := filter (fun q => aget a q =? 0) (all_positions (shape a)) in
  map (fun p => match bg with
                | [] => dist_inf (shape a)                       (* no background: "infinite" everywhere (model value) *)
                | _ => lmin (map (sqdist p) bg)
                end) (all_positions (shape a)).

(* gvoronoi (2-D): origins tracked through the passes; result = labeled.flat[orig] *)
Section NDO.
  Definition line0o (d sz : Z) (dat : list (Z * Z)) (j : Z) : list (Z * Z) :=
    map (fun i => nthZ (0, 0) dat (i * sz + j)) (Zseq 0 (Z.to_nat d)).
  (* one pass over a line of (value, origin) pairs: ot[q] = orig[v[k]] *)
  Definition T1o (l : list (Z * Z)) : list (Z * Z) :=
    map (fun dv => (fst dv, snd (nthZ (0, 0) l (snd dv)))) (dt1d_with_origin (map fst l)).
  Definition pass_axis0o (d sz : Z) (dat : list (Z * Z)) : list (Z * Z) :=
    flat_map (fun i => map (fun j => nthZ (0, 0) (T1o (line0o d sz dat j)) i) (Zseq 0 (Z.to_nat sz))) (Zseq 0 (Z.to_nat d)).
  Definition blocko (sz i : Z) (dat : list (Z * Z)) := firstn (Z.to_nat sz) (skipn (Z.to_nat (i * sz)) dat).
  Fixpoint dt_ndo (sh : list Z) (dat : list (Z * Z)) : list (Z * Z) :=
    match sh with
    | [] => dat
    | d :: r => let sz := size r in let g := pass_axis0o d sz dat in
                flat_map (fun i => dt_ndo r (blocko sz i g)) (Zseq 0 (Z.to_nat d))
    end.
End NDO.
Definition gvoronoi (lab : arr) : list Z :=
  let f := map (fun v => if v =? 0 then dist_inf (shape lab) else 0) (data lab) in
  let o := dt_ndo (shape lab) (combine f (Zseq 0 (length f))) in
  map (fun vo => nthZ 0 (data lab) (snd vo)) o.
