(* Executable model over Q of _interpolate.cpp zoom_shift (coordinate map, border mapping of real coordinates,
   B-spline weights of orders 1-4, mirrored edge indices) and of interpolate.py shift / zoom (per axis; the N-D
   result is the tensor product, i.e. the same operation applied along each axis in turn). *)
Require Import QArith Qabs Qround.
Require Import MV.Base.Prelude MV.Base.QHelp MV.Gen.Scalar_gen.
Open Scope Z_scope.

Definition zq (z : Z) : Q := inject_Z z.

(* start of the support: odd orders floor(x), even orders floor(x + 1/2); minus order/2 *)
Definition spline_start (order : Z) (x : Q) : Z :=
  Qfloor (x + (if Z.odd order then 0 else 1 # 2))%Q - Z.quot order 2.

Definition bspline (order : Z) (y : Q) : Q :=         (* y >= 0 *)
  if order =? 1 then (if qltb 1 y then 0 else 1 - y)%Q
  else if order =? 2 then
    (if qltb y (1 # 2) then (3 # 4) - y * y
     else if qltb y (3 # 2) then (1 # 2) * ((3 # 2) - y) * ((3 # 2) - y) else 0)%Q
  else if order =? 3 then
    (if qltb y 1 then (y * y * (y - 2) * 3 + 4) / 6
     else if qltb y 2 then (2 - y) * (2 - y) * (2 - y) / 6 else 0)%Q
  else
    (if qltb y (1 # 2) then (y * y) * ((y * y) * (1 # 4) - (5 # 8)) + (115 # 192)
     else if qltb y (3 # 2) then y * (y * (y * ((5 # 6) - y / 6) - (5 # 4)) + (5 # 24)) + (55 # 96)
     else if qltb y (5 # 2) then ((y - (5 # 2)) * (y - (5 # 2))) * ((y - (5 # 2)) * (y - (5 # 2))) / 24 else 0)%Q.

Definition spline_weights (order : Z) (x : Q) : list Q :=
  let start := spline_start order x in
  map (fun hh => bspline order (Qabs (zq start - x + zq hh))) (Zseq 0 (Z.to_nat (order + 1))).

(* map_coordinate: None = outside (constant / ignore) *)
Definition qtrunc (q : Q) : Z := Qfloor q.      (* only applied to non-negative values: C truncation = floor *)
Definition map_coordinate (mode len : Z) (x : Q) : option Q :=
  if qltb x 0 then
    if mode =? ExtendMirror then
      if len <=? 1 then Some 0%Q
      else let sz2 := 2 * len - 2 in
           let i := (zq sz2 * zq (qtrunc (- x / zq sz2)) + x)%Q in
           Some (if negb (qltb (zq (1 - len)) i) then i + zq sz2 else - i)%Q
    else if mode =? ExtendReflect then
      if len <=? 1 then Some 0%Q
      else let sz2 := 2 * len in
           let i := (if qltb x (- zq sz2) then zq sz2 * zq (qtrunc (- x / zq sz2)) + x else x)%Q in
           let r := (if qltb i (- zq len) then i + zq sz2 else - i - 1)%Q in
           Some (if qltb (- (1)) r then r else 0)%Q   (* a multiple of the period lands on -1, which mirrors 0 *)
    else if mode =? ExtendWrap then
      if len <=? 1 then Some 0%Q
      else let sz := len - 1 in Some (x + zq sz * (zq (qtrunc (- x / zq sz)) + 1))%Q
    else if mode =? ExtendNearest then Some 0%Q
    else None
  else if qltb (zq (len - 1)) x then
    if mode =? ExtendMirror then
      if len <=? 1 then Some 0%Q
      else let sz2 := 2 * len - 2 in
           let i := (x - zq sz2 * zq (qtrunc (x / zq sz2)))%Q in
           Some (if negb (qltb i (zq len)) then zq sz2 - i else i)%Q
    else if mode =? ExtendReflect then
      if len <=? 1 then Some 0%Q
      else let sz2 := 2 * len in
           let i := (x - zq sz2 * zq (qtrunc (x / zq sz2)))%Q in
           Some (if negb (qltb i (zq len)) then zq sz2 - i - 1 else i)%Q
    else if mode =? ExtendWrap then
      if len <=? 1 then Some 0%Q
      else let sz := len - 1 in Some (x - zq sz * zq (qtrunc (x / zq sz)))%Q
    else if mode =? ExtendNearest then Some (zq (len - 1))
    else None
  else Some x.

(* indices of the support falling outside [0, len) are mirrored *)
Definition edge_index (len idx : Z) : Z :=
  if len <=? 1 then 0
  else let s2 := 2 * len - 2 in
       if idx <? 0 then
         let i := s2 * Z.quot (- idx) s2 + idx in if i <=? 1 - len then i + s2 else - i
       else if idx >=? len then
         let i := idx - s2 * Z.quot idx s2 in if i >=? len then s2 - i else i
       else idx.

Definition qsum (l : list Q) : Q := fold_right Qplus 0%Q l.

Definition interp1 (order mode : Z) (dat : list Q) (x : Q) : Q :=
  let len := Zlen dat in
  match map_coordinate mode len x with
  | None => 0%Q                                                   (* cval = 0 *)
  | Some cc =>
      let start := spline_start order cc in
      qsum (map (fun hw => (snd hw * nthZ 0%Q dat (edge_index len (start + fst hw)))%Q)
                (combine (Zseq 0 (Z.to_nat (order + 1))) (spline_weights order cc)))
  end.

(* shift: output[k] = interpolant at k - shift ; zoom: output[k] = interpolant at k * (n_in - 1)/(n_out - 1) *)
Definition shift1 (order mode : Z) (dat : list Q) (s : Q) : list Q :=
  map (fun k => interp1 order mode dat (zq k - s)%Q) (Zseq 0 (length dat)).
Definition zoom_factor (n_in n_out : Z) : Q := if n_out =? 1 then 1%Q else (zq (n_in - 1) / zq (n_out - 1))%Q.
Definition zoom1 (order mode : Z) (dat : list Q) (n_out : Z) : list Q :=
  map (fun k => interp1 order mode dat (zq k * zoom_factor (Zlen dat) n_out)%Q) (Zseq 0 (Z.to_nat n_out)).
