(* Executable models of _morph.cpp locmin_max / remove_fake_regmin_max / close_holes / hitmiss and of the
   Python glue (_remove_centre), with executable specifications. *)
Require Import MV.Base.Prelude MV.Base.CInt MV.Base.Index MV.Base.BorderSpec MV.Base.Renumber.
Require Import MV.Gen.Scalar_gen MV.Model.Filter MV.Model.Morph MV.Model.Label.

(* morph.py _remove_centre: Bc[shape//2] = False *)
Definition remove_centre (bc : arr) : arr :=
  {| shape := shape bc; data := updZ (data bc) (ravel (shape bc) (centre (shape bc))) 0 |}.

(* ---------- locmin_max<T> (offset table built from the input array; ExtendNearest) ---------- *)
Definition better (is_min : bool) (v cur : Z) : bool := if is_min then v <? cur else v >? cur.

Definition locmm_at (is_min : bool) (f bc : arr) (p : list Z) : bool :=
  forallb (fun e => negb (better is_min (getn f p (fst e)) (aget f p))) (entries true bc).
Definition locmm (is_min : bool) (f bc : arr) : list Z :=
  map (fun p => if locmm_at is_min f (remove_centre bc) p then 1 else 0) (all_positions (shape f)).

(* specification: no neighbour (edge-replicated) is strictly better *)
Definition locmm_spec (is_min : bool) (f bc : arr) (p : list Z) : bool :=
  forallb (fun k => (aget bc k =? 0) || list_eqb k (centre (shape bc)) ||
                    negb (better is_min (aget f (clampos (shape f) (padd p (psub k (centre (shape bc)))))) (aget f p)))
          (all_positions (shape bc)).

(* ---------- remove_fake_regmin_max<T> ---------- *)
Definition nbr_offsets (bc : arr) : list (list Z) := map fst (entries true (remove_centre bc)).

Fixpoint flood_unmark (fuel : nat) (sh : list Z) (offs : list (list Z)) (marks : list Z) (stack : list (list Z)) : list Z :=
  match fuel with
  | O => marks
  | S k =>
      match stack with
      | [] => marks
      | p :: rest =>
          let '(marks', stack') :=
            fold_left (fun ms off => let np := padd p off in
                                     if in_shapeb sh np && negb (nthZ 0 (fst ms) (ravel sh np) =? 0)
                                     then (updZ (fst ms) (ravel sh np) 0, np :: snd ms) else ms)
                      offs (marks, rest) in
          flood_unmark k sh offs marks' stack'
      end
  end.

Definition weakly_better (is_min : bool) (v cur : Z) : bool := if is_min then v <=? cur else v >=? cur.

Definition regmm_step (is_min : bool) (f : arr) (offs : list (list Z)) (marks : list Z) (p : list Z) : list Z :=
  let sh := shape f in
  if nthZ 0 marks (ravel sh p) =? 0 then marks
  else if existsb (fun off => let np := padd p off in
                              in_shapeb sh np && (nthZ 0 marks (ravel sh np) =? 0) &&
                              weakly_better is_min (aget f np) (aget f p)) offs
       then flood_unmark (2 * length marks + 2) sh offs (updZ marks (ravel sh p) 0) [p]
       else marks.

Definition regmm (is_min : bool) (f bc : arr) : list Z :=
  fold_left (regmm_step is_min f (nbr_offsets bc)) (all_positions (shape f)) (locmm is_min f bc).

(* specification: plateaus (components of equal value under the neighbourhood) with no strictly better in-image
   neighbour.  Plateau classes through the quick-find of Model/Label.v over the equal-value adjacencies. *)
Definition inimg_nbrs (f : arr) (offs : list (list Z)) (p : list Z) : list (list Z) :=
  filter (in_shapeb (shape f)) (map (padd p) offs).

Definition plateau_pairs (f : arr) (offs : list (list Z)) : list (Z * Z) :=
  flat_map (fun p => flat_map (fun q => if aget f q =? aget f p then [(ravel (shape f) p, ravel (shape f) q)] else [])
                              (inimg_nbrs f offs p))
           (all_positions (shape f)).
Definition plateau_classes (f : arr) (offs : list (list Z)) : list Z :=
  fold_left (fun cls ij => qf_join cls (fst ij) (snd ij)) (plateau_pairs f offs) (Zseq 0 (length (data f))).

Definition regmm_spec (is_min : bool) (f bc : arr) : list Z :=
  let offs := nbr_offsets bc in
  let cls := plateau_classes f offs in
  let ok q := forallb (fun r => negb (better is_min (aget f r) (aget f q))) (inimg_nbrs f offs q) in
  map (fun p => if forallb (fun q => negb (nthZ 0 cls (ravel (shape f) q) =? nthZ 0 cls (ravel (shape f) p)) || ok q)
                           (all_positions (shape f)) then 1 else 0)
      (all_positions (shape f)).

(* ---------- close_holes (2-D; Python: ascontiguousarray(bool)) ---------- *)
(* generic flood that MARKS background pixels reachable from the stack *)
Fixpoint flood_mark (fuel : nat) (ref : arr) (offs : list (list Z)) (marks : list Z) (stack : list (list Z)) : list Z :=
  match fuel with
  | O => marks
  | S k =>
      match stack with
      | [] => marks
      | p :: rest =>
          let sh := shape ref in
          let '(marks', stack') :=
            fold_left (fun ms off => let np := padd p off in
                                     if in_shapeb sh np && (aget ref np =? 0) && (nthZ 0 (fst ms) (ravel sh np) =? 0)
                                     then (updZ (fst ms) (ravel sh np) 1, np :: snd ms) else ms)
                      offs (marks, rest) in
          flood_mark k ref offs marks' stack'
      end
  end.

Definition on_border (sh p : list Z) : bool :=
  existsb (fun dp => (snd dp =? 0) || (snd dp =? fst dp - 1)) (combine sh p).

Definition close_holes (ref bc : arr) : list Z :=
  let sh := shape ref in
  let seeds := filter (fun p => on_border sh p && (aget ref p =? 0)) (all_positions sh) in
  let marks0 := map (fun p => if on_border sh p && (aget ref p =? 0) then 1 else 0) (all_positions sh) in
  let marks := flood_mark (2 * length (data ref) + 2) ref (map fst (entries true (remove_centre bc))) marks0 seeds in
  map (fun m => if m =? 0 then 1 else 0) marks.

(* specification: complement of the background connected (through the neighbourhood) to a border background pixel *)
Definition bg_pairs (ref : arr) (offs : list (list Z)) : list (Z * Z) :=
  flat_map (fun p => if aget ref p =? 0
                     then flat_map (fun q => if aget ref q =? 0 then [(ravel (shape ref) p, ravel (shape ref) q)] else [])
                                   (inimg_nbrs ref offs p)
                     else [])
           (all_positions (shape ref)).
Definition close_holes_spec (ref bc : arr) : list Z :=
  let sh := shape ref in
  let offs := map fst (entries true (remove_centre bc)) in
  let cls := fold_left (fun c ij => qf_join c (fst ij) (snd ij)) (bg_pairs ref offs) (Zseq 0 (length (data ref))) in
  let border_bg := filter (fun p => on_border sh p && (aget ref p =? 0)) (all_positions sh) in
  map (fun p => if (aget ref p =? 0) &&
                   existsb (fun b => nthZ 0 cls (ravel sh b) =? nthZ 0 cls (ravel sh p)) border_bg then 0 else 1)
      (all_positions sh).

(* ---------- hitmiss<T> ----------
   closed form of the border-skipping loop: all axes but the last need margin >= Bc.dim(d)/2 on both sides;
   along the last axis the run of evaluated pixels is [B/2, B/2 + dim - B] (slack = dim - B + 1) *)
Definition margin_ok (dim b x : Z) : bool := (Z.quot b 2 <=? x) && (Z.quot b 2 <=? dim - x - 1).
Fixpoint hm_inside (sh bsh p : list Z) : bool :=
  match sh, bsh, p with
  | [d], [b], [x] => margin_ok d b (Z.quot b 2) && (Z.quot b 2 <=? x) && (x <=? Z.quot b 2 + d - b)
  | d :: sh', b :: bsh', x :: p' => margin_ok d b x && hm_inside sh' bsh' p'
  | _, _, _ => true
  end.
Definition hm_match (f t : arr) (p : list Z) : bool :=
  forallb (fun k => (aget t k =? 2) || (aget f (padd p (psub k (centre (shape t)))) =? aget t k)) (all_positions (shape t)).
Definition hitmiss (f t : arr) : list Z :=
  map (fun p => if hm_inside (shape f) (shape t) p && hm_match f t p then 1 else 0) (all_positions (shape f)).

(* specification: the whole template lies inside the image and every 0/1 entry coincides *)
Definition template_inside (f t : arr) (p : list Z) : bool :=
  forallb (fun k => in_shapeb (shape f) (padd p (psub k (centre (shape t))))) (all_positions (shape t)).
Definition hitmiss_spec (f t : arr) : list Z :=
  map (fun p => if template_inside f t p && hm_match f t p then 1 else 0) (all_positions (shape f)).
