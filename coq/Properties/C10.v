(* C10 -- memory safety: the logic half (index arithmetic in bounds).  fix_offset is GENERATED. *)
Require Import MV.Base.Prelude MV.Base.CInt MV.Base.Index MV.Base.BorderSpec.
Require Import MV.Gen.Scalar_gen MV.Model.Filter MV.Model.Morph MV.Model.Convolve.
Require Import MV.Proof.Border MV.Proof.ConvProof MV.Proof.SafetyProof MV.Proof.MorphProof.
Require Import MV.Model.MorphFast MV.Gen.FastPath_gen MV.Proof.MorphFastProof MV.Proof.FastPathTie.
Require Import MV.Model.Distance MV.Proof.DistanceProof MV.Proof.EnvelopeProof MV.Proof.DistanceExact.
Require Import MV.Gen.Offsets_gen MV.Model.OffsetsTable MV.Proof.OffsetsAxis MV.Proof.OffsetsProof.

(* every index produced by the border function is inside [0,len), or is the explicit flag which the
   kernels test for (constant / ignore mode, coordinate really outside) *)
Theorem C10_fix_offset_in_range : forall m cc len, valid_mode m -> 1 <= len ->
  let r := fix_offset m cc len in
  (0 <= r < len) \/ ((m = ExtendConstant \/ m = ExtendIgnore) /\ ~ (0 <= cc < len) /\ r = border_flag_value).
Proof. exact fix_offset_in_range. Qed.

Theorem C10_fix_offset_identity_inside : forall m cc len, valid_mode m -> 0 <= cc < len -> fix_offset m cc len = cc.
Proof. exact fix_offset_id_inside. Qed.

(* any dimension: every position a filter kernel dereferences lies inside the array *)
Theorem C10_filter_reads_in_bounds : forall m sh pos q, valid_mode m -> ConvProof.shape_ok sh ->
  length pos = length sh -> fixpos m sh pos = Some q -> in_shape sh q /\ 0 <= ravel sh q < size sh.
Proof. exact fixpos_in_shape. Qed.

(* convolve1d raw-pointer fast path under the wrapper's guard len(weights) < shape[axis] *)
Theorem C10_conv1d_interior_reads_in_bounds : forall Nf N1 x j,
  1 <= Nf < N1 -> Z.quot Nf 2 <= x < N1 - Z.quot Nf 2 -> 0 <= j < Nf -> 0 <= x + j - Z.quot Nf 2 < N1.
Proof. exact conv1d_interior_in_bounds. Qed.

Theorem C10_conv1d_loop_bounds_consistent : forall Nf N1, 1 <= Nf < N1 -> Z.quot Nf 2 <= N1 - Z.quot Nf 2.
Proof. exact conv1d_interior_loop_terminates. Qed.

Theorem C10_conv1d_every_column_written : forall Nf N1 x, 1 <= Nf < N1 -> 0 <= x < N1 ->
  let c := Z.quot Nf 2 in
  (c <= x < N1 - c) \/ (exists x_, 0 <= x_ < 2 * c /\ x = (if x_ <? c then x_ else (N1 - 1) - (x_ - c))).
Proof. exact conv1d_columns_covered. Qed.

(* cwatershed: every flat neighbour index the flood dereferences WITHOUT a bounds check (flat delta + stored margin lower
   bound) lies inside the image *)
Require Import MV.Model.Watershed MV.Proof.WatershedProof.
Theorem C10_watershed_unchecked_neighbours_in_bounds : forall sh pos m n, pos_shape sh -> 0 <= pos < size sh ->
  m <= truem sh pos -> nb_ok sh n ->
  match fst (resolve_margin sh pos m n) with Some (np, _) => 0 <= np < size sh | None => True end.
Proof.
  intros sh pos m n Ps Hp Hm Hn.
  pose proof (resolve_sound sh pos m 0 n Ps Hp Hm Hn) as H. cbv zeta in H. destruct H as (_ & _ & _ & H).
  destruct (fst (resolve_margin sh pos m n)) as [[np nm]|]; [|exact I].
  destruct (fst (resolve_checked sh pos 0 n)) as [[np' nm']|]; [|contradiction]. tauto.
Qed.

(* at_flat on a non-contiguous array: the addressed element is at an in-range position on every axis *)
Require Import MV.Model.ArrayHpp MV.Proof.ArrayProof.
Theorem C10_at_flat_position_in_range : forall sh strides p, length strides = length sh -> Forall (fun d => 0 < d) sh ->
  0 <= p < fold_right Z.mul 1 sh ->
  exists pos_rev, Forall2 (fun q d => 0 <= q < d) pos_rev (rev sh) /\ at_flat p sh strides = dot pos_rev (rev strides).
Proof.
  intros sh strides p L Hd Hp. destruct (at_flat_addresses_logical_element sh strides p L Hd Hp) as (pos & F & A & _).
  exists pos. split; assumption.
Qed.

(* the 2-D boolean fast path of erode/dilate (pointer arithmetic on raw rows): every cell written and every cell read by the
   loops RE-TRANSLATED from _morph.cpp lies inside the Ny x Nx buffers, for every element (larger than the image included) *)
Theorem C10_fast_path_cells_in_bounds : forall is_er Ny Nx pos t s, 1 <= Ny -> 1 <= Nx ->
  In (t, s) (gen_fb_updates is_er Ny Nx pos) -> 0 <= t < Ny * Nx /\ 0 <= s < Ny * Nx.
Proof. intros is_er Ny Nx pos t s H1 H2. rewrite gen_updates_are_model_updates. now apply fb_updates_in_bounds. Qed.

(* the parabola stack of the distance transform (v[0..n-1] and z[0..n], allocated once per call for the longest axis): after the
   first pass of any line it holds at most n entries and every stored vertex is an index of the line -- so v[k], z[k], z[k+1] and
   f[v[k]] stay inside their arrays *)
Theorem C10_distance_stack_in_bounds : forall f, (1 <= length f)%nat ->
  Z.of_nat (length (build_hull f)) <= Zlen f /\ forall e, In e (build_hull f) -> 0 <= fst e < Zlen f.
Proof. exact envelope_stack_in_bounds. Qed.

(* the offsets table (per-axis arithmetic re-translated from _filters.cpp on this run): every stored entry is the flag, which
   retrieve() tests for before dereferencing, or leads from the pixel's element to an element INSIDE the array -- any rank,
   shapes, footprint, mode and strides; and the table pointer itself stays on a row of the table (C01_offsets_table_row...) *)
Theorem C10_offsets_table_entries_point_inside : forall mode axes pos coords,
  valid_mode mode -> axes_ok axes -> digits_in pos (adims axes) -> length coords = length axes ->
  entry mode axes pos coords 0 = border_flag_value \/
  exists q, digits_in q (adims axes) /\ addr axes pos + entry mode axes pos coords 0 = addr axes q.
Proof. exact entry_reads_inside. Qed.

(* the table pointer after n steps is  rowlen * (index of the pixel's region)  with that index below the number of rows *)
Theorem C10_offsets_table_pointer_in_table : forall axes rl n, axes_ok axes -> Z.of_nat n < prodZ (adims axes) ->
  fst (walk axes rl n) = rl * rvalue axes (le_digits (adims axes) (Z.of_nat n)) /\
  0 <= rvalue axes (le_digits (adims axes) (Z.of_nat n)) < offsets_size axes.
Proof.
  intros axes rl n Hax Hn. rewrite walk_spec by auto. split; [reflexivity|].
  apply le_value_range; [apply nregs_ok; auto|]. apply map2_ridx_in; auto.
  apply le_digits_in; [apply adims_ok; auto | lia].
Qed.
