(* C10 -- memory safety: the logic half (index arithmetic in bounds).  fix_offset is GENERATED. *)
Require Import MV.Base.Prelude MV.Base.CInt MV.Base.Index MV.Base.BorderSpec.
Require Import MV.Gen.Scalar_gen MV.Model.Filter MV.Model.Morph MV.Model.Convolve.
Require Import MV.Proof.Border MV.Proof.ConvProof MV.Proof.SafetyProof MV.Proof.MorphProof.

(* every index produced by the border function is inside [0,len), or is the explicit flag which the
   kernels test for (constant / ignore mode, coordinate really outside) *)
Theorem C10_fix_offset_in_range : forall m cc len, valid_mode m -> 1 <= len ->
  let r := fix_offset m cc len in
  (0 <= r < len) \/ ((m = ExtendConstant \/ m = ExtendIgnore) /\ ~ (0 <= cc < len) /\ r = border_flag_value).
Proof. exact fix_offset_in_range. Qed.

Theorem C10_fix_offset_identity_inside : forall m cc len, valid_mode m -> 0 <= cc < len -> fix_offset m cc len = cc.
Proof. exact fix_offset_id_inside. Qed.

(* any dimension: every position a filter kernel dereferences lies inside the array *)
Theorem C10_filter_reads_in_bounds : forall m sh pos q, valid_mode m -> ConvProof.shape_ok sh ->
  length pos = length sh -> fixpos m sh pos = Some q -> in_shape sh q /\ 0 <= ravel sh q < size sh.
Proof. exact fixpos_in_shape. Qed.

(* convolve1d raw-pointer fast path under the wrapper's guard len(weights) < shape[axis] *)
Theorem C10_conv1d_interior_reads_in_bounds : forall Nf N1 x j,
  1 <= Nf < N1 -> Z.quot Nf 2 <= x < N1 - Z.quot Nf 2 -> 0 <= j < Nf -> 0 <= x + j - Z.quot Nf 2 < N1.
Proof. exact conv1d_interior_in_bounds. Qed.

Theorem C10_conv1d_loop_bounds_consistent : forall Nf N1, 1 <= Nf < N1 -> Z.quot Nf 2 <= N1 - Z.quot Nf 2.
Proof. exact conv1d_interior_loop_terminates. Qed.

Theorem C10_conv1d_every_column_written : forall Nf N1 x, 1 <= Nf < N1 -> 0 <= x < N1 ->
  let c := Z.quot Nf 2 in
  (c <= x < N1 - c) \/ (exists x_, 0 <= x_ < 2 * c /\ x = (if x_ <? c then x_ else (N1 - 1) - (x_ - c))).
Proof. exact conv1d_columns_covered. Qed.
