(* C07 -- rank / median / mean filters, template_match and find equal their definitions.
   fix_offset (inside retrieve) is GENERATED from the C++ sources. *)
Require Import MV.Base.Prelude MV.Base.CInt MV.Base.Index MV.Base.BorderSpec.
Require Import MV.Gen.Scalar_gen MV.Model.Filter MV.Model.Filters MV.Proof.ConvProof MV.Proof.FiltersProof.
Require Import MV.Proof.TmBool.

(* the samples a filter kernel gathers at pixel p are exactly those selected by the neighbourhood under
   the mathematical border rule (any dimension, mode, neighbourhood shape incl. even / larger than the image) *)
Theorem C07_samples_are_the_selected_neighbours : forall m f bc p, valid_mode m -> shape_ok (shape f) ->
  gather m f bc 0 p = samples_spec m f bc p.
Proof. exact gather_spec. Qed.

(* the element std::nth_element is specified to put at position r IS the r-th smallest by counting, and that value is unique *)
Theorem C07_selection_is_rth_smallest : forall l r, 0 <= r < Zlen l -> is_rth_smallest l r (nthZ 0 (isort l) r).
Proof. exact isort_nth_is_rth_smallest. Qed.
Theorem C07_rth_smallest_unique : forall l r v w, is_rth_smallest l r v -> is_rth_smallest l r w -> v = w.
Proof. exact rth_smallest_unique. Qed.

(* rank_filter: a written cell holds the rank-th smallest sample; when samples were dropped (mode ignore)
   the rank is rescaled in proportion: trunc(n * rank / N2) *)
Theorem C07_rank_filter_pixel : forall m f bc rank p v, valid_mode m -> shape_ok (shape f) ->
  rank_at m f bc rank p = Some v ->
  let s := samples_spec m f bc p in
  let N2 := Zlen (entries true bc) in
  0 <= rank < N2 /\ (0 < Zlen s -> is_rth_smallest s (eff_rank (Zlen s) N2 rank) v).
Proof. exact rank_at_spec. Qed.

Theorem C07_rank_filter_pixel_all_samples : forall m f bc rank p v, valid_mode m -> shape_ok (shape f) ->
  rank_at m f bc rank p = Some v -> Zlen (samples_spec m f bc p) = Zlen (entries true bc) ->
  is_rth_smallest (samples_spec m f bc p) rank v.
Proof. exact rank_at_full. Qed.

(* mean_filter: numerator and denominator are the sum and the number of the selected samples *)
Theorem C07_mean_filter_pixel : forall m f bc p, valid_mode m -> shape_ok (shape f) ->
  mean_at m f bc p = (sumZ (samples_spec m f bc p), Zlen (samples_spec m f bc p)).
Proof. exact mean_at_spec. Qed.

(* template_match: sum of squared differences between the template and the window centred at p, the window taken under
   the border rule (border-mapped pixels; zeros in constant mode; left out in ignore mode); no-overflow regime stated *)
Theorem C07_template_match_is_ssd : forall ty m f t p, wf_ity ty -> valid_mode m -> shape_ok (shape f) ->
  (forall k v, In k (all_positions (shape t)) ->
      window_sample m f p (psub k (centre (shape t))) = Some v -> Z.abs (v - aget t k) <= tmax ty) ->
  ssd_spec m f t p <= tmax ty ->
  tm_at (DInt ty) m f t p = ssd_spec m f t p.
Proof. exact tm_at_spec. Qed.

(* template_match on boolean images: bool arithmetic turns the accumulated sum into an OR, so the result is 1 exactly where the
   sum of squared differences of the definition is non-zero -- every dimension, border mode and template *)
Theorem C07_template_match_bool_is_nonzero_ssd : forall m f t p, valid_mode m -> shape_ok (shape f) ->
  Forall bit01 (data f) -> Forall bit01 (data t) ->
  tm_at DBool m f t p = if ssd_spec m f t p =? 0 then 0 else 1.
Proof. exact tm_at_bool. Qed.

(* find: marked <=> the template occurs there, including flush with the bottom/right edge and template = image *)
Theorem C07_find_marks_iff_occurs : forall f t y x, shape f = [nthZ 0 (shape f) 0; nthZ 0 (shape f) 1] ->
  pos_shape (shape f) -> pos_shape (shape t) -> in_shape (shape f) [y; x] ->
  nthZ 0 (find2d f t) (ravel (shape f) [y; x]) = 1 <-> occurs_at f t y x.
Proof. exact find2d_marks_iff_occurs. Qed.
