(* C01 -- erosion and dilation equal the lattice-morphology definition.  Only statements here;
   proofs live in Proof/.  fix_offset, erode_sub, dilate_add are GENERATED from the C++ sources. *)
Require Import MV.Base.Prelude MV.Base.CInt MV.Base.Index MV.Base.BorderSpec.
Require Import MV.Gen.Scalar_gen MV.Model.Filter MV.Model.Morph.
Require Import MV.Proof.BorderNearest MV.Proof.ScalarSat MV.Proof.MorphProof.

Theorem C01_erode_sub_saturates : forall t a b,
  wf_ity t -> in_range t a -> 0 <= b <= tmax t -> b <> tmin t -> erode_sub t a b = sat t (a - b).
Proof. exact erode_sub_sat. Qed.

Theorem C01_dilate_add_saturates : forall t a b,
  wf_ity t -> in_range t a -> a <> tmin t -> 0 <= b <= tmax t -> b <> tmin t ->
  dilate_add t a b = sat t (a + b).
Proof. exact dilate_add_sat. Qed.

Theorem C01_smallest_value_means_absent : forall t a b,
  erode_sub t a (tmin t) = tmax t /\ (a = tmin t \/ b = tmin t -> dilate_add t a b = tmin t).
Proof. intros t a b. split; [apply erode_sub_absent | apply dilate_add_absent]. Qed.

Theorem C01_border_is_edge_replication : forall cc len,
  1 <= len -> fix_offset ExtendNearest cc len = clamp cc len.
Proof. exact fix_nearest_is_clamp. Qed.

(* erosion satisfies the definition at EVERY pixel: any dimension, dtype, element (odd/even,
   flat/non-flat, empty, larger than the image) *)
Theorem C01_erode_every_pixel : forall d f bc,
  wf_dt d -> img_ok d f -> se_ok d bc -> erode_generic d f bc = erode_spec_all d f bc.
Proof. exact erode_generic_correct. Qed.

(* the scatter loop of dilate<T> yields, at every output cell, the maximum of the contributions aimed at it *)
Theorem C01_dilate_is_max_of_contributions : forall d f bc i,
  shape_ok (shape f) -> 0 <= i < size (shape f) ->
  (forall e, In e (entries (is_bool d) bc) -> length (fst e) = length (shape f)) ->
  nthZ 0 (dilate_generic d f bc) i =
  maxl (dmin d) (map snd (filter (fun u => fst u =? i)
                                 (flat_map (contribs d f bc) (all_positions (shape f))))).
Proof. exact dilate_generic_char. Qed.
