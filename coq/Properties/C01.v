(* C01 -- erosion and dilation equal the lattice-morphology definition.  Only statements here;
   proofs live in Proof/.  fix_offset, erode_sub, dilate_add are GENERATED from the C++ sources. *)
Require Import MV.Base.Prelude MV.Base.CInt MV.Base.Index MV.Base.BorderSpec.
Require Import MV.Gen.Scalar_gen MV.Model.Filter MV.Model.Morph.
Require Import MV.Proof.BorderNearest MV.Proof.ScalarSat MV.Proof.MorphProof.
Require Import MV.Model.MorphFast MV.Proof.MorphLaws MV.Proof.MorphFastProof MV.Gen.FastPath_gen MV.Proof.FastPathTie.
Require Import MV.Gen.Offsets_gen MV.Model.OffsetsTable MV.Proof.OffsetsAxis MV.Proof.OffsetsProof MV.Proof.ConvProof MV.Proof.OffsetsRetrieve.

Theorem C01_erode_sub_saturates : forall t a b,
  wf_ity t -> in_range t a -> 0 <= b <= tmax t -> b <> tmin t -> erode_sub t a b = sat t (a - b).
Proof. exact erode_sub_sat. Qed.

Theorem C01_dilate_add_saturates : forall t a b,
  wf_ity t -> in_range t a -> a <> tmin t -> 0 <= b <= tmax t -> b <> tmin t ->
  dilate_add t a b = sat t (a + b).
Proof. exact dilate_add_sat. Qed.

Theorem C01_smallest_value_means_absent : forall t a b,
  erode_sub t a (tmin t) = tmax t /\ (a = tmin t \/ b = tmin t -> dilate_add t a b = tmin t).
Proof. intros t a b. split; [apply erode_sub_absent | apply dilate_add_absent]. Qed.

Theorem C01_border_is_edge_replication : forall cc len,
  1 <= len -> fix_offset ExtendNearest cc len = clamp cc len.
Proof. exact fix_nearest_is_clamp. Qed.

(* erosion satisfies the definition at EVERY pixel: any dimension, dtype, element (odd/even,
   flat/non-flat, empty, larger than the image) *)
Theorem C01_erode_every_pixel : forall d f bc,
  wf_dt d -> img_ok d f -> se_ok d bc -> erode_generic d f bc = erode_spec_all d f bc.
Proof. exact erode_generic_correct. Qed.

(* the scatter loop of dilate<T> yields, at every output cell, the maximum of the contributions aimed at it *)
Theorem C01_dilate_is_max_of_contributions : forall d f bc i,
  shape_ok (shape f) -> 0 <= i < size (shape f) ->
  (forall e, In e (entries (is_bool d) bc) -> length (fst e) = length (shape f)) ->
  nthZ 0 (dilate_generic d f bc) i =
  maxl (dmin d) (map snd (filter (fun u => fst u =? i)
                                 (flat_map (contribs d f bc) (all_positions (shape f))))).
Proof. exact dilate_generic_char. Qed.

(* path independence: the 2-D boolean fast path of _morph.cpp (taken for C-contiguous boolean images; Model/MorphFast.v) computes
   exactly what the generic iterator path computes -- every image, every element (even-sized, asymmetric, without its centre,
   larger than the image), borders included *)
Theorem C01_fast_path_equals_generic_path : forall a bc Ny Nx By Bx,
  shape a = [Ny; Nx] -> shape_ok [Ny; Nx] -> bimg [Ny; Nx] (data a) -> shape bc = [By; Bx] -> 1 <= By -> 1 <= Bx ->
  fast2d true a bc = erode_generic DBool a bc /\ fast2d false a bc = dilate_generic DBool a bc.
Proof. exact fast_path_is_generic. Qed.

(* ... and that fast-path model performs exactly the cell updates of the loops RE-TRANSLATED from _morph.cpp on this run
   (Gen/FastPath_gen.v: row clamp, segment bounds x0 / x1, the three column loops of each branch) *)
Theorem C01_fast_path_model_is_the_translated_loops : forall is_er Ny Nx pos,
  gen_fb_updates is_er Ny Nx pos = fb_updates is_er Ny Nx pos.
Proof. exact gen_updates_are_model_updates. Qed.

Theorem C01_fast_path_seed_and_member_list_recognised : gen_fb_seed_recognised = true.
Proof. exact gen_seed_recognised. Qed.

(* The shared filter machinery erode/dilate (and every other neighbourhood kernel) read through: the offsets table of
   _filters.cpp, whose per-axis arithmetic is RE-TRANSLATED from init_filter_offsets / init_filter_iterator / iterate_both on
   this run (Gen/Offsets_gen.v).  At the n-th pixel of the filtering loop the iterator is at that pixel's position and its
   table pointer selects a row equal, entry by entry, to the row computed directly AT THAT PIXEL -- for every number of
   dimensions, every array and filter shape (filters larger than the image, axes of length 1, even sizes), every footprint,
   all six border modes and arbitrary (negative, Fortran, padded) array strides. *)
Theorem C01_offsets_table_row_is_the_pixels_own_row : forall mode axes fp n,
  valid_mode mode -> axes_ok axes -> Zlen fp = prodZ (fdims axes) -> Z.of_nat n < prodZ (adims axes) ->
  let cp := walk axes (rowlen_of fp) n in
  snd cp = le_digits (adims axes) (Z.of_nat n) /\
  firstn (Z.to_nat (rowlen_of fp)) (skipn (Z.to_nat (fst cp)) (table mode axes fp)) = row mode axes fp (snd cp).
Proof. exact offsets_row_at_pixel. Qed.

(* ... and such an entry is the flag exactly when the border rule says "outside", otherwise the distance in elements from the
   pixel to the border-mapped window position: fix(k_d - f_d/2 + p_d) per axis, whatever order the axes are visited in *)
Theorem C01_offsets_entry_is_border_mapped_window_position : forall mode axes pos coords,
  valid_mode mode -> axes_ok axes -> digits_in pos (adims axes) -> length coords = length axes ->
  entry mode axes pos coords 0
  = match mapped mode axes pos coords with Some q => addr axes q - addr axes pos | None => border_flag_value end.
Proof.
  intros mode axes pos coords Hm Hax Hp Hl. rewrite entry_char, entry_sum_is_address by auto.
  destruct (mapped mode axes pos coords); reflexivity.
Qed.

(* ... which closes the loop with the LOGICAL retrieve through which erode_generic / dilate_generic (and every other kernel
   model) read their samples: for a C-ordered array, the logical retrieve at pixel p and filter coordinate k is exactly the
   pointer access  element[ravel p + table entry]  of the real iterator, and it reports "outside" exactly when that entry is
   the flag *)
Theorem C01_logical_retrieve_is_the_table_access : forall mode f fsh p k,
  valid_mode mode -> ConvProof.shape_ok (shape f) -> size (shape f) < border_flag_value -> Forall (fun n => 1 <= n) fsh ->
  length fsh = length (shape f) -> in_shape (shape f) p -> in_shape fsh k ->
  let axes := rev (be_axes (shape f) fsh) in
  let e := entry mode axes (rev p) (rev k) 0 in
  retrieve mode f p (psub k (centre fsh))
  = if e =? border_flag_value then None else Some (nthZ 0 (data f) (ravel (shape f) p + e)).
Proof. exact retrieve_is_table_access. Qed.
