(* C14 -- local/regional extrema, hole closing and hit-or-miss. *)
Require Import MV.Base.Prelude MV.Base.CInt MV.Base.Index MV.Base.BorderSpec.
Require Import MV.Gen.Scalar_gen MV.Model.Filter MV.Model.Morph MV.Model.Label MV.Model.Extrema.
Require Import MV.Proof.MorphProof MV.Proof.ExtremaProof MV.Proof.FloodProof MV.Proof.RegionalProof MV.Proof.RegionalSound.

(* locmax/locmin mark exactly the pixels that no neighbour (member of the neighbourhood other than the centre,
   edge-replicated) exceeds / undercuts: any dimension, dtype values, neighbourhood *)
Theorem C14_local_extrema_pointwise : forall is_min f bc p, shape_ok (shape f) -> wf_bc bc ->
  locmm_at is_min f (remove_centre bc) p = locmm_spec is_min f bc p.
Proof. exact locmm_pointwise. Qed.

(* regional extrema are always a subset of local ones (the plateau flood only clears marks) *)
Theorem C14_regional_subset_of_local : forall is_min f bc i,
  nthZ 0 (regmm is_min f bc) i <> 0 -> nthZ 0 (regmm is_min f bc) i = nthZ 0 (locmm is_min f bc) i.
Proof. exact regmm_subset_locmm. Qed.

(* hitmiss is true exactly where the whole template lies inside the image and all its 0/1 entries coincide
   (entries equal to 2 ignored): any dimension, every template with odd sides (3x3, 1x3, 3x1, 3x5, ...) *)
Theorem C14_hitmiss_odd_templates : forall f t, pos_shape (shape f) -> length (shape t) = length (shape f) -> shape f <> [] ->
  Forall (fun b => 0 < b /\ Z.rem b 2 = 1) (shape t) ->
  hitmiss f t = hitmiss_spec f t.
Proof. exact hitmiss_odd_templates. Qed.

(* close_holes: the stack-based flood started from the border background pixels marks exactly the background reachable from
   the border through the neighbourhood (any image, any neighbourhood, any dimension; the fuel 2N+2 of the model is shown
   to suffice); the result is 0 exactly on those pixels and 1 everywhere else -- the foreground and the enclosed holes *)
Theorem C14_close_holes_fills_exactly_the_unreachable_background : forall ref bc, wf_arr ref ->
  forall p, in_shape (shape ref) p ->
  (nthZ 0 (close_holes ref bc) (ravel (shape ref) p) = 0 <-> reach ref (ch_offs bc) (ch_seeds ref) p) /\
  (nthZ 0 (close_holes ref bc) (ravel (shape ref) p) = 1 <-> ~ reach ref (ch_offs bc) (ch_seeds ref) p).
Proof. exact close_holes_correct. Qed.

(* regmax / regmin never discard a genuine regional extremum: a set R of local extrema such that every in-image neighbour of a
   member is a member or strictly worse (a plateau that is a regional extremum, or any union of such) is still entirely marked
   after the remove_fake_regmin_max scan and all its floods -- symmetric neighbourhood, any image, any dimension.
   (With C14_regional_subset_of_local this gives: local extrema in, nothing regional lost.) *)
Theorem C14_regional_extrema_are_never_discarded : forall is_min f bc (R : list Z -> Prop),
  shape_ok (shape f) -> pos_shape (shape f) ->
  (forall off p, In off (nbr_offsets bc) -> in_shape (shape f) p -> in_shape (shape f) (padd p off) ->
     exists off', In off' (nbr_offsets bc) /\ padd (padd p off) off' = p) ->
  (forall p, R p -> in_shape (shape f) p /\ nthZ 0 (locmm is_min f bc) (ravel (shape f) p) <> 0) ->
  (forall p off, R p -> In off (nbr_offsets bc) -> in_shape (shape f) (padd p off) ->
     R (padd p off) \/ weakly_better is_min (aget f (padd p off)) (aget f p) = false) ->
  forall p, R p -> nthZ 0 (regmm is_min f bc) (ravel (shape f) p) <> 0.
Proof. exact regmm_keeps_regional_extrema. Qed.

(* ... and what is kept is plateau-closed: a pixel that is still marked has no unmarked in-image neighbour that is weakly
   better (so equal-valued neighbours of a regional extremum are marked with it and the others are strictly worse) *)
Theorem C14_regional_extrema_are_plateau_closed : forall is_min f bc, pos_shape (shape f) ->
  (forall off p, In off (nbr_offsets bc) -> in_shape (shape f) p -> in_shape (shape f) (padd p off) ->
     exists off', In off' (nbr_offsets bc) /\ padd (padd p off) off' = p) ->
  forall p, in_shape (shape f) p -> nthZ 0 (regmm is_min f bc) (ravel (shape f) p) <> 0 ->
  forall off, In off (nbr_offsets bc) -> in_shape (shape f) (padd p off) ->
  nthZ 0 (regmm is_min f bc) (ravel (shape f) (padd p off)) = 0 ->
  weakly_better is_min (aget f (padd p off)) (aget f p) = false.
Proof. exact regmm_is_plateau_closed. Qed.

(* together: for a symmetric neighbourhood the marked set of regmax/regmin is the GREATEST set of local extrema in which every
   in-image neighbour of a member is a member or strictly worse -- i.e. exactly the union of the regional-extremum plateaus *)
Theorem C14_regional_extrema_characterised : forall is_min f bc,
  shape_ok (shape f) -> pos_shape (shape f) ->
  (forall off p, In off (nbr_offsets bc) -> in_shape (shape f) p -> in_shape (shape f) (padd p off) ->
     exists off', In off' (nbr_offsets bc) /\ padd (padd p off) off' = p) ->
  let M := fun p => in_shape (shape f) p /\ nthZ 0 (regmm is_min f bc) (ravel (shape f) p) <> 0 in
  let good (R : list Z -> Prop) :=
    (forall p, R p -> in_shape (shape f) p /\ nthZ 0 (locmm is_min f bc) (ravel (shape f) p) <> 0) /\
    (forall p off, R p -> In off (nbr_offsets bc) -> in_shape (shape f) (padd p off) ->
       R (padd p off) \/ weakly_better is_min (aget f (padd p off)) (aget f p) = false) in
  good M /\ forall R, good R -> forall p, R p -> M p.
Proof.
  intros is_min f bc So Ps Sym M good. split.
  - split.
    + intros p [Hp Mp]. split; [exact Hp|]. rewrite <- (regmm_subset_locmm is_min f bc _ Mp). exact Mp.
    + intros p off [Hp Mp] Ho Hn.
      destruct (Z.eq_dec (nthZ 0 (regmm is_min f bc) (ravel (shape f) (padd p off))) 0) as [Z0|NZ].
      * right. apply (regmm_is_plateau_closed is_min f bc Ps Sym p Hp Mp off Ho Hn Z0).
      * left. split; assumption.
  - intros R [R1 R2] p Rp. split; [apply R1; exact Rp|].
    apply (regmm_keeps_regional_extrema is_min f bc R So Ps Sym R1 R2 p Rp).
Qed.
