(* C14 -- local/regional extrema, hole closing and hit-or-miss. *)
Require Import MV.Base.Prelude MV.Base.CInt MV.Base.Index MV.Base.BorderSpec.
Require Import MV.Gen.Scalar_gen MV.Model.Filter MV.Model.Morph MV.Model.Label MV.Model.Extrema.
Require Import MV.Proof.MorphProof MV.Proof.ExtremaProof.

(* locmax/locmin mark exactly the pixels that no neighbour (member of the neighbourhood other than the centre,
   edge-replicated) exceeds / undercuts: any dimension, dtype values, neighbourhood *)
Theorem C14_local_extrema_pointwise : forall is_min f bc p, shape_ok (shape f) -> wf_bc bc ->
  locmm_at is_min f (remove_centre bc) p = locmm_spec is_min f bc p.
Proof. exact locmm_pointwise. Qed.

(* regional extrema are always a subset of local ones (the plateau flood only clears marks) *)
Theorem C14_regional_subset_of_local : forall is_min f bc i,
  nthZ 0 (regmm is_min f bc) i <> 0 -> nthZ 0 (regmm is_min f bc) i = nthZ 0 (locmm is_min f bc) i.
Proof. exact regmm_subset_locmm. Qed.

(* hitmiss is true exactly where the whole template lies inside the image and all its 0/1 entries coincide
   (entries equal to 2 ignored): any dimension, every template with odd sides (3x3, 1x3, 3x1, 3x5, ...) *)
Theorem C14_hitmiss_odd_templates : forall f t, pos_shape (shape f) -> length (shape t) = length (shape f) -> shape f <> [] ->
  Forall (fun b => 0 < b /\ Z.rem b 2 = 1) (shape t) ->
  hitmiss f t = hitmiss_spec f t.
Proof. exact hitmiss_odd_templates. Qed.
