(* C05 -- distance() is the exact squared Euclidean transform in any dimension. *)
Require Import MV.Base.Prelude MV.Base.CInt MV.Base.Index MV.Model.Distance MV.Proof.DistanceProof MV.Proof.EnvelopeProof MV.Proof.DistanceExact MV.Proof.GvoronoiProof.

(* one pass per axis over an n-D array, each pass computing the 1-D min-plus convolution with x^2, yields at every
   pixel the minimum over the WHOLE grid of (squared Euclidean distance + initial value): any dimension, any shape
   (elongated 1 x n, n x 1 x 1 included).  The 1-D pass is a parameter satisfying its specification. *)
Theorem C05_separable_passes_are_exact : forall T1 : list Z -> list Z,
  (forall f, Zlen (T1 f) = Zlen f) ->
  (forall f q, 0 <= q < Zlen f ->
     is_min (fun v => exists p, 0 <= p < Zlen f /\ v = (q - p) * (q - p) + nthZ 0 f p) (nthZ 0 (T1 f) q)) ->
  forall sh, pos_shape sh -> forall dat, Zlen dat = size sh ->
    Zlen (dt_nd T1 sh dat) = size sh /\
    forall p, in_shape sh p ->
      is_min (fun v => exists q, in_shape sh q /\ v = sqdist p q + nthZ 0 dat (ravel sh q))
             (nthZ 0 (dt_nd T1 sh dat) (ravel sh p)).
Proof. exact dt_nd_exact. Qed.

(* with the initial values of distance.py (0 on the background, ndim*max(shape)^2+1 on the foreground) that minimum is:
   0 on the background; exactly the least squared distance to a background pixel when there is one; and larger than
   every attainable squared distance when there is none *)
Theorem C05_infinity_is_adequate : forall sh f0 p r, pos_shape sh -> in_shape sh p ->
  (forall q, in_shape sh q -> nthZ 0 f0 (ravel sh q) = 0 \/ nthZ 0 f0 (ravel sh q) = dist_inf sh) ->
  is_min (fun v => exists q, in_shape sh q /\ v = sqdist p q + nthZ 0 f0 (ravel sh q)) r ->
  (nthZ 0 f0 (ravel sh p) = 0 -> r = 0) /\
  ((exists q0, in_shape sh q0 /\ nthZ 0 f0 (ravel sh q0) = 0) ->
     is_min (fun v => exists q, in_shape sh q /\ nthZ 0 f0 (ravel sh q) = 0 /\ v = sqdist p q) r) /\
  ((forall q, in_shape sh q -> nthZ 0 f0 (ravel sh q) <> 0) ->
     forall a b, in_shape sh a -> in_shape sh b -> sqdist a b < r).
Proof. exact edt_with_sentinel. Qed.

(* the lower-envelope pass of _distance.cpp (parabola stack with exact rational intersections, then the forward sweep) computes
   for EVERY line and every position the minimum over p of (q-p)^2 + f[p]; it therefore equals the executable 1-D
   specification on all inputs *)
Theorem C05_lower_envelope_is_exact : forall f q, 0 <= q < Zlen f ->
  is_min (fun v => exists p, 0 <= p < Zlen f /\ v = (q - p) * (q - p) + nthZ 0 f p) (nthZ 0 (dt1d f) q).
Proof. exact dt1d_spec. Qed.
Theorem C05_lower_envelope_is_minplus : forall f, dt1d f = minplus1d f.
Proof. exact dt1d_is_minplus1d. Qed.

(* hence distance() -- the model of distance.py + _distance.dt -- is the exact squared Euclidean distance transform for every
   well-formed array of any dimension: 0 on the background, the least squared distance to a background pixel elsewhere, and a
   value above every attainable squared distance when there is no background *)
Theorem C05_distance_is_the_exact_transform : forall a, wf_arr a -> forall p, in_shape (shape a) p ->
  let r := nthZ 0 (distance a) (ravel (shape a) p) in
  (aget a p = 0 -> r = 0) /\
  ((exists q0, in_shape (shape a) q0 /\ aget a q0 = 0) ->
     is_min (fun v => exists q, in_shape (shape a) q /\ aget a q = 0 /\ v = sqdist p q) r) /\
  ((forall q, in_shape (shape a) q -> aget a q <> 0) ->
     forall u v, in_shape (shape a) u -> in_shape (shape a) v -> sqdist u v < r).
Proof. exact distance_exact. Qed.

(* gvoronoi -- the model of segmentation.gvoronoi + _distance.dt with origin tracking -- gives every pixel the label of a NEAREST
   labelled pixel (least squared Euclidean distance; any dimension, any shape), and labelled pixels keep their label *)
Theorem C05_gvoronoi_is_a_nearest_label : forall lab, wf_arr lab -> (exists q0, in_shape (shape lab) q0 /\ aget lab q0 <> 0) ->
  forall p, in_shape (shape lab) p ->
  exists q, in_shape (shape lab) q /\ aget lab q <> 0 /\
            nthZ 0 (gvoronoi lab) (ravel (shape lab) p) = aget lab q /\
            forall q', in_shape (shape lab) q' -> aget lab q' <> 0 -> sqdist p q <= sqdist p q'.
Proof. exact gvoronoi_nearest_label. Qed.

Theorem C05_gvoronoi_keeps_labels : forall lab, wf_arr lab -> forall p, in_shape (shape lab) p -> aget lab p <> 0 ->
  nthZ 0 (gvoronoi lab) (ravel (shape lab) p) = aget lab p.
Proof. exact gvoronoi_keeps_labels. Qed.
