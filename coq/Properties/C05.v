(* C05 -- distance() is the exact squared Euclidean transform in any dimension. *)
Require Import MV.Base.Prelude MV.Base.CInt MV.Base.Index MV.Model.Distance MV.Proof.DistanceProof.

(* one pass per axis over an n-D array, each pass computing the 1-D min-plus convolution with x^2, yields at every
   pixel the minimum over the WHOLE grid of (squared Euclidean distance + initial value): any dimension, any shape
   (elongated 1 x n, n x 1 x 1 included).  The 1-D pass is a parameter satisfying its specification. *)
Theorem C05_separable_passes_are_exact : forall T1 : list Z -> list Z,
  (forall f, Zlen (T1 f) = Zlen f) ->
  (forall f q, 0 <= q < Zlen f ->
     is_min (fun v => exists p, 0 <= p < Zlen f /\ v = (q - p) * (q - p) + nthZ 0 f p) (nthZ 0 (T1 f) q)) ->
  forall sh, pos_shape sh -> forall dat, Zlen dat = size sh ->
    Zlen (dt_nd T1 sh dat) = size sh /\
    forall p, in_shape sh p ->
      is_min (fun v => exists q, in_shape sh q /\ v = sqdist p q + nthZ 0 dat (ravel sh q))
             (nthZ 0 (dt_nd T1 sh dat) (ravel sh p)).
Proof. exact dt_nd_exact. Qed.

(* with the initial values of distance.py (0 on the background, ndim*max(shape)^2+1 on the foreground) that minimum is:
   0 on the background; exactly the least squared distance to a background pixel when there is one; and larger than
   every attainable squared distance when there is none *)
Theorem C05_infinity_is_adequate : forall sh f0 p r, pos_shape sh -> in_shape sh p ->
  (forall q, in_shape sh q -> nthZ 0 f0 (ravel sh q) = 0 \/ nthZ 0 f0 (ravel sh q) = dist_inf sh) ->
  is_min (fun v => exists q, in_shape sh q /\ v = sqdist p q + nthZ 0 f0 (ravel sh q)) r ->
  (nthZ 0 f0 (ravel sh p) = 0 -> r = 0) /\
  ((exists q0, in_shape sh q0 /\ nthZ 0 f0 (ravel sh q0) = 0) ->
     is_min (fun v => exists q, in_shape sh q /\ nthZ 0 f0 (ravel sh q) = 0 /\ v = sqdist p q) r) /\
  ((forall q, in_shape sh q -> nthZ 0 f0 (ravel sh q) <> 0) ->
     forall a b, in_shape sh a -> in_shape sh b -> sqdist a b < r).
Proof. exact edt_with_sentinel. Qed.

(* the lower-envelope pass of _distance.cpp against the 1-D min-plus specification.
   [fin]: every line of length <= 6 over the values {0, 1, 4, 73}; for all other lines the two executable
   definitions are compared by the correspondence check on every line it generates *)
Theorem C05_lower_envelope_small_lines : forall f, (length f <= 6)%nat -> (forall x, In x f -> In x [0; 1; 4; 73]) ->
  dt1d f = minplus1d f.
Proof. exact envelope_small_lines. Qed.
