(* C04 -- cwatershed is seeded priority flooding; markers keep their labels; every labelled pixel is linked to
   one of its own markers through the neighbourhood; everything else is 0.
   MarkerInfo::operator< (markerinfo_lt) is GENERATED from the C++ source. *)
Require Import MV.Base.Prelude MV.Base.CInt MV.Base.Index MV.Base.BorderSpec.
Require Import MV.Gen.Scalar_gen MV.Model.Filter MV.Model.Watershed MV.Proof.WatershedProof MV.Proof.WatershedComplete.

(* queue order: lowest surface value first, ties by earliest insertion -- on the GENERATED operator< *)
Theorem C04_queue_order : forall c1 i1 c2 i2,
  markerinfo_lt c1 i1 c2 i2 = true <-> (c2 < c1 \/ (c2 = c1 /\ i2 < i1)).
Proof.
  intros. unfold markerinfo_lt. destruct (c1 =? c2) eqn:E.
  - rewrite Z.gtb_lt. split; [intros; right; lia|intros [?|[? ?]]; lia].
  - rewrite Z.gtb_lt. split; [intros; left; lia|intros [?|[? ?]]; lia].
Qed.

(* the code's flood -- neighbour table of flat deltas, stored lower-bound margins, bounds checks skipped while the
   bound allows, entries with flat delta 0 dropped -- computes EXACTLY the flood that checks every neighbour position
   explicitly: labels and lines, any dimension, any neighbourhood (5x5, even-sized, larger than the image), any markers *)
Theorem C04_margin_shortcut_is_sound : forall surf markers bc wl,
  pos_shape (shape surf) -> pos_shape (shape bc) -> length (shape bc) = length (shape surf) ->
  Zlen (data markers) = size (shape surf) ->
  cwatershed surf markers bc wl = flood_spec surf markers bc wl.
Proof. exact cwatershed_is_flood. Qed.

(* markers keep their labels; every pixel is either 0 or linked to a marker carrying its own label by steps of the
   neighbourhood through pixels with that label (so every region is connected to one of its own markers, and
   pixels no marker reaches are 0) *)
Theorem C04_markers_kept_regions_linked_rest_zero : forall surf markers bc wl,
  pos_shape (shape surf) -> pos_shape (shape bc) -> length (shape bc) = length (shape surf) ->
  Zlen (data markers) = size (shape surf) -> Zlen (data surf) = size (shape surf) ->
  let res := fst (cwatershed surf markers bc wl) in
  (forall p, 0 <= p < size (shape surf) -> nthZ 0 (data markers) p <> 0 -> nthZ 0 res p = nthZ 0 (data markers) p) /\
  (forall p, 0 <= p < size (shape surf) -> nthZ 0 res p = 0 \/ linked_res surf markers bc res p).
Proof.
  intros surf markers bc wl P1 P2 L1 L2 L3. rewrite cwatershed_is_flood by auto.
  now apply flood_markers_and_regions.
Qed.

(* completeness: the labelled pixels are EXACTLY those a marker can reach by steps of the neighbourhood inside the image
   (so "pixels no marker can reach are 0" and every reachable pixel does get a label) *)
Theorem C04_labelled_exactly_the_reachable_pixels : forall surf markers bc wl,
  pos_shape (shape surf) -> pos_shape (shape bc) -> length (shape bc) = length (shape surf) ->
  Zlen (data markers) = size (shape surf) -> Zlen (data surf) = size (shape surf) ->
  let res := fst (cwatershed surf markers bc wl) in
  forall p, 0 <= p < size (shape surf) -> (nthZ 0 res p <> 0 <-> reach surf markers bc p).
Proof.
  intros surf markers bc wl P1 P2 L1 L2 L3. rewrite cwatershed_is_flood by auto.
  now apply flood_complete.
Qed.

(* the flood ends because the queue is empty, not because the model's fuel ran out: every queued pixel is finalised *)
Theorem C04_flood_ends_with_empty_queue : forall surf markers bc wl,
  pos_shape (shape surf) -> Zlen (data markers) = size (shape surf) -> Zlen (data surf) = size (shape surf) ->
  w_queue (ws_loop resolve_checked (S (length (data surf))) (shape surf) (ws_neighbours_all (shape surf) bc) (data surf) wl
             (ws_init (shape surf) (data surf) (data markers) (repeat 0 (length (data surf))) (repeat 0 (length (data surf))))) = [].
Proof. exact flood_queue_empty_at_exit. Qed.
