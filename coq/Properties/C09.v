(* C09 -- out= convention.  get_output_rejects is GENERATED from internal.py::_get_output on every run. *)
Require Import List Bool Arith. Import ListNotations.
Require Import MV.Gen.OutConv_gen MV.Model.OutConv MV.Proof.OutConvProof.

(* the shared helper returns the caller's buffer exactly when dtype, shape and C-contiguity all match *)
Theorem C09_get_output_accepts_iff : forall d s c, get_output_rejects d s c = None <-> (d = true /\ s = true /\ c = true).
Proof. exact get_output_accepts_iff. Qed.
(* every rejection is a ValueError or a TypeError *)
Theorem C09_rejection_kind : forall d s c e, get_output_rejects d s c = Some e -> e = ValueError \/ e = TypeError.
Proof. exact get_output_rejection_is_value_or_type_error. Qed.

(* multi-axis Gaussian filtering (buffer ping-pong): whatever the number of axes, the returned buffer is the caller's and
   the last write to it is the end of the chain of passes *)
Theorem C09_gaussian_pingpong_returns_out : forall ndim out0,
  fst (gaussian_filter_flow ndim out0) = out0 /\
  (ndim > 0 -> exists src, last (snd (gaussian_filter_flow ndim out0)) (0, 0) = (src, out0)).
Proof. exact gaussian_returns_out. Qed.
