(* C12 -- concurrent calls return exactly the single-threaded results.
   Logic half: serial equivalence for every schedule under the access discipline, which the inventory re-translated from the
   C++ and Python sources on every run establishes (no static or module-level mutable state, lazy initialisation published
   complete, RAII lock release).  Runtime half: tools/vlib/props/c12.py. *)
Require Import ZArith List Bool String.
Require Import MV.Model.Threads MV.Gen.Threads_gen MV.Proof.ThreadsProof.
Import ListNotations.

Theorem C12_serial_equivalence_for_every_schedule
  (L : Type) (owner : loc -> option tid) (step : tid -> L -> mem -> L * list (loc * Z)) :
  disciplined L owner step -> forall t sched ls m,
  fst (run L step sched (ls, m)) t = fst (solo L step t (steps_of t sched) (ls t) m) /\
  (forall x, owner x = Some t -> snd (run L step sched (ls, m)) x = snd (solo L step t (steps_of t sched) (ls t) m) x) /\
  (forall x, owner x = None -> snd (run L step sched (ls, m)) x = m x).
Proof. exact (serial_equivalence L owner step). Qed.

Theorem C12_discipline_is_satisfiable : disciplined nat ex_owner ex_step.
Proof. exact ex_disciplined. Qed.

Theorem C12_lazy_initialisation_is_invisible (v0 : Z) evs : observed v0 (fold_left (lazy_step v0) evs Empty) = v0.
Proof. exact (lazy_init_every_caller_sees_v0 v0 evs). Qed.

Theorem C12_lock_reacquired_on_every_exit body g0 : held (call_scope body g0) = true /\ active (call_scope body g0) = false.
Proof. exact (gil_reacquired_on_every_exit body g0). Qed.

Theorem C12_no_static_mutable_state : cxx_static_state = [] /\ forallb (fun v => negb (snd v)) cxx_namespace_vars = true.
Proof. exact (conj no_static_mutable_state namespace_variables_never_reassigned). Qed.

Theorem C12_lock_release_is_raii :
  forallb (fun u => String.eqb (snd u) "stack") gil_release_uses = true /\
  gil_release_ctor = ["PyEval_SaveThread"; "active_ = true"]%string /\
  gil_release_restore = ["PyEval_RestoreThread"; "active_ = false"]%string /\
  gil_release_dtor_restores_when_active = true.
Proof. exact gil_release_is_raii. Qed.

Theorem C12_python_module_state_is_lazy_and_complete :
  forallb (fun p => snd p) py_global_inits_complete_before_publish = true /\
  List.length py_global_inits_complete_before_publish = List.length py_global_writes /\
  py_mutated_containers = [].
Proof. exact python_globals_are_idempotent_lazy_inits. Qed.

Theorem C12_no_python_api_while_released :
  forallb (fun e => existsb (String.eqb (snd e)) nogil_allowed) nogil_python_api = true.
Proof. exact no_python_api_while_released. Qed.
