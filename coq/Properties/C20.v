(* C20 -- colour conversions follow the sRGB / CIE definitions; stretch is a monotone range map.
   All colour element functions are GENERATED from colors.py on every run (Python ast -> Gallina over R;
   matrices, constants and the orientation of every np.choose taken from the source). *)
Require Import Reals QArith.
Require Import MV.Base.RHelp MV.Gen.Colors_gen MV.Model.Stretch MV.Proof.ColorsProof.
Require Import MV.Proof.ColorsInverse.
Open Scope R_scope.

Theorem C20_white_maps_to_D65_with_Y_1 :
  snd (fst (rgb2xyz_px 255 255 255)) = 1 /\ fst (fst (rgb2xyz_px 255 255 255)) = 9505 / 10000 /\
  snd (rgb2xyz_px 255 255 255) = 1089 / 1000.
Proof. exact white_maps_to_Y_1. Qed.

Theorem C20_black_maps_to_0 : rgb2xyz_px 0 0 0 = (0, 0, 0).
Proof. exact black_maps_to_0. Qed.

Theorem C20_rgb2xyz_nondecreasing_per_channel : forall r g b r' g' b',
  0 <= r -> 0 <= g -> 0 <= b -> r <= r' -> g <= g' -> b <= b' ->
  fst (fst (rgb2xyz_px r g b)) <= fst (fst (rgb2xyz_px r' g' b')) /\
  snd (fst (rgb2xyz_px r g b)) <= snd (fst (rgb2xyz_px r' g' b')) /\
  snd (rgb2xyz_px r g b) <= snd (rgb2xyz_px r' g' b').
Proof. exact rgb2xyz_monotone_per_channel. Qed.

Theorem C20_transfer_functions_inverse_low : forall c, 0 <= c -> c / IZR 255 <= IZR 4044 / IZR 100000 ->
  linear_to_srgb (srgb_to_linear c) = c.
Proof. exact srgb_roundtrip_low. Qed.
Theorem C20_transfer_functions_inverse_high : forall c, knee < c / IZR 255 -> c <= 255 ->
  linear_to_srgb (srgb_to_linear c) = c.
Proof. exact srgb_roundtrip_high. Qed.

(* white -> L* = 100; a*, b* are not exactly 0 with the 4-digit matrices (0.9505/0.95047 <> 1): the bound is stated *)
Theorem C20_lab_white : let '(L, a, b) := xyz2lab_px (9505 / 10000) 1 (1089 / 1000) in
  L = 100 /\ Rabs a < 1 / 100 /\ Rabs b < 2 / 100.
Proof. exact lab_white. Qed.

Theorem C20_grey_weights_sum_to_one : forall v, rgb2grey_px v v v = v.
Proof. exact grey_weights_sum_to_one. Qed.

Theorem C20_sepia_clipped : forall r g b, let '(x, y, z) := rgb2sepia_px r g b in
  0 <= x <= 255 /\ 0 <= y <= 255 /\ 0 <= z <= 255.
Proof. exact sepia_in_range. Qed.

Theorem C20_stretch_min_to_lower_bound : forall vmin ptp lo hi, (stretch_px vmin vmin ptp lo hi == lo)%Q.
Proof. exact stretch_min_to_lower. Qed.
Theorem C20_stretch_nondecreasing : forall v w vmin ptp lo hi, (0 < ptp)%Q -> (lo <= hi)%Q -> (v <= w)%Q ->
  (stretch_px v vmin ptp lo hi <= stretch_px w vmin ptp lo hi)%Q.
Proof. exact stretch_monotone. Qed.
Theorem C20_stretch_in_range : forall v vmin ptp lo hi, (0 < ptp)%Q -> (lo <= hi)%Q -> (vmin <= v)%Q -> (v <= vmin + ptp)%Q ->
  (lo <= stretch_px v vmin ptp lo hi)%Q /\ (stretch_px v vmin ptp lo hi <= hi)%Q.
Proof. exact stretch_in_range. Qed.

(* xyz2rgb inverts rgb2xyz: the conversions are "transfer function, then M" and "Minv, then the inverse transfer function"
   (identities on the RE-TRANSLATED definitions), the transfer functions are mutually inverse (above), and Minv (M v) is within
   1/1000 of v on linear RGB in [0,1] -- the rounding of the 4-digit matrices *)
Theorem C20_rgb2xyz_is_transfer_then_matrix : forall r g b,
  rgb2xyz_px r g b = M_apply (srgb_to_linear r) (srgb_to_linear g) (srgb_to_linear b).
Proof. exact rgb2xyz_is_M. Qed.

Theorem C20_xyz2rgb_is_matrix_then_inverse_transfer : forall x y z,
  xyz2rgb_px x y z = let '(a, b, c) := Minv_apply x y z in (linear_to_srgb a, linear_to_srgb b, linear_to_srgb c).
Proof. exact xyz2rgb_is_Minv. Qed.

Theorem C20_matrices_inverse_within_rounding : forall lr lg lb, 0 <= lr <= 1 -> 0 <= lg <= 1 -> 0 <= lb <= 1 ->
  let '(x, y, z) := M_apply lr lg lb in
  let '(a, b, c) := Minv_apply x y z in
  Rabs (a - lr) <= 1 / 1000 /\ Rabs (b - lg) <= 1 / 1000 /\ Rabs (c - lb) <= 1 / 1000.
Proof. exact matrices_inverse_within_1e3. Qed.
