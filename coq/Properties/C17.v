(* C17 -- wavelet transforms: inverse, energy, linearity, coefficient tables, centring.
   The Daubechies tables (and the orientation of the two filters) are GENERATED from _convolve.cpp. *)
Require Import QArith.
Require Import MV.Base.Prelude MV.Base.QHelp MV.Gen.Tables_gen MV.Model.Wavelet MV.Proof.WaveletProof MV.Proof.Haar2D.
Open Scope Z_scope.

(* ihaar undoes haar on every row of even length (both are applied to rows, then to columns through the transposed view) *)
Theorem C17_ihaar_inverts_haar_rows : forall l n, length l = (2 * n)%nat -> ihaar_row (haar_row l) = l.
Proof. exact ihaar_row_haar_row. Qed.

(* every Haar pass doubles the sum of squares: the two passes followed by the division by 2 conserve it *)
Theorem C17_haar_energy : forall l n, length l = (2 * n)%nat -> sumsq (haar_row l) = 2 * sumsq l.
Proof. exact haar_row_energy. Qed.

(* linearity *)
Theorem C17_haar_additive : forall a b n, length a = (2 * n)%nat -> length b = (2 * n)%nat ->
  haar_row (ladd a b) = ladd (haar_row a) (haar_row b).
Proof. exact haar_row_additive. Qed.
Theorem C17_haar_homogeneous : forall k l, haar_row (map (Z.mul k) l) = map (Z.mul k) (haar_row l).
Proof. exact haar_row_homogeneous. Qed.

(* [fin] the ten coefficient tables D2..D20 have even lengths 2..20, sum to 2 and are orthonormal under even shifts
   within 1e-5 (the printed digits of D8 are off by 2.3e-6); D2 = [1, 1], the unnormalised Haar filter *)
Theorem C17_daubechies_tables_orthonormal :
  forallb table_ok daubechies_tables = true /\ map (@length Q) daubechies_tables = [2; 4; 6; 8; 10; 12; 14; 16; 18; 20]%nat /\
  nth 0 daubechies_tables [] = [1%Q; 1%Q].
Proof. exact daubechies_tables_orthonormal. Qed.

(* wavelet_center places the image at an offset larger than the requested border on every axis, and
   wavelet_decenter undoes it exactly (per axis, for the geometry computed by _wavelet_center_compute) *)
Theorem C17_center_offsets_exceed_border : forall fuel dims border c g, 0 <= border ->
  center_search fuel dims border c = Some g -> Forall (fun nd => border < snd nd) g /\ length g = length dims.
Proof. exact center_search_offsets. Qed.
Theorem C17_decenter_inverts_center : forall l ns d, 0 <= d -> decenter1 (center1 l ns d) (Zlen l) d = l.
Proof. exact decenter_center. Qed.

(* the full two-pass transforms (rows, then columns; the inverse in the same order): ihaar(haar(f)) = f for EVERY integer image
   with even sides -- the inverse pass along the rows meets column-transformed data, and the divisions by 2 are still exact *)
Theorem C17_ihaar_inverts_haar_2d : forall m n f, rect (2 * m) (2 * n) f ->
  ihaar2d (2 * n) (2 * m) (haar2d (2 * n) (2 * m) f) = f.
Proof. exact ihaar2d_haar2d. Qed.

(* the two passes multiply the sum of squares by 4: the energy-preserving transform (coefficients halved) conserves it *)
Theorem C17_haar_energy_2d : forall m n f, rect (2 * m) (2 * n) f -> sumsq2 (haar2d (2 * n) (2 * m) f) = 4 * sumsq2 f.
Proof. exact haar2d_energy. Qed.
