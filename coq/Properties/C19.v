(* C19 -- texture / shape descriptors: co-occurrence counting, LBP code mapping, integral image. *)
Require Import MV.Base.Prelude MV.Base.CInt MV.Base.Index MV.Base.BorderSpec.
Require Import MV.Gen.Scalar_gen MV.Model.Filter MV.Model.Labeled MV.Model.Texture MV.Proof.ConvProof MV.Proof.TextureProof.

(* cooccurence counts exactly the ordered pixel pairs at the given offset, both pixels inside the image (2-D and 3-D,
   any distance / direction) *)
Theorem C19_cooccurence_counts_ordered_pairs : forall f delta m a b, shape_ok (shape f) -> length delta = length (shape f) ->
  (forall p, in_shape (shape f) p -> 0 <= aget f p < m) -> 0 <= a < m -> 0 <= b < m ->
  nthZ 0 (cooc f delta m) (a * m + b) = cooc_spec f delta a b.
Proof. exact cooc_counts_ordered_pairs. Qed.

(* [fin: P <= 12, all 2^P codes] the LBP mapping returns the least cyclic rotation: it is a rotation of the code, no rotation is
   smaller, it is idempotent, every rotation of a code maps to the same value (one bin per rotation class), and P rolls are the identity *)
Theorem C19_lbp_map_is_min_rotation : forallb lbp_ok (Zseq 1 12) = true.
Proof. exact lbp_map_is_min_rotation_upto_12. Qed.

(* the SURF integral image (in-place recurrence) is the exact two-dimensional prefix sum of its input *)
Theorem C19_integral_is_prefix_sum : forall rows w, (forall r, In r rows -> length r = w) ->
  forall i j, (i < length rows)%nat -> (j < w)%nat -> nth j (nth i (integral rows) []) 0 = rect_sum rows i j.
Proof. exact integral_is_prefix_sum. Qed.

(* LBP mapping for EVERY number of points: the bin of a code is the least among the codes visited by rolling it P times,
   and it is one of them (the sweep above additionally shows, up to P = 12, that rolling is a cyclic rotation, so rotated codes
   share the bin) *)
Theorem C19_lbp_map_is_least_rotation : forall v points,
  lbp_map v points = fold_left Z.min (tl (rotations (S (Z.to_nat points)) v points)) v /\
  (forall r, In r (rotations (S (Z.to_nat points)) v points) -> lbp_map v points <= r) /\
  In (lbp_map v points) (rotations (S (Z.to_nat points)) v points).
Proof. exact lbp_map_is_least_rotation. Qed.
