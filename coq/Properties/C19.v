(* C19 -- texture / shape descriptors: co-occurrence counting, LBP code mapping, integral image. *)
Require Import MV.Base.Prelude MV.Base.CInt MV.Base.Index MV.Base.BorderSpec.
Require Import MV.Gen.Scalar_gen MV.Model.Filter MV.Model.Labeled MV.Model.Texture MV.Proof.ConvProof MV.Proof.TextureProof MV.Proof.LbpProof MV.Proof.CoocSym.

(* cooccurence counts exactly the ordered pixel pairs at the given offset, both pixels inside the image (2-D and 3-D,
   any distance / direction) *)
Theorem C19_cooccurence_counts_ordered_pairs : forall f delta m a b, shape_ok (shape f) -> length delta = length (shape f) ->
  (forall p, in_shape (shape f) p -> 0 <= aget f p < m) -> 0 <= a < m -> 0 <= b < m ->
  nthZ 0 (cooc f delta m) (a * m + b) = cooc_spec f delta a b.
Proof. exact cooc_counts_ordered_pairs. Qed.

(* [fin: P <= 12, all 2^P codes] the LBP mapping returns the least cyclic rotation: it is a rotation of the code, no rotation is
   smaller, it is idempotent, every rotation of a code maps to the same value (one bin per rotation class), and P rolls are the identity *)
Theorem C19_lbp_map_is_min_rotation : forallb lbp_ok (Zseq 1 12) = true.
Proof. exact lbp_map_is_min_rotation_upto_12. Qed.

(* the SURF integral image (in-place recurrence) is the exact two-dimensional prefix sum of its input *)
Theorem C19_integral_is_prefix_sum : forall rows w, (forall r, In r rows -> length r = w) ->
  forall i j, (i < length rows)%nat -> (j < w)%nat -> nth j (nth i (integral rows) []) 0 = rect_sum rows i j.
Proof. exact integral_is_prefix_sum. Qed.

(* LBP mapping for EVERY number of points: the bin of a code is the least among the codes visited by rolling it P times,
   and it is one of them (the sweep above additionally shows, up to P = 12, that rolling is a cyclic rotation, so rotated codes
   share the bin) *)
Theorem C19_lbp_map_is_least_rotation : forall v points,
  lbp_map v points = fold_left Z.min (tl (rotations (S (Z.to_nat points)) v points)) v /\
  (forall r, In r (rotations (S (Z.to_nat points)) v points) -> lbp_map v points <= r) /\
  In (lbp_map v points) (rotations (S (Z.to_nat points)) v points).
Proof. exact lbp_map_is_least_rotation. Qed.

(* for EVERY number of points P >= 1 and every P-bit code: P rolls are the identity (rolling is a cyclic rotation of the P bits) ... *)
Theorem C19_lbp_roll_has_period_P : forall points v, 1 <= points -> 0 <= v < 2 ^ points ->
  rolls (Z.to_nat points) v points = v /\ 0 <= roll_right v points < 2 ^ points.
Proof. intros points v HP Hv. split; [apply rolls_period | apply roll_range]; assumption. Qed.

(* ... codes that are cyclic rotations of one another share a bin ... *)
Theorem C19_lbp_rotated_codes_share_a_bin : forall points v k, 1 <= points -> 0 <= v < 2 ^ points ->
  lbp_map (rolls k v points) points = lbp_map v points.
Proof. exact lbp_map_rotation_invariant. Qed.

(* ... and the bin is a rotation of the code, a P-bit code itself, and a fixed point: one bin per rotation class *)
Theorem C19_lbp_bin_is_canonical_rotation : forall points v, 1 <= points -> 0 <= v < 2 ^ points ->
  (exists k, lbp_map v points = rolls k v points) /\ 0 <= lbp_map v points < 2 ^ points /\
  lbp_map (lbp_map v points) points = lbp_map v points.
Proof. exact lbp_map_is_a_rotation. Qed.

(* rotating the image by 180 degrees (any dimension: the data reversed) exchanges the two grey levels of every counted pair ... *)
Theorem C19_cooccurence_rot180_transposes_counts : forall f delta, wf_arr f -> length delta = length (shape f) ->
  forall a b, cooc_spec (rot180 f) delta a b = cooc_spec f delta b a.
Proof. exact cooc_spec_rot180. Qed.

(* ... so the symmetric matrix C + C^T, from which haralick computes its features, is invariant *)
Theorem C19_symmetric_cooccurence_invariant_under_rot180 : forall f delta, wf_arr f -> length delta = length (shape f) ->
  forall a b, cooc_spec (rot180 f) delta a b + cooc_spec (rot180 f) delta b a = cooc_spec f delta a b + cooc_spec f delta b a.
Proof. exact cooc_sym_rot180. Qed.

(* transposing a 2-D image permutes the directions: the counts at offset (dx, dy) of the transpose are those at (dy, dx) *)
Theorem C19_cooccurence_transpose_permutes_directions : forall f h w, shape f = [h; w] -> wf_arr f ->
  forall dy dx a b, cooc_spec (transpose2 f) [dx; dy] a b = cooc_spec f [dy; dx] a b.
Proof. exact cooc_spec_transpose. Qed.
