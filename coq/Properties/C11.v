(* C11 -- invalid or degenerate arguments fail well.  Logic half: the argument guards of the native entry points (re-translated
   from the C++ sources on every run, Gen/Guards_gen.v) imply what the kernels rely on, and the Python raise sites that protect
   kernels without native checks are present.  Runtime half (crash / hang freedom of the compiled code): tools/vlib/props/c11.py. *)
Require Import ZArith List Bool String.
Require Import MV.Base.Desc MV.Gen.Guards_gen MV.Gen.OutConv_gen MV.Proof.GuardsProof.
Open Scope Z_scope.

Theorem C11_neighbourhood_kernels_guarded array Bc output unk :
  (rejects_py_erode array Bc output unk = false -> nb_pre array Bc output /\ d_type Bc = d_type output) /\
  (rejects_py_dilate array Bc output unk = false -> nb_pre array Bc output /\ d_type Bc = d_type output) /\
  (rejects_py_hitmiss array Bc output unk = false ->
     nb_pre array Bc output /\ d_type Bc = d_type output /\ 1 <= ndim array /\ d_carray output = true).
Proof. exact (conj (erode_guard array Bc output unk) (conj (dilate_guard array Bc output unk) (hitmiss_guard array Bc output unk))). Qed.

Theorem C11_extrema_kernels_guarded array Bc output m unk :
  (rejects_py_locminmax array Bc output m unk = false -> nb_pre array Bc output /\ d_type output = 0 /\ d_carray output = true) /\
  (rejects_py_regminmax array Bc output m unk = false -> nb_pre array Bc output /\ d_type output = 0 /\ d_carray output = true).
Proof. exact (conj (locminmax_guard array Bc output m unk) (regminmax_guard array Bc output m unk)). Qed.

Theorem C11_template_match_guarded array t output mode je unk :
  rejects_py_template_match array t output mode je unk = false ->
  nb_pre array t output /\ d_type t = d_type output /\ d_carray output = true.
Proof. exact (template_match_guard array t output mode je unk). Qed.

Theorem C11_find2d_guarded array target output unk :
  rejects_py_find2d array target output unk = false ->
  ndim array = 2 /\ ndim target = 2 /\ d_shape output = d_shape array /\ d_type array = d_type target /\
  d_type output = 0 /\ d_carray output = true.
Proof. exact (find2d_guard array target output unk). Qed.

Theorem C11_majority_filter_guarded array N res unk :
  rejects_py_majority_filter array N res unk = false ->
  ndim array = 2 /\ d_shape array = d_shape res /\ d_type array = 0 /\ d_type res = 0 /\ d_carray res = true.
Proof. exact (majority_filter_guard array N res unk). Qed.

Theorem C11_filters_guarded array f output rank mode unk :
  (rejects_py_rank_filter array f output rank mode unk = false ->
     ndim array = ndim f /\ d_type array = d_type f /\ d_type array = d_type output /\ d_carray output = true) /\
  (rejects_py_convolve array f output mode unk = false -> ndim array = ndim f /\ d_type array = d_type f) /\
  (rejects_py_convolve1d array f output mode unk = false ->
     d_shape output = d_shape array /\ d_type output = d_type array /\ d_carray output = true).
Proof.
  exact (conj (rank_filter_guard array f output rank mode unk)
        (conj (convolve_guard array f output mode unk) (convolve1d_guard array f output mode unk))).
Qed.

Theorem C11_labeled_kernels_guarded a l o m unk :
  (rejects_py_labeled_sum a l o unk = false -> d_shape a = d_shape l /\ d_type l = 5 /\ d_carray o = true) /\
  (rejects_py_labeled_max_min a l o m unk = false -> d_shape a = d_shape l /\ d_type l = 5 /\ d_carray o = true) /\
  (rejects_py_is_same_labeling a l unk = false -> d_shape a = d_shape l /\ d_carray a = true /\ d_carray l = true) /\
  (rejects_py_center_of_mass a l unk = false -> d_none l = false -> d_shape a = d_shape l /\ d_arr l = true) /\
  (rejects_py_bbox_labeled a o unk = false -> 2 * ndim a <= dimZ o 0 /\ d_carray o = true).
Proof.
  exact (conj (labeled_sum_guard a l o unk) (conj (labeled_max_min_guard a l o m unk) (conj (is_same_labeling_guard a l unk)
        (conj (center_of_mass_guard a l unk) (bbox_labeled_guard a o unk))))).
Qed.

Theorem C11_slic_guarded a l S m it unk :
  rejects_py_slic a l S m it unk = false ->
  ndim a = 3 /\ ndim l = 2 /\ dimZ a 0 = dimZ l 0 /\ dimZ a 1 = dimZ l 1 /\ dimZ a 2 = 3 /\ 0 < S /\
  d_carray a = true /\ d_carray l = true.
Proof. exact (slic_guard a l S m it unk). Qed.

Theorem C11_distance_transform_guarded f orig unk :
  rejects_py_dt f orig unk = false -> 1 <= ndim f /\ Forall (fun n => n <> 0) (d_shape f).
Proof. exact (dt_guard f orig unk). Qed.

Theorem C11_two_dimensional_kernels_guarded a c b n unk :
  (rejects_py_haar a unk = false -> ndim a = 2) /\ (rejects_py_ihaar a unk = false -> ndim a = 2) /\
  (rejects_py_wavelet a c unk = false -> ndim a = 2 /\ d_carray c = true) /\
  (rejects_py_iwavelet a c unk = false -> ndim a = 2 /\ d_carray c = true) /\
  (rejects_py_thin a b n unk = false ->
     d_shape a = d_shape b /\ d_type a = 0 /\ d_type b = 0 /\ d_contig a = true /\ d_contig b = true).
Proof.
  exact (conj (proj1 (haar_guards a unk)) (conj (proj2 (haar_guards a unk)) (conj (proj1 (wavelet_guards a c unk))
        (conj (proj2 (wavelet_guards a c unk)) (thin_guard a b n unk))))).
Qed.

Theorem C11_python_raise_sites_present :
  forallb (fun p => has_raise (fst p) (snd p)) required_py_raises = true.
Proof. exact python_raise_sites_present. Qed.

(* bounded time, on the fuelled model of slic's seeding loops `for (y = S/2; y < Ny; y += S)`: under the guard 0 < S the loop
   ends within Ny + 1 iterations with seeds inside the image; with S = 0 (the call the guard now rejects) it never ends *)
Theorem C11_slic_seeding_terminates_under_guard : forall S Ny, 0 < S -> 0 <= Ny ->
  exists ys, seed_loop (Z.to_nat Ny + 1) (Z.quot S 2) S Ny nil = Some ys /\ Forall (fun v => 0 <= v < Ny) ys.
Proof. exact slic_seeding_terminates. Qed.
Theorem C11_slic_seeding_hangs_without_guard : forall Ny fuel y acc, y < Ny -> seed_loop fuel y 0 Ny acc = None.
Proof. exact slic_seeding_hangs_without_guard. Qed.

(* the shared out= helper (internal.py::_get_output, RE-TRANSLATED on every run) rejects a read-only buffer with ValueError/TypeError
   before returning it to a kernel: nothing is ever written through an array whose memory may be immutable (bytes, mmap, a
   constant of another library) *)
Theorem C11_read_only_out_is_rejected : get_output_rejects_readonly = true.
Proof. reflexivity. Qed.
