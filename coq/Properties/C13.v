(* C13 -- region measurements and label-map utilities equal their per-label definitions. *)
Require Import MV.Base.Prelude MV.Base.CInt MV.Base.Index MV.Base.BorderSpec MV.Base.Renumber.
Require Import MV.Gen.Scalar_gen MV.Model.Filter MV.Model.Labeled MV.Proof.ConvProof MV.Proof.LabeledProof MV.Proof.SameLabelingProof MV.Proof.BboxProof MV.Proof.BboxFastProof.
Require Import MV.Proof.ComProof MV.Proof.BboxLabeledProof.

(* labeled_foldl: result[k] is the fold of the operation over exactly the pixels carrying label k (scan order),
   for ANY operation and identity element -- nothing from other labels leaks in *)
Theorem C13_per_label_fold : forall f start m arr lab k, 0 <= k < m ->
  nthZ 0 (foldl_labeled f start m arr lab) k = fold_left (fun acc a => f a acc) (region k arr lab) start.
Proof. exact foldl_labeled_spec. Qed.

Theorem C13_labeled_sum : forall m arr lab k, 0 <= k < m ->
  nthZ 0 (labeled_sum None m arr lab) k = sumZ (region k arr lab).
Proof. exact labeled_sum_correct. Qed.

(* max / min: correct for every region whose values are not beyond the identity element used as start --
   i.e. the start value must be the lowest / highest value of the dtype (negative and floating values included) *)
Theorem C13_labeled_max : forall start m arr lab k, 0 <= k < m ->
  region k arr lab <> [] -> (forall v, In v (region k arr lab) -> start <= v) ->
  let r := nthZ 0 (labeled_max start m arr lab) k in
  In r (region k arr lab) /\ forall v, In v (region k arr lab) -> v <= r.
Proof. exact labeled_max_correct. Qed.

Theorem C13_labeled_min : forall start m arr lab k, 0 <= k < m ->
  region k arr lab <> [] -> (forall v, In v (region k arr lab) -> v <= start) ->
  let r := nthZ 0 (labeled_min start m arr lab) k in
  In r (region k arr lab) /\ forall v, In v (region k arr lab) -> r <= v.
Proof. exact labeled_min_correct. Qed.

(* fullhistogram / labeled_size: value counts *)
Theorem C13_histogram_counts : forall l v, (forall x, In x l -> 0 <= x) -> 0 <= v <= maxl 0 l ->
  nthZ 0 (fullhistogram l) v = count_eq v l.
Proof. exact fullhistogram_counts. Qed.

(* relabel: same partition, same background, labels exactly 1..n in order of first appearance *)
Theorem C13_relabel_partition : forall l i j, (i < length l)%nat -> (j < length l)%nat ->
  (nth i (fst (relabel l)) 0 = nth j (fst (relabel l)) 0 <-> nth i l 0 = nth j l 0).
Proof. exact relabel_partition. Qed.
Theorem C13_relabel_background : forall l i, (i < length l)%nat -> (nth i (fst (relabel l)) 0 = 0 <-> nth i l 0 = 0).
Proof. exact relabel_background. Qed.
Theorem C13_relabel_consecutive_scan_order : forall l,
  (forall i, (i < length l)%nat -> 0 <= nth i (fst (relabel l)) 0 <= snd (relabel l)) /\
  (forall n, 1 <= n <= snd (relabel l) -> In n (fst (relabel l))) /\
  (forall i, (i < length l)%nat -> nth i (fst (relabel l)) 0 <= 1 + maxl 0 (firstn i (fst (relabel l)))).
Proof. exact relabel_consecutive. Qed.

(* remove_regions zeroes exactly the selected regions *)
Theorem C13_remove_regions : forall lab regions i, (i < length lab)%nat ->
  nth i (remove_regions lab regions) 0 = if in_dec Z.eq_dec (nth i lab 0) regions then 0 else nth i lab 0.
Proof. exact remove_regions_spec. Qed.

(* borders: marked iff a neighbour (offset of the neighbourhood, border rule of the chosen mode; outside neighbours
   dropped in constant/ignore mode) carries a different label -- any dimension, mode, neighbourhood *)
Theorem C13_borders_pixel : forall m f bc p, valid_mode m -> shape_ok (shape f) ->
  borders_at m f bc p = borders_spec m f bc p.
Proof. exact borders_at_spec. Qed.

(* is_same_labeling (the two insert-if-absent maps of _labeled.cpp) decides, for all pairs of label maps, whether the pixelwise
   pairs form a bijection between the label sets that pairs 0 with 0 -- and the executable specification the check uses says
   the same *)
Theorem C13_is_same_labeling_decides_label_bijection : forall a b,
  (is_same_labeling a b = true <->
   PB (combine a b) /\ forall p, In p (combine a b) -> (fst p = 0 <-> snd p = 0)) /\
  is_same_labeling a b = same_labeling_spec a b.
Proof. exact (fun a b => conj (is_same_labeling_correct a b) (is_same_labeling_eq_spec a b)). Qed.

(* bbox (the generic N-D scan of _bbox.cpp with its extrema[1]==0 emptiness test) returns the tight bounding box of the
   non-zero positions -- per axis the least coordinate and one more than the greatest -- and all zeros for an empty image:
   every array of every dimension *)
Theorem C13_bbox_is_the_tight_box : forall f, pos_shape (shape f) -> bbox_generic f = bbox_spec f.
Proof. exact bbox_generic_is_spec. Qed.

(* ... and so does the C-contiguous 2-D fast path (after a hit, skip ahead to the current right bound): every 2-D array *)
Theorem C13_bbox_fast_path_is_the_tight_box : forall f N0 N1, shape f = [N0; N1] -> 0 < N0 -> 0 < N1 ->
  bbox_fast2 f = bbox_generic f /\ bbox_fast2 f = bbox_spec f.
Proof. exact (fun f N0 N1 E H0 H1 => conj (bbox_fast2_is_generic f N0 N1 E H0 H1) (bbox_fast2_is_spec f N0 N1 E H0 H1)). Qed.

(* center_of_mass: for every label l the accumulators of the model are the total weight and the weighted coordinate sums over
   exactly the pixels carrying l (exact integers; the centroid is their quotient) -- any dimension, any labels *)
Theorem C13_center_of_mass_sums : forall f lab l, pos_shape (shape f) ->
  let idx := filter (fun i => nthZ 0 lab i =? l) (Zseq 0 (Z.to_nat (size (shape f)))) in
  fst (com_sums f lab l) = sumZ (map (fun i => aget f (unravel (shape f) i)) idx) /\
  forall j, 0 <= j < Zlen (shape f) ->
    nthZ 0 (snd (com_sums f lab l)) j = sumZ (map (fun i => aget f (unravel (shape f) i) * nthZ 0 (unravel (shape f) i) j) idx).
Proof. exact com_sums_over_pixels. Qed.

(* labeled.bbox: the one-pass scan of _bbox.cpp (every pixel updates the extrema row of its label; rows still at their initial
   value are zeroed afterwards) returns for every label 0..n the tight bounding box of exactly the pixels carrying that label,
   zeros for a label without pixels -- any dimension, any label map *)
Theorem C13_labeled_bbox_is_the_tight_box_per_label : forall f n, wf_arr f -> 0 <= n ->
  bbox_labeled f n = bbox_labeled_spec f n.
Proof. exact bbox_labeled_is_spec. Qed.
