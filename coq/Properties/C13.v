(* C13 -- region measurements and label-map utilities equal their per-label definitions. *)
Require Import MV.Base.Prelude MV.Base.CInt MV.Base.Index MV.Base.BorderSpec MV.Base.Renumber.
Require Import MV.Gen.Scalar_gen MV.Model.Filter MV.Model.Labeled MV.Proof.ConvProof MV.Proof.LabeledProof.

(* labeled_foldl: result[k] is the fold of the operation over exactly the pixels carrying label k (scan order),
   for ANY operation and identity element -- nothing from other labels leaks in *)
Theorem C13_per_label_fold : forall f start m arr lab k, 0 <= k < m ->
  nthZ 0 (foldl_labeled f start m arr lab) k = fold_left (fun acc a => f a acc) (region k arr lab) start.
Proof. exact foldl_labeled_spec. Qed.

Theorem C13_labeled_sum : forall m arr lab k, 0 <= k < m ->
  nthZ 0 (labeled_sum None m arr lab) k = sumZ (region k arr lab).
Proof. exact labeled_sum_correct. Qed.

(* max / min: correct for every region whose values are not beyond the identity element used as start --
   i.e. the start value must be the lowest / highest value of the dtype (negative and floating values included) *)
Theorem C13_labeled_max : forall start m arr lab k, 0 <= k < m ->
  region k arr lab <> [] -> (forall v, In v (region k arr lab) -> start <= v) ->
  let r := nthZ 0 (labeled_max start m arr lab) k in
  In r (region k arr lab) /\ forall v, In v (region k arr lab) -> v <= r.
Proof. exact labeled_max_correct. Qed.

Theorem C13_labeled_min : forall start m arr lab k, 0 <= k < m ->
  region k arr lab <> [] -> (forall v, In v (region k arr lab) -> v <= start) ->
  let r := nthZ 0 (labeled_min start m arr lab) k in
  In r (region k arr lab) /\ forall v, In v (region k arr lab) -> r <= v.
Proof. exact labeled_min_correct. Qed.

(* fullhistogram / labeled_size: value counts *)
Theorem C13_histogram_counts : forall l v, (forall x, In x l -> 0 <= x) -> 0 <= v <= maxl 0 l ->
  nthZ 0 (fullhistogram l) v = count_eq v l.
Proof. exact fullhistogram_counts. Qed.

(* relabel: same partition, same background, labels exactly 1..n in order of first appearance *)
Theorem C13_relabel_partition : forall l i j, (i < length l)%nat -> (j < length l)%nat ->
  (nth i (fst (relabel l)) 0 = nth j (fst (relabel l)) 0 <-> nth i l 0 = nth j l 0).
Proof. exact relabel_partition. Qed.
Theorem C13_relabel_background : forall l i, (i < length l)%nat -> (nth i (fst (relabel l)) 0 = 0 <-> nth i l 0 = 0).
Proof. exact relabel_background. Qed.
Theorem C13_relabel_consecutive_scan_order : forall l,
  (forall i, (i < length l)%nat -> 0 <= nth i (fst (relabel l)) 0 <= snd (relabel l)) /\
  (forall n, 1 <= n <= snd (relabel l) -> In n (fst (relabel l))) /\
  (forall i, (i < length l)%nat -> nth i (fst (relabel l)) 0 <= 1 + maxl 0 (firstn i (fst (relabel l)))).
Proof. exact relabel_consecutive. Qed.

(* remove_regions zeroes exactly the selected regions *)
Theorem C13_remove_regions : forall lab regions i, (i < length lab)%nat ->
  nth i (remove_regions lab regions) 0 = if in_dec Z.eq_dec (nth i lab 0) regions then 0 else nth i lab 0.
Proof. exact remove_regions_spec. Qed.

(* borders: marked iff a neighbour (offset of the neighbourhood, border rule of the chosen mode; outside neighbours
   dropped in constant/ignore mode) carries a different label -- any dimension, mode, neighbourhood *)
Theorem C13_borders_pixel : forall m f bc p, valid_mode m -> shape_ok (shape f) ->
  borders_at m f bc p = borders_spec m f bc p.
Proof. exact borders_at_spec. Qed.
