(* C06 -- convolve equals its defining sum in all six border modes. fix_offset is GENERATED. *)
Require Import MV.Base.Prelude MV.Base.CInt MV.Base.Index MV.Base.BorderSpec.
Require Import MV.Gen.Scalar_gen MV.Model.Filter MV.Model.Convolve MV.Proof.Border MV.Proof.ConvProof.
Require Import MV.Gen.Scalar_gen MV.Proof.Conv1dProof.

(* the C++ border function IS the mathematical border rule (nearest, wrap, reflect, mirror, constant, ignore) *)
Theorem C06_border_rule : forall m cc len, valid_mode m -> 1 <= len ->
  fix_offset m cc len = match border_map m cc len with Some c => c | None => border_flag_value end.
Proof. exact fix_offset_spec. Qed.

(* the enum used by the C++ code and the mode numbers of the definition coincide *)
Theorem C06_mode_numbers :
  ExtendNearest = M_nearest /\ ExtendWrap = M_wrap /\ ExtendReflect = M_reflect /\
  ExtendMirror = M_mirror /\ ExtendConstant = M_constant /\ ExtendIgnore = M_ignore.
Proof. repeat split; reflexivity. Qed.

(* convolve(f,w)[p] = sum_j w[j] * f[p + j - c], out-of-image samples per the border mode:
   any dimension, any kernel shape (odd, even, larger than the image, with zeros) *)
Theorem C06_convolve_is_defining_sum : forall m f w,
  valid_mode m -> shape_ok (shape f) -> convolve_generic m f w = conv_spec_all m f w.
Proof. exact convolve_generic_correct. Qed.

(* the convolve1d fast path (interior loop, then border loop, over an output row that np.empty left uninitialised) yields at
   every column the defining sum with the mathematical border rule: for every mode, row, kernel shorter than the row and
   every previous content of the buffer *)
Theorem C06_convolve1d_fast_path_is_defining_sum : forall mode row w garbage,
  valid_mode mode -> 1 <= Zlen w < Zlen row -> Zlen row < border_flag_value -> Zlen garbage = Zlen row ->
  forall x, 0 <= x < Zlen row -> nthZ 0 (row_fast mode row w garbage) x = nthZ 0 (row_spec mode row w) x.
Proof. exact row_fast_is_row_spec. Qed.
