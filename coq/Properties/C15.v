(* C15 -- thinning, Euler number, convex hull.  thin_elems and the Euler tables are GENERATED from the sources. *)
Require Import MV.Base.Prelude MV.Base.CInt MV.Base.Index.
Require Import MV.Gen.Tables_gen MV.Model.Morph MV.Model.Topology MV.Proof.ExtremaProof MV.Proof.TopologyProof.
Require Import MV.Proof.HullContain.

(* thin returns a subset of its input (every pass of every iteration only deletes) *)
Theorem C15_thin_subset : forall fuel img, pos_shape (shape img) ->
  sub (data (thin_loop fuel img)) (data img) /\ shape (thin_loop fuel img) = shape img.
Proof. exact thin_loop_sub. Qed.

(* the iteration stops only at a fixpoint of a whole round of eight passes: thinning the result again changes nothing *)
Theorem C15_thin_stops_at_fixpoint : forall fuel img,
  data (thin_round (thin_loop fuel img)) = data (thin_loop fuel img) \/ thin_loop fuel img = iter_round fuel img.
Proof. exact thin_loop_fixpoint. Qed.

(* [fin: 8 elements x 256 neighbourhoods] a pixel matched by any structuring element is a simple point: exactly one
   8-component of foreground and one 4-adjacent 4-component of background among its 8 neighbours *)
Theorem C15_thin_deletes_only_simple_points : elems_delete_only_simple = true.
Proof. exact thin_elements_delete_only_simple_points. Qed.
Theorem C15_thin_elements_not_vacuous :
  forallb (fun elem => existsb (fun bits => elem_matches_ring elem bits) all_rings) thin_elems = true.
Proof. exact thin_elements_match_something. Qed.

(* [fin: 16 window patterns] the Euler lookup tables are the per-window contributions to V - E + F of the closed
   (8-connectivity) resp. open (4-connectivity) pixel complex, and the code weights are [[1,2],[4,8]] *)
Theorem C15_euler_tables_are_local_euler_characteristic :
  forallb (fun c => (nthZ 0 euler_lookup8_x4 c =? quad_closed_x4 c) && (nthZ 0 euler_lookup4_x4 c =? quad_open_x4 c)) (Zseq 0 16) = true
  /\ euler_powers = [[1; 2]; [4; 8]].
Proof. exact euler_tables_are_local_VEF. Qed.

(* each monotone chain of the hull: vertices are input (foreground) points, every consecutive triple turns strictly *)
Theorem C15_hull_chain_convex_and_subset : forall lt pts,
  convex_top (rev (fst (scan lt pts))) /\ forall x, In x (fst (scan lt pts)) -> In x pts.
Proof. exact scan_convex_subset. Qed.

(* containment: for each monotone chain of the hull (given greatest vertex first) -- the vertices strictly increase in the scan
   order, the chain runs from the least to the greatest input point, and EVERY input point q lies, in the slab b <= q <= a of
   consecutive vertices that contains it, on the right of or on the edge b -> a.  The ascending scan gives one side of the polygon,
   the descending scan (over the end points and the discarded points) the other: every foreground pixel is a vertex or lies
   between the two chains.  The foreground pixels of a 2-D image are pairwise distinct, as the theorems require. *)
Theorem C15_hull_ascending_chain_contains_all_points : forall pts, NoDup pts -> pts <> [] ->
  let st := rev (fst (scan forward_lt pts)) in
  st <> [] /\
  edges_ok (fun b a => forward_lt b a = true) st /\
  edges_ok (fun b a => forall q, In q pts -> (forward_lt b q = true \/ b = q) -> (forward_lt q a = true \/ q = a) -> is_left b a q <= 0) st /\
  (forall q, In q pts -> (forward_lt (last st (0, 0)) q = true \/ last st (0, 0) = q) /\ (forward_lt q (hd (0, 0) st) = true \/ q = hd (0, 0) st)).
Proof. exact forward_scan_contains. Qed.

Theorem C15_hull_descending_chain_contains_all_points : forall pts, NoDup pts -> pts <> [] ->
  let st := rev (fst (scan reverse_lt pts)) in
  st <> [] /\
  edges_ok (fun b a => reverse_lt b a = true) st /\
  edges_ok (fun b a => forall q, In q pts -> (reverse_lt b q = true \/ b = q) -> (reverse_lt q a = true \/ q = a) -> is_left b a q <= 0) st /\
  (forall q, In q pts -> (reverse_lt (last st (0, 0)) q = true \/ last st (0, 0) = q) /\ (reverse_lt q (hd (0, 0) st) = true \/ q = hd (0, 0) st)).
Proof. exact reverse_scan_contains. Qed.

Theorem C15_foreground_points_are_distinct : forall f h w, shape f = [h; w] -> 0 < h -> 0 < w -> NoDup (fg_points f).
Proof. exact fg_points_nodup. Qed.
