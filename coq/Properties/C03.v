(* C03 -- label() returns exactly the connected components, numbered 1..n in scan order.
   fix_offset (inside fixpos) is GENERATED from the C++ sources. *)
Require Import MV.Base.Prelude MV.Base.CInt MV.Base.Index MV.Base.BorderSpec MV.Base.Renumber.
Require Import MV.Gen.Scalar_gen MV.Model.Filter MV.Model.Label MV.Model.UnionFind MV.Proof.ConvProof MV.Proof.LabelProof MV.Proof.UnionFindProof.

(* the joins performed by the scan are exactly the adjacencies of the property: both pixels non-zero, both INSIDE
   the image, differing by the offset of a member of the connectivity element (any dimension, any element) *)
Theorem C03_joins_are_adjacencies : forall f bc i j, wf_img f -> pos_shape (shape bc) -> length (shape bc) = length (shape f) ->
  (In (i, j) (label_pairs f bc) <-> adjacent f bc i j).
Proof. exact label_pairs_adjacent. Qed.

(* 0 exactly where the input is 0 *)
Theorem C03_zero_iff_zero : forall f bc, wf_img f -> forall a, 0 <= a < Zlen (data f) ->
  (nthZ 0 (fst (label f bc)) a = 0 <-> nthZ 0 (data f) a = 0).
Proof. exact label_zero_iff. Qed.

(* same label <=> linked by a chain of adjacencies (conn is the equivalence closure: reflexive, symmetric --
   "an offset of the element or its reflection" -- and transitive) *)
Theorem C03_same_label_iff_connected : forall f bc, wf_img f -> forall a b,
  0 <= a < Zlen (data f) -> 0 <= b < Zlen (data f) -> nthZ 0 (data f) a <> 0 -> nthZ 0 (data f) b <> 0 ->
  (nthZ 0 (fst (label f bc)) a = nthZ 0 (fst (label f bc)) b <-> conn (label_pairs f bc) a b).
Proof. exact label_same_iff_connected. Qed.

(* labels are the consecutive integers 1..n in order of first appearance in C scan order; the count is n *)
Theorem C03_numbering_and_count : forall f bc, wf_img f ->
  (forall i, (i < length (data f))%nat -> 0 <= nth i (fst (label f bc)) 0 <= snd (label f bc)) /\
  (forall n, 1 <= n <= snd (label f bc) -> In n (fst (label f bc))) /\
  (forall i, (i < length (data f))%nat -> nth i (fst (label f bc)) 0 <= 1 + maxl 0 (firstn i (fst (label f bc)))).
Proof. exact label_numbering. Qed.

(* the union-find structure as it is written in _labeled.cpp -- parent array, recursive find with path compression, join by
   re-pointing the root of i to the root of j, final compression pass, first-appearance numbering (Model/UnionFind.v) --
   returns exactly the labels (and label count) of the class-merging model about which the theorems above are stated:
   every image, every connectivity element, every dimension.  (Forest invariant with a height function; find leaves every
   parent either unchanged or at its root; a path visits distinct nodes, so the fuel N suffices; the numbering depends only on
   the partition and the background.) *)
Theorem C03_union_find_gives_the_same_labels : forall f bc, wf_img f -> pos_shape (shape bc) ->
  length (shape bc) = length (shape f) -> uf_label f bc = label f bc.
Proof. exact uf_label_is_label. Qed.
