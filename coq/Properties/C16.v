(* C16 -- thresholds optimise their criteria and depend only on the histogram.
   gbernsen_px and soft_threshold_px are GENERATED from thresholding.py on every run (np.choose orientation preserved). *)
Require Import QArith Qabs Qminmax.
Require Import Coq.Sorting.Permutation.
Require Import MV.Base.Prelude MV.Base.QHelp MV.Gen.PyThresh_gen MV.Model.Labeled MV.Model.Threshold MV.Proof.ThresholdProof MV.Proof.OtsuProof MV.Proof.RcProof.

(* Bernsen: where the local contrast reaches the threshold the pixel is compared with the local mid-grey;
   where it does not, the mid-grey is compared with the global threshold *)
Theorem C16_gbernsen_rule : forall f fmax fmin ct g,
  let mid := (fmax / inject_Z 2 + fmin / inject_Z 2)%Q in
  ((ct <= fmax - fmin)%Q -> (gbernsen_px f fmax fmin ct g = true <-> (f < mid)%Q)) /\
  ((fmax - fmin < ct)%Q -> (gbernsen_px f fmax fmin ct g = true <-> (mid < g)%Q)).
Proof. exact gbernsen_pointwise. Qed.

(* soft_threshold shrinks magnitudes by tval and zeroes those not exceeding it *)
Theorem C16_soft_threshold_shrinks : forall f t, (0 <= t)%Q ->
  ((Qabs f <= t)%Q -> (soft_threshold_px f t == 0)%Q) /\
  ((t < f)%Q -> (soft_threshold_px f t == f - t)%Q) /\
  ((f < - t)%Q -> (soft_threshold_px f t == f + t)%Q).
Proof. exact soft_threshold_shrinks. Qed.

(* the first-maximiser search returns a threshold at which the between-class variance is maximal *)
Theorem C16_otsu_spec_maximises : forall hist T, (0 <= T < Zlen hist)%Z ->
  (sigma_spec hist T <= sigma_spec hist (otsu_spec hist))%Q.
Proof. exact otsu_spec_maximises. Qed.

(* the histogram -- the only summary of the image used by otsu and rc -- is invariant under pixel permutation *)
Theorem C16_histogram_permutation_invariant : forall v l l', Permutation l l' ->
  count_eq v l = count_eq v l' /\ maxl 0 l = maxl 0 l'.
Proof. intros. split; [now apply count_eq_perm|now apply maxl_perm]. Qed.

(* the incremental search of _histogram.cpp otsu() -- running class means, levels skipped while the lower class is empty,
   early exit once the upper class is empty -- returns exactly the first maximiser of the between-class variance, for every
   histogram of non-negative counts; hence no level has a larger between-class variance than the one returned *)
Theorem C16_otsu_is_the_first_maximiser : forall hist, Forall (fun v => 0 <= v)%Z hist ->
  otsu hist = otsu_spec hist /\
  forall T, (0 <= T < Zlen hist)%Z -> (sigma_spec hist T <= sigma_spec hist (otsu hist))%Q.
Proof.
  intros hist H. split; [apply otsu_is_spec; exact H|]. intros T HT. rewrite (otsu_is_spec hist H). apply otsu_spec_maximises. exact HT.
Qed.

(* rc (the Riddler-Calvard iteration of thresholding.py) returns a value between the smallest and the largest occurring grey
   level, for every histogram of non-negative counts with at least one occurring level *)
Theorem C16_rc_between_occurring_levels : forall hist lo, Forall (fun v => 0 <= v)%Z hist ->
  (forall i, (i < length hist)%nat -> nth i hist 0%Z <> 0%Z -> (lo <= Z.of_nat i)%Z) ->
  (exists i, (i < length hist)%nat /\ nth i hist 0%Z <> 0%Z) ->
  (zq lo <= rc hist <= zq (last_nonzero hist 0 0))%Q.
Proof. exact rc_between_occurring_levels. Qed.
