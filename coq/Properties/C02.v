(* C02 -- opening, closing, conditional and top-hat operators obey the lattice laws. *)
Require Import MV.Base.Prelude MV.Base.CInt MV.Base.Index MV.Base.BorderSpec.
Require Import MV.Gen.Scalar_gen MV.Model.Filter MV.Model.Morph.
Require Import MV.Proof.ScalarSat MV.Proof.MorphProof MV.Proof.MorphLaws MV.Proof.MorphBounds.

(* subm (GENERATED from the C++ loop body) is exact subtraction clamped to the dtype range:
   every width, both signednesses, every pair of values *)
Theorem C02_subm_is_clamped_subtraction : forall t a b,
  wf_ity t -> in_range t a -> in_range t b -> subm t a b = sat t (a - b).
Proof. exact subm_sat. Qed.

(* dilate(f) <= g  <->  f <= erode(g): boolean images of any dimension, ANY element, borders included *)
Theorem C02_bool_adjunction : forall sh bc, shape_ok sh ->
  (forall e, In e (entries true bc) -> length (fst e) = length sh) ->
  forall f g, bimg sh f -> bimg sh g ->
  (le_list (size sh) (bdil sh bc f) g <-> le_list (size sh) f (bero sh bc g)).
Proof. exact bool_adjunction. Qed.

Theorem C02_open_antiextensive : forall sh bc, shape_ok sh ->
  (forall e, In e (entries true bc) -> length (fst e) = length sh) ->
  forall f, bimg sh f -> le_list (size sh) (bopen sh bc f) f.
Proof. exact bopen_antiextensive. Qed.

Theorem C02_close_extensive : forall sh bc, shape_ok sh ->
  (forall e, In e (entries true bc) -> length (fst e) = length sh) ->
  forall f, bimg sh f -> le_list (size sh) f (bclose sh bc f).
Proof. exact bclose_extensive. Qed.

Theorem C02_open_idempotent : forall sh bc, shape_ok sh ->
  (forall e, In e (entries true bc) -> length (fst e) = length sh) ->
  forall f, bimg sh f -> bopen sh bc (bopen sh bc f) = bopen sh bc f.
Proof. exact bopen_idempotent. Qed.

Theorem C02_close_idempotent : forall sh bc, shape_ok sh ->
  (forall e, In e (entries true bc) -> length (fst e) = length sh) ->
  forall f, bimg sh f -> bclose sh bc (bclose sh bc f) = bclose sh bc f.
Proof. exact bclose_idempotent. Qed.

Theorem C02_open_increasing : forall sh bc, shape_ok sh ->
  (forall e, In e (entries true bc) -> length (fst e) = length sh) ->
  forall f g, bimg sh f -> bimg sh g -> le_list (size sh) f g ->
  le_list (size sh) (bopen sh bc f) (bopen sh bc g).
Proof. exact bopen_increasing. Qed.

Theorem C02_close_increasing : forall sh bc, shape_ok sh ->
  (forall e, In e (entries true bc) -> length (fst e) = length sh) ->
  forall f g, bimg sh f -> bimg sh g -> le_list (size sh) f g ->
  le_list (size sh) (bclose sh bc f) (bclose sh bc g).
Proof. exact bclose_increasing. Qed.

(* cdilate(f,g) in [min(f,g), g] and cerode(f,g) in [g, max(f,g)]: every dtype, dimension, iteration count,
   for any element that contains its centre with a non-negative height *)
Theorem C02_cdilate_bounds : forall d sh bc, wf_dt d -> shape_ok sh ->
  (forall e, In e (entries (is_bool d) bc) -> length (fst e) = length sh) ->
  (forall e, In e (entries (is_bool d) bc) -> d_in_range d (snd e)) ->
  forall e0, In e0 (entries (is_bool d) bc) -> zero_off (fst e0) ->
  match d with DBool => True | DInt t => 0 <= snd e0 /\ snd e0 <> tmin t end ->
  forall f g k, okl d (size sh) f -> okl d (size sh) g -> forall i, 0 <= i < size sh ->
  Z.min (nthZ 0 f i) (nthZ 0 g i)
    <= nthZ 0 (mh_cdilate d {| shape := sh; data := f |} g bc k) i <= nthZ 0 g i.
Proof. exact cdilate_bounds. Qed.

Theorem C02_cerode_bounds : forall d sh bc, wf_dt d -> shape_ok sh ->
  (forall e, In e (entries (is_bool d) bc) -> length (fst e) = length sh) ->
  (forall e, In e (entries (is_bool d) bc) -> d_in_range d (snd e)) ->
  forall e0, In e0 (entries (is_bool d) bc) -> zero_off (fst e0) ->
  match d with DBool => True | DInt t => 0 <= snd e0 /\ snd e0 <> tmin t end ->
  forall f g, okl d (size sh) f -> okl d (size sh) g -> forall i, 0 <= i < size sh ->
  nthZ 0 g i <= nthZ 0 (mh_cerode d {| shape := sh; data := f |} g bc) i
    <= Z.max (nthZ 0 f i) (nthZ 0 g i).
Proof. exact cerode_bounds. Qed.
