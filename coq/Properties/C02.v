(* C02 -- opening, closing, conditional and top-hat operators obey the lattice laws. *)
Require Import MV.Base.Prelude MV.Base.CInt MV.Base.Index MV.Base.BorderSpec.
Require Import MV.Gen.Scalar_gen MV.Model.Filter MV.Model.Morph.
Require Import MV.Proof.ScalarSat MV.Proof.MorphProof MV.Proof.MorphLaws MV.Proof.MorphBounds MV.Proof.GreyLaws MV.Proof.BinaryDuality.
Require Import MV.Model.MorphFast MV.Proof.MorphFastProof MV.Proof.FastLaws.

(* subm (GENERATED from the C++ loop body) is exact subtraction clamped to the dtype range:
   every width, both signednesses, every pair of values *)
Theorem C02_subm_is_clamped_subtraction : forall t a b,
  wf_ity t -> in_range t a -> in_range t b -> subm t a b = sat t (a - b).
Proof. exact subm_sat. Qed.

(* dilate(f) <= g  <->  f <= erode(g): boolean images of any dimension, ANY element, borders included *)
Theorem C02_bool_adjunction : forall sh bc, shape_ok sh ->
  (forall e, In e (entries true bc) -> length (fst e) = length sh) ->
  forall f g, bimg sh f -> bimg sh g ->
  (le_list (size sh) (bdil sh bc f) g <-> le_list (size sh) f (bero sh bc g)).
Proof. exact bool_adjunction. Qed.

Theorem C02_open_antiextensive : forall sh bc, shape_ok sh ->
  (forall e, In e (entries true bc) -> length (fst e) = length sh) ->
  forall f, bimg sh f -> le_list (size sh) (bopen sh bc f) f.
Proof. exact bopen_antiextensive. Qed.

Theorem C02_close_extensive : forall sh bc, shape_ok sh ->
  (forall e, In e (entries true bc) -> length (fst e) = length sh) ->
  forall f, bimg sh f -> le_list (size sh) f (bclose sh bc f).
Proof. exact bclose_extensive. Qed.

Theorem C02_open_idempotent : forall sh bc, shape_ok sh ->
  (forall e, In e (entries true bc) -> length (fst e) = length sh) ->
  forall f, bimg sh f -> bopen sh bc (bopen sh bc f) = bopen sh bc f.
Proof. exact bopen_idempotent. Qed.

Theorem C02_close_idempotent : forall sh bc, shape_ok sh ->
  (forall e, In e (entries true bc) -> length (fst e) = length sh) ->
  forall f, bimg sh f -> bclose sh bc (bclose sh bc f) = bclose sh bc f.
Proof. exact bclose_idempotent. Qed.

Theorem C02_open_increasing : forall sh bc, shape_ok sh ->
  (forall e, In e (entries true bc) -> length (fst e) = length sh) ->
  forall f g, bimg sh f -> bimg sh g -> le_list (size sh) f g ->
  le_list (size sh) (bopen sh bc f) (bopen sh bc g).
Proof. exact bopen_increasing. Qed.

Theorem C02_close_increasing : forall sh bc, shape_ok sh ->
  (forall e, In e (entries true bc) -> length (fst e) = length sh) ->
  forall f g, bimg sh f -> bimg sh g -> le_list (size sh) f g ->
  le_list (size sh) (bclose sh bc f) (bclose sh bc g).
Proof. exact bclose_increasing. Qed.

(* cdilate(f,g) in [min(f,g), g] and cerode(f,g) in [g, max(f,g)]: every dtype, dimension, iteration count,
   for any element that contains its centre with a non-negative height *)
Theorem C02_cdilate_bounds : forall d sh bc, wf_dt d -> shape_ok sh ->
  (forall e, In e (entries (is_bool d) bc) -> length (fst e) = length sh) ->
  (forall e, In e (entries (is_bool d) bc) -> d_in_range d (snd e)) ->
  forall e0, In e0 (entries (is_bool d) bc) -> zero_off (fst e0) ->
  match d with DBool => True | DInt t => 0 <= snd e0 /\ snd e0 <> tmin t end ->
  forall f g k, okl d (size sh) f -> okl d (size sh) g -> forall i, 0 <= i < size sh ->
  Z.min (nthZ 0 f i) (nthZ 0 g i)
    <= nthZ 0 (mh_cdilate d {| shape := sh; data := f |} g bc k) i <= nthZ 0 g i.
Proof. exact cdilate_bounds. Qed.

Theorem C02_cerode_bounds : forall d sh bc, wf_dt d -> shape_ok sh ->
  (forall e, In e (entries (is_bool d) bc) -> length (fst e) = length sh) ->
  (forall e, In e (entries (is_bool d) bc) -> d_in_range d (snd e)) ->
  forall e0, In e0 (entries (is_bool d) bc) -> zero_off (fst e0) ->
  match d with DBool => True | DInt t => 0 <= snd e0 /\ snd e0 <> tmin t end ->
  forall f g, okl d (size sh) f -> okl d (size sh) g -> forall i, 0 <= i < size sh ->
  nthZ 0 g i <= nthZ 0 (mh_cerode d {| shape := sh; data := f |} g bc) i
    <= Z.max (nthZ 0 f i) (nthZ 0 g i).
Proof. exact cerode_bounds. Qed.

(* ---- unsigned grey images, flat element at height c (c = 1 for the masks morph.py builds): any width, dimension, element shape.
   PG = images of the dtype; PF = images with values <= max - c ("clear of the saturation limit"); every erosion is in PF. ---- *)
Theorem C02_grey_adjunction : forall t, wf_ity t -> signed t = false -> forall sh bc c, 0 < c <= tmax t -> shape_ok sh ->
  (forall e, In e (entries false bc) -> length (fst e) = length sh) ->
  Forall (fun h => h = 0 \/ h = c) (data bc) ->
  forall f g, PF t sh c f -> PG t sh g ->
  (le_list (size sh) (gdil t sh bc f) g <-> le_list (size sh) f (gero t sh bc g)).
Proof. exact grey_adjunction. Qed.

Theorem C02_grey_open_antiextensive : forall t, wf_ity t -> signed t = false -> forall sh bc c, 0 < c <= tmax t -> shape_ok sh ->
  (forall e, In e (entries false bc) -> length (fst e) = length sh) ->
  Forall (fun h => h = 0 \/ h = c) (data bc) -> (exists e, In e (entries false bc) /\ snd e = c) ->
  forall f, PG t sh f -> le_list (size sh) (mh_open (DInt t) (A sh f) bc) f.
Proof. exact gopen_antiextensive. Qed.

Theorem C02_grey_close_extensive : forall t, wf_ity t -> signed t = false -> forall sh bc c, 0 < c <= tmax t -> shape_ok sh ->
  (forall e, In e (entries false bc) -> length (fst e) = length sh) ->
  Forall (fun h => h = 0 \/ h = c) (data bc) -> (exists e, In e (entries false bc) /\ snd e = c) ->
  forall f, PF t sh c f -> le_list (size sh) f (mh_close (DInt t) (A sh f) bc).
Proof. exact gclose_extensive. Qed.

Theorem C02_grey_open_idempotent : forall t, wf_ity t -> signed t = false -> forall sh bc c, 0 < c <= tmax t -> shape_ok sh ->
  (forall e, In e (entries false bc) -> length (fst e) = length sh) ->
  Forall (fun h => h = 0 \/ h = c) (data bc) -> (exists e, In e (entries false bc) /\ snd e = c) ->
  forall f, PG t sh f ->
  mh_open (DInt t) (A sh (mh_open (DInt t) (A sh f) bc)) bc = mh_open (DInt t) (A sh f) bc.
Proof. exact gopen_idempotent. Qed.

Theorem C02_grey_close_idempotent : forall t, wf_ity t -> signed t = false -> forall sh bc c, 0 < c <= tmax t -> shape_ok sh ->
  (forall e, In e (entries false bc) -> length (fst e) = length sh) ->
  Forall (fun h => h = 0 \/ h = c) (data bc) -> (exists e, In e (entries false bc) /\ snd e = c) ->
  forall f, PF t sh c f ->
  mh_close (DInt t) (A sh (mh_close (DInt t) (A sh f) bc)) bc = mh_close (DInt t) (A sh f) bc.
Proof. exact gclose_idempotent. Qed.

Theorem C02_grey_open_increasing : forall t, wf_ity t -> signed t = false -> forall sh bc c, 0 < c <= tmax t -> shape_ok sh ->
  (forall e, In e (entries false bc) -> length (fst e) = length sh) ->
  Forall (fun h => h = 0 \/ h = c) (data bc) -> (exists e, In e (entries false bc) /\ snd e = c) ->
  forall f g, PG t sh f -> PG t sh g -> le_list (size sh) f g ->
  le_list (size sh) (mh_open (DInt t) (A sh f) bc) (mh_open (DInt t) (A sh g) bc).
Proof. exact gopen_increasing. Qed.

Theorem C02_grey_close_increasing : forall t, wf_ity t -> signed t = false -> forall sh bc c, 0 < c <= tmax t -> shape_ok sh ->
  (forall e, In e (entries false bc) -> length (fst e) = length sh) ->
  Forall (fun h => h = 0 \/ h = c) (data bc) -> (exists e, In e (entries false bc) /\ snd e = c) ->
  forall f g, PF t sh c f -> PF t sh c g -> le_list (size sh) f g ->
  le_list (size sh) (mh_close (DInt t) (A sh f) bc) (mh_close (DInt t) (A sh g) bc).
Proof. exact gclose_increasing. Qed.

(* the top-hats are the exact differences f - open(f) and close(f) - f: subm never clamps there *)
Theorem C02_grey_tophat_open_exact : forall t, wf_ity t -> signed t = false -> forall sh bc c, 0 < c <= tmax t -> shape_ok sh ->
  (forall e, In e (entries false bc) -> length (fst e) = length sh) ->
  Forall (fun h => h = 0 \/ h = c) (data bc) -> (exists e, In e (entries false bc) /\ snd e = c) ->
  forall f i, PG t sh f -> 0 <= i < size sh ->
  nthZ 0 (mh_tophat_open (DInt t) (A sh f) bc) i = nthZ 0 f i - nthZ 0 (mh_open (DInt t) (A sh f) bc) i.
Proof. exact tophat_open_exact. Qed.

Theorem C02_grey_tophat_close_exact : forall t, wf_ity t -> signed t = false -> forall sh bc c, 0 < c <= tmax t -> shape_ok sh ->
  (forall e, In e (entries false bc) -> length (fst e) = length sh) ->
  Forall (fun h => h = 0 \/ h = c) (data bc) -> (exists e, In e (entries false bc) /\ snd e = c) ->
  forall f i, PF t sh c f -> 0 <= i < size sh ->
  nthZ 0 (mh_tophat_close (DInt t) (A sh f) bc) i = nthZ 0 (mh_close (DInt t) (A sh f) bc) i - nthZ 0 f i.
Proof. exact tophat_close_exact. Qed.

(* binary dilation is the complement of the erosion of the complement -- any dimension, borders included, for every element
   whose clamped neighbourhood relation is symmetric (p reaches q iff q reaches p) ... *)
Theorem C02_binary_duality : forall sh bc, shape_ok sh ->
  (forall e, In e (entries true bc) -> length (fst e) = length sh) -> nbr_sym sh bc ->
  forall f, bimg sh f -> bdil sh bc f = bnot (bero sh bc (bnot f)).
Proof. exact binary_duality. Qed.

(* ... which holds for every element closed under shrinking its offsets coordinate-wise (an executable test that the cross,
   the boxes and the disks pass: usual_elements_shrink_closed; an asymmetric element fails both: asymmetric_element_fails) *)
Theorem C02_binary_duality_for_shrink_closed_elements : forall sh bc, shape_ok sh ->
  (forall e, In e (entries true bc) -> length (fst e) = length sh) -> shrink_closedb bc = true ->
  forall f, bimg sh f -> bdil sh bc f = bnot (bero sh bc (bnot f)).
Proof. exact binary_duality_usual. Qed.

(* The same laws on the 2-D boolean FAST PATH of _morph.cpp (the raw-pointer kernel that serves C-contiguous 2-D boolean
   images): opening and closing computed with both passes on that path are the generic opening and closing, for every element
   (even-sized, asymmetric, without centre) ... *)
Theorem C02_fast_path_open_close_are_the_generic_ones : forall Ny Nx By Bx bc, shape_ok [Ny; Nx] -> shape bc = [By; Bx] ->
  1 <= By -> 1 <= Bx -> (forall e, In e (entries true bc) -> length (fst e) = length [Ny; Nx]) ->
  forall f, bimg [Ny; Nx] f ->
  fopen [Ny; Nx] bc f = bopen [Ny; Nx] bc f /\ fclose [Ny; Nx] bc f = bclose [Ny; Nx] bc f.
Proof.
  intros Ny Nx By Bx bc Hs Hb H1 H2 He f Hf. split;
    [eapply fopen_is_bopen | eapply fclose_is_bclose]; eauto.
Qed.

(* ... hence anti-extensive / extensive, idempotent and increasing there too *)
Theorem C02_fast_path_laws : forall Ny Nx By Bx bc, shape_ok [Ny; Nx] -> shape bc = [By; Bx] ->
  1 <= By -> 1 <= Bx -> (forall e, In e (entries true bc) -> length (fst e) = length [Ny; Nx]) ->
  forall f g, bimg [Ny; Nx] f -> bimg [Ny; Nx] g ->
  le_list (size [Ny; Nx]) (fopen [Ny; Nx] bc f) f /\
  le_list (size [Ny; Nx]) f (fclose [Ny; Nx] bc f) /\
  fopen [Ny; Nx] bc (fopen [Ny; Nx] bc f) = fopen [Ny; Nx] bc f /\
  fclose [Ny; Nx] bc (fclose [Ny; Nx] bc f) = fclose [Ny; Nx] bc f /\
  (le_list (size [Ny; Nx]) f g ->
     le_list (size [Ny; Nx]) (fopen [Ny; Nx] bc f) (fopen [Ny; Nx] bc g) /\
     le_list (size [Ny; Nx]) (fclose [Ny; Nx] bc f) (fclose [Ny; Nx] bc g)).
Proof. intros Ny Nx By Bx bc Hs Hb H1 H2 He f g. eapply fast_open_close_laws; eauto. Qed.
