(* C08 -- results depend only on the logical input.  Layer-1 theorems about numpypp/array.hpp: the machinery through which
   every kernel reads arbitrary memory layouts. *)
Require Import MV.Base.Prelude MV.Base.Index MV.Model.ArrayHpp MV.Proof.ArrayProof.

(* operator++ of the stride-aware iterator keeps  pointer = base + <position, strides>  for ARBITRARY strides
   (negative, non-monotone, padded): so *iter is always the element at the iterator's logical position *)
Theorem C08_iterator_points_at_its_position : forall dims strides pos,
  length strides = length dims -> length pos = length dims -> Forall2 (fun p d => 0 <= p < d) pos dims ->
  let r := iter_next (dot pos strides) pos dims (steps dims strides) in
  fst r = dot (snd r) strides \/ Forall (fun p => p = 0) (snd r).
Proof. exact iterator_step_address. Qed.

(* ... and the positions are visited in C (row-major) order: each ++ is the successor *)
Theorem C08_iterator_visits_c_order : forall dims pos off stp, length pos = length dims -> length stp = length dims ->
  Forall2 (fun p d => 0 <= p < d) pos dims ->
  let r := iter_next off pos dims stp in
  value_rev (snd r) dims = value_rev pos dims + 1 \/ Forall (fun p => p = 0) (snd r).
Proof. exact iterator_step_position. Qed.

(* at_flat(p) is the element whose C-order index is p, whatever the strides *)
Theorem C08_at_flat_is_logical_element : forall sh strides p, length strides = length sh -> Forall (fun d => 0 < d) sh ->
  0 <= p < fold_right Z.mul 1 sh ->
  exists pos_rev, Forall2 (fun q d => 0 <= q < d) pos_rev (rev sh) /\
    at_flat p sh strides = dot pos_rev (rev strides) /\ value_rev pos_rev (rev sh) = p.
Proof. exact at_flat_addresses_logical_element. Qed.

(* pos_to_flat / flat_to_pos are mutually inverse on valid positions and indices *)
Theorem C08_flat_pos_roundtrip : forall sh, pos_shape sh ->
  (forall i, 0 <= i < size sh -> ravel sh (unravel sh i) = i) /\
  (forall pos, in_shape sh pos -> unravel sh (ravel sh pos) = pos).
Proof. intros sh H. split; [intros; now apply ravel_unravel|intros; now apply unravel_ravel]. Qed.
