(* C18 -- shift / zoom evaluate the spline interpolant at the mapped coordinates (exact statements for order 1). *)
Require Import QArith Qabs Qround.
Require Import MV.Base.Prelude MV.Base.QHelp MV.Gen.Scalar_gen MV.Model.Interp MV.Proof.InterpProof MV.Proof.SplineProof.
Open Scope Q_scope.

(* coordinates inside the array are not touched by the border map (any mode) *)
Theorem C18_inside_coordinates_unchanged : forall mode len x, 0 <= x -> x <= inject_Z (len - 1) -> map_coordinate mode len x = Some x.
Proof. exact map_coordinate_inside. Qed.

(* the two weights of order 1 sum to one, for every real coordinate *)
Theorem C18_order1_partition_of_unity : forall x, qsum (spline_weights 1 x) == 1.
Proof. exact order1_partition_of_unity. Qed.

(* order 1 at fractional offsets is linear interpolation of the two neighbours *)
Theorem C18_order1_is_linear_interpolation : forall mode dat x, 0 <= x -> x <= inject_Z (Zlen dat - 1) ->
  let k := Qfloor x in let t := x - inject_Z k in
  interp1 1 mode dat x == (1 - t) * nthZ 0 dat (edge_index (Zlen dat) k) + t * nthZ 0 dat (edge_index (Zlen dat) (k + 1)).
Proof. exact order1_is_linear_interpolation. Qed.

(* at integer coordinates the interpolant is the sample: zero shift / unit zoom return the input, integer shifts translate *)
Theorem C18_integer_coordinates_give_samples : forall mode dat k, (0 <= k < Zlen dat)%Z ->
  interp1 1 mode dat (inject_Z k) == nthZ 0 dat k.
Proof. exact order1_at_integer_is_sample. Qed.

(* zoom returns the requested length and maps corner samples to corner samples *)
Theorem C18_zoom_shape : forall order mode dat n_out, (0 <= n_out)%Z -> Zlen (zoom1 order mode dat n_out) = n_out.
Proof. exact zoom_shape. Qed.
Theorem C18_zoom_maps_corners : forall n_in n_out, (1 < n_out)%Z ->
  inject_Z 0 * zoom_factor n_in n_out == 0 /\ inject_Z (n_out - 1) * zoom_factor n_in n_out == inject_Z (n_in - 1).
Proof. exact zoom_maps_corners. Qed.

(* orders 2, 3 and 4: the B-spline weights sum to one at every real coordinate *)
Theorem C18_bspline_partition_of_unity : forall x,
  qsum (spline_weights 2 x) == 1 /\ qsum (spline_weights 3 x) == 1 /\ qsum (spline_weights 4 x) == 1.
Proof. exact (fun x => conj (order2_partition_of_unity x) (conj (order3_partition_of_unity x) (order4_partition_of_unity x))). Qed.

(* hence a constant (already prefiltered) signal is reproduced exactly at every in-range coordinate, in every order and mode *)
Theorem C18_constant_signal_reproduced : forall order mode dat c x,
  (order = 1 \/ order = 2 \/ order = 3 \/ order = 4)%Z -> Forall (fun v => v == c) dat -> (1 <= Zlen dat)%Z ->
  0 <= x -> x <= inject_Z (Zlen dat - 1) -> interp1 order mode dat x == c.
Proof. exact constant_signal_reproduced. Qed.
