(* C18 -- shift / zoom evaluate the spline interpolant at the mapped coordinates (exact statements for order 1). *)
Require Import QArith Qabs Qround.
Require Import MV.Base.Prelude MV.Base.QHelp MV.Gen.Scalar_gen MV.Model.Interp MV.Proof.InterpProof MV.Proof.SplineProof.
Require Import MV.Proof.ShiftProof.
Open Scope Q_scope.

(* coordinates inside the array are not touched by the border map (any mode) *)
Theorem C18_inside_coordinates_unchanged : forall mode len x, 0 <= x -> x <= inject_Z (len - 1) -> map_coordinate mode len x = Some x.
Proof. exact map_coordinate_inside. Qed.

(* the two weights of order 1 sum to one, for every real coordinate *)
Theorem C18_order1_partition_of_unity : forall x, qsum (spline_weights 1 x) == 1.
Proof. exact order1_partition_of_unity. Qed.

(* order 1 at fractional offsets is linear interpolation of the two neighbours *)
Theorem C18_order1_is_linear_interpolation : forall mode dat x, 0 <= x -> x <= inject_Z (Zlen dat - 1) ->
  let k := Qfloor x in let t := x - inject_Z k in
  interp1 1 mode dat x == (1 - t) * nthZ 0 dat (edge_index (Zlen dat) k) + t * nthZ 0 dat (edge_index (Zlen dat) (k + 1)).
Proof. exact order1_is_linear_interpolation. Qed.

(* at integer coordinates the interpolant is the sample: zero shift / unit zoom return the input, integer shifts translate *)
Theorem C18_integer_coordinates_give_samples : forall mode dat k, (0 <= k < Zlen dat)%Z ->
  interp1 1 mode dat (inject_Z k) == nthZ 0 dat k.
Proof. exact order1_at_integer_is_sample. Qed.

(* zoom returns the requested length and maps corner samples to corner samples *)
Theorem C18_zoom_shape : forall order mode dat n_out, (0 <= n_out)%Z -> Zlen (zoom1 order mode dat n_out) = n_out.
Proof. exact zoom_shape. Qed.
Theorem C18_zoom_maps_corners : forall n_in n_out, (1 < n_out)%Z ->
  inject_Z 0 * zoom_factor n_in n_out == 0 /\ inject_Z (n_out - 1) * zoom_factor n_in n_out == inject_Z (n_in - 1).
Proof. exact zoom_maps_corners. Qed.

(* orders 2, 3 and 4: the B-spline weights sum to one at every real coordinate *)
Theorem C18_bspline_partition_of_unity : forall x,
  qsum (spline_weights 2 x) == 1 /\ qsum (spline_weights 3 x) == 1 /\ qsum (spline_weights 4 x) == 1.
Proof. exact (fun x => conj (order2_partition_of_unity x) (conj (order3_partition_of_unity x) (order4_partition_of_unity x))). Qed.

(* hence a constant (already prefiltered) signal is reproduced exactly at every in-range coordinate, in every order and mode *)
Theorem C18_constant_signal_reproduced : forall order mode dat c x,
  (order = 1 \/ order = 2 \/ order = 3 \/ order = 4)%Z -> Forall (fun v => v == c) dat -> (1 <= Zlen dat)%Z ->
  0 <= x -> x <= inject_Z (Zlen dat - 1) -> interp1 order mode dat x == c.
Proof. exact constant_signal_reproduced. Qed.

(* an integer shift is an exact translation: the pixel k of the result is the sample k - s whenever that lies in the array (every
   border mode) ... *)
Theorem C18_integer_shift_translates : forall mode dat s k, (0 <= k < Zlen dat)%Z -> (0 <= k - s < Zlen dat)%Z ->
  nthZ 0 (shift1 1 mode dat (zq s)) k == nthZ 0 dat (k - s)%Z.
Proof. exact shift_integer_inside. Qed.

(* ... and the vacated pixels are filled by the border rule: cval = 0 in the constant and ignore modes, the edge sample in
   nearest mode *)
Theorem C18_integer_shift_fills_with_cval : forall mode dat s k, (0 <= k < Zlen dat)%Z -> (k - s < 0 \/ Zlen dat <= k - s)%Z ->
  mode = ExtendConstant \/ mode = ExtendIgnore -> nthZ 0 (shift1 1 mode dat (zq s)) k == 0.
Proof. exact shift_integer_outside_constant. Qed.

Theorem C18_integer_shift_nearest_replicates_edge : forall dat s k, (0 <= k < Zlen dat)%Z -> (k - s < 0 \/ Zlen dat <= k - s)%Z ->
  nthZ 0 (shift1 1 ExtendNearest dat (zq s)) k == nthZ 0 dat (if (k - s <? 0)%Z then 0 else Zlen dat - 1)%Z.
Proof. exact shift_integer_outside_nearest. Qed.
