(* C13: labeled.bbox -- the one-pass per-label scan of _bbox.cpp returns, for every label 0..n, the tight bounding box of the
   pixels carrying that label (zeros for a label without pixels): row l is what bbox returns for the indicator image of l. *)
Require Import MV.Base.Prelude MV.Base.CInt MV.Base.Index MV.Model.Filter MV.Model.Labeled MV.Proof.BboxProof.

Definition indicator (f : arr) (l : Z) : arr :=
  {| shape := shape f; data := map (fun v => if v =? l then 1 else 0) (data f) |}.

Lemma nthZ_updZ {A} (d : A) rows i j v : 0 <= i < Zlen rows -> 0 <= j ->
  nthZ d (updZ rows i v) j = if i =? j then v else nthZ d rows j.
Proof.
  intros Hi Hj. unfold nthZ, updZ, Zlen in *. destruct (i <? 0) eqn:E1; [lia|]. destruct (j <? 0) eqn:E2; [lia|].
  rewrite nth_upd. destruct (Nat.eqb (Z.to_nat i) (Z.to_nat j)) eqn:E3.
  - apply Nat.eqb_eq in E3. assert (i = j) by lia. subst j. rewrite Z.eqb_refl.
    destruct (Nat.ltb (Z.to_nat i) (length rows)) eqn:E4; [reflexivity|]. apply Nat.ltb_ge in E4. lia.
  - apply Nat.eqb_neq in E3. destruct (i =? j) eqn:E5; [lia|reflexivity].
Qed.

Lemma updZ_length {A} (rows : list A) i v : length (updZ rows i v) = length rows.
Proof. unfold updZ. destruct (i <? 0); [reflexivity|apply upd_length]. Qed.

Lemma lbb_update_length rows l p : length (lbb_update rows l p) = length rows.
Proof. unfold lbb_update. destruct (l <? 0); [reflexivity|apply updZ_length]. Qed.

(* row l of the scan only sees the pixels labelled l *)
Lemma lbb_fold_row (g : list Z -> Z) ps : forall rows l, 0 <= l < Zlen rows ->
  nthZ [] (fold_left (fun rows p => lbb_update rows (g p) p) ps rows) l
  = fold_left (fun ext p => if g p =? l then upd_ext ext p else ext) ps (nthZ [] rows l).
Proof.
  induction ps as [|p ps IH]; intros rows l Hl; [reflexivity|].
  cbn [fold_left]. rewrite IH by (unfold Zlen in *; rewrite lbb_update_length; lia). f_equal.
  unfold lbb_update. destruct (g p <? 0) eqn:E.
  - destruct (g p =? l) eqn:E2; [lia|reflexivity].
  - assert (g p < Zlen rows \/ Zlen rows <= g p) as [H|H] by lia.
    + rewrite nthZ_updZ by lia. destruct (g p =? l) eqn:E2; [|reflexivity]. assert (g p = l) by lia. congruence.
    + (* a label beyond the table: upd leaves the table as it is *)
      destruct (g p =? l) eqn:E2; [lia|].
      unfold updZ. rewrite E. f_equal.
      assert (G : forall (A : Type) (rows : list A) i v, (length rows <= i)%nat -> upd rows i v = rows).
      { clear. induction rows as [|h t IHt]; intros [|i] v Hi; simpl in *; try reflexivity; try lia. f_equal. apply IHt. lia. }
      apply G. unfold Zlen in H. lia.
Qed.

Lemma fold_lbb_length (g : list Z -> Z) ps : forall rows,
  length (fold_left (fun rows p => lbb_update rows (g p) p) ps rows) = length rows.
Proof. induction ps as [|p ps IH]; intros rows; [reflexivity|]. cbn [fold_left]. rewrite IH. apply lbb_update_length. Qed.

Lemma aget_indicator f l p : wf_arr f -> in_shape (shape f) p ->
  aget (indicator f l) p = if aget f p =? l then 1 else 0.
Proof.
  intros [Ps Hd] Hp. unfold aget, indicator. cbn [shape data].
  pose proof (ravel_bound _ _ Ps Hp). rewrite nthZ_map with (da := 0) by lia. reflexivity.
Qed.

Lemma fold_left_ext_in {A B} (g h : B -> A -> B) l b : (forall x y, In y l -> g x y = h x y) -> fold_left g l b = fold_left h l b.
Proof.
  revert b. induction l as [|x l IH]; intros b E; [reflexivity|]. cbn [fold_left]. rewrite E by (left; reflexivity).
  apply IH. intros; apply E; right; auto.
Qed.

Lemma nthZ_repeat' {A} (d x : A) n i : 0 <= i < Z.of_nat n -> nthZ d (repeat x n) i = x.
Proof.
  intros Hi. unfold nthZ. destruct (i <? 0) eqn:E; [lia|].
  assert (G : forall n k, (k < n)%nat -> nth k (repeat x n) d = x).
  { clear. induction n as [|n IH]; intros [|k] H; simpl; try lia; auto. apply IH. lia. }
  apply G. lia.
Qed.

Theorem lbb_scan_row f n l : wf_arr f -> 0 <= l <= n ->
  nthZ [] (lbb_scan f n) l = bbox_scan (indicator f l).
Proof.
  intros W Hl. unfold lbb_scan. rewrite lbb_fold_row by (unfold Zlen; rewrite repeat_length; lia).
  rewrite nthZ_repeat' by lia. unfold bbox_scan. change (shape (indicator f l)) with (shape f).
  apply fold_left_ext_in. intros ext p Hp. apply (in_all_positions _ _ (proj1 W)) in Hp.
  rewrite aget_indicator by auto. destruct (aget f p =? l); reflexivity.
Qed.

Lemma nth_map' {A B} (g : A -> B) (l : list A) (da : A) (db : B) k : (k < length l)%nat ->
  nth k (map g l) db = g (nth k l da).
Proof. revert k; induction l as [|x l IH]; intros [|k] H; simpl in *; try lia; auto. apply IH. lia. Qed.

Theorem bbox_labeled_is_spec f n : wf_arr f -> 0 <= n -> bbox_labeled f n = bbox_labeled_spec f n.
Proof.
  intros W Hn. unfold bbox_labeled, bbox_labeled_spec.
  assert (L : length (lbb_scan f n) = Z.to_nat (n + 1)).
  { unfold lbb_scan. rewrite fold_lbb_length, repeat_length. reflexivity. }
  apply nth_ext with (d := []) (d' := []).
  - rewrite !map_length, Zseq_length. exact L.
  - intros k Hk. rewrite map_length in Hk.
    rewrite (nth_map' _ _ []) by lia. rewrite (nth_map' _ _ 0) by (rewrite Zseq_length; lia).
    rewrite nth_Zseq by lia. rewrite Z.add_0_l.
    pose proof (lbb_scan_row f n (Z.of_nat k) W ltac:(lia)) as R.
    unfold nthZ in R. destruct (Z.of_nat k <? 0) eqn:E; [lia|]. rewrite Nat2Z.id in R. rewrite R.
    change (bbox_generic (indicator f (Z.of_nat k)) = bbox_spec (indicator f (Z.of_nat k))).
    apply bbox_generic_is_spec. exact (proj1 W).
Qed.

Example bbox_labeled_example :
  bbox_labeled {| shape := [2; 3]; data := [0; 2; 2; 0; 0; 2] |} 2 = [[0; 2; 0; 2]; [0; 0; 0; 0]; [0; 2; 1; 3]].
Proof. vm_compute. reflexivity. Qed.
