(* C15: thin is anti-extensive and stops at a fixpoint; its elements delete only simple points [fin];
   Euler lookup tables are the local V-E+F contributions [fin]; hull vertices are input points in strictly convex position. *)
Require Import MV.Base.Prelude MV.Base.CInt MV.Base.Index MV.Base.BorderSpec.
Require Import MV.Gen.Scalar_gen MV.Gen.Tables_gen MV.Model.Filter MV.Model.Morph MV.Model.Labeled MV.Model.Topology.
Require Import MV.Proof.LabeledProof MV.Proof.ExtremaProof.

(* ---------- thin ---------- *)
Lemma thin_pass_sub img elem : pos_shape (shape img) -> sub (data (thin_pass img elem)) (data img).
Proof.
  intros Ps i. unfold thin_pass. cbn [data].
  destruct (Z_lt_ge_dec i 0) as [L|L]; [left; unfold nthZ; destruct (i <? 0) eqn:E; [reflexivity|lia]|].
  destruct (Z_lt_ge_dec i (size (shape img))) as [U|U].
  - rewrite nthZ_map with (da := []) by (unfold Zlen; rewrite all_positions_length; lia).
    rewrite nthZ_all_positions by lia.
    destruct (tmatch img elem (unravel (shape img) i)); [left; reflexivity|right].
    unfold aget. rewrite ravel_unravel by (auto; lia). reflexivity.
  - left. unfold nthZ. destruct (i <? 0); [reflexivity|]. apply nth_overflow. rewrite map_length, all_positions_length. lia.
Qed.

Lemma thin_pass_shape img elem : shape (thin_pass img elem) = shape img. Proof. reflexivity. Qed.

Lemma thin_round_sub img : pos_shape (shape img) -> sub (data (thin_round img)) (data img) /\ shape (thin_round img) = shape img.
Proof.
  unfold thin_round. generalize thin_elems. intros l; revert img. induction l as [|e l IH]; intros img Ps; cbn [fold_left].
  - split; [apply sub_refl|reflexivity].
  - destruct (IH (thin_pass img e)) as [A B]; [rewrite thin_pass_shape; exact Ps|].
    split; [eapply sub_trans; [exact A|now apply thin_pass_sub]|now rewrite B].
Qed.

(* every iteration only deletes pixels: the skeleton is a subset of the (cropped, padded) input *)
Theorem thin_loop_sub fuel : forall img, pos_shape (shape img) ->
  sub (data (thin_loop fuel img)) (data img) /\ shape (thin_loop fuel img) = shape img.
Proof.
  induction fuel as [|k IH]; intros img Ps; cbn [thin_loop]; [split; [apply sub_refl|reflexivity]|].
  destruct (thin_round_sub img Ps) as [A B].
  destruct (list_eqb (data (thin_round img)) (data img)); [split; assumption|].
  destruct (IH (thin_round img)) as [C D]; [rewrite B; exact Ps|].
  split; [eapply sub_trans; eauto|congruence].
Qed.

(* the loop stops only at a fixpoint of a whole round (or when the fuel is exhausted) *)
Fixpoint iter_round (n : nat) (img : arr) : arr := match n with O => img | S k => iter_round k (thin_round img) end.
Theorem thin_loop_fixpoint fuel : forall img,
  data (thin_round (thin_loop fuel img)) = data (thin_loop fuel img) \/ thin_loop fuel img = iter_round fuel img.
Proof.
  induction fuel as [|k IH]; intros img; cbn [thin_loop iter_round]; [right; reflexivity|].
  destruct (list_eqb (data (thin_round img)) (data img)) eqn:E.
  - left. apply list_eqb_eq in E.
    assert (S : forall im, shape (thin_round im) = shape im).
    { unfold thin_round. generalize thin_elems. intros l. induction l as [|e l IHl]; intros im; [reflexivity|].
      cbn [fold_left]. rewrite IHl. reflexivity. }
    specialize (S img).
    assert (R : thin_round img = img) by (destruct (thin_round img), img; cbn in *; congruence).
    rewrite R. rewrite R. reflexivity.
  - apply IH.
Qed.

(* [fin] every generated structuring element matches only configurations whose centre is a simple point *)
Definition all_rings : list (list Z) := map ring_bits (Zseq 0 256).
Definition elems_delete_only_simple : bool :=
  forallb (fun elem => forallb (fun bits => negb (elem_matches_ring elem bits) || simple_point bits) all_rings) thin_elems.
Theorem thin_elements_delete_only_simple_points : elems_delete_only_simple = true.
Proof. vm_compute. reflexivity. Qed.
(* and each element does match something (the implication is not vacuous) *)
Theorem thin_elements_match_something :
  forallb (fun elem => existsb (fun bits => elem_matches_ring elem bits) all_rings) thin_elems = true.
Proof. vm_compute. reflexivity. Qed.

(* ---------- Euler ---------- *)
(* [fin] the generated lookup tables are the contributions of one 2x2 window to V - E + F of the closed (8-) / open (4-) pixel complex *)
Theorem euler_tables_are_local_VEF :
  forallb (fun c => (nthZ 0 euler_lookup8_x4 c =? quad_closed_x4 c) && (nthZ 0 euler_lookup4_x4 c =? quad_open_x4 c)) (Zseq 0 16) = true
  /\ euler_powers = [[1; 2]; [4; 8]].
Proof. split; vm_compute; reflexivity. Qed.

(* ---------- convex hull ---------- *)
Lemma in_pinsert lt x a l : In x (pinsert lt a l) <-> x = a \/ In x l.
Proof.
  induction l as [|y t IH]; simpl; [intuition|]. destruct (lt y a); simpl; [rewrite IH|]; intuition.
Qed.
Lemma in_psort lt x l : In x (psort lt l) <-> In x l.
Proof. induction l as [|a l IH]; simpl; [tauto|]. rewrite in_pinsert, IH. intuition. Qed.

Fixpoint convex_top (st : list pt) : Prop :=      (* top first: every consecutive triple turns strictly right *)
  match st with
  | a :: ((b :: (c :: _)) as t) => is_left c b a < 0 /\ convex_top t
  | _ => True
  end.

Lemma convex_top_tail a t : convex_top (a :: t) -> convex_top t.
Proof. destruct t as [|b [|c r]]; simpl; tauto. Qed.

Lemma chain_pop_spec st : forall p disc, convex_top st ->
  let r := chain_pop st p disc in
  convex_top (p :: fst r) /\ (forall x, In x (fst r) -> In x st) /\ (forall x, In x (snd r) -> In x disc \/ In x st).
Proof.
  induction st as [|a rest IH]; intros p disc C; cbn [chain_pop].
  - cbn. split; [exact I|]. split; [tauto|auto].
  - destruct rest as [|b r].
    + cbn. split; [exact I|]. split; [tauto|auto].
    + destruct (is_left b a p >=? 0) eqn:T.
      * destruct (IH p (a :: disc) (convex_top_tail _ _ C)) as (A & B & D). cbv zeta in *. split; [exact A|]. split.
        -- intros x Hx. right. apply B. exact Hx.
        -- intros x Hx. destruct (D x Hx) as [[<-|H]|H]; [right; left; reflexivity|left; exact H|right; right; exact H].
      * cbn [fst snd]. split; [|split; [tauto|auto]]. cbn [convex_top]. split; [lia|exact C].
Qed.

Lemma scan_fold l : forall st disc, convex_top st ->
  let r := fold_left chain_step l (st, disc) in
  convex_top (fst r) /\ (forall x, In x (fst r) -> In x st \/ In x l).
Proof.
  induction l as [|p l IH]; intros st disc C; cbn [fold_left]; [split; [exact C|auto]|].
  pose proof (chain_pop_spec st p disc C) as (A & B & _). cbv zeta in *.
  destruct (chain_pop st p disc) as [st' disc'] eqn:E. cbn [fst snd] in *.
  assert (CS : chain_step (st, disc) p = (p :: st', disc')) by (unfold chain_step; cbn [fst snd]; rewrite E; reflexivity).
  rewrite CS.
  destruct (IH (p :: st') disc' A) as [I1 I2]. cbv zeta in *. split; [exact I1|].
  intros x Hx. destruct (I2 x Hx) as [[<-|H]|H]; [right; left; reflexivity|left; apply B; exact H|right; right; exact H].
Qed.

(* each monotone chain: vertices are input points and every consecutive triple turns strictly (no collinear, no reflex vertex) *)
Theorem scan_convex_subset lt pts :
  convex_top (rev (fst (scan lt pts))) /\ forall x, In x (fst (scan lt pts)) -> In x pts.
Proof.
  unfold scan. destruct (psort lt pts) as [|p0 rest] eqn:S; [cbn; split; [exact I|tauto]|].
  pose proof (scan_fold rest [p0] [] I) as [A B]. cbv zeta in *.
  destruct (fold_left chain_step rest ([p0], [])) as [st disc]. cbn [fst snd] in *.
  rewrite rev_involutive. split; [exact A|].
  intros x Hx. apply in_rev in Hx. apply (in_psort lt). rewrite S.
  destruct (B x Hx) as [[<-|[]]|H]; [left; reflexivity|right; exact H].
Qed.
