(* C02: cdilate(f,g) lies between min(f,g) and g; cerode(f,g) between g and max(f,g);
   for every dtype, dimension, number of iterations, and element containing its centre. *)
Require Import MV.Base.Prelude MV.Base.CInt MV.Base.Index MV.Base.BorderSpec.
Require Import MV.Gen.Scalar_gen MV.Model.Filter MV.Model.Morph.
Require Import MV.Proof.BorderNearest MV.Proof.ScalarSat MV.Proof.MorphProof.

Definition okl (d : dt) (n : Z) (x : list Z) : Prop := Zlen x = n /\ Forall (d_in_range d) x.

Lemma nthZ_range d x i : wf_dt d -> Forall (d_in_range d) x -> d_in_range d (nthZ 0 x i).
Proof.
  intros W H. unfold nthZ. destruct (i <? 0); [apply d_in_range_0; auto|].
  destruct (Nat.lt_ge_cases (Z.to_nat i) (length x)) as [L|L].
  - rewrite Forall_forall in H. apply H. now apply nth_In.
  - rewrite nth_overflow by lia. apply d_in_range_0; auto.
Qed.

Lemma nthZ_combine_map (h : Z * Z -> Z) a b i : 0 <= i < Zlen a -> Zlen a = Zlen b ->
  nthZ 0 (map h (combine a b)) i = h (nthZ 0 a i, nthZ 0 b i).
Proof.
  unfold Zlen, nthZ. intros Hi L. destruct (i <? 0) eqn:E; [lia|].
  rewrite nth_indep with (d' := h (0, 0)) by (rewrite map_length, combine_length; lia).
  rewrite map_nth. rewrite combine_nth by lia. reflexivity.
Qed.

Lemma pmin_nth a b i : 0 <= i < Zlen a -> Zlen a = Zlen b -> nthZ 0 (pmin a b) i = Z.min (nthZ 0 a i) (nthZ 0 b i).
Proof. intros. unfold pmin. now rewrite nthZ_combine_map. Qed.
Lemma pmax_nth a b i : 0 <= i < Zlen a -> Zlen a = Zlen b -> nthZ 0 (pmax a b) i = Z.max (nthZ 0 a i) (nthZ 0 b i).
Proof. intros. unfold pmax. now rewrite nthZ_combine_map. Qed.
Lemma pmin_len a b : Zlen a = Zlen b -> Zlen (pmin a b) = Zlen a.
Proof. unfold pmin, Zlen. rewrite map_length, combine_length. lia. Qed.
Lemma pmax_len a b : Zlen a = Zlen b -> Zlen (pmax a b) = Zlen a.
Proof. unfold pmax, Zlen. rewrite map_length, combine_length. lia. Qed.

Lemma Forall_nthZ' (Q : Z -> Prop) l : (forall i, 0 <= i < Zlen l -> Q (nthZ 0 l i)) -> Forall Q l.
Proof. intros H. apply Forall_forall. intros x Hx. destruct (In_nthZ 0 l x Hx) as [i [Hi <-]]. auto. Qed.

Lemma pmin_ok d n a b : wf_dt d -> okl d n a -> okl d n b -> okl d n (pmin a b).
Proof.
  intros W [La Ra] [Lb Rb]. split; [rewrite pmin_len; lia|].
  apply Forall_nthZ'. rewrite pmin_len by lia. intros i Hi. rewrite pmin_nth by lia.
  pose proof (nthZ_range d a i W Ra). pose proof (nthZ_range d b i W Rb). unfold d_in_range in *. lia.
Qed.
Lemma pmax_ok d n a b : wf_dt d -> okl d n a -> okl d n b -> okl d n (pmax a b).
Proof.
  intros W [La Ra] [Lb Rb]. split; [rewrite pmax_len; lia|].
  apply Forall_nthZ'. rewrite pmax_len by lia. intros i Hi. rewrite pmax_nth by lia.
  pose proof (nthZ_range d a i W Ra). pose proof (nthZ_range d b i W Rb). unfold d_in_range in *. lia.
Qed.

Lemma clampos_id sh p : in_shape sh p -> clampos sh p = p.
Proof.
  unfold clampos. revert p; induction sh as [|n r IH]; destruct p as [|a q]; simpl; try tauto.
  intros [Ha Hq]. f_equal; [unfold clamp; lia|]. apply IH; auto.
Qed.

Definition zero_off (off : list Z) : Prop := Forall (fun z => z = 0) off.
Lemma padd_zero p off : zero_off off -> length off = length p -> padd p off = p.
Proof.
  revert off; induction p as [|a p IH]; destruct off as [|z off]; simpl; intros Hz L; try lia; auto.
  inversion Hz; subst. f_equal; [lia|]. apply IH; auto.
Qed.

Lemma dadd_in_range d v h : wf_dt d -> d_in_range d v -> d_in_range d h -> d_in_range d (dadd d v h).
Proof.
  destruct d as [|t]; intros W Hv Hh; unfold d_in_range in *; cbn [dmin dmax dadd] in *.
  - unfold dilate_add_bool. destruct (_ && _); lia.
  - pose proof (tmin_le_tmax' t W). unfold dilate_add.
    destruct (v =? tmin t); [lia|]. destruct (h =? tmin t); [lia|].
    pose proof (wrap_in_range t (v + h) W) as R. unfold in_range in R.
    destruct (_ && _); lia.
Qed.

Section Bounds.
  Variable d : dt.
  Variable sh : list Z.
  Variable bc : arr.
  Hypothesis W : wf_dt d.
  Hypothesis Hsh : shape_ok sh.
  Hypothesis Hlen : forall e, In e (entries (is_bool d) bc) -> length (fst e) = length sh.
  Hypothesis Hh : forall e, In e (entries (is_bool d) bc) -> d_in_range d (snd e).
  (* the element contains its centre, with a non-negative height *)
  Variable e0 : list Z * Z.
  Hypothesis He0 : In e0 (entries (is_bool d) bc).
  Hypothesis Hz0 : zero_off (fst e0).
  Hypothesis Hh0 : match d with DBool => True | DInt t => 0 <= snd e0 /\ snd e0 <> tmin t end.
  Let n := size sh.
  Let F (x : list Z) : arr := {| shape := sh; data := x |}.

  Lemma dil_len x : Zlen (dilate_generic d (F x) bc) = n.
  Proof.
    rewrite dilate_generic_contribs by auto. unfold Zlen.
    assert (L : forall U o, length (fold_left max_update U o) = length o).
    { induction U as [|u U IH]; intros o; simpl; [reflexivity|]. now rewrite IH, max_update_length. }
    rewrite L, repeat_length. cbn [F shape]. pose proof (size_pos sh (shape_ok_pos sh Hsh)). subst n. lia.
  Qed.

  Lemma dil_ok x : okl d n x -> okl d n (dilate_generic d (F x) bc).
  Proof.
    intros [Lx Rx]. split; [apply dil_len|]. apply Forall_nthZ'. rewrite dil_len. intros i Hi.
    rewrite dilate_generic_char; auto.
    match goal with |- d_in_range d (maxl _ ?l) => destruct (maxl_attained (dmin d) l) as [E|E] end.
    - rewrite E. unfold d_in_range. pose proof (d_in_range_0 d W) as Z0. unfold d_in_range in Z0. lia.
    - apply in_map_iff in E. destruct E as [u [Eu Hu]]. rewrite <- Eu.
      apply filter_In in Hu. destruct Hu as [Hu _]. apply in_flat_map in Hu. destruct Hu as [p [_ Hu]].
      unfold contribs in Hu. destruct (aget (F x) p =? dmin d); [destruct Hu|].
      apply in_map_iff in Hu. destruct Hu as [e [<- He]]. cbn [snd].
      apply dadd_in_range; auto. apply aget_in_range; [apply d_in_range_0; auto | exact Rx].
  Qed.

  Lemma dadd_ext v : d_in_range d v -> v <> dmin d -> v <= dadd d v (snd e0).
  Proof.
    intros Hv Hn. pose proof (Hh e0 He0) as R0. destruct d as [|t]; unfold d_in_range in *; cbn [dmin dmax dadd] in *.
    - assert (v = 1) by lia. subst. unfold dilate_add_bool.
      pose proof He0 as Hin. unfold entries in Hin. apply filter_In in Hin. destruct Hin as [_ Hnz]. cbn in Hnz.
      destruct (snd e0 =? 0); [discriminate|]. simpl. lia.
    - destruct Hh0 as [P0 N0]. rewrite dilate_add_sat; auto; unfold in_range; try lia.
      unfold sat. lia.
  Qed.

  (* dilation is extensive when the element contains its centre *)
  Lemma dil_extensive x i : okl d n x -> 0 <= i < n -> nthZ 0 x i <= nthZ 0 (dilate_generic d (F x) bc) i.
  Proof.
    intros [Lx Rx] Hi. rewrite dilate_generic_char; auto.
    pose proof (nthZ_range d x i W Rx) as Ri.
    destruct (Z.eq_dec (nthZ 0 x i) (dmin d)) as [E|E].
    - rewrite E. apply maxl_ge_d.
    - eapply Z.le_trans; [apply (dadd_ext _ Ri E)|].
      apply maxl_ge_in. apply in_map_iff. exists (i, dadd d (nthZ 0 x i) (snd e0)). split; [reflexivity|].
      apply filter_In. split; [|simpl; lia].
      pose proof (shape_ok_pos sh Hsh) as Pp.
      pose proof (unravel_in_shape sh i Pp Hi) as Hp.
      apply in_flat_map. exists (unravel sh i). split; [apply in_all_positions; auto|].
      unfold contribs. cbn [F shape]. unfold aget. cbn [F shape data]. rewrite ravel_unravel by auto.
      destruct (nthZ 0 x i =? dmin d) eqn:E2; [lia|].
      apply in_map_iff. exists e0. split; auto. f_equal.
      rewrite padd_zero; auto; [| rewrite unravel_length; auto].
      rewrite clampos_id by auto. apply ravel_unravel; auto.
  Qed.

  Lemma ero_len x : Zlen (erode_generic d (F x) bc) = n.
  Proof.
    unfold erode_generic, Zlen. rewrite map_length, all_positions_length. cbn [F shape].
    pose proof (size_pos sh (shape_ok_pos sh Hsh)). subst n. lia.
  Qed.

  Lemma esub_in_range a h : d_in_range d a -> d_in_range d h -> d_in_range d (esub d a h).
  Proof.
    destruct d as [|t]; intros Ha Hb; unfold d_in_range in *; cbn [dmin dmax esub] in *.
    - unfold erode_sub_bool. destruct (_ && _); lia.
    - pose proof (tmin_le_tmax' t W). pose proof (d_in_range_0 (DInt t) W) as Z0. unfold d_in_range in Z0. cbn [dmin dmax] in Z0. unfold erode_sub.
      pose proof (wrap_in_range t (a - h) W) as R. unfold in_range in R.
      destruct (h =? tmin t); [lia|]. destruct (_ && _); [lia|]. destruct (_ && _); lia.
  Qed.

  Lemma ero_ok x : okl d n x -> okl d n (erode_generic d (F x) bc).
  Proof.
    intros [Lx Rx]. split; [apply ero_len|]. apply Forall_forall. intros v Hv.
    unfold erode_generic in Hv. apply in_map_iff in Hv. destruct Hv as [p [<- _]].
    unfold erode_at. rewrite fold_left_min.
    match goal with |- d_in_range d (minl _ ?l) => destruct (minl_attained (dmax d) l) as [E|E] end.
    - rewrite E. unfold d_in_range. pose proof (d_in_range_0 d W) as Z0. unfold d_in_range in Z0. lia.
    - apply in_map_iff in E. destruct E as [e [Ee He]]. rewrite <- Ee.
      apply esub_in_range; auto. rewrite getn_clamp by auto.
      apply aget_in_range; [apply d_in_range_0; auto | exact Rx].
  Qed.

  Lemma esub_antiext v : d_in_range d v -> esub d v (snd e0) <= v.
  Proof.
    intros Hv. pose proof (Hh e0 He0) as R0. destruct d as [|t]; unfold d_in_range in *; cbn [dmin dmax esub] in *.
    - unfold erode_sub_bool. destruct (negb (v =? 0) && negb (snd e0 =? 0)) eqn:E; lia.
    - destruct Hh0 as [P0 N0]. rewrite erode_sub_sat; auto; unfold in_range; try lia.
      unfold sat. lia.
  Qed.

  (* erosion is anti-extensive when the element contains its centre *)
  Lemma ero_antiextensive x i : okl d n x -> 0 <= i < n -> nthZ 0 (erode_generic d (F x) bc) i <= nthZ 0 x i.
  Proof.
    intros [Lx Rx] Hi. pose proof (shape_ok_pos sh Hsh) as Pp.
    unfold erode_generic. cbn [F shape].
    rewrite nthZ_map with (da := []) by (unfold Zlen; rewrite all_positions_length; lia).
    rewrite nthZ_all_positions by auto. unfold erode_at. rewrite fold_left_min.
    eapply Z.le_trans; [|apply (esub_antiext _ (nthZ_range d x i W Rx))].
    apply minl_le_in. apply in_map_iff. exists e0. split; auto. f_equal.
    rewrite getn_clamp by auto. cbn [F shape]. unfold aget. cbn [F shape data].
    pose proof (unravel_in_shape sh i Pp Hi) as Hp.
    rewrite padd_zero; auto; [| rewrite unravel_length; auto].
    rewrite clampos_id by auto. now rewrite ravel_unravel.
  Qed.

  (* ---- cdilate ---- *)
  Lemma cdilate_loop_bounds g k : okl d n g -> forall x, okl d n x ->
    (forall i, 0 <= i < n -> nthZ 0 x i <= nthZ 0 g i) ->
    let r := cdilate_loop d (F x) g bc k in
    okl d n r /\ forall i, 0 <= i < n -> nthZ 0 x i <= nthZ 0 r i <= nthZ 0 g i.
  Proof.
    intros Hg. induction k as [|k IH]; intros x Hx Hle; cbn [cdilate_loop F data].
    - split; auto. intros i Hi. specialize (Hle i Hi). lia.
    - set (x' := pmin (dilate_generic d (F x) bc) g).
      assert (Hx' : okl d n x') by (apply pmin_ok; auto using dil_ok).
      assert (Hb : forall i, 0 <= i < n -> nthZ 0 x i <= nthZ 0 x' i <= nthZ 0 g i).
      { intros i Hi. unfold x'. destruct Hg as [Lg _].
        rewrite pmin_nth by (rewrite ?dil_len; lia).
        pose proof (dil_extensive x i Hx Hi). specialize (Hle i Hi). lia. }
      destruct (list_eqb x' x).
      + split; auto.
      + change (mk (F x) x') with (F x'). specialize (IH x' Hx' (fun i Hi => proj2 (Hb i Hi))).
        cbv zeta in IH. destruct IH as [Ok B]. split; auto. intros i Hi.
        specialize (B i Hi). specialize (Hb i Hi). lia.
  Qed.

  Theorem cdilate_bounds f g k : okl d n f -> okl d n g ->
    forall i, 0 <= i < n ->
      Z.min (nthZ 0 f i) (nthZ 0 g i) <= nthZ 0 (mh_cdilate d (F f) g bc k) i <= nthZ 0 g i.
  Proof.
    intros Hf Hg i Hi. unfold mh_cdilate. cbn [F data]. change (mk (F f) (pmin f g)) with (F (pmin f g)).
    destruct Hf as [Lf Rf]. destruct Hg as [Lg Rg].
    assert (H0 : okl d n (pmin f g)) by (apply pmin_ok; auto; split; auto).
    destruct (cdilate_loop_bounds g k (conj Lg Rg) (pmin f g) H0) as [_ B].
    - intros j Hj. rewrite pmin_nth by lia. lia.
    - specialize (B i Hi). rewrite pmin_nth in B by lia. exact B.
  Qed.

  (* ---- cerode ---- *)
  Theorem cerode_bounds f g : okl d n f -> okl d n g ->
    forall i, 0 <= i < n ->
      nthZ 0 g i <= nthZ 0 (mh_cerode d (F f) g bc) i <= Z.max (nthZ 0 f i) (nthZ 0 g i).
  Proof.
    intros Hf Hg i Hi. unfold mh_cerode. cbn [F data]. change (mk (F f) (pmax f g)) with (F (pmax f g)).
    assert (Hm : okl d n (pmax f g)) by (apply pmax_ok; auto).
    destruct Hf as [Lf Rf]. destruct Hg as [Lg Rg].
    rewrite pmax_nth by (rewrite ?ero_len; lia).
    pose proof (ero_antiextensive (pmax f g) i Hm Hi) as A.
    rewrite pmax_nth in A by lia. lia.
  Qed.
End Bounds.
