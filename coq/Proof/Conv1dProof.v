(* C06: the convolve1d fast path (interior loop + border loop over a possibly uninitialised output row) computes, at every
   column, the defining 1-D sum with the mathematical border rule -- whatever the output buffer held before. *)
Require Import MV.Base.Prelude MV.Base.CInt MV.Base.Index MV.Base.BorderSpec MV.Gen.Scalar_gen MV.Model.Filter MV.Model.Convolve.
Require Import MV.Proof.Border MV.Proof.ConvProof MV.Proof.SafetyProof MV.Proof.LabeledProof.

(* ---- writes through a list of target columns: the last write wins; all writes to x carry the same value H x *)
Lemma fold_updZ_targets (g : Z -> Z) (H : Z -> Z) : forall idxs o x,
  (forall i, In i idxs -> 0 <= g i < Zlen o) -> 0 <= x ->
  nthZ 0 (fold_left (fun o i => updZ o (g i) (H (g i))) idxs o) x =
  if existsb (fun i => g i =? x) idxs then H x else nthZ 0 o x.
Proof.
  induction idxs as [|i idxs IH]; intros o x Hr Hx; cbn [fold_left existsb]; [reflexivity|].
  rewrite IH.
  - destruct (existsb (fun i0 => g i0 =? x) idxs) eqn:E; [rewrite orb_true_r; reflexivity|]. rewrite orb_false_r.
    rewrite nthZ_updZ by (try apply Hr; try (left; reflexivity); exact Hx).
    destruct (g i =? x) eqn:F; [apply Z.eqb_eq in F; rewrite F; reflexivity | reflexivity].
  - intros j Hj. rewrite updZ_Zlen. apply Hr. right. exact Hj.
  - exact Hx.
Qed.
Lemma fold_updZ_Zlen (g h : Z -> Z) idxs : forall o, Zlen (fold_left (fun o i => updZ o (g i) (h i)) idxs o) = Zlen o.
Proof. induction idxs as [|i idxs IH]; intro o; cbn [fold_left]; [reflexivity|]. rewrite IH. apply updZ_Zlen. Qed.

(* ---- 1-D instances of the generic definitions *)
Lemma all_positions_1d n : all_positions [n] = map (fun i => [i]) (Zseq 0 (Z.to_nat n)).
Proof.
  unfold all_positions. cbn [size]. rewrite Z.mul_1_r. apply map_ext. intro i. cbn [unravel size]. rewrite Z.div_1_r. reflexivity.
Qed.
Lemma aget_1d n l j : aget {| shape := [n]; data := l |} [j] = nthZ 0 l j.
Proof. unfold aget. cbn [shape data ravel size]. f_equal. lia. Qed.

Lemma border_map_some_not_flag m q len c : 1 <= len < border_flag_value -> border_map m q len = Some c -> c <> border_flag_value.
Proof. intros H E. pose proof (border_map_range m q len c ltac:(lia) E). lia. Qed.

Lemma sample_1d mode row q : valid_mode mode -> 1 <= Zlen row < border_flag_value ->
  sample mode {| shape := [Zlen row]; data := row |} [q] =
  (let o := fix_offset mode q (Zlen row) in if o =? border_flag_value then 0 else nthZ 0 row o).
Proof.
  intros Hm Hl. cbv zeta. rewrite (fix_offset_spec mode q (Zlen row) Hm) by lia.
  unfold sample, border_spec. cbn [shape border_pos].
  destruct (border_map mode q (Zlen row)) as [c|] eqn:E.
  - rewrite aget_1d. pose proof (border_map_some_not_flag _ _ _ _ Hl E) as N.
    destruct (c =? border_flag_value) eqn:F; [apply Z.eqb_eq in F; contradiction | reflexivity].
  - rewrite Z.eqb_refl. reflexivity.
Qed.

Lemma conv_spec_1d mode row w x : 
  conv_spec mode {| shape := [Zlen row]; data := row |} {| shape := [Zlen w]; data := w |} [x] =
  sumZ (map (fun j => nthZ 0 w j * sample mode {| shape := [Zlen row]; data := row |} [x + (j - Z.quot (Zlen w) 2)])
            (Zseq 0 (length w))).
Proof.
  unfold conv_spec. cbn [shape]. rewrite all_positions_1d. rewrite map_map.
  replace (Z.to_nat (Zlen w)) with (length w) by (unfold Zlen; rewrite Nat2Z.id; reflexivity).
  f_equal. apply map_ext. intro j. rewrite aget_1d. reflexivity.
Qed.

Lemma dot_border_spec mode row w x : valid_mode mode -> 1 <= Zlen row < border_flag_value ->
  dot_border mode row w (Z.quot (Zlen w) 2) x =
  conv_spec mode {| shape := [Zlen row]; data := row |} {| shape := [Zlen w]; data := w |} [x].
Proof.
  intros Hm Hl. rewrite conv_spec_1d. unfold dot_border. cbv zeta. f_equal. apply map_ext. intro j.
  rewrite (sample_1d mode row _ Hm Hl). cbv zeta. apply Z.mul_comm.
Qed.

Lemma dot_interior_spec mode row w x : valid_mode mode -> 1 <= Zlen row < border_flag_value ->
  Z.quot (Zlen w) 2 <= x < Zlen row - Z.quot (Zlen w) 2 -> 1 <= Zlen w < Zlen row ->
  dot_interior row w (Z.quot (Zlen w) 2) x =
  conv_spec mode {| shape := [Zlen row]; data := row |} {| shape := [Zlen w]; data := w |} [x].
Proof.
  intros Hm Hl Hx Hw. rewrite conv_spec_1d. unfold dot_interior. f_equal. apply map_ext_in. intros j Hj.
  apply in_Zseq in Hj. fold (Zlen w) in Hj.
  rewrite (sample_1d mode row _ Hm Hl). cbv zeta.
  assert (R : 0 <= x + (j - Z.quot (Zlen w) 2) < Zlen row) by lia.
  rewrite (fix_offset_id_inside mode _ _ Hm R).
  destruct (x + (j - Z.quot (Zlen w) 2) =? border_flag_value) eqn:F; [apply Z.eqb_eq in F; lia|].
  replace (x + j - Z.quot (Zlen w) 2) with (x + (j - Z.quot (Zlen w) 2)) by lia. apply Z.mul_comm.
Qed.

(* ---- the fast path, column by column *)
Theorem row_fast_spec mode row w garbage x :
  valid_mode mode -> 1 <= Zlen w < Zlen row -> Zlen row < border_flag_value -> Zlen garbage = Zlen row -> 0 <= x < Zlen row ->
  nthZ 0 (row_fast mode row w garbage) x =
  conv_spec mode {| shape := [Zlen row]; data := row |} {| shape := [Zlen w]; data := w |} [x].
Proof.
  intros Hm Hw Hfl Hg Hx. unfold row_fast. cbv zeta.
  set (c := Z.quot (Zlen w) 2). set (N1 := Zlen row).
  assert (Hc : 0 <= c /\ 2 * c <= Zlen w) by (unfold c; split; [apply Z.quot_pos; lia | pose proof (Z.quot_rem' (Zlen w) 2); pose proof (Z.rem_bound_pos (Zlen w) 2); lia]).
  destruct (c >=? N1) eqn:G; [rewrite Z.geb_leb in G; apply Z.leb_le in G; unfold N1 in G; lia|].
  rewrite Z.min_l by (unfold N1; lia).
  set (out1 := fold_left (fun o x0 => updZ o x0 (dot_interior row w c x0)) (Zseq c (Z.to_nat (N1 - c - c))) garbage).
  assert (L1 : Zlen out1 = N1) by (unfold out1; rewrite (fold_updZ_Zlen (fun i => i) (dot_interior row w c)); exact Hg).
  set (tg := fun x_ => if x_ <? c then x_ else N1 - 1 - (x_ - c)).
  change (fold_left (fun o x_ => let x0 := if x_ <? c then x_ else N1 - 1 - (x_ - c) in updZ o x0 (dot_border mode row w c x0))
                    (Zseq 0 (Z.to_nat (2 * c))) out1)
    with (fold_left (fun o i => updZ o (tg i) (dot_border mode row w c (tg i))) (Zseq 0 (Z.to_nat (2 * c))) out1).
  rewrite (fold_updZ_targets tg (dot_border mode row w c)).
  - destruct (existsb (fun i => tg i =? x) (Zseq 0 (Z.to_nat (2 * c)))) eqn:E.
    + apply dot_border_spec; [exact Hm | unfold N1 in *; lia].
    + (* not a border column: it is an interior column, written by the first loop *)
      destruct (conv1d_columns_covered (Zlen w) N1 x ltac:(unfold N1; lia) Hx) as [I|[x_ [Rx Ex]]].
      * fold c in I. unfold out1.
        rewrite (fold_updZ_targets (fun i => i) (dot_interior row w c)).
        -- assert (X : existsb (fun i => i =? x) (Zseq c (Z.to_nat (N1 - c - c))) = true).
           { apply existsb_exists. exists x. split; [apply in_Zseq; lia | apply Z.eqb_refl]. }
           rewrite X. apply dot_interior_spec; [exact Hm | unfold N1 in *; lia | exact I | exact Hw].
        -- intros i Hi. apply in_Zseq in Hi. rewrite Hg. unfold N1 in *. lia.
        -- lia.
      * exfalso. fold c in Rx, Ex.
        assert (X : existsb (fun i => tg i =? x) (Zseq 0 (Z.to_nat (2 * c))) = true).
        { apply existsb_exists. exists x_. split; [apply in_Zseq; lia | unfold tg; rewrite Ex; apply Z.eqb_refl]. }
        congruence.
  - intros i Hi. apply in_Zseq in Hi. rewrite L1. unfold tg.
    pose proof (conv1d_border_columns (Zlen w) N1 i ltac:(unfold N1; lia) ltac:(fold c; lia)) as B. cbv zeta in B. fold c in B.
    destruct (i <? c); lia.
  - lia.
Qed.

Lemma nthZ_map_Zseq' (F : Z -> Z) n j : 0 <= j < n -> nthZ 0 (map F (Zseq 0 (Z.to_nat n))) j = F j.
Proof.
  intros H. rewrite nthZ_map with (da := 0) by (unfold Zlen; rewrite Zseq_length; lia).
  rewrite nthZ_Zseq by lia. f_equal.
Qed.

(* the whole row equals the specification row, whatever the buffer contained *)
Theorem row_fast_is_row_spec mode row w garbage :
  valid_mode mode -> 1 <= Zlen w < Zlen row -> Zlen row < border_flag_value -> Zlen garbage = Zlen row ->
  forall x, 0 <= x < Zlen row -> nthZ 0 (row_fast mode row w garbage) x = nthZ 0 (row_spec mode row w) x.
Proof.
  intros Hm Hw Hfl Hg x Hx. rewrite (row_fast_spec mode row w garbage x Hm Hw Hfl Hg Hx).
  unfold row_spec, conv_spec_all. cbn [shape]. rewrite all_positions_1d. rewrite map_map.
  symmetry. apply (nthZ_map_Zseq' (fun i => conv_spec mode {| shape := [Zlen row]; data := row |} {| shape := [Zlen w]; data := w |} [i])).
  exact Hx.
Qed.
