(* C07: template_match on boolean images.  In bool arithmetic the accumulated "sum of squared differences" is the OR of the
   differences: the result is 1 exactly where the sum of squared differences of the definition is non-zero. *)
Require Import MV.Base.Prelude MV.Base.CInt MV.Base.Index MV.Base.BorderSpec MV.Gen.Scalar_gen MV.Model.Filter MV.Model.Filters.
Require Import MV.Proof.ConvProof MV.Proof.FiltersProof.

Definition bit01 (v : Z) : Prop := v = 0 \/ v = 1.

Lemma nthZ_bit01 l i : Forall bit01 l -> bit01 (nthZ 0 l i).
Proof.
  intros H. unfold nthZ. destruct (i <? 0); [left; reflexivity|].
  destruct (nth_in_or_default (Z.to_nat i) l 0) as [Hin|E]; [|rewrite E; left; reflexivity].
  rewrite Forall_forall in H. apply H. exact Hin.
Qed.

Lemma window_sample_bit m f p off v : Forall bit01 (data f) -> window_sample m f p off = Some v -> bit01 v.
Proof.
  intros Hf. unfold window_sample.
  destruct (border_pos m (shape f) (padd p off)) as [q|].
  - intros E. apply some_inj in E. subst v. unfold aget. apply nthZ_bit01; auto.
  - destruct (m =? M_constant); [|discriminate]. intros E. apply some_inj in E. subst v. left; reflexivity.
Qed.

Theorem tm_at_bool m f t p : valid_mode m -> shape_ok (shape f) -> Forall bit01 (data f) -> Forall bit01 (data t) ->
  tm_at DBool m f t p = if ssd_spec m f t p =? 0 then 0 else 1.
Proof.
  intros Hm Hs Hf Ht. unfold tm_at, ssd_spec. rewrite entries_false_all. rewrite fold_left_map'.
  set (term := fun k => match window_sample m f p (psub k (centre (shape t))) with
                        | Some v => (v - aget t k) * (v - aget t k) | None => 0 end).
  assert (G : forall l acc, bit01 acc ->
    fold_left (fun a x => match tm_sample m f p (fst (psub x (centre (shape t)), aget t x)) with
                 | Some v => let tj := snd (psub x (centre (shape t)), aget t x) in
                             let delta := wrapd DBool (if v >? tj then v - tj else tj - v) in
                             wrapd DBool (a + delta * delta)
                 | None => a end) l acc
    = if acc + sumZ (map term l) =? 0 then 0 else 1).
  { induction l as [|k l IH]; intros acc Ha.
    - cbn [fold_left map sumZ fold_right]. destruct Ha as [-> | ->]; reflexivity.
    - cbn [fold_left]. rewrite tm_sample_window by auto. cbn [fst snd].
      assert (Tn : 0 <= sumZ (map term l)).
      { apply sumZ_nonneg. intros x Hx. apply in_map_iff in Hx. destruct Hx as [k' [<- _]]. unfold term.
        destruct (window_sample m f p (psub k' (centre (shape t)))); [apply Z.square_nonneg | lia]. }
      change (sumZ (map term (k :: l))) with (term k + sumZ (map term l)). unfold term at 1.
      destruct (window_sample m f p (psub k (centre (shape t)))) as [v|] eqn:E.
      + pose proof (window_sample_bit m f p _ v Hf E) as Bv.
        assert (Bt : bit01 (aget t k)) by (unfold aget; apply nthZ_bit01; auto).
        cbv zeta.
        assert (Step : wrapd DBool (acc + wrapd DBool (if v >? aget t k then v - aget t k else aget t k - v) *
                                          wrapd DBool (if v >? aget t k then v - aget t k else aget t k - v))
                       = if acc + (v - aget t k) * (v - aget t k) =? 0 then 0 else 1).
        { destruct Ha as [-> | ->]; destruct Bv as [-> | ->]; destruct Bt as [-> | ->]; vm_compute; reflexivity. }
        rewrite Step.
        assert (X0 : 0 <= acc + (v - aget t k) * (v - aget t k)).
        { pose proof (Z.square_nonneg (v - aget t k)). destruct Ha as [-> | ->]; lia. }
        rewrite IH by (destruct (acc + (v - aget t k) * (v - aget t k) =? 0); [left | right]; reflexivity).
        destruct (acc + (v - aget t k) * (v - aget t k) =? 0) eqn:E1;
          destruct (acc + ((v - aget t k) * (v - aget t k) + sumZ (map term l)) =? 0) eqn:E2;
          destruct (0 + sumZ (map term l) =? 0) eqn:E3; destruct (1 + sumZ (map term l) =? 0) eqn:E4; try reflexivity; lia.
      + rewrite IH by auto. rewrite Z.add_0_l. reflexivity. }
  rewrite G by (left; reflexivity). reflexivity.
Qed.

Example tm_bool_example :
  let f := {| shape := [4]; data := [1; 0; 1; 1] |} in let t := {| shape := [3]; data := [1; 0; 1] |} in
  Forall bit01 (data f) /\ Forall bit01 (data t) /\
  template_match DBool ExtendNearest f t = [1; 0; 1; 1] /\
  map (ssd_spec ExtendNearest f t) (all_positions (shape f)) = [2; 0; 2; 1].
Proof.
  cbv zeta. split; [|split; [|split]].
  - repeat (constructor; [unfold bit01; auto|]). constructor.
  - repeat (constructor; [unfold bit01; auto|]). constructor.
  - vm_compute. reflexivity.
  - vm_compute. reflexivity.
Qed.
