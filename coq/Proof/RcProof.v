(* C16: rc (Riddler-Calvard, model of thresholding.py rc) always returns a value between the smallest and the largest
   occurring grey level, for every histogram of non-negative counts. *)
Require Import QArith Qabs Qminmax Lqa.
Require Import MV.Base.Prelude MV.Base.QHelp MV.Model.Threshold MV.Proof.ThresholdProof MV.Proof.OtsuProof.
Open Scope Z_scope.

Definition wfrom (a : Z) (l : list Z) : Z := sumZ (map (fun iv => fst iv * snd iv) (combine (Zseq a (length l)) l)).
Lemma weighted_wfrom l : weighted l = wfrom 0 l. Proof. reflexivity. Qed.
Lemma wfrom_cons a x l : wfrom a (x :: l) = a * x + wfrom (a + 1) l.
Proof. unfold wfrom. cbn [length Zseq combine map fst snd]. reflexivity. Qed.
Lemma wfrom_app : forall l1 a l2, wfrom a (l1 ++ l2) = wfrom a l1 + wfrom (a + Zlen l1) l2.
Proof.
  induction l1 as [|x l1 IH]; intros a l2.
  - cbn [app]. unfold wfrom at 2. cbn. unfold Zlen. cbn. rewrite Z.add_0_r. lia.
  - cbn [app]. rewrite !wfrom_cons, IH. unfold Zlen. cbn [length]. rewrite Nat2Z.inj_succ.
    replace (a + 1 + Z.of_nat (length l1)) with (a + Z.succ (Z.of_nat (length l1))) by lia. lia.
Qed.

Lemma wfrom_bounds lo hi : forall l a, Forall (fun v => 0 <= v) l ->
  (forall i, (i < length l)%nat -> nth i l 0 <> 0 -> lo <= a + Z.of_nat i <= hi) ->
  lo * sumZ l <= wfrom a l <= hi * sumZ l.
Proof.
  induction l as [|x l IH]; intros a F B.
  - unfold wfrom. cbn. lia.
  - inversion F as [|? ? Hx Fl]; subst. rewrite wfrom_cons. change (sumZ (x :: l)) with (x + sumZ l).
    destruct (IH (a + 1) Fl) as [L U].
    { intros i Hi Ne. specialize (B (S i) ltac:(cbn; lia) Ne). lia. }
    destruct (Z.eq_dec x 0) as [->|Nx]; [lia|].
    pose proof (B 0%nat ltac:(cbn; lia) Nx) as B0. cbn in B0. nia.
Qed.

Lemma nth_firstn_lt0 {A} (d : A) : forall n l j, (j < n)%nat -> nth j (firstn n l) d = nth j l d.
Proof. induction n as [|n IH]; intros l j H; [lia|]. destruct l as [|x l]; [destruct j; reflexivity|]. destruct j; [reflexivity|]. simpl. apply IH. lia. Qed.
Lemma nth_skipn_add0 {A} (d : A) : forall k l j, nth j (skipn k l) d = nth (k + j) l d.
Proof. induction k as [|k IH]; intros l j; [reflexivity|]. destruct l as [|x l]; [destruct j; reflexivity|]. simpl. apply IH. Qed.

Section Rc.
  Variable hist : list Z.
  Hypothesis Hnn : Forall (fun v => 0 <= v) hist.
  Variables lo hi : Z.
  Hypothesis Occ : forall i, (i < length hist)%nat -> nth i hist 0 <> 0 -> lo <= Z.of_nat i <= hi.
  Hypothesis Lh : lo <= hi.

  Lemma le_bounds t : 0 <= t -> lo * cnt_le hist t <= sum_le hist t <= hi * cnt_le hist t.
  Proof.
    intro Ht. unfold cnt_le, sum_le. rewrite weighted_wfrom. apply wfrom_bounds.
    - rewrite Forall_forall in *. intros x Hx. apply Hnn. apply (In_firstn' x _ _ Hx).
    - intros i Hi Ne. rewrite Z.add_0_l. rewrite firstn_length in Hi.
      rewrite nth_firstn_lt0 in Ne by lia. apply Occ; [lia | exact Ne].
  Qed.

  Lemma gt_bounds t : 0 <= t -> lo * cnt_gt hist t <= sum_gt hist t <= hi * cnt_gt hist t.
  Proof.
    intro Ht. unfold cnt_gt, sum_gt, cnt_le, sum_le. set (k := Z.to_nat (t + 1)).
    assert (E : hist = firstn k hist ++ skipn k hist) by (symmetry; apply firstn_skipn).
    assert (ES : sumZ hist = sumZ (firstn k hist) + sumZ (skipn k hist)) by (rewrite E at 1; apply sumZ_app0).
    assert (EW : weighted hist = weighted (firstn k hist) + wfrom (Zlen (firstn k hist)) (skipn k hist)).
    { rewrite E at 1. rewrite weighted_wfrom, wfrom_app, Z.add_0_l. reflexivity. }
    rewrite ES, EW.
    replace (sumZ (firstn k hist) + sumZ (skipn k hist) - sumZ (firstn k hist)) with (sumZ (skipn k hist)) by lia.
    replace (weighted (firstn k hist) + wfrom (Zlen (firstn k hist)) (skipn k hist) - weighted (firstn k hist))
      with (wfrom (Zlen (firstn k hist)) (skipn k hist)) by lia.
    apply wfrom_bounds.
    - rewrite Forall_forall in *. intros x Hx. apply Hnn. rewrite E. apply in_or_app. right. exact Hx.
    - intros i Hi Ne. unfold Zlen. rewrite firstn_length. rewrite skipn_length in Hi.
      rewrite nth_skipn_add0 in Ne.
      destruct (Nat.le_gt_cases k (length hist)) as [Le|Gt].
      + rewrite Nat.min_l by exact Le. rewrite <- Nat2Z.inj_add. apply Occ; [lia | exact Ne].
      + lia.
  Qed.

  Lemma zq_le a b : a <= b -> (zq a <= zq b)%Q. Proof. intro H. unfold zq. rewrite <- Zle_Qle. exact H. Qed.
  Lemma ratio_bounds s c : 0 < c -> lo * c <= s <= hi * c -> (zq lo <= zq s / zq c <= zq hi)%Q.
  Proof.
    intros Hc [L U]. assert (Pc : (0 < zq c)%Q) by (unfold zq; change 0%Q with (inject_Z 0); rewrite <- Zlt_Qlt; exact Hc).
    split.
    - apply Qle_shift_div_l; [exact Pc|]. rewrite <- zq_mult. apply zq_le. exact L.
    - apply Qle_shift_div_r; [exact Pc|]. rewrite <- zq_mult. apply zq_le. exact U.
  Qed.

  Lemma rc_mid_bounds t : 0 <= t -> cnt_le hist t <> 0 -> cnt_gt hist t <> 0 -> (zq lo <= rc_mid hist t <= zq hi)%Q.
  Proof.
    intros Ht N1 N2.
    assert (P1 : 0 < cnt_le hist t).
    { assert (0 <= cnt_le hist t) by (apply (nB_nonneg hist Hnn)). lia. }
    assert (P2 : 0 < cnt_gt hist t).
    { assert (0 <= cnt_gt hist t).
      { unfold cnt_gt, cnt_le. set (k := Z.to_nat (t + 1)).
        assert (ES : sumZ hist = sumZ (firstn k hist) + sumZ (skipn k hist)) by (rewrite <- (firstn_skipn k hist) at 1; apply sumZ_app0).
        rewrite ES. assert (0 <= sumZ (skipn k hist)).
        { apply sumZ_nonneg'. rewrite Forall_forall in *. intros x Hx. apply Hnn. rewrite <- (firstn_skipn k hist). apply in_or_app. right. exact Hx. }
        lia. }
      lia. }
    destruct (ratio_bounds _ _ P1 (le_bounds t Ht)) as [A1 A2]. destruct (ratio_bounds _ _ P2 (gt_bounds t Ht)) as [B1 B2].
    unfold rc_mid. change (zq 2) with (2 # 1)%Q. split.
    - apply Qle_shift_div_l; [reflexivity|]. lra.
    - apply Qle_shift_div_r; [reflexivity|]. lra.
  Qed.

  Lemma rc_loop_bounds maxt : forall fuel res t, 0 <= t -> (zq lo <= res <= zq hi)%Q ->
    (zq lo <= rc_loop fuel hist maxt res t <= zq hi)%Q.
  Proof.
    induction fuel as [|k IH]; intros res t Ht B; [exact B|]. cbn [rc_loop].
    destruct (qltb (zq t) (Qmin (zq maxt) res)); [|exact B]. cbv zeta.
    apply IH; [lia|].
    destruct ((cnt_le hist t =? 0) || (cnt_gt hist t =? 0)) eqn:E; [exact B|].
    apply orb_false_iff in E. destruct E as [E1 E2]. apply Z.eqb_neq in E1. apply Z.eqb_neq in E2.
    apply rc_mid_bounds; assumption.
  Qed.

  Theorem rc_between : last_nonzero hist 0 0 = hi -> (zq lo <= rc hist <= zq hi)%Q.
  Proof.
    intro E. unfold rc. cbv zeta. rewrite E. apply rc_loop_bounds; [lia|]. split; [apply zq_le; exact Lh | apply Qle_refl].
  Qed.
End Rc.

Lemma ln_mono : forall l i best, best <= i -> best <= last_nonzero l i best.
Proof.
  induction l as [|x l IH]; intros i best H; cbn [last_nonzero]; [lia|].
  destruct (x =? 0); [apply IH; lia|]. specialize (IH (i + 1) i ltac:(lia)). lia.
Qed.
Lemma ln_ge : forall l i best j, (j < length l)%nat -> nth j l 0 <> 0 -> best <= i -> i + Z.of_nat j <= last_nonzero l i best.
Proof.
  induction l as [|x l IH]; intros i best j Hj Ne Hb; [cbn in Hj; lia|]. cbn [last_nonzero]. destruct j as [|j].
  - cbn in Ne. destruct (x =? 0) eqn:E; [apply Z.eqb_eq in E; contradiction|]. pose proof (ln_mono l (i + 1) i ltac:(lia)). lia.
  - cbn [nth] in Ne. cbn [length] in Hj.
    destruct (x =? 0); [specialize (IH (i + 1) best j ltac:(lia) Ne ltac:(lia)) | specialize (IH (i + 1) i j ltac:(lia) Ne ltac:(lia))]; lia.
Qed.

(* the statement users read: every occurring level lies in [lo, maxt], and so does rc *)
Theorem rc_between_occurring_levels hist lo : Forall (fun v => 0 <= v) hist ->
  (forall i, (i < length hist)%nat -> nth i hist 0 <> 0 -> lo <= Z.of_nat i) ->
  (exists i, (i < length hist)%nat /\ nth i hist 0 <> 0) ->
  (zq lo <= rc hist <= zq (last_nonzero hist 0 0))%Q.
Proof.
  intros Hnn Lo (i0 & Hi0 & Ne0).
  apply (rc_between hist Hnn lo (last_nonzero hist 0 0)).
  - intros i Hi Ne. split; [apply Lo; assumption|]. pose proof (ln_ge hist 0 0 i Hi Ne ltac:(lia)). lia.
  - pose proof (Lo i0 Hi0 Ne0). pose proof (ln_ge hist 0 0 i0 Hi0 Ne0 ltac:(lia)). lia.
  - reflexivity.
Qed.
