(* C08 layer 1: the iterator visits the elements in C order for arbitrary (also negative, non-monotone) strides;
   at_flat addresses the element at the unravelled position. *)
Require Import MV.Base.Prelude MV.Base.Index MV.Model.ArrayHpp.

Lemma dot_cons a x b y : dot (a :: x) (b :: y) = a * b + dot x y.
Proof. reflexivity. Qed.

(* We prove the address property directly on a normalised formulation: the cumulative variable equals d_(i-1)*s_(i-1). *)
Fixpoint steps_closed (prev : Z) (dims strides : list Z) : list Z :=
  match dims, strides with
  | d :: dims', s :: strides' => (s - prev) :: steps_closed (d * s) dims' strides'
  | _, _ => []
  end.
Lemma steps_go_closed dims : forall strides c, steps_go c dims strides = steps_closed c dims strides.
Proof.
  induction dims as [|d dims IH]; intros [|s strides] c; try reflexivity. cbn [steps_go steps_closed]. f_equal.
  rewrite IH. f_equal. lia.
Qed.

(* one ++ from a valid position with offset  c0 + <pos, strides>  where the steps were computed with cumulative value c:
   the new offset is  (c0 - c) + <pos', strides> + (carry bookkeeping) -- stated for the top level (c = 0) below *)
Lemma iter_next_spec dims : forall strides c pos off,
  length strides = length dims -> length pos = length dims ->
  Forall2 (fun p d => 0 <= p < d) pos dims ->
  let r := iter_next off pos dims (steps_closed c dims strides) in
  (* either some axis did not wrap: offset advanced consistently *)
  fst r - dot (snd r) strides = off - dot pos strides - c
  \/ (* or every axis wrapped (end of the array): position is all zeros *)
  (Forall (fun p => p = 0) (snd r) /\ fst r = off - dot pos strides - c + match rev dims, rev strides with d :: _, s :: _ => d * s | _, _ => c end).
Proof.
  induction dims as [|d dims IH]; intros strides c pos off Ls Lp F; destruct strides as [|s strides]; destruct pos as [|p pos];
    simpl in Ls, Lp; try discriminate.
  - cbn. right. split; [constructor|]. unfold dot; simpl. lia.
  - inversion F as [|? ? ? ? Hp F']; subst. cbn [steps_closed iter_next].
    destruct (p + 1 =? d) eqn:E.
    + specialize (IH strides (d * s) pos (off + (s - c)) ltac:(lia) ltac:(lia) F'). cbv zeta in IH. cbn [fst snd].
      destruct IH as [IH|[IH1 IH2]].
      * left. rewrite !dot_cons. assert (p = d - 1) by lia. subst p. nia.
      * right. split; [constructor; auto|]. rewrite IH2, dot_cons. assert (p = d - 1) by lia. subst p.
        cbn [rev]. destruct (rev dims) as [|d' rd] eqn:Rd; destruct (rev strides) as [|s' rs] eqn:Rs; cbn [app].
        -- nia.
        -- apply (f_equal (@length Z)) in Rd. apply (f_equal (@length Z)) in Rs. rewrite rev_length in *. simpl in *. lia.
        -- apply (f_equal (@length Z)) in Rd. apply (f_equal (@length Z)) in Rs. rewrite rev_length in *. simpl in *. lia.
        -- nia.
    + left. cbn [fst snd]. rewrite !dot_cons. lia.
Qed.

(* top level: starting at offset <pos, strides>, ++ moves to <pos', strides> unless the array is exhausted *)
Theorem iterator_step_address dims strides pos :
  length strides = length dims -> length pos = length dims -> Forall2 (fun p d => 0 <= p < d) pos dims ->
  let r := iter_next (dot pos strides) pos dims (steps dims strides) in
  fst r = dot (snd r) strides \/ Forall (fun p => p = 0) (snd r).
Proof.
  intros Ls Lp F. unfold steps. rewrite steps_go_closed.
  destruct (iter_next_spec dims strides 0 pos (dot pos strides) Ls Lp F) as [H|[H _]]; cbv zeta in *; [left; lia|right; exact H].
Qed.

(* ... and pos' is the C-order successor: its mixed-radix value is one more (or it wrapped to all zeros at the end) *)
Theorem iterator_step_position dims : forall pos off stp, length pos = length dims -> length stp = length dims ->
  Forall2 (fun p d => 0 <= p < d) pos dims ->
  let r := iter_next off pos dims stp in
  value_rev (snd r) dims = value_rev pos dims + 1 \/ Forall (fun p => p = 0) (snd r).
Proof.
  induction dims as [|d dims IH]; intros pos off stp Lp Ls F; destruct pos as [|p pos]; destruct stp as [|s stp]; simpl in Lp, Ls; try discriminate.
  - right. constructor.
  - inversion F as [|? ? ? ? Hp F']; subst. cbn [iter_next]. destruct (p + 1 =? d) eqn:E; cbn [fst snd value_rev].
    + destruct (IH pos (off + s) stp ltac:(lia) ltac:(lia) F') as [H|H]; cbv zeta in *.
      * left. rewrite H. nia.
      * right. constructor; auto.
    + left. lia.
Qed.

(* at_flat: the address of the element with C-order index p is <unravel p, strides> *)
Lemma at_flat_rev_spec dims : forall strides p, length strides = length dims -> Forall (fun d => 0 < d) dims ->
  0 <= p -> exists pos, length pos = length dims /\ Forall2 (fun q d => 0 <= q < d) pos dims /\
    at_flat_rev p dims strides = dot pos strides /\ value_rev pos dims = p mod (fold_right Z.mul 1 dims).
Proof.
  induction dims as [|d dims IH]; intros [|s strides] p L Hd Hp; simpl in L; try discriminate.
  - exists []. repeat split; try constructor. cbn. now rewrite Z.mod_1_r.
  - inversion Hd as [|? ? Hd0 Hd']; subst.
    destruct (IH strides (p / d) ltac:(lia) Hd' ltac:(apply Z.div_pos; lia)) as (pos & Lq & F & A & V).
    exists (p mod d :: pos). cbn [length at_flat_rev value_rev fold_right]. repeat split.
    + lia.
    + constructor; [apply Z.mod_pos_bound; lia|exact F].
    + rewrite dot_cons, A. reflexivity.
    + rewrite V. set (R := fold_right Z.mul 1 dims).
      assert (0 < R) by (unfold R; clear -Hd'; induction Hd'; simpl; lia).
      rewrite Z.rem_mul_r by lia. lia.
Qed.

Theorem at_flat_addresses_logical_element sh strides p : length strides = length sh -> Forall (fun d => 0 < d) sh ->
  0 <= p < fold_right Z.mul 1 sh ->
  exists pos_rev, Forall2 (fun q d => 0 <= q < d) pos_rev (rev sh) /\
    at_flat p sh strides = dot pos_rev (rev strides) /\ value_rev pos_rev (rev sh) = p.
Proof.
  intros L Hd Hp. unfold at_flat.
  destruct (at_flat_rev_spec (rev sh) (rev strides) p) as (pos & Lq & F & A & V).
  - now rewrite !rev_length.
  - apply Forall_rev. exact Hd.
  - lia.
  - exists pos. repeat split; auto. rewrite V. apply Z.mod_small.
    assert (E : fold_right Z.mul 1 (rev sh) = fold_right Z.mul 1 sh).
    { clear. induction sh as [|d sh IH]; [reflexivity|]. cbn [rev fold_right]. rewrite fold_right_app. cbn [fold_right].
      rewrite <- IH. generalize (rev sh). intros l. induction l as [|x l IHl]; cbn [fold_right]; [lia|]. rewrite IHl. lia. }
    rewrite E. exact Hp.
Qed.
