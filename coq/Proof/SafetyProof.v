(* C10: index arithmetic of the filter machinery stays inside the image. *)
Require Import MV.Base.Prelude MV.Base.CInt MV.Base.Index MV.Base.BorderSpec.
Require Import MV.Gen.Scalar_gen MV.Model.Filter MV.Model.Convolve MV.Proof.BorderNearest MV.Proof.Border MV.Proof.ConvProof.

Lemma border_pos_in_shape m sh : forall pos q, shape_ok sh -> length pos = length sh ->
  border_pos m sh pos = Some q -> in_shape sh q.
Proof.
  induction sh as [|n r IH]; intros pos q Hs L E; destruct pos as [|p ps]; simpl in *; try lia.
  - apply some_inj in E. subst. exact I.
  - inversion Hs as [|? ? Hn Hr]; subst.
    destruct (border_map m p n) as [c|] eqn:Ec; [|discriminate].
    destruct (border_pos m r ps) as [t|] eqn:Et; [|discriminate].
    apply some_inj in E. subst q. simpl. split.
    + apply (border_map_range m p n c); [lia|exact Ec].
    + apply (IH ps t); auto.
Qed.

(* every element a filter kernel reads (any mode, any offset, any dimension) lies inside the image *)
Theorem fixpos_in_shape m sh pos q : valid_mode m -> shape_ok sh -> length pos = length sh ->
  fixpos m sh pos = Some q -> in_shape sh q /\ 0 <= ravel sh q < size sh.
Proof.
  intros Hm Hs L E. rewrite fixpos_border in E by auto.
  pose proof (border_pos_in_shape m sh pos q Hs L E) as I. split; [exact I|].
  apply ravel_bound; auto. unfold shape_ok in Hs. unfold pos_shape. eapply Forall_impl; [|exact Hs]. intros; simpl in *; lia.
Qed.

(* native convolve1d fast path: under the Python guard len(w) < N1, every interior read is in range *)
Theorem conv1d_interior_in_bounds Nf N1 x j :
  1 <= Nf < N1 -> Z.quot Nf 2 <= x < N1 - Z.quot Nf 2 -> 0 <= j < Nf ->
  0 <= x + j - Z.quot Nf 2 < N1.
Proof. intros. lia. Qed.

(* ... the interior loop `x != N1 - centre` terminates (start <= end) ... *)
Theorem conv1d_interior_loop_terminates Nf N1 : 1 <= Nf < N1 -> Z.quot Nf 2 <= N1 - Z.quot Nf 2.
Proof. intros. lia. Qed.

(* ... and the two loops together write every output column exactly: interior [c, N1-c), border x_ -> x *)
Theorem conv1d_border_columns Nf N1 x_ : 1 <= Nf < N1 -> 0 <= x_ < 2 * Z.quot Nf 2 ->
  let c := Z.quot Nf 2 in
  let x := if x_ <? c then x_ else (N1 - 1) - (x_ - c) in
  (0 <= x < c \/ N1 - c <= x < N1) /\ x_ < N1.
Proof. intros H Hx. cbv zeta. destruct (x_ <? Z.quot Nf 2) eqn:E; lia. Qed.

Theorem conv1d_columns_covered Nf N1 x : 1 <= Nf < N1 -> 0 <= x < N1 ->
  let c := Z.quot Nf 2 in
  (c <= x < N1 - c) \/
  (exists x_, 0 <= x_ < 2 * c /\ x = (if x_ <? c then x_ else (N1 - 1) - (x_ - c))).
Proof.
  intros H Hx. cbv zeta. set (c := Z.quot Nf 2).
  destruct (Z_lt_le_dec x c) as [L|L].
  - right. exists x. split; [lia|]. destruct (x <? c) eqn:E; lia.
  - destruct (Z_lt_le_dec x (N1 - c)) as [L2|L2]; [left; lia|].
    right. exists (c + (N1 - 1 - x)). split; [lia|].
    destruct (c + (N1 - 1 - x) <? c) eqn:E; lia.
Qed.
