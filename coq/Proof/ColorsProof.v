(* C20: colour conversions (GENERATED element functions over R) and stretch (Q). *)
Require Import Reals Lra Interval.Tactic.
Require Import QArith.
Require Import MV.Base.RHelp MV.Gen.Colors_gen MV.Model.Stretch.
Open Scope R_scope.

Lemma Rpower_1_l y : Rpower 1 y = 1.
Proof. unfold Rpower. rewrite ln_1, Rmult_0_r. apply exp_0. Qed.

(* ---------- sRGB transfer function ---------- *)
Definition knee : R := IZR 809 / IZR 20000.          (* 0.04045 *)

Lemma srgb_low c : c / IZR 255 <= knee -> srgb_to_linear c = c / IZR 255 / (IZR 323 / IZR 25).
Proof. intros H. unfold srgb_to_linear. cbv zeta. unfold knee in H. now rewrite (rleb_true _ _ H). Qed.
Lemma srgb_high c : knee < c / IZR 255 ->
  srgb_to_linear c = Rpower ((c / IZR 255 + IZR 11 / IZR 200) / (IZR 1 + IZR 11 / IZR 200)) (IZR 12 / IZR 5).
Proof. intros H. unfold srgb_to_linear. cbv zeta. unfold knee in H. now rewrite (rleb_false _ _ H). Qed.

Theorem white_maps_to_Y_1 : snd (fst (rgb2xyz_px 255 255 255)) = 1 /\ fst (fst (rgb2xyz_px 255 255 255)) = 9505 / 10000 /\
                            snd (rgb2xyz_px 255 255 255) = 1089 / 1000.
Proof.
  assert (W : srgb_to_linear 255 = 1).
  { rewrite srgb_high by (unfold knee; lra).
    replace ((255 / IZR 255 + IZR 11 / IZR 200) / (IZR 1 + IZR 11 / IZR 200)) with 1 by field. apply Rpower_1_l. }
  unfold rgb2xyz_px. cbv zeta. rewrite W. cbn [fst snd]. repeat split; lra.
Qed.

Theorem black_maps_to_0 : rgb2xyz_px 0 0 0 = (0, 0, 0).
Proof.
  assert (B : srgb_to_linear 0 = 0) by (rewrite srgb_low by (unfold knee; lra); field).
  unfold rgb2xyz_px. cbv zeta. rewrite B. f_equal; [f_equal|]; lra.
Qed.

(* the transfer function is non-decreasing on [0, 255], across the knee included *)
Lemma knee_gap : knee / (IZR 323 / IZR 25) <= Rpower ((knee + IZR 11 / IZR 200) / (IZR 1 + IZR 11 / IZR 200)) (IZR 12 / IZR 5).
Proof. unfold knee, Rpower. interval. Qed.

Theorem srgb_to_linear_monotone x y : 0 <= x -> x <= y -> srgb_to_linear x <= srgb_to_linear y.
Proof.
  intros Hx Hxy.
  destruct (Rle_dec (x / IZR 255) knee) as [Lx|Lx]; destruct (Rle_dec (y / IZR 255) knee) as [Ly|Ly].
  - rewrite !srgb_low by auto. lra.
  - apply Rnot_le_lt in Ly. rewrite srgb_low, srgb_high by auto.
    apply Rle_trans with (knee / (IZR 323 / IZR 25)); [lra|].
    eapply Rle_trans; [apply knee_gap|]. apply Rle_Rpower_l; [lra|]. split; [unfold knee; lra|lra].
  - apply Rnot_le_lt in Lx. exfalso. lra.
  - apply Rnot_le_lt in Lx. apply Rnot_le_lt in Ly. rewrite !srgb_high by auto.
    apply Rle_Rpower_l; [lra|]. unfold knee in *. split; lra.
Qed.

Theorem rgb2xyz_monotone_per_channel r g b r' g' b' :
  0 <= r -> 0 <= g -> 0 <= b -> r <= r' -> g <= g' -> b <= b' ->
  fst (fst (rgb2xyz_px r g b)) <= fst (fst (rgb2xyz_px r' g' b')) /\
  snd (fst (rgb2xyz_px r g b)) <= snd (fst (rgb2xyz_px r' g' b')) /\
  snd (rgb2xyz_px r g b) <= snd (rgb2xyz_px r' g' b').
Proof.
  intros. pose proof (srgb_to_linear_monotone r r'). pose proof (srgb_to_linear_monotone g g'). pose proof (srgb_to_linear_monotone b b').
  unfold rgb2xyz_px. cbv zeta. cbn [fst snd]. repeat split; lra.
Qed.

(* the two transfer functions are mutually inverse (away from the 6e-8-wide sliver where the published constants disagree) *)
Theorem srgb_roundtrip_low c : 0 <= c -> c / IZR 255 <= IZR 4044 / IZR 100000 -> linear_to_srgb (srgb_to_linear c) = c.
Proof.
  intros H0 H. rewrite srgb_low by (unfold knee; lra). unfold linear_to_srgb. cbv zeta.
  rewrite rleb_true by lra. field.
Qed.

Theorem srgb_roundtrip_high c : knee < c / IZR 255 -> c <= 255 -> linear_to_srgb (srgb_to_linear c) = c.
Proof.
  intros H Hc. rewrite srgb_high by auto. unfold linear_to_srgb. cbv zeta.
  set (u := (c / IZR 255 + IZR 11 / IZR 200) / (IZR 1 + IZR 11 / IZR 200)).
  assert (U : (knee + IZR 11 / IZR 200) / (IZR 1 + IZR 11 / IZR 200) <= u) by (unfold u, knee in *; lra).
  assert (Upos : 0 < u) by (unfold u, knee in *; lra).
  assert (G : IZR 7827 / IZR 2500000 < Rpower u (IZR 12 / IZR 5)).
  { apply Rlt_le_trans with (Rpower ((knee + IZR 11 / IZR 200) / (IZR 1 + IZR 11 / IZR 200)) (IZR 12 / IZR 5)).
    - unfold knee, Rpower. interval.
    - apply Rle_Rpower_l; [lra|]. split; [unfold knee; apply Rdiv_lt_0_compat; lra|exact U]. }
  rewrite rleb_false by exact G.
  rewrite Rpower_mult. replace (IZR 12 / IZR 5 * (IZR 1 / (IZR 12 / IZR 5))) with 1 by field.
  rewrite Rpower_1 by exact Upos. unfold u. field.
Qed.

(* ---------- CIE L*a*b* ---------- *)
Theorem lab_white : let '(L, a, b) := xyz2lab_px (9505 / 10000) 1 (1089 / 1000) in
  L = 100 /\ Rabs a < 1 / 100 /\ Rabs b < 2 / 100.
Proof.
  unfold xyz2lab_px, lab_f. cbv zeta.
  assert (T : Rpower (IZR 6 / IZR 29) (IZR 3) < 1 / 100) by (unfold Rpower; interval).
  rewrite (rleb_false (1 / IZR 1)) by lra.
  rewrite (rleb_false (9505 / 10000 / (IZR 95047 / IZR 100000))) by lra.
  rewrite (rleb_false (1089 / 1000 / (IZR 108883 / IZR 100000))) by lra.
  replace (1 / IZR 1) with 1 by field. rewrite Rpower_1_l.
  split; [lra|]. split; unfold Rpower; interval.
Qed.

(* ---------- grey and sepia are the documented linear maps ---------- *)
Theorem grey_weights_sum_to_one v : rgb2grey_px v v v = v.
Proof. unfold rgb2grey_px. field. Qed.

Theorem sepia_in_range r g b : let '(x, y, z) := rgb2sepia_px r g b in
  0 <= x <= 255 /\ 0 <= y <= 255 /\ 0 <= z <= 255.
Proof.
  unfold rgb2sepia_px.
  assert (C : forall t, 0 <= Rmax (Rmin t 255) 0 <= 255).
  { intros t. split; [apply Rmax_r|]. apply Rmax_lub; [apply Rmin_r|lra]. }
  repeat split; apply C.
Qed.

(* ---------- stretch (exact rationals) ---------- *)
Open Scope Q_scope.
Theorem stretch_min_to_lower vmin ptp lo hi : (stretch_px vmin vmin ptp lo hi == lo)%Q.
Proof. unfold stretch_px. destruct (Qeq_bool ptp 0); [reflexivity|]. ring. Qed.

Theorem stretch_monotone v w vmin ptp lo hi : (0 < ptp)%Q -> (lo <= hi)%Q -> (v <= w)%Q ->
  (stretch_px v vmin ptp lo hi <= stretch_px w vmin ptp lo hi)%Q.
Proof.
  intros Hp Hl Hv. unfold stretch_px.
  destruct (Qeq_bool ptp 0) eqn:E; [apply Qle_refl|].
  apply Qplus_le_l. apply Qmult_le_compat_r.
  - unfold Qminus. apply Qplus_le_l. exact Hv.
  - apply Qle_shift_div_l; [exact Hp|]. rewrite Qmult_0_l. unfold Qminus. rewrite <- (Qplus_opp_r lo). apply Qplus_le_l. exact Hl.
Qed.

Theorem stretch_in_range v vmin ptp lo hi : (0 < ptp)%Q -> (lo <= hi)%Q -> (vmin <= v)%Q -> (v <= vmin + ptp)%Q ->
  (lo <= stretch_px v vmin ptp lo hi)%Q /\ (stretch_px v vmin ptp lo hi <= hi)%Q.
Proof.
  intros Hp Hl H1 H2. split.
  - rewrite <- (stretch_min_to_lower vmin ptp lo hi) at 1. now apply stretch_monotone.
  - apply Qle_trans with (stretch_px (vmin + ptp) vmin ptp lo hi); [now apply stretch_monotone|].
    unfold stretch_px. assert (N : ~ ptp == 0) by (intros E; rewrite E in Hp; apply (Qlt_irrefl 0); exact Hp).
    destruct (Qeq_bool ptp 0) eqn:E; [apply Qeq_bool_iff in E; contradiction|].
    assert (Q : ((vmin + ptp - vmin) * ((hi - lo) / ptp) + lo == hi)%Q) by (field; exact N).
    rewrite Q. apply Qle_refl.
Qed.
