(* C01: the 2-D boolean fast path of _morph.cpp (Model/MorphFast.v) computes the same erosion and dilation as the generic
   iterator path (Model/Morph.v), for every image, every element (any size, even sides, asymmetric, with or without its
   centre) and at the borders. *)
Require Import MV.Base.Prelude MV.Base.CInt MV.Base.Index MV.Base.BorderSpec.
Require Import MV.Gen.Scalar_gen MV.Model.Filter MV.Model.Morph MV.Model.MorphFast.
Require Import MV.Proof.LabeledProof MV.Proof.MorphProof MV.Proof.MorphLaws MV.Proof.BinaryDuality.

(* ---------- the update loop, cell by cell ---------- *)
Definition fb_op (is_er : bool) : Z -> Z -> Z := if is_er then Z.min else Z.max.

Lemma fb_step_len is_er a o ts : Zlen (fb_step is_er a o ts) = Zlen o.
Proof. unfold fb_step. apply updZ_Zlen. Qed.

Lemma fb_fold_len is_er a U : forall o, Zlen (fold_left (fb_step is_er a) U o) = Zlen o.
Proof. induction U as [|u U IH]; intros o; cbn [fold_left]; [reflexivity|]. rewrite IH. apply fb_step_len. Qed.

Lemma fb_fold_char is_er a U : forall o i, 0 <= i < Zlen o -> Forall (fun ts => 0 <= fst ts < Zlen o) U ->
  nthZ 0 (fold_left (fb_step is_er a) U o) i =
  fold_left (fb_op is_er) (map (fun ts => nthZ 0 a (snd ts)) (filter (fun ts => fst ts =? i) U)) (nthZ 0 o i).
Proof.
  induction U as [|u U IH]; intros o i Hi HU; cbn [fold_left filter map]; [reflexivity|].
  inversion HU as [|? ? Hu HU']; subst.
  rewrite IH by (rewrite ?fb_step_len; auto).
  assert (E0 : nthZ 0 (fb_step is_er a o u) i =
               if fst u =? i then fb_op is_er (nthZ 0 o (fst u)) (nthZ 0 a (snd u)) else nthZ 0 o i).
  { unfold fb_step. rewrite nthZ_updZ by lia. destruct (fst u =? i); [|reflexivity]. unfold fb_op. destruct is_er; reflexivity. }
  rewrite E0.
  destruct (fst u =? i) eqn:E.
  - assert (fst u = i) by lia. subst i. cbn [map fold_left]. reflexivity.
  - reflexivity.
Qed.

Lemma fold_min_bits vals : forall x, bit x -> Forall bit vals ->
  bit (fold_left Z.min vals x) /\ (fold_left Z.min vals x = 0 <-> x = 0 \/ In 0 vals).
Proof.
  induction vals as [|v vals IH]; intros x Bx Bv; cbn [fold_left].
  - split; [exact Bx|]. split; [auto | intros [H|[]]; exact H].
  - inversion Bv as [|? ? B1 B2]; subst.
    assert (Bm : bit (Z.min x v)) by (destruct Bx as [->| ->]; destruct B1 as [->| ->]; [left|left|left|right]; reflexivity).
    destruct (IH (Z.min x v) Bm B2) as [I1 I2]. split; [exact I1|]. rewrite I2. cbn [In].
    destruct Bx as [->| ->]; destruct B1 as [->| ->]; cbn; intuition lia.
Qed.

Lemma fold_max_bits vals : forall x, bit x -> Forall bit vals ->
  bit (fold_left Z.max vals x) /\ (fold_left Z.max vals x = 1 <-> x = 1 \/ In 1 vals).
Proof.
  induction vals as [|v vals IH]; intros x Bx Bv; cbn [fold_left].
  - split; [exact Bx|]. split; [auto | intros [H|[]]; exact H].
  - inversion Bv as [|? ? B1 B2]; subst.
    assert (Bm : bit (Z.max x v)) by (destruct Bx as [->| ->]; destruct B1 as [->| ->]; [left|right|right|right]; reflexivity).
    destruct (IH (Z.max x v) Bm B2) as [I1 I2]. split; [exact I1|]. rewrite I2. cbn [In].
    destruct Bx as [->| ->]; destruct B1 as [->| ->]; cbn; intuition lia.
Qed.

(* ---------- which updates are performed ---------- *)
Lemma in_cols dx Nx x c : 1 <= Nx -> (In (x, c) (fb_cols dx Nx) <-> 0 <= x < Nx /\ c = clamp (x + dx) Nx).
Proof.
  intros HN. unfold fb_cols, fb_x1, fb_x0, clamp. rewrite !in_app_iff, !in_map_iff. split.
  - intros [[x' [E H]]|[[x' [E H]]|[x' [E H]]]]; apply in_Zseq in H; injection E as <- <-; lia.
  - intros [Hx ->].
    destruct (Z_lt_ge_dec x (Z.min Nx (Z.max 0 (- dx)))) as [L0|G0].
    + left. exists x. split; [f_equal; lia | apply in_Zseq; lia].
    + destruct (Z_lt_ge_dec x (Z.max (Z.min Nx (Z.max 0 (- dx))) (Z.min Nx (Nx - dx)))) as [L1|G1].
      * right; left. exists x. split; [f_equal; lia | apply in_Zseq; lia].
      * right; right. exists x. split; [f_equal; lia | apply in_Zseq; lia].
Qed.

Lemma fb_dy_clamp y dy Ny : 0 <= y < Ny -> y + fb_dy y dy Ny = clamp (y + dy) Ny.
Proof.
  intros Hy. unfold fb_dy, clamp. destruct (y + dy <? 0) eqn:A; [lia|]. destruct (y + dy >=? Ny) eqn:B; lia.
Qed.

Lemma in_updates is_er Ny Nx pos t s : 1 <= Nx -> 0 <= Ny ->
  (In (t, s) (fb_updates is_er Ny Nx pos) <->
   exists y dy dx x, 0 <= y < Ny /\ In (dy, dx) pos /\ 0 <= x < Nx /\
     let here := y * Nx + x in let there := clamp (y + dy) Ny * Nx + clamp (x + dx) Nx in
     (t, s) = if is_er then (here, there) else (there, here)).
Proof.
  intros HN HNy. unfold fb_updates. rewrite in_flat_map. split.
  - intros [y [Hy H]]. apply in_Zseq in Hy. apply in_flat_map in H. destruct H as [[dy dx] [Hd H]].
    apply in_map_iff in H. destruct H as [[x c] [E Hc]]. apply in_cols in Hc; auto. destruct Hc as [Hx ->].
    exists y, dy, dx, x. split; [lia|]. split; [exact Hd|]. split; [exact Hx|]. cbv zeta.
    rewrite fb_dy_clamp in E by lia. rewrite <- E. reflexivity.
  - intros (y & dy & dx & x & Hy & Hd & Hx & E). cbv zeta in E.
    exists y. split; [apply in_Zseq; lia|]. apply in_flat_map. exists (dy, dx). split; [exact Hd|].
    apply in_map_iff. exists (x, clamp (x + dx) Nx). split; [|apply in_cols; auto].
    rewrite fb_dy_clamp by lia. rewrite E. reflexivity.
Qed.

(* ---------- members of the element: centre + the fast path's position list ---------- *)
Lemma in_shape2 a b p : in_shape [a; b] p <-> exists y x, p = [y; x] /\ 0 <= y < a /\ 0 <= x < b.
Proof.
  split.
  - destruct p as [|y [|x [|z r]]]; simpl; try tauto. intros [H1 [H2 _]]. exists y, x. auto.
  - intros [y [x [-> [H1 H2]]]]. simpl. auto.
Qed.

Lemma offs_char bc By Bx : shape bc = [By; Bx] -> 1 <= By -> 1 <= Bx -> forall o,
  In o (offs bc) <-> (o = [0; 0] /\ fb_centre bc = true) \/ (exists dy dx, o = [dy; dx] /\ In (dy, dx) (fb_positions bc)).
Proof.
  intros Hs HBy HBx o. unfold offs. rewrite entries_true, entries_false, Hs.
  assert (Pp : pos_shape [By; Bx]) by (repeat constructor; lia).
  assert (Q0 : 0 <= Z.quot By 2 < By /\ 0 <= Z.quot Bx 2 < Bx).
  { rewrite !Z.quot_div_nonneg by lia. split; (split; [apply Z.div_pos; lia | apply Z.div_lt_upper_bound; lia]). }
  unfold fb_centre, fb_positions. rewrite Hs. cbn [centre map]. split.
  - intros H. apply in_map_iff in H. destruct H as [e [<- He]]. apply filter_In in He. destruct He as [He Nz].
    apply in_map_iff in He. destruct He as [k [<- Hk]]. cbn [fst snd] in *.
    apply in_all_positions in Hk; auto. destruct (proj1 (in_shape2 By Bx k) Hk) as [y [x [-> [Hy Hx]]]].
    cbn [psub]. destruct ((y - Z.quot By 2 =? 0) && (x - Z.quot Bx 2 =? 0)) eqn:C.
    + left. apply andb_prop in C. destruct C as [C1 C2]. split; [f_equal; [lia | f_equal; lia]|].
      replace (Z.quot By 2) with y by lia. replace (Z.quot Bx 2) with x by lia. exact Nz.
    + right. exists (y - Z.quot By 2), (x - Z.quot Bx 2). split; [reflexivity|].
      apply in_flat_map. exists [y; x]. split; [apply in_all_positions; auto; simpl; lia|].
      destruct (aget bc [y; x] =? 0) eqn:A; [discriminate|]. rewrite C. left. reflexivity.
  - intros [[-> C]|[dy [dx [-> H]]]].
    + apply in_map_iff. exists ([0; 0], aget bc [Z.quot By 2; Z.quot Bx 2]). split; [reflexivity|].
      apply filter_In. split; [|exact C]. apply in_map_iff. exists [Z.quot By 2; Z.quot Bx 2].
      split; [cbn [psub]; f_equal; f_equal; [lia | f_equal; lia]|]. apply in_all_positions; auto. simpl. lia.
    + apply in_flat_map in H. destruct H as [k [Hk H]]. apply in_all_positions in Hk; auto.
      destruct (proj1 (in_shape2 By Bx k) Hk) as [y [x [-> [Hy Hx]]]].
      destruct (aget bc [y; x] =? 0) eqn:A; [destruct H|].
      destruct ((y - Z.quot By 2 =? 0) && (x - Z.quot Bx 2 =? 0)); [destruct H|].
      destruct H as [E|[]]. injection E as <- <-.
      apply in_map_iff. exists ([y - Z.quot By 2; x - Z.quot Bx 2], aget bc [y; x]). split; [reflexivity|].
      apply filter_In. split; [|cbn [snd]; rewrite A; reflexivity].
      apply in_map_iff. exists [y; x]. split; [reflexivity|]. apply in_all_positions; auto; simpl; lia.
Qed.

Section Fast.
  Variables a bc : arr.
  Variables Ny Nx By Bx : Z.
  Hypothesis Hsa : shape a = [Ny; Nx].
  Hypothesis Hok : shape_ok [Ny; Nx].
  Hypothesis Ha : bimg [Ny; Nx] (data a).
  Hypothesis Hsb : shape bc = [By; Bx].
  Hypothesis HBy : 1 <= By.
  Hypothesis HBx : 1 <= Bx.
  Let sh := [Ny; Nx].
  Let N := size sh.

  Lemma dims : 1 <= Ny /\ 1 <= Nx /\ N = Ny * Nx.
  Proof.
    inversion Hok as [|? ? H1 H']; subst. inversion H' as [|? ? H2 _]; subst. unfold N, sh. cbn [size]. lia.
  Qed.

  Lemma Hbc : forall e, In e (entries true bc) -> length (fst e) = length sh.
  Proof.
    intros e He. rewrite entries_true in He. apply filter_In in He. destruct He as [He _].
    rewrite entries_false, Hsb in He. apply in_map_iff in He. destruct He as [k [<- Hk]].
    apply in_all_positions in Hk; [|repeat constructor; lia].
    destruct (proj1 (in_shape2 By Bx k) Hk) as [y [x [-> _]]]. reflexivity.
  Qed.

  Lemma ravel2 y x : ravel sh [y; x] = y * Nx + x.
  Proof. unfold sh. cbn [ravel size]. ring. Qed.

  Lemma cell i : 0 <= i < N -> exists y x, unravel sh i = [y; x] /\ 0 <= y < Ny /\ 0 <= x < Nx /\ i = y * Nx + x.
  Proof.
    intros Hi. assert (Pp : pos_shape sh) by (apply shape_ok_pos; exact Hok).
    pose proof (unravel_in_shape sh i Pp Hi) as Hp. destruct (proj1 (in_shape2 Ny Nx _) Hp) as [y [x [E [Hy Hx]]]].
    exists y, x. split; [exact E|]. split; [exact Hy|]. split; [exact Hx|].
    rewrite <- (ravel_unravel sh i Pp Hi), E. apply ravel2.
  Qed.

  Lemma cell_unique y x y' x' : 0 <= x < Nx -> 0 <= x' < Nx -> y * Nx + x = y' * Nx + x' -> y = y' /\ x = x'.
  Proof. intros H1 H2 E. assert (y = y') by nia. subst. split; [reflexivity | lia]. Qed.

  Lemma clamp_range v n : 1 <= n -> 0 <= clamp v n < n.
  Proof. unfold clamp. lia. Qed.

  Lemma clampos2 y x dy dx : clampos sh (padd [y; x] [dy; dx]) = [clamp (y + dy) Ny; clamp (x + dx) Nx].
  Proof. reflexivity. Qed.

  Let init (is_er : bool) := if fb_centre bc then data a else repeat (if is_er then 1 else 0) (length (data a)).
  Let U (is_er : bool) := fb_updates is_er Ny Nx (fb_positions bc).

  Lemma La : Zlen (data a) = N. Proof. exact (proj1 Ha). Qed.

  Lemma init_len is_er : Zlen (init is_er) = N.
  Proof. unfold init. destruct (fb_centre bc); [exact La|]. unfold Zlen. rewrite repeat_length. exact La. Qed.

  Lemma init_nth is_er i : 0 <= i < N ->
    nthZ 0 (init is_er) i = if fb_centre bc then nthZ 0 (data a) i else if is_er then 1 else 0.
  Proof.
    intros Hi. unfold init. destruct (fb_centre bc); [reflexivity|]. apply nthZ_repeat. pose proof La. unfold Zlen in *. lia.
  Qed.

  Lemma U_targets is_er : Forall (fun ts => 0 <= fst ts < Zlen (init is_er)) (U is_er).
  Proof.
    destruct dims as (D1 & D2 & D3). rewrite init_len. apply Forall_forall. intros [t s] H. unfold U in H.
    apply in_updates in H; [|lia|lia]. destruct H as (y & dy & dx & x & Hy & _ & Hx & E). cbv zeta in E. cbn [fst].
    pose proof (clamp_range (y + dy) Ny D1). pose proof (clamp_range (x + dx) Nx D2).
    destruct is_er; injection E as -> _; nia.
  Qed.

  Lemma vals_bits is_er i : Forall bit (map (fun ts => nthZ 0 (data a) (snd ts)) (filter (fun ts => fst ts =? i) (U is_er))).
  Proof. apply Forall_forall. intros v Hv. apply in_map_iff in Hv. destruct Hv as [ts [<- _]]. apply nthZ_bit. exact (proj2 Ha). Qed.

  Lemma init_bit is_er i : 0 <= i < N -> bit (nthZ 0 (init is_er) i).
  Proof.
    intros Hi. rewrite init_nth by auto. destruct (fb_centre bc); [apply nthZ_bit; exact (proj2 Ha)|]. destruct is_er; [right|left]; reflexivity.
  Qed.

  Lemma fast_unfold is_er : fast2d is_er a bc = fold_left (fb_step is_er (data a)) (U is_er) (init is_er).
  Proof. unfold fast2d. rewrite Hsa. reflexivity. Qed.

  Lemma fast_len is_er : Zlen (fast2d is_er a bc) = N.
  Proof. rewrite fast_unfold, fb_fold_len. apply init_len. Qed.

  Lemma fast_nth is_er i : 0 <= i < N ->
    nthZ 0 (fast2d is_er a bc) i =
    fold_left (fb_op is_er) (map (fun ts => nthZ 0 (data a) (snd ts)) (filter (fun ts => fst ts =? i) (U is_er))) (nthZ 0 (init is_er) i).
  Proof. intros Hi. rewrite fast_unfold. apply fb_fold_char; [rewrite init_len; exact Hi | apply U_targets]. Qed.

  Lemma list_bits_eq l1 l2 : Zlen l1 = N -> Zlen l2 = N ->
    (forall i, 0 <= i < N -> bit (nthZ 0 l1 i) /\ bit (nthZ 0 l2 i) /\ (nthZ 0 l1 i = 0 <-> nthZ 0 l2 i = 0)) -> l1 = l2.
  Proof.
    intros L1 L2 H. apply nth_ext with (d := 0) (d' := 0); [unfold Zlen in *; lia|].
    intros k Hk. specialize (H (Z.of_nat k) ltac:(unfold Zlen in *; lia)). unfold nthZ in H.
    destruct (Z.of_nat k <? 0) eqn:E; [lia|]. rewrite Nat2Z.id in H. destruct H as ([A|A] & [B|B] & C); lia.
  Qed.

  (* ----- erosion ----- *)
  Theorem fast_erode_is_generic : fast2d true a bc = erode_generic DBool a bc.
  Proof.
    destruct dims as (D1 & D2 & D3).
    assert (EA : erode_generic DBool a bc = bero sh bc (data a)).
    { unfold bero, A. f_equal. destruct a as [s d]. cbn in *. subst s. reflexivity. }
    rewrite EA. apply list_bits_eq; [apply fast_len | apply (bero_length sh bc Hok) |]. intros i Hi.
    pose proof (bero_bimg sh bc Hok (data a) Ha) as [_ Be].
    rewrite fast_nth by auto. unfold fb_op.
    destruct (fold_min_bits _ _ (init_bit true i Hi) (vals_bits true i)) as [Bf Zf].
    split; [exact Bf|]. split; [apply nthZ_bit; exact Be|]. rewrite Zf.
    rewrite (bero_zero sh bc Hok Hbc (data a) i Ha Hi).
    destruct (cell i Hi) as (y & x & Eu & Hy & Hx & Ei). rewrite Eu.
    split.
    - intros [I0|I0].
      + (* the seed: the centre belongs to the element and the pixel itself is 0 *)
        rewrite init_nth in I0 by auto. destruct (fb_centre bc) eqn:C; [|discriminate].
        exists [y; x]. split; [rewrite ravel2, <- Ei; exact I0|].
        exists [0; 0]. split; [apply (offs_char bc By Bx Hsb HBy HBx); left; auto|].
        change (padd [y; x] [0; 0]) with [y + 0; x + 0]. unfold clampos, clamp. cbn. f_equal; [lia | f_equal; lia].
      + apply in_map_iff in I0. destruct I0 as [[t s] [Ev Hts]]. apply filter_In in Hts. destruct Hts as [Hin Et].
        cbn [fst snd] in *. unfold U in Hin. apply in_updates in Hin; [|lia|lia].
        destruct Hin as (y' & dy & dx & x' & Hy' & Hd & Hx' & E). cbv zeta in E. injection E as Et' Es.
        assert (Et2 : y * Nx + x = y' * Nx + x') by lia. destruct (cell_unique y x y' x' Hx Hx' Et2) as [<- <-].
        exists [clamp (y + dy) Ny; clamp (x + dx) Nx]. split; [rewrite ravel2, <- Es; exact Ev|].
        exists [dy; dx]. split; [apply (offs_char bc By Bx Hsb HBy HBx); right; eauto | apply clampos2].
    - intros [q [Zq [o [Ho Eq]]]]. apply (offs_char bc By Bx Hsb HBy HBx) in Ho. destruct Ho as [[-> C]|[dy [dx [-> Hd]]]].
      + left. rewrite init_nth by auto. rewrite C.
        assert (Eq2 : q = [y; x]).
        { rewrite <- Eq. change (padd [y; x] [0; 0]) with [y + 0; x + 0]. unfold clampos, clamp. cbn. f_equal; [lia | f_equal; lia]. }
        rewrite Eq2 in Zq. rewrite ravel2, <- Ei in Zq. exact Zq.
      + right. rewrite clampos2 in Eq. rewrite <- Eq in Zq. rewrite ravel2 in Zq.
        apply in_map_iff. exists (i, clamp (y + dy) Ny * Nx + clamp (x + dx) Nx). split; [exact Zq|].
        apply filter_In. split; [|cbn; lia]. unfold U. apply in_updates; [lia|lia|].
        exists y, dy, dx, x. split; [exact Hy|]. split; [exact Hd|]. split; [exact Hx|]. cbv zeta. rewrite Ei. reflexivity.
  Qed.

  Lemma list_bits_eq1 l1 l2 : Zlen l1 = N -> Zlen l2 = N ->
    (forall i, 0 <= i < N -> bit (nthZ 0 l1 i) /\ bit (nthZ 0 l2 i) /\ (nthZ 0 l1 i = 1 <-> nthZ 0 l2 i = 1)) -> l1 = l2.
  Proof.
    intros L1 L2 H. apply list_bits_eq; auto. intros i Hi. destruct (H i Hi) as (A & B & C).
    split; [exact A|]. split; [exact B|].
    destruct A as [A|A]; destruct B as [B|B]; rewrite A, B in *; destruct C as [C1 C2]; split; intros X; try reflexivity; try discriminate X.
    - specialize (C2 eq_refl). discriminate C2.
    - specialize (C1 eq_refl). discriminate C1.
  Qed.

  (* ----- dilation ----- *)
  Theorem fast_dilate_is_generic : fast2d false a bc = dilate_generic DBool a bc.
  Proof.
    destruct dims as (D1 & D2 & D3).
    assert (EA : dilate_generic DBool a bc = bdil sh bc (data a)).
    { unfold bdil, A. f_equal. destruct a as [s d]. cbn in *. subst s. reflexivity. }
    rewrite EA. pose proof (bdil_bimg sh bc Hok Hbc (data a) Ha) as [Ld Bd].
    apply list_bits_eq1; [apply fast_len | exact Ld |]. intros i Hi.
    rewrite fast_nth by auto. unfold fb_op.
    destruct (fold_max_bits _ _ (init_bit false i Hi) (vals_bits false i)) as [Bf Of].
    split; [exact Bf|]. split; [apply nthZ_bit; exact Bd|]. rewrite Of.
    rewrite (bdil_one sh bc Hok Hbc (data a) i Ha Hi).
    destruct (cell i Hi) as (ty & tx & Eu & Hty & Htx & Ei). rewrite Eu.
    split.
    - intros [I1|I1].
      + rewrite init_nth in I1 by auto. destruct (fb_centre bc) eqn:C; [|discriminate].
        exists [ty; tx]. split; [apply in_shape2; eauto|]. split; [rewrite ravel2, <- Ei; exact I1|].
        exists [0; 0]. split; [apply (offs_char bc By Bx Hsb HBy HBx); left; auto|].
        change (padd [ty; tx] [0; 0]) with [ty + 0; tx + 0]. unfold clampos, clamp. cbn. f_equal; [lia | f_equal; lia].
      + apply in_map_iff in I1. destruct I1 as [[t s] [Ev Hts]]. apply filter_In in Hts. destruct Hts as [Hin Et].
        cbn [fst snd] in *. unfold U in Hin. apply in_updates in Hin; [|lia|lia].
        destruct Hin as (y & dy & dx & x & Hy & Hd & Hx & E). cbv zeta in E. injection E as Et' Es.
        pose proof (clamp_range (x + dx) Nx D2) as CR.
        assert (Et2 : ty * Nx + tx = clamp (y + dy) Ny * Nx + clamp (x + dx) Nx) by lia.
        destruct (cell_unique ty tx _ _ Htx CR Et2) as [E1 E2].
        exists [y; x]. split; [apply in_shape2; eauto|]. split; [rewrite ravel2, <- Es; exact Ev|].
        exists [dy; dx]. split; [apply (offs_char bc By Bx Hsb HBy HBx); right; eauto|]. rewrite clampos2, <- E1, <- E2. reflexivity.
    - intros [p [Hp [Op [o [Ho Eq]]]]]. destruct (proj1 (in_shape2 Ny Nx p) Hp) as [y [x [-> [Hy Hx]]]].
      apply (offs_char bc By Bx Hsb HBy HBx) in Ho. destruct Ho as [[-> C]|[dy [dx [-> Hd]]]].
      + left. rewrite init_nth by auto. rewrite C.
        assert (Eq2 : [y; x] = [ty; tx]).
        { rewrite <- Eq. change (padd [y; x] [0; 0]) with [y + 0; x + 0]. unfold clampos, clamp. cbn. f_equal; [lia | f_equal; lia]. }
        injection Eq2 as -> ->. rewrite ravel2, <- Ei in Op. exact Op.
      + right. rewrite clampos2 in Eq. injection Eq as E1 E2. rewrite ravel2 in Op.
        apply in_map_iff. exists (i, y * Nx + x). split; [exact Op|].
        apply filter_In. split; [|cbn; lia]. unfold U. apply in_updates; [lia|lia|].
        exists y, dy, dx, x. split; [exact Hy|]. split; [exact Hd|]. split; [exact Hx|]. cbv zeta. rewrite E1, E2, Ei. reflexivity.
  Qed.
End Fast.

(* the property-level statement: for C-contiguous 2-D boolean input both paths give the same pixels *)
Theorem fast_path_is_generic a bc Ny Nx By Bx : shape a = [Ny; Nx] -> shape_ok [Ny; Nx] -> bimg [Ny; Nx] (data a) ->
  shape bc = [By; Bx] -> 1 <= By -> 1 <= Bx ->
  fast2d true a bc = erode_generic DBool a bc /\ fast2d false a bc = dilate_generic DBool a bc.
Proof. intros. split; [eapply fast_erode_is_generic | eapply fast_dilate_is_generic]; eauto. Qed.

Example fast_path_example :
  let a := {| shape := [3; 4]; data := [1;1;0;1; 1;1;1;1; 0;1;1;1] |} in
  let bc := {| shape := [2; 3]; data := [1;0;1; 0;0;1] |} in
  fast2d true a bc = [1;0;1;0; 1;0;1;0; 1;1;1;1] /\ fast2d false a bc = [1;1;1;1; 1;1;1;1; 0;0;1;1].
Proof. vm_compute. split; reflexivity. Qed.

(* C10: every cell the fast path writes or reads lies inside the Ny x Nx buffers, whatever the element *)
Theorem fb_updates_in_bounds is_er Ny Nx pos t s : 1 <= Ny -> 1 <= Nx -> In (t, s) (fb_updates is_er Ny Nx pos) ->
  0 <= t < Ny * Nx /\ 0 <= s < Ny * Nx.
Proof.
  intros HNy HNx H. apply in_updates in H; [|lia|lia]. destruct H as (y & dy & dx & x & Hy & _ & Hx & E). cbv zeta in E.
  assert (C1 : 0 <= clamp (y + dy) Ny < Ny) by (unfold clamp; lia).
  assert (C2 : 0 <= clamp (x + dx) Nx < Nx) by (unfold clamp; lia).
  destruct is_er; injection E as -> ->; split; nia.
Qed.
