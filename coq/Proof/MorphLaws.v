(* C02: boolean erosion / dilation of the model are adjoint (borders included, any dimension,
   any structuring element), hence opening/closing obey the lattice laws. *)
Require Import MV.Base.Prelude MV.Base.CInt MV.Base.Index MV.Base.BorderSpec MV.Base.Galois.
Require Import MV.Gen.Scalar_gen MV.Model.Filter MV.Model.Morph.
Require Import MV.Proof.BorderNearest MV.Proof.ScalarSat MV.Proof.MorphProof.

Definition bit (v : Z) : Prop := v = 0 \/ v = 1.
Definition bimg (sh : list Z) (x : list Z) : Prop := Zlen x = size sh /\ Forall bit x.
Definition le_list (n : Z) (a b : list Z) : Prop := forall i, 0 <= i < n -> nthZ 0 a i <= nthZ 0 b i.
Definition A (sh : list Z) (x : list Z) : arr := {| shape := sh; data := x |}.
Definition bdil (sh : list Z) (bc : arr) (x : list Z) : list Z := dilate_generic DBool (A sh x) bc.
Definition bero (sh : list Z) (bc : arr) (x : list Z) : list Z := erode_generic DBool (A sh x) bc.

Lemma nthZ_bit x i : Forall bit x -> bit (nthZ 0 x i).
Proof.
  intros H. unfold nthZ. destruct (i <? 0); [left; reflexivity|].
  destruct (Nat.lt_ge_cases (Z.to_nat i) (length x)) as [L|L].
  - rewrite Forall_forall in H. apply H. now apply nth_In.
  - rewrite nth_overflow by lia. left; reflexivity.
Qed.

Lemma entries_true_nz bc e : In e (entries true bc) -> snd e <> 0.
Proof. unfold entries. intros H. apply filter_In in H. destruct H as [_ H]. simpl in H. lia. Qed.

Section BoolAdj.
  Variable sh : list Z.
  Variable bc : arr.
  Hypothesis Hsh : shape_ok sh.
  Hypothesis Hbc : forall e, In e (entries true bc) -> length (fst e) = length sh.

  Let n := size sh.

  (* the common middle statement *)
  Definition Mid (f g : list Z) : Prop :=
    forall p, in_shape sh p -> forall e, In e (entries true bc) ->
      nthZ 0 f (ravel sh p) <= nthZ 0 g (ravel sh (clampos sh (padd p (fst e)))).

  Lemma in_shape_length s p : in_shape s p -> length p = length s.
  Proof. revert p; induction s; destruct p; simpl; try tauto. intros [_ H]. f_equal. auto. Qed.

  Lemma dil_le_iff_mid f g : bimg sh f -> bimg sh g -> (le_list n (bdil sh bc f) g <-> Mid f g).
  Proof.
    intros [Lf Bf] [Lg Bg]. pose proof (shape_ok_pos sh Hsh) as Pp. split.
    - intros H p Hp e He.
      destruct (nthZ_bit f (ravel sh p) Bf) as [E|E]; rewrite E.
      + destruct (nthZ_bit g (ravel sh (clampos sh (padd p (fst e)))) Bg) as [E'|E']; rewrite E'; lia.
      + set (t := ravel sh (clampos sh (padd p (fst e)))).
        assert (Ht : 0 <= t < n).
        { apply ravel_bound; auto. apply clampos_in_shape; auto.
          rewrite padd_length; rewrite (in_shape_length sh p Hp); auto. symmetry; auto. }
        specialize (H t Ht). unfold bdil in H.
        rewrite dilate_generic_char in H; auto.
        eapply Z.le_trans; [|exact H].
        apply maxl_ge_in. apply in_map_iff. exists (t, 1). split; [reflexivity|].
        apply filter_In. split; [|simpl; lia].
        apply in_flat_map. exists p. split; [apply in_all_positions; auto|].
        unfold contribs. cbn [A shape dmin is_bool]. unfold aget. cbn [A shape data]. rewrite E. simpl.
        apply in_map_iff. exists e. split; auto. fold t. f_equal.
        unfold dadd, dilate_add_bool. pose proof (entries_true_nz bc e He).
        destruct (snd e =? 0) eqn:Z0; [lia|]. reflexivity.
    - intros H i Hi. unfold bdil. rewrite dilate_generic_char; auto.
      apply maxl_lub.
      + cbn [dmin]. destruct (nthZ_bit g i Bg) as [E|E]; rewrite E; lia.
      + intros x Hx. apply in_map_iff in Hx. destruct Hx as [u [<- Hu]].
        apply filter_In in Hu. destruct Hu as [Hu Hi'].
        apply in_flat_map in Hu. destruct Hu as [p [Hp Hu]].
        apply in_all_positions in Hp; auto.
        unfold contribs in Hu. cbn [A shape dmin is_bool] in Hu.
        unfold aget in Hu. cbn [A shape data] in Hu.
        destruct (nthZ 0 f (ravel sh p) =? 0) eqn:Z0; [destruct Hu|].
        apply in_map_iff in Hu. destruct Hu as [e [<- He]]. cbn [fst snd] in *.
        specialize (H p Hp e He).
        assert (Ei : ravel sh (clampos sh (padd p (fst e))) = i) by lia. rewrite Ei in H.
        destruct (nthZ_bit f (ravel sh p) Bf) as [E|E]; [lia|]. rewrite E in *.
        unfold dadd, dilate_add_bool. destruct ((negb (1 =? 0)) && negb (snd e =? 0)); lia.
  Qed.

  Lemma ero_nth g i : 0 <= i < n ->
    nthZ 0 (bero sh bc g) i =
    minl 1 (map (fun e => esub DBool (nthZ 0 g (ravel sh (clampos sh (padd (unravel sh i) (fst e))))) (snd e))
                (entries true bc)).
  Proof.
    intros Hi. unfold bero, erode_generic. cbn [A shape].
    rewrite nthZ_map with (da := []) by (unfold Zlen; rewrite all_positions_length; lia).
    rewrite nthZ_all_positions by auto.
    unfold erode_at. rewrite fold_left_min. cbn [is_bool dmax]. apply f_equal.
    apply map_ext. intros e. rewrite getn_clamp by auto. reflexivity.
  Qed.

  Lemma esub_bool_bit a h : bit a -> h <> 0 -> esub DBool a h = a.
  Proof.
    intros [->| ->] Hh; unfold esub, erode_sub_bool; simpl; [reflexivity|].
    destruct (h =? 0) eqn:E; [lia|reflexivity].
  Qed.

  Lemma le_ero_iff_mid f g : bimg sh f -> bimg sh g -> (le_list n f (bero sh bc g) <-> Mid f g).
  Proof.
    intros [Lf Bf] [Lg Bg]. pose proof (shape_ok_pos sh Hsh) as Pp. split.
    - intros H p Hp e He.
      pose proof (ravel_bound sh p Pp Hp) as Hi. specialize (H _ Hi).
      rewrite ero_nth in H by auto. rewrite unravel_ravel in H by auto.
      eapply Z.le_trans; [exact H|].
      rewrite <- (esub_bool_bit (nthZ 0 g (ravel sh (clampos sh (padd p (fst e))))) (snd e));
        [| apply nthZ_bit; auto | exact (entries_true_nz bc e He)].
      apply minl_le_in. apply in_map_iff. exists e. split; auto.
    - intros H i Hi. rewrite ero_nth by auto. apply minl_glb.
      + destruct (nthZ_bit f i Bf) as [E|E]; rewrite E; lia.
      + intros x Hx. apply in_map_iff in Hx. destruct Hx as [e [<- He]].
        rewrite esub_bool_bit; [| apply nthZ_bit; auto | exact (entries_true_nz bc e He)].
        pose proof (unravel_in_shape sh i Pp Hi) as Hp.
        specialize (H _ Hp e He). rewrite ravel_unravel in H by auto. exact H.
  Qed.

  Theorem bool_adjunction f g : bimg sh f -> bimg sh g ->
    (le_list n (bdil sh bc f) g <-> le_list n f (bero sh bc g)).
  Proof. intros Hf Hg. rewrite dil_le_iff_mid, le_ero_iff_mid by auto. reflexivity. Qed.
End BoolAdj.

Section BoolLaws.
  Variable sh : list Z.
  Variable bc : arr.
  Hypothesis Hsh : shape_ok sh.
  Hypothesis Hbc : forall e, In e (entries true bc) -> length (fst e) = length sh.
  Let n := size sh.

  Lemma fold_max_update_length U : forall o, length (fold_left max_update U o) = length o.
  Proof. induction U as [|u U IH]; intros o; simpl; [reflexivity|]. now rewrite IH, max_update_length. Qed.

  Lemma bdil_length f : Zlen (bdil sh bc f) = n.
  Proof.
    unfold bdil. rewrite dilate_generic_contribs by auto. unfold Zlen.
    rewrite fold_max_update_length, repeat_length. cbn [A shape].
    pose proof (size_pos sh (shape_ok_pos sh Hsh)). subst n. lia.
  Qed.

  Lemma Forall_nthZ (Q : Z -> Prop) l : (forall i, 0 <= i < Zlen l -> Q (nthZ 0 l i)) -> Forall Q l.
  Proof.
    intros H. apply Forall_forall. intros x Hx. destruct (In_nthZ 0 l x Hx) as [i [Hi <-]]. auto.
  Qed.

  Lemma bdil_bimg f : bimg sh f -> bimg sh (bdil sh bc f).
  Proof.
    intros [Lf Bf]. split; [apply bdil_length|].
    apply Forall_nthZ. rewrite bdil_length. intros i Hi. unfold bdil.
    rewrite dilate_generic_char; auto. cbn [dmin].
    destruct (maxl_attained 0 (map snd (filter (fun u => fst u =? i)
               (flat_map (contribs DBool (A sh f) bc) (all_positions (shape (A sh f))))))) as [E|E].
    - left. exact E.
    - apply in_map_iff in E. destruct E as [u [Eu Hu]]. rewrite <- Eu.
      apply filter_In in Hu. destruct Hu as [Hu _].
      apply in_flat_map in Hu. destruct Hu as [p [_ Hu]]. unfold contribs in Hu.
      destruct (aget (A sh f) p =? dmin DBool); [destruct Hu|].
      apply in_map_iff in Hu. destruct Hu as [e [<- _]]. cbn [snd].
      unfold dadd, dilate_add_bool. destruct (_ && _); [right|left]; reflexivity.
  Qed.

  Lemma bero_length f : Zlen (bero sh bc f) = n.
  Proof.
    unfold bero, erode_generic, Zlen. rewrite map_length, all_positions_length. cbn [A shape].
    pose proof (size_pos sh (shape_ok_pos sh Hsh)). subst n. lia.
  Qed.

  Lemma bero_bimg f : bimg sh f -> bimg sh (bero sh bc f).
  Proof.
    intros [Lf Bf]. split; [apply bero_length|].
    apply Forall_nthZ. rewrite bero_length. intros i Hi.
    rewrite ero_nth by auto.
    destruct (minl_attained 1 (map (fun e => esub DBool (nthZ 0 f (ravel sh (clampos sh (padd (unravel sh i) (fst e))))) (snd e))
                (entries true bc))) as [E|E].
    - right. exact E.
    - apply in_map_iff in E. destruct E as [e [Ee _]]. rewrite <- Ee.
      unfold esub, erode_sub_bool. destruct (_ && _); [right|left]; reflexivity.
  Qed.

  Lemma le_list_refl x : le_list n x x.
  Proof. intros i _. lia. Qed.
  Lemma le_list_trans x y z : le_list n x y -> le_list n y z -> le_list n x z.
  Proof. intros H1 H2 i Hi. specialize (H1 i Hi). specialize (H2 i Hi). lia. Qed.

  Definition bopen f := bdil sh bc (bero sh bc f).     (* mahotas.open  = dilate(erode(f)) *)
  Definition bclose f := bero sh bc (bdil sh bc f).    (* mahotas.close = erode(dilate(f)) *)

  Let adj := bool_adjunction sh bc Hsh Hbc.

  Let R : forall x, bimg sh x -> le_list n x x := fun x _ => le_list_refl x.

  Theorem bopen_antiextensive f : bimg sh f -> le_list n (bopen f) f.
  Proof. exact (opening_antiextensive _ (bimg sh) (le_list n) (bdil sh bc) (bero sh bc) R bero_bimg adj f). Qed.

  Theorem bclose_extensive f : bimg sh f -> le_list n f (bclose f).
  Proof. exact (closing_extensive _ (bimg sh) (le_list n) (bdil sh bc) (bero sh bc) R bdil_bimg adj f). Qed.

  Theorem bopen_increasing f g : bimg sh f -> bimg sh g -> le_list n f g -> le_list n (bopen f) (bopen g).
  Proof. exact (opening_incr _ (bimg sh) (le_list n) (bdil sh bc) (bero sh bc) R le_list_trans bdil_bimg bero_bimg adj f g). Qed.

  Theorem bclose_increasing f g : bimg sh f -> bimg sh g -> le_list n f g -> le_list n (bclose f) (bclose g).
  Proof. exact (closing_incr _ (bimg sh) (le_list n) (bdil sh bc) (bero sh bc) R le_list_trans bdil_bimg bero_bimg adj f g). Qed.

  Lemma le_list_antisym x y : Zlen x = n -> Zlen y = n -> le_list n x y -> le_list n y x -> x = y.
  Proof.
    intros Lx Ly H1 H2. apply nth_ext with (d := 0) (d' := 0).
    - unfold Zlen in *. lia.
    - intros k Hk. specialize (H1 (Z.of_nat k)). specialize (H2 (Z.of_nat k)).
      unfold nthZ in *. destruct (Z.of_nat k <? 0) eqn:E; [lia|]. rewrite Nat2Z.id in *.
      unfold Zlen in *. lia.
  Qed.

  Theorem bopen_idempotent f : bimg sh f -> bopen (bopen f) = bopen f.
  Proof.
    intros Hf.
    destruct (opening_idem_le _ (bimg sh) (le_list n) (bdil sh bc) (bero sh bc)
                R le_list_trans bdil_bimg bero_bimg adj f Hf) as [H1 H2].
    apply le_list_antisym; auto; unfold bopen; apply bdil_length.
  Qed.

  Theorem bclose_idempotent f : bimg sh f -> bclose (bclose f) = bclose f.
  Proof.
    intros Hf.
    destruct (closing_idem_le _ (bimg sh) (le_list n) (bdil sh bc) (bero sh bc)
                R le_list_trans bdil_bimg bero_bimg adj f Hf) as [H1 H2].
    apply le_list_antisym; auto; unfold bclose; apply bero_length.
  Qed.
End BoolLaws.

(* non-vacuity: a concrete 2-D image and an asymmetric element satisfy the hypotheses *)
Example laws_hyps_hold :
  let sh := [2; 3] in
  let bc := {| shape := [2; 2]; data := [1; 0; 1; 1] |} in
  shape_ok sh /\ (forall e, In e (entries true bc) -> length (fst e) = length sh) /\ bimg sh [1;0;1;1;1;0]
  /\ bopen sh bc [1;0;1;1;1;0] = [1;0;0;1;1;0].
Proof.
  cbv zeta. split; [|split; [|split]].
  - unfold shape_ok, border_flag_value. repeat constructor; simpl; lia.
  - intros e H. vm_compute in H. repeat (destruct H as [H|H]; [rewrite <- H; reflexivity|]). destruct H.
  - split; [reflexivity|]. repeat (constructor; [unfold bit; lia|]). constructor.
  - vm_compute. reflexivity.
Qed.
