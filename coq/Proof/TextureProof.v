(* C19: co-occurrence counts ordered pairs; LBP mapping is the minimum rotation [fin P <= 12]; the integral image is the
   2-D prefix sum. *)
Require Import MV.Base.Prelude MV.Base.CInt MV.Base.Index MV.Base.BorderSpec.
Require Import MV.Gen.Scalar_gen MV.Model.Filter MV.Model.Morph MV.Model.Labeled MV.Model.Texture.
Require Import MV.Proof.Border MV.Proof.ConvProof MV.Proof.FiltersProof MV.Proof.LabeledProof MV.Proof.LabelProof.

(* ---------- co-occurrence ---------- *)
Lemma fixpos_ignore sh pos : shape_ok sh -> length pos = length sh ->
  fixpos ExtendIgnore sh pos = if in_shapeb sh pos then Some pos else None.
Proof.
  intros Hs L. rewrite fixpos_border by (auto; unfold valid_mode, ExtendIgnore; lia).
  change ExtendIgnore with M_ignore.
  revert pos L. induction Hs as [|d r Hd Hr IH]; intros pos L; destruct pos as [|p q]; simpl in L; try discriminate; [reflexivity|].
  cbn [border_pos in_shapeb]. unfold border_map. change (M_ignore =? M_nearest) with false. change (M_ignore =? M_wrap) with false.
  change (M_ignore =? M_reflect) with false. change (M_ignore =? M_mirror) with false. cbv iota.
  destruct ((0 <=? p) && (p <? d)) eqn:R; cbn [andb]; [|reflexivity].
  rewrite IH by lia. destruct (in_shapeb r q); reflexivity.
Qed.

(* the pair code a*m + b identifies the pair when 0 <= a, b < m *)
Lemma pair_code_inj m a b a' b' : 0 <= a < m -> 0 <= b < m -> 0 <= a' < m -> 0 <= b' < m ->
  a * m + b = a' * m + b' -> a = a' /\ b = b'.
Proof. intros. assert (a = a') by nia. subst. lia. Qed.

Theorem cooc_counts_ordered_pairs f delta m a b : shape_ok (shape f) -> length delta = length (shape f) ->
  (forall p, in_shape (shape f) p -> 0 <= aget f p < m) -> 0 <= a < m -> 0 <= b < m ->
  nthZ 0 (cooc f delta m) (a * m + b) = cooc_spec f delta a b.
Proof.
  intros Hs Ld Hr Ha Hb. unfold cooc. rewrite foldl_labeled_spec by nia.
  assert (G : forall (L : list Z) s, fold_left (fun acc _ : Z => acc + 1) L s = s + Zlen L).
  { induction L as [|x L IH]; intros s; unfold Zlen in *; simpl; [lia|]. rewrite IH. lia. }
  rewrite G, Z.add_0_l. unfold region, cooc_spec, cooc_pairs.
  pose proof (shape_ok_pos _ Hs) as Ps.
  assert (P : forall l, (forall p, In p l -> in_shape (shape f) p) ->
     Zlen (map fst (filter (fun al => snd al =? a * m + b)
        (combine (map (fun ab => fst ab * m + snd ab) (flat_map (fun p => match fixpos ExtendIgnore (shape f) (padd p delta) with
                                  | Some q => [(aget f p, aget f q)] | None => [] end) l))
                 (map (fun ab => fst ab * m + snd ab) (flat_map (fun p => match fixpos ExtendIgnore (shape f) (padd p delta) with
                                  | Some q => [(aget f p, aget f q)] | None => [] end) l)))))
     = Zlen (filter (fun p => in_shapeb (shape f) (padd p delta) && (aget f p =? a) && (aget f (padd p delta) =? b)) l)).
  { induction l as [|p l IH]; intros Hl; [reflexivity|]. cbn [flat_map filter].
    assert (Hp : in_shape (shape f) p) by (apply Hl; simpl; auto).
    assert (LP : length (padd p delta) = length (shape f)).
    { rewrite padd_length by (rewrite (in_shape_length _ _ Hp); lia). now apply in_shape_length. }
    rewrite (fixpos_ignore (shape f) (padd p delta) Hs LP).
    destruct (in_shapeb (shape f) (padd p delta)) eqn:I.
    - cbn [app map combine filter fst snd andb]. apply in_shapeb_iff in I.
      pose proof (Hr p Hp). pose proof (Hr _ I).
      destruct (aget f p * m + aget f (padd p delta) =? a * m + b) eqn:C.
      + assert (aget f p = a /\ aget f (padd p delta) = b) as [-> ->] by (apply (pair_code_inj m); auto; lia).
        rewrite !Z.eqb_refl. cbn [andb map]. unfold Zlen in *. cbn [length]. rewrite Nat2Z.inj_succ, Nat2Z.inj_succ.
        f_equal. apply IH. intros; apply Hl; simpl; auto.
      + destruct ((aget f p =? a) && (aget f (padd p delta) =? b)) eqn:D.
        * apply andb_true_iff in D. destruct D. lia.
        * apply IH. intros; apply Hl; simpl; auto.
    - cbn [app andb]. apply IH. intros; apply Hl; simpl; auto. }
  apply P. intros p Hp. now apply in_all_positions in Hp.
Qed.

(* ---------- LBP [fin]: for P <= 12 and every P-bit code, map(v) is the least rotation of v, a rotation of v, idempotent,
   and rolling P times is the identity ---------- *)
Definition lbp_ok (points : Z) : bool :=
  forallb (fun v =>
     let rots := rotations (Z.to_nat points) v points in
     let m := lbp_map v points in
     existsb (Z.eqb m) rots && forallb (fun r => m <=? r) rots && (lbp_map m points =? m) &&
     (fold_left (fun x _ => roll_right x points) (Zseq 0 (Z.to_nat points)) v =? v) &&
     forallb (fun r => lbp_map r points =? m) rots)
   (Zseq 0 (Z.to_nat (2 ^ points))).
Theorem lbp_map_is_min_rotation_upto_12 : forallb lbp_ok (Zseq 1 12) = true.
Proof. vm_compute. reflexivity. Qed.

(* ---------- integral image ---------- *)
Lemma prefix_row_spec row : forall acc j, (j < length row)%nat ->
  nth j (prefix_row acc row) 0 = acc + sumZ (firstn (S j) row).
Proof.
  induction row as [|x t IH]; intros acc j H; [simpl in H; lia|]. destruct j as [|j]; cbn [prefix_row nth firstn].
  - unfold sumZ; simpl. lia.
  - rewrite IH by (simpl in H; lia). unfold sumZ. cbn [firstn fold_right]. lia.
Qed.
Lemma prefix_row_length acc row : length (prefix_row acc row) = length row.
Proof. revert acc; induction row as [|x t IH]; intros acc; simpl; [reflexivity|]. now rewrite IH. Qed.

(* with prev[j] = S(i-1, j) the next row is S(i, j) = prev[j] + rowprefix(j) *)
Lemma next_row_spec prev : forall row left upleft j, length row = length prev -> (j < length row)%nat ->
  nth j (next_row prev row left upleft) 0 = nth j prev 0 + sumZ (firstn (S j) row) + (left - upleft).
Proof.
  induction prev as [|u prev IH]; intros row left upleft j L H; destruct row as [|x row]; simpl in L, H; try lia.
  destruct j as [|j]; cbn [next_row nth firstn].
  - unfold sumZ; simpl. lia.
  - rewrite IH by lia. unfold sumZ. cbn [firstn fold_right]. lia.
Qed.
Lemma next_row_length prev : forall row left upleft, length row = length prev -> length (next_row prev row left upleft) = length row.
Proof.
  induction prev as [|u prev IH]; intros [|x row] l ul H; simpl in *; try lia; try reflexivity.
  rewrite IH; lia.
Qed.

Lemma sumZ_app' a b : sumZ (a ++ b) = sumZ a + sumZ b.
Proof. induction a as [|x a IH]; [reflexivity|]. cbn [app]. unfold sumZ in *. cbn [fold_right]. rewrite IH. lia. Qed.

Lemma rect_sum_succ rows i j r : nth (S i) rows [] = r -> (S i < length rows)%nat ->
  rect_sum rows (S i) j = rect_sum rows i j + sumZ (firstn (S j) r).
Proof.
  intros E H. unfold rect_sum.
  assert (F : firstn (S (S i)) rows = firstn (S i) rows ++ [nth (S i) rows []]).
  { clear E. revert rows H. generalize (S i) as k. induction k as [|k IH]; intros rows H; destruct rows as [|a rows]; simpl in H; try lia; [reflexivity|].
    cbn [firstn nth app]. f_equal. apply IH. lia. }
  rewrite F, map_app, sumZ_app'. rewrite E. cbn [map].
  assert (X : forall z, sumZ [z] = z) by (intros; unfold sumZ; simpl; lia). rewrite X. reflexivity.
Qed.

Theorem integral_is_prefix_sum rows w : (forall r, In r rows -> length r = w) ->
  forall i j, (i < length rows)%nat -> (j < w)%nat -> nth j (nth i (integral rows) []) 0 = rect_sum rows i j.
Proof.
  intros Hw. destruct rows as [|r0 rest]; [intros i j H; simpl in H; lia|]. cbn [integral].
  assert (W0 : length r0 = w) by (apply Hw; simpl; auto).
  (* generalised statement along the rows *)
  assert (G : forall rest' prev done_rows, (forall r, In r rest' -> length r = w) -> length prev = w ->
             (forall j, (j < w)%nat -> nth j prev 0 = rect_sum (done_rows ++ rest') (length done_rows - 1) j) -> done_rows <> [] ->
             (forall r, In r done_rows -> length r = w) ->
             forall i j, (i < length rest')%nat -> (j < w)%nat ->
               nth j (nth i (integral_go prev rest') []) 0 = rect_sum (done_rows ++ rest') (length done_rows + i) j).
  { induction rest' as [|r rest' IH]; intros prev done Hr Lp Hp Hne Hd i j Hi Hj; [simpl in Hi; lia|].
    assert (Lr : length r = w) by (apply Hr; simpl; auto).
    cbn [integral_go]. set (cur := next_row prev r 0 0).
    assert (Lc : length cur = w) by (unfold cur; rewrite next_row_length; lia).
    assert (Hc : forall j0, (j0 < w)%nat -> nth j0 cur 0 = rect_sum (done ++ r :: rest') (length done) j0).
    { intros j0 Hj0. unfold cur. rewrite next_row_spec by lia. rewrite Hp by auto.
      destruct done as [|d0 done']; [congruence|]. cbn [length]. rewrite Nat.sub_succ, Nat.sub_0_r.
      rewrite (rect_sum_succ _ (length done') j0 r).
      - lia.
      - change (S (length done')) with (length (d0 :: done')). rewrite app_nth2 by lia. now rewrite Nat.sub_diag.
      - rewrite app_length. simpl. lia. }
    destruct i as [|i]; cbn [nth].
    - rewrite Nat.add_0_r. apply Hc. exact Hj.
    - specialize (IH cur (done ++ [r])). rewrite <- app_assoc in IH. cbn [app] in IH.
      rewrite app_length in IH. cbn [length] in IH.
      replace (length done + S i)%nat with (length done + 1 + i)%nat by lia. apply IH; auto.
      + intros; apply Hr; simpl; auto.
      + intros j0 Hj0. replace (length done + 1 - 1)%nat with (length done) by lia. apply Hc. exact Hj0.
      + destruct done; discriminate.
      + intros r' Hr'. apply in_app_iff in Hr'. destruct Hr' as [H|[<-|[]]]; auto.
      + simpl in Hi. lia. }
  intros i j Hi Hj. destruct i as [|i]; cbn [nth].
  - rewrite prefix_row_spec by lia. unfold rect_sum. cbn [firstn map]. unfold sumZ. simpl. lia.
  - specialize (G rest (prefix_row 0 r0) [r0]). cbn [app length] in G. apply G; auto.
    + intros; apply Hw; simpl; auto.
    + rewrite prefix_row_length. exact W0.
    + intros j0 Hj0. rewrite prefix_row_spec by lia. unfold rect_sum. cbn [firstn map Nat.sub]. unfold sumZ. simpl. lia.
    + discriminate.
    + intros r [<-|[]]. exact W0.
    + simpl in Hi. lia.
Qed.

Example texture_examples :
  cooc {| shape := [2; 3]; data := [0;1;1; 2;1;0] |} [0; 1] 3 = [0;1;0; 1;1;0; 0;1;0] /\
  integral [[1;2;3]; [4;5;6]] = [[1;3;6]; [5;12;21]] /\ lbp_map 6 4 = 3.
Proof. vm_compute. repeat split; reflexivity. Qed.

(* ---------- LBP mapping, for every number of points: the bin of a code is the least of the codes visited by rolling it ---------- *)
Lemma lbp_map_go_min points : forall n v best,
  lbp_map_go n v best points = fold_left Z.min (tl (rotations (S n) v points)) best.
Proof.
  induction n as [|n IH]; intros v best; [reflexivity|].
  cbn [lbp_map_go]. rewrite IH. cbn [rotations tl fold_left].
  destruct (roll_right v points <? best) eqn:E; [apply Z.ltb_lt in E | apply Z.ltb_ge in E]; f_equal; lia.
Qed.
Theorem lbp_map_is_least_rotation v points :
  lbp_map v points = fold_left Z.min (tl (rotations (S (Z.to_nat points)) v points)) v /\
  (forall r, In r (rotations (S (Z.to_nat points)) v points) -> lbp_map v points <= r) /\
  In (lbp_map v points) (rotations (S (Z.to_nat points)) v points).
Proof.
  unfold lbp_map. rewrite lbp_map_go_min. split; [reflexivity|].
  set (l := tl (rotations (S (Z.to_nat points)) v points)).
  assert (E : rotations (S (Z.to_nat points)) v points = v :: l) by reflexivity. rewrite E.
  assert (G : forall l b, (forall r, In r (b :: l) -> fold_left Z.min l b <= r) /\ In (fold_left Z.min l b) (b :: l)).
  { induction l0 as [|x l0 IHl]; intro b; cbn [fold_left].
    - split; [intros r [<-|[]]; lia | left; reflexivity].
    - destruct (IHl (Z.min b x)) as [A B]. split.
      + intros r [<-|[<-|H]]; [pose proof (A (Z.min b x) (or_introl eq_refl)); lia | pose proof (A (Z.min b x) (or_introl eq_refl)); lia | apply A; right; exact H].
      + destruct B as [B|B]; [|right; right; exact B]. rewrite <- B. destruct (Z.min_spec b x) as [[_ ->]|[_ ->]]; [left | right; left]; reflexivity. }
  apply G.
Qed.
