(* C14: local extrema pointwise, regional extrema are a subset of local ones, hit-or-miss for odd templates. *)
Require Import MV.Base.Prelude MV.Base.CInt MV.Base.Index MV.Base.BorderSpec MV.Base.Renumber.
Require Import MV.Gen.Scalar_gen MV.Model.Filter MV.Model.Morph MV.Model.Label MV.Model.Extrema.
Require Import MV.Proof.BorderNearest MV.Proof.MorphProof MV.Proof.LabeledProof MV.Proof.LabelProof.

Lemma list_eqb_eq (a b : list Z) : list_eqb a b = true <-> a = b.
Proof.
  unfold list_eqb. revert b; induction a as [|x a IH]; destruct b as [|y b]; simpl.
  - split; reflexivity.
  - split; discriminate.
  - split; discriminate.
  - specialize (IH b). split.
    + intros H. apply andb_true_iff in H. destruct H as [L H]. apply andb_true_iff in H. destruct H as [E F].
      f_equal; [lia|]. apply IH. apply andb_true_iff. split; auto.
    + intros E. injection E as -> ->. rewrite Z.eqb_refl. cbn [andb].
      exact (proj2 IH eq_refl).
Qed.

Lemma centre_in_shape sh : pos_shape sh -> in_shape sh (centre sh).
Proof.
  unfold pos_shape, centre. induction 1 as [|d r Hd Hr IH]; simpl; [exact I|].
  split; [|exact IH]. split; [apply Z.quot_pos; lia|apply Z.quot_lt; lia].
Qed.

Lemma ravel_inj sh p q : pos_shape sh -> in_shape sh p -> in_shape sh q -> ravel sh p = ravel sh q -> p = q.
Proof. intros Hs Hp Hq E. rewrite <- (unravel_ravel sh p), <- (unravel_ravel sh q) by auto. now rewrite E. Qed.

Definition wf_bc (bc : arr) : Prop := pos_shape (shape bc) /\ Zlen (data bc) = size (shape bc).

Lemma aget_remove_centre bc k : wf_bc bc -> in_shape (shape bc) k ->
  (aget (remove_centre bc) k =? 0) = (aget bc k =? 0) || list_eqb k (centre (shape bc)).
Proof.
  intros [Ps Ln] Hk. unfold aget, remove_centre. cbn [shape data].
  pose proof (centre_in_shape _ Ps) as Hc.
  pose proof (ravel_bound _ _ Ps Hc) as Bc. pose proof (ravel_bound _ _ Ps Hk) as Bk.
  rewrite nthZ_updZ by lia.
  destruct (ravel (shape bc) (centre (shape bc)) =? ravel (shape bc) k) eqn:E.
  - assert (k = centre (shape bc)) by (apply (ravel_inj (shape bc)); auto; lia).
    assert (list_eqb k (centre (shape bc)) = true) as -> by (now apply list_eqb_eq).
    now rewrite orb_true_r.
  - destruct (list_eqb k (centre (shape bc))) eqn:F; [|now rewrite orb_false_r].
    apply list_eqb_eq in F. subst k. lia.
Qed.

Lemma forallb_filter {A} (g P : A -> bool) l : forallb g (filter P l) = forallb (fun x => negb (P x) || g x) l.
Proof. induction l as [|a l IH]; simpl; [reflexivity|]. destruct (P a); simpl; now rewrite IH. Qed.
Lemma forallb_map {A B} (g : B -> bool) (h : A -> B) l : forallb g (map h l) = forallb (fun x => g (h x)) l.
Proof. induction l as [|a l IH]; simpl; [reflexivity|]. now rewrite IH. Qed.
Lemma forallb_ext_in {A} (g h : A -> bool) l : (forall x, In x l -> g x = h x) -> forallb g l = forallb h l.
Proof. induction l as [|a l IH]; intros H; simpl; [reflexivity|]. rewrite H by (simpl; auto). rewrite IH; auto. intros; apply H; simpl; auto. Qed.

(* locmax / locmin: a pixel is marked iff no member of the neighbourhood other than the centre, read with edge
   replication, is strictly better -- any dimension, any neighbourhood *)
Theorem locmm_pointwise is_min f bc p : shape_ok (shape f) -> wf_bc bc ->
  locmm_at is_min f (remove_centre bc) p = locmm_spec is_min f bc p.
Proof.
  intros Hs Wb. unfold locmm_at, locmm_spec.
  rewrite entries_true, entries_false, forallb_filter, forallb_map.
  change (shape (remove_centre bc)) with (shape bc).
  apply forallb_ext_in. intros k Hk. cbn [fst snd].
  apply in_all_positions in Hk; [|apply Wb].
  rewrite negb_involutive, aget_remove_centre by auto.
  rewrite getn_clamp by auto. reflexivity.
Qed.

(* ---------- regional extrema are a subset of the local ones: the flood only ever clears marks ---------- *)
Definition sub (m' m : list Z) : Prop := forall i, nthZ 0 m' i = 0 \/ nthZ 0 m' i = nthZ 0 m i.

Lemma sub_refl m : sub m m. Proof. intros i; right; reflexivity. Qed.
Lemma sub_trans a b c : sub a b -> sub b c -> sub a c.
Proof. intros H1 H2 i. destruct (H1 i) as [E|E]; [left; exact E|]. destruct (H2 i) as [F|F]; [left; congruence|right; congruence]. Qed.

Lemma sub_updZ0 m j : sub (updZ m j 0) m.
Proof.
  intros i. unfold updZ, nthZ. destruct (j <? 0); [right; reflexivity|]. destruct (i <? 0); [left; reflexivity|].
  rewrite nth_upd. destruct (Nat.eqb (Z.to_nat j) (Z.to_nat i)); [|right; reflexivity].
  left. destruct (Nat.ltb (Z.to_nat j) (length m)); reflexivity.
Qed.

Lemma flood_unmark_sub fuel sh offs : forall marks stack, sub (flood_unmark fuel sh offs marks stack) marks.
Proof.
  induction fuel as [|k IH]; intros marks stack; [apply sub_refl|].
  cbn [flood_unmark]. destruct stack as [|p rest]; [apply sub_refl|].
  assert (G : forall l ms, sub (fst (fold_left (fun ms off => let np := padd p off in
                 if in_shapeb sh np && negb (nthZ 0 (fst ms) (ravel sh np) =? 0)
                 then (updZ (fst ms) (ravel sh np) 0, np :: snd ms) else ms) l ms)) (fst ms)).
  { induction l as [|off l IHl]; intros ms; [apply sub_refl|]. cbn [fold_left]. cbv zeta.
    destruct (in_shapeb sh (padd p off) && negb (nthZ 0 (fst ms) (ravel sh (padd p off)) =? 0)).
    - eapply sub_trans; [apply IHl|]. cbn [fst]. apply sub_updZ0.
    - apply IHl. }
  specialize (G offs (marks, rest)).
  destruct (fold_left _ offs (marks, rest)) as [marks' stack'] eqn:E. cbn [fst] in G.
  eapply sub_trans; [apply IH|exact G].
Qed.

Lemma regmm_step_sub is_min f offs marks p : sub (regmm_step is_min f offs marks p) marks.
Proof.
  unfold regmm_step. destruct (nthZ 0 marks (ravel (shape f) p) =? 0); [apply sub_refl|].
  destruct (existsb _ offs); [|apply sub_refl].
  eapply sub_trans; [apply flood_unmark_sub|apply sub_updZ0].
Qed.

Theorem regmm_subset_locmm is_min f bc i :
  nthZ 0 (regmm is_min f bc) i <> 0 -> nthZ 0 (regmm is_min f bc) i = nthZ 0 (locmm is_min f bc) i.
Proof.
  unfold regmm. intros H.
  assert (G : forall l m, sub (fold_left (regmm_step is_min f (nbr_offsets bc)) l m) m).
  { induction l as [|p l IH]; intros m; [apply sub_refl|]. cbn [fold_left].
    eapply sub_trans; [apply IH|apply regmm_step_sub]. }
  destruct (G (all_positions (shape f)) (locmm is_min f bc) i) as [E|E]; [contradiction|exact E].
Qed.

(* ---------- hit-or-miss: for templates with odd sides the evaluated region is "whole template inside" ---------- *)
Lemma in_shape_padd_psub_iff sh : forall bsh p, length bsh = length sh -> length p = length sh ->
  Forall (fun b => 0 < b) bsh ->
  ((forall k, in_shape bsh k -> in_shape sh (padd p (psub k (centre bsh)))) <->
   Forall (fun t => let '(d, b, x) := t in 0 <= x - Z.quot b 2 /\ x + (b - 1 - Z.quot b 2) < d)
          (combine (combine sh bsh) p)).
Proof.
  induction sh as [|d sh IH]; intros bsh p Lb Lp Pb; destruct bsh as [|b bsh]; destruct p as [|x p]; simpl in Lb, Lp; try discriminate.
  - simpl. split; [constructor|]. intros _ k Hk. destruct k; [exact I|destruct Hk].
  - inversion Pb as [|? ? Hb Pb']; subst.
    assert (W : exists k0, in_shape bsh k0).
    { clear -Pb'. induction bsh as [|b' r IHr]; [exists []; exact I|]. inversion Pb'; subst.
      destruct IHr as [k0 H0]; auto. exists (0 :: k0). simpl. split; [lia|auto]. }
    destruct W as [k0 Hk0].
    cbn [combine centre map]. rewrite Forall_cons_iff. rewrite <- (IH bsh p) by (auto; lia).
    split.
    + intros H. split.
      * assert (I0 : in_shape (b :: bsh) (0 :: k0)) by (simpl; split; [lia|auto]).
        assert (I1 : in_shape (b :: bsh) ((b - 1) :: k0)) by (simpl; split; [lia|auto]).
        pose proof (H _ I0) as [A _]. pose proof (H _ I1) as [B _]. cbn [padd psub] in *. lia.
      * intros k Hk. assert (I0 : in_shape (b :: bsh) (0 :: k)) by (simpl; split; [lia|auto]).
        pose proof (H _ I0) as [_ T]. exact T.
    + intros [[A B] H] k Hk. destruct k as [|k1 k]; [destruct Hk|]. destruct Hk as [R Hk].
      cbn [padd psub in_shape]. split; [lia|]. apply H. exact Hk.
Qed.

Lemma hm_inside_odd sh : forall bsh p, length bsh = length sh -> length p = length sh -> sh <> [] ->
  Forall (fun b => 0 < b /\ Z.rem b 2 = 1) bsh ->
  (hm_inside sh bsh p = true <->
   Forall (fun t => let '(d, b, x) := t in 0 <= x - Z.quot b 2 /\ x + (b - 1 - Z.quot b 2) < d)
          (combine (combine sh bsh) p)).
Proof.
  induction sh as [|d sh IH]; intros bsh p Lb Lp Ne Pb; [congruence|].
  destruct bsh as [|b bsh]; destruct p as [|x p]; simpl in Lb, Lp; try discriminate.
  inversion Pb as [|? ? [Hb Ho] Pb']; subst.
  destruct sh as [|d2 sh'].
  - destruct bsh; [|discriminate]. destruct p; [|discriminate]. cbn [hm_inside combine].
    unfold margin_ok. rewrite !andb_true_iff, !Z.leb_le. rewrite Forall_cons_iff. split.
    + intros [[[? ?] ?] ?]. split; [lia|constructor].
    + intros [[? ?] _]. lia.
  - destruct bsh as [|b2 bsh']; [discriminate|]. destruct p as [|x2 p']; [discriminate|].
    change (hm_inside (d :: d2 :: sh') (b :: b2 :: bsh') (x :: x2 :: p'))
      with (margin_ok d b x && hm_inside (d2 :: sh') (b2 :: bsh') (x2 :: p')).
    rewrite andb_true_iff. cbn [combine]. rewrite Forall_cons_iff.
    rewrite (IH (b2 :: bsh') (x2 :: p')) by (simpl in *; auto; try lia; congruence).
    unfold margin_ok. rewrite andb_true_iff, !Z.leb_le. cbn [combine]. split; intros [[? ?] ?]; (split; [lia|auto]).
Qed.

Theorem hitmiss_odd_templates f t : pos_shape (shape f) -> length (shape t) = length (shape f) -> shape f <> [] ->
  Forall (fun b => 0 < b /\ Z.rem b 2 = 1) (shape t) ->
  hitmiss f t = hitmiss_spec f t.
Proof.
  intros Pf Ln Ne Po. unfold hitmiss, hitmiss_spec. apply map_ext_in. intros p Hp.
  apply in_all_positions in Hp; auto.
  assert (Pt : pos_shape (shape t)) by (eapply Forall_impl; [|exact Po]; intros; simpl in *; tauto).
  assert (E : hm_inside (shape f) (shape t) p = template_inside f t p); [|now rewrite E].
  apply Bool.eq_true_iff_eq.
  rewrite hm_inside_odd by (auto; now apply in_shape_length).
  rewrite <- in_shape_padd_psub_iff by (auto; now apply in_shape_length).
  unfold template_inside. rewrite forallb_forall. split.
  - intros H k Hk. apply in_shapeb_iff. apply H. now apply in_all_positions in Hk.
  - intros H k Hk. apply in_shapeb_iff. apply H. now apply in_all_positions.
Qed.

Example extrema_examples :
  regmm true {| shape := [3; 4]; data := [1;1;5;0; 1;1;2;2; 9;0;0;2] |} {| shape := [3; 3]; data := [1;1;1;1;1;1;1;1;1] |}
    = [0;0;0;1; 0;0;0;0; 0;1;1;0] /\
  close_holes {| shape := [4; 4]; data := [1;1;1;0; 1;0;1;0; 1;1;1;0; 0;0;0;0] |} {| shape := [3; 3]; data := [0;1;0;1;1;1;0;1;0] |}
    = [1;1;1;0; 1;1;1;0; 1;1;1;0; 0;0;0;0] /\
  hitmiss {| shape := [3; 3]; data := [0;1;0; 1;1;1; 0;1;0] |} {| shape := [1; 3]; data := [1;1;1] |} = [0;0;0; 0;1;0; 0;0;0].
Proof. vm_compute. repeat split; reflexivity. Qed.
