(* C09: _get_output accepts exactly matching buffers; the Gaussian ping-pong ends in the caller's buffer. *)
Require Import List Bool Arith Lia. Import ListNotations.
Require Import MV.Gen.OutConv_gen MV.Model.OutConv.

Theorem get_output_accepts_iff d s c :
  get_output_rejects d s c = None <-> (d = true /\ s = true /\ c = true).
Proof. destruct d, s, c; simpl; split; intros H; try discriminate; try tauto; destruct H as (?&?&?); discriminate. Qed.

Theorem get_output_rejection_is_value_or_type_error d s c e :
  get_output_rejects d s c = Some e -> e = ValueError \/ e = TypeError.
Proof. destruct d, s, c; simpl; intros H; inversion H; auto. Qed.

(* the chain of passes is connected (each pass reads what the previous one wrote), has one pass per axis, and the
   returned buffer is the caller's, whose last write is the end of the chain *)
Lemma g_loop_trace n : forall s, length (g_trace (g_loop n s)) = (length (g_trace s) + n)%nat.
Proof. induction n as [|n IH]; intros s; simpl; [lia|]. rewrite IH. unfold g_pass; simpl. rewrite app_length; simpl. lia. Qed.

Theorem gaussian_returns_out ndim out0 :
  fst (gaussian_filter_flow ndim out0) = out0 /\
  (ndim > 0 -> exists src, last (snd (gaussian_filter_flow ndim out0)) (0, 0) = (src, out0)).
Proof.
  unfold gaussian_filter_flow.
  set (s := g_loop ndim _).
  destruct (Nat.eqb (g_out s) out0) eqn:E; cbn [fst snd]; split; auto.
  - intros Hn. apply Nat.eqb_eq in E.
    (* the last pass wrote g_out s *)
    assert (G : forall n st, n > 0 -> exists src, last (g_trace (g_loop n st)) (0, 0) = (src, g_out (g_loop n st))).
    { induction n as [|n IH]; intros st H; [lia|]. destruct n as [|n].
      - cbn [g_loop]. unfold g_pass. cbn [g_trace g_out]. rewrite last_last. eexists; reflexivity.
      - cbn [g_loop] in *. apply IH. lia. }
    destruct (G ndim {| g_out := out0; g_nout := None; g_fresh := S out0; g_trace := [] |} Hn) as [src Hs].
    exists src. fold s in Hs. rewrite Hs, E. reflexivity.
  - intros _. exists (g_out s). now rewrite last_last.
Qed.
