(* C14: regmax / regmin never discard a genuine regional extremum.  If R is a set of marked local extrema such that every
   in-image neighbour of a member is a member or strictly worse, then every pixel of R is still marked after the whole
   remove_fake_regmin_max scan with its floods -- for every image, symmetric neighbourhood, dimension and scan position. *)
Require Import MV.Base.Prelude MV.Base.CInt MV.Base.Index MV.Model.Filter MV.Model.Morph MV.Model.Extrema.
Require Import MV.Proof.LabeledProof MV.Proof.ExtremaProof.

Section Regional.
  Variable is_min : bool.
  Variable f : arr.
  Variable offs : list (list Z).
  Variable m0 : list Z.                    (* the marks the scan starts from (the local extrema) *)
  Variable R : list Z -> Prop.
  Let sh := shape f.
  Hypothesis Ps : pos_shape sh.
  Hypothesis Len0 : Zlen m0 = size sh.
  (* the neighbourhood is symmetric *)
  Hypothesis Sym : forall off p, In off offs -> in_shape sh p -> in_shape sh (padd p off) ->
                   exists off', In off' offs /\ padd (padd p off) off' = p.
  (* marked pixels are local extrema with respect to their in-image neighbours *)
  Hypothesis Loc : forall q off, in_shape sh q -> nthZ 0 m0 (ravel sh q) <> 0 -> In off offs -> in_shape sh (padd q off) ->
                   better is_min (aget f (padd q off)) (aget f q) = false.
  (* R: marked, and closed: a neighbour is in R or strictly worse *)
  Hypothesis R_marked : forall p, R p -> in_shape sh p /\ nthZ 0 m0 (ravel sh p) <> 0.
  Hypothesis R_closed : forall p off, R p -> In off offs -> in_shape sh (padd p off) ->
                        R (padd p off) \/ weakly_better is_min (aget f (padd p off)) (aget f p) = false.

  Definition Q (m : list Z) : Prop := Zlen m = size sh /\ sub m m0 /\ forall p, R p -> nthZ 0 m (ravel sh p) <> 0.

  Lemma better_weakly a b : better is_min a b = false -> weakly_better is_min b a = false -> False.
  Proof. unfold better, weakly_better. destruct is_min; intros H1 H2; [apply Z.ltb_ge in H1; apply Z.leb_gt in H2 | rewrite Z.gtb_ltb in H1; apply Z.ltb_ge in H1; rewrite Z.geb_leb in H2; apply Z.leb_gt in H2]; lia. Qed.

  (* clearing the mark of a pixel outside R keeps Q *)
  Lemma Q_clear m q : Q m -> in_shape sh q -> ~ R q -> Q (updZ m (ravel sh q) 0).
  Proof.
    intros (L & S & K) Hq NR. split; [rewrite updZ_Zlen; exact L|]. split; [eapply sub_trans; [apply sub_updZ0 | exact S]|].
    intros p Rp. destruct (R_marked p Rp) as [Hp _]. pose proof (ravel_bound sh p Ps Hp) as Bp. pose proof (ravel_bound sh q Ps Hq) as Bq.
    rewrite nthZ_updZ by lia. destruct (ravel sh q =? ravel sh p) eqn:E; [|apply K; exact Rp].
    apply Z.eqb_eq in E. exfalso. apply NR. rewrite (ravel_inj sh q p Ps Hq Hp E). exact Rp.
  Qed.

  (* a flood step: q is unmarked but was a local extremum; its marked neighbour np cannot belong to R *)
  Lemma neighbour_not_in_R m q off : Q m -> in_shape sh q -> nthZ 0 m0 (ravel sh q) <> 0 -> nthZ 0 m (ravel sh q) = 0 ->
    In off offs -> in_shape sh (padd q off) -> ~ R (padd q off).
  Proof.
    intros (L & S & K) Hq M0 Mq Ho Hn Rn.
    assert (NRq : ~ R q) by (intro Rq; apply (K q Rq); exact Mq).
    destruct (Sym off q Ho Hq Hn) as (off' & Ho' & Eb).
    destruct (R_closed (padd q off) off' Rn Ho' ltac:(rewrite Eb; exact Hq)) as [Rq|W]; rewrite Eb in *; [contradiction|].
    pose proof (Loc q off Hq M0 Ho Hn) as B. exact (better_weakly _ _ B W).
  Qed.

  Definition stack_ok (m : list Z) (st : list (list Z)) : Prop :=
    forall q, In q st -> in_shape sh q /\ nthZ 0 m0 (ravel sh q) <> 0 /\ nthZ 0 m (ravel sh q) = 0.

  Lemma zero_stays m m' q : sub m' m -> nthZ 0 m (ravel sh q) = 0 -> nthZ 0 m' (ravel sh q) = 0.
  Proof. intros S Z. destruct (S (ravel sh q)) as [E|E]; [exact E | rewrite E; exact Z]. Qed.

  Lemma inner_keeps p : forall os m st, (forall o, In o os -> In o offs) -> Q m -> stack_ok m (p :: st) ->
    let r := fold_left (fun ms off => let np := padd p off in
                                      if in_shapeb sh np && negb (nthZ 0 (fst ms) (ravel sh np) =? 0)
                                      then (updZ (fst ms) (ravel sh np) 0, np :: snd ms) else ms) os (m, st) in
    Q (fst r) /\ stack_ok (fst r) (p :: snd r).
  Proof.
    induction os as [|off os IH]; intros m st Hos Qm Sk; cbv zeta; [cbn [fold_left fst snd]; split; assumption|].
    cbn [fold_left]. cbv zeta. cbn [fst snd].
    destruct (in_shapeb sh (padd p off) && negb (nthZ 0 m (ravel sh (padd p off)) =? 0)) eqn:T.
    - apply andb_true_iff in T. destruct T as [T1 T2]. apply in_shapeb_iff in T1. apply negb_true_iff in T2. apply Z.eqb_neq in T2.
      destruct (Sk p (or_introl eq_refl)) as (Hp & M0p & Mp).
      assert (NR : ~ R (padd p off)) by (apply (neighbour_not_in_R m p off Qm Hp M0p Mp (Hos off (or_introl eq_refl)) T1)).
      apply IH.
      + intros o Ho. apply Hos. right. exact Ho.
      + apply Q_clear; assumption.
      + intros q Hq. destruct Hq as [Eq|[Eq|Hq]].
        * subst q. split; [exact Hp|]. split; [exact M0p|]. apply (zero_stays m); [apply sub_updZ0 | exact Mp].
        * subst q. split; [exact T1|]. destruct Qm as (L & S & _). split.
          -- destruct (S (ravel sh (padd p off))) as [E|E]; [contradiction | rewrite <- E; exact T2].
          -- pose proof (ravel_bound sh (padd p off) Ps T1). rewrite nthZ_updZ by lia. rewrite Z.eqb_refl. reflexivity.
        * destruct (Sk q (or_intror Hq)) as (A & B & C). split; [exact A|]. split; [exact B|]. apply (zero_stays m); [apply sub_updZ0 | exact C].
    - apply IH; [intros o Ho; apply Hos; right; exact Ho | exact Qm | exact Sk].
  Qed.

  Lemma flood_keeps : forall fuel m st, Q m -> stack_ok m st -> Q (flood_unmark fuel sh offs m st).
  Proof.
    induction fuel as [|k IH]; intros m st Qm Sk; [exact Qm|].
    cbn [flood_unmark]. destruct st as [|p rest]; [exact Qm|].
    pose proof (inner_keeps p offs m rest (fun o H => H) Qm Sk) as K. cbv zeta in K.
    destruct (fold_left _ offs (m, rest)) as [m' st'] eqn:E. cbn [fst snd] in K. destruct K as [Q' S'].
    apply IH; [exact Q'|]. intros q Hq. apply S'. right. exact Hq.
  Qed.

  Lemma step_keeps m p : in_shape sh p -> Q m -> Q (regmm_step is_min f offs m p).
  Proof.
    intros Hp Qm. unfold regmm_step. fold sh.
    destruct (nthZ 0 m (ravel sh p) =? 0) eqn:E0; [exact Qm|]. apply Z.eqb_neq in E0.
    destruct (existsb _ offs) eqn:Ex; [|exact Qm].
    apply existsb_exists in Ex. destruct Ex as (off & Ho & T).
    apply andb_true_iff in T. destruct T as [T T3]. apply andb_true_iff in T. destruct T as [T1 T2].
    apply in_shapeb_iff in T1. apply Z.eqb_eq in T2.
    (* p itself is not in R: it has an unmarked weakly better neighbour *)
    assert (NR : ~ R p).
    { intro Rp. destruct Qm as (_ & _ & K). destruct (R_closed p off Rp Ho T1) as [Rn|W]; [apply (K _ Rn); exact T2 | congruence]. }
    destruct Qm as (L & S & K).
    assert (M0p : nthZ 0 m0 (ravel sh p) <> 0) by (destruct (S (ravel sh p)) as [E|E]; [contradiction | rewrite <- E; exact E0]).
    apply flood_keeps.
    - apply Q_clear; [split; [exact L | split; [exact S | exact K]] | exact Hp | exact NR].
    - intros q Hq. destruct Hq as [Eq|[]]. subst q. split; [exact Hp|]. split; [exact M0p|].
      pose proof (ravel_bound sh p Ps Hp). rewrite nthZ_updZ by lia. rewrite Z.eqb_refl. reflexivity.
  Qed.

  Theorem scan_keeps_regional_extrema : forall ps, (forall p, In p ps -> in_shape sh p) ->
    forall p, R p -> nthZ 0 (fold_left (regmm_step is_min f offs) ps m0) (ravel sh p) <> 0.
  Proof.
    intros ps Hps.
    assert (G : forall l m, (forall p, In p l -> in_shape sh p) -> Q m -> Q (fold_left (regmm_step is_min f offs) l m)).
    { induction l as [|a l IH]; intros m Hl Qm; [exact Qm|]. cbn [fold_left]. apply IH; [intros p Hp; apply Hl; right; exact Hp|].
      apply step_keeps; [apply Hl; left; reflexivity | exact Qm]. }
    assert (Q0 : Q m0) by (split; [exact Len0 | split; [apply sub_refl | intros p Rp; apply R_marked; exact Rp]]).
    destruct (G ps m0 Hps Q0) as (_ & _ & K). exact K.
  Qed.
End Regional.

(* ---- instantiation: regmax / regmin as called by morph.py *)
Require Import MV.Proof.MorphProof MV.Proof.MorphBounds.

Lemma locmm_len is_min f bc : pos_shape (shape f) -> Zlen (locmm is_min f bc) = size (shape f).
Proof. intro Ps. unfold locmm, Zlen. rewrite map_length, all_positions_length. pose proof (size_pos _ Ps). lia. Qed.

Lemma locmm_marked_at is_min f bc q : pos_shape (shape f) -> in_shape (shape f) q ->
  nthZ 0 (locmm is_min f bc) (ravel (shape f) q) <> 0 -> locmm_at is_min f (remove_centre bc) q = true.
Proof.
  intros Ps Hq H. pose proof (ravel_bound _ q Ps Hq) as B. unfold locmm in H.
  rewrite nthZ_map with (da := []) in H by (unfold Zlen; rewrite all_positions_length; lia).
  rewrite nthZ_all_positions in H by exact B. rewrite (unravel_ravel _ q Ps Hq) in H.
  destruct (locmm_at is_min f (remove_centre bc) q); [reflexivity | congruence].
Qed.

Theorem regmm_keeps_regional_extrema is_min f bc (R : list Z -> Prop) :
  shape_ok (shape f) -> pos_shape (shape f) ->
  (* symmetric neighbourhood *)
  (forall off p, In off (nbr_offsets bc) -> in_shape (shape f) p -> in_shape (shape f) (padd p off) ->
     exists off', In off' (nbr_offsets bc) /\ padd (padd p off) off' = p) ->
  (* R: local extrema; every in-image neighbour of a member is a member or strictly worse *)
  (forall p, R p -> in_shape (shape f) p /\ nthZ 0 (locmm is_min f bc) (ravel (shape f) p) <> 0) ->
  (forall p off, R p -> In off (nbr_offsets bc) -> in_shape (shape f) (padd p off) ->
     R (padd p off) \/ weakly_better is_min (aget f (padd p off)) (aget f p) = false) ->
  forall p, R p -> nthZ 0 (regmm is_min f bc) (ravel (shape f) p) <> 0.
Proof.
  intros So Ps Sym Rm Rc p Rp. unfold regmm.
  apply (scan_keeps_regional_extrema is_min f (nbr_offsets bc) (locmm is_min f bc) R Ps (locmm_len is_min f bc Ps) Sym).
  - (* marked pixels are local extrema among their in-image neighbours *)
    intros q off Hq Mq Ho Hn. pose proof (locmm_marked_at is_min f bc q Ps Hq Mq) as L.
    unfold locmm_at in L. rewrite forallb_forall in L. unfold nbr_offsets in Ho. apply in_map_iff in Ho.
    destruct Ho as (e & <- & He). specialize (L e He). apply negb_true_iff in L.
    rewrite (getn_clamp f q (fst e) So) in L. rewrite (clampos_id _ _ Hn) in L. exact L.
  - exact Rm.
  - exact Rc.
  - intros q Hq. apply (in_all_positions _ _ Ps). exact Hq.
  - exact Rp.
Qed.
