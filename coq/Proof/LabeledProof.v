(* C13: per-label folds, relabel, borders, histogram equal their definitions. *)
Require Import MV.Base.Prelude MV.Base.CInt MV.Base.Index MV.Base.BorderSpec MV.Base.Renumber.
Require Import MV.Gen.Scalar_gen MV.Model.Filter MV.Model.Labeled MV.Proof.Border MV.Proof.ConvProof MV.Proof.FiltersProof.

Lemma nthZ_updZ (res : list Z) l v k : 0 <= l < Zlen res -> 0 <= k ->
  nthZ 0 (updZ res l v) k = if l =? k then v else nthZ 0 res k.
Proof.
  intros Hl Hk. unfold nthZ, updZ, Zlen in *. destruct (l <? 0) eqn:E1; [lia|]. destruct (k <? 0) eqn:E2; [lia|].
  rewrite nth_upd. destruct (Nat.eqb_spec (Z.to_nat l) (Z.to_nat k)) as [E|E].
  - destruct (l =? k) eqn:F; [|lia]. destruct (Nat.ltb_spec (Z.to_nat l) (length res)); [reflexivity|lia].
  - destruct (l =? k) eqn:F; [lia|reflexivity].
Qed.

Lemma updZ_Zlen (res : list Z) l v : Zlen (updZ res l v) = Zlen res.
Proof. unfold updZ, Zlen. destruct (l <? 0); [reflexivity|]. now rewrite upd_length. Qed.

Lemma fstep_len f m res al : Zlen (fstep f m res al) = Zlen res.
Proof. unfold fstep. destruct ((0 <=? snd al) && (snd al <? m)); [apply updZ_Zlen|reflexivity]. Qed.

Lemma fold_fstep f m L : forall res k, Zlen res = m -> 0 <= k < m ->
  nthZ 0 (fold_left (fstep f m) L res) k =
  fold_left (fun acc a => f a acc) (map fst (filter (fun al => snd al =? k) L)) (nthZ 0 res k).
Proof.
  induction L as [|[a l] L IH]; intros res k Hlen Hk; [reflexivity|].
  cbn [fold_left]. rewrite IH by (rewrite ?fstep_len; auto). cbn [filter snd fst].
  unfold fstep. cbn [snd fst].
  destruct ((0 <=? l) && (l <? m)) eqn:R.
  - rewrite nthZ_updZ by lia. destruct (l =? k) eqn:E.
    + assert (l = k) by lia. subst. reflexivity.
    + reflexivity.
  - destruct (l =? k) eqn:E; [lia|reflexivity].
Qed.

Lemma nthZ_repeat (x : Z) n k : 0 <= k < Z.of_nat n -> nthZ 0 (repeat x n) k = x.
Proof.
  intros Hk. unfold nthZ. destruct (k <? 0) eqn:E; [lia|].
  eapply repeat_spec. apply nth_In. rewrite repeat_length. lia.
Qed.

(* the general statement: result[k] is the fold of f over the values carrying label k, in scan order *)
Theorem foldl_labeled_spec f start m arr lab k : 0 <= k < m ->
  nthZ 0 (foldl_labeled f start m arr lab) k = fold_left (fun acc a => f a acc) (region k arr lab) start.
Proof.
  intros Hk. unfold foldl_labeled, region.
  rewrite fold_fstep by (auto; unfold Zlen; rewrite repeat_length; lia).
  rewrite nthZ_repeat by lia. reflexivity.
Qed.

Lemma fold_plus l s : fold_left (fun acc a => a + acc) l s = s + sumZ l.
Proof. revert s; induction l as [|a l IH]; intros s; simpl; [lia|]. rewrite IH. lia. Qed.
Lemma fold_fmax l s : fold_left (fun acc a => f_max a acc) l s = maxl s l.
Proof.
  revert s; induction l as [|a l IH]; intros s; simpl; [reflexivity|]. rewrite IH.
  assert (f_max a s = Z.max a s) as -> by (unfold f_max; destruct (a <? s) eqn:E; lia).
  clear IH. induction l as [|b l IHl]; simpl; lia.
Qed.
Lemma fold_fmin l s : fold_left (fun acc a => f_min a acc) l s = minl s l.
Proof.
  revert s; induction l as [|a l IH]; intros s; simpl; [reflexivity|]. rewrite IH.
  assert (f_min a s = Z.min a s) as -> by (unfold f_min; destruct (s <? a) eqn:E; simpl; lia).
  clear IH. induction l as [|b l IHl]; simpl; lia.
Qed.

Theorem labeled_sum_correct m arr lab k : 0 <= k < m ->
  nthZ 0 (labeled_sum None m arr lab) k = sumZ (region k arr lab).
Proof. intros. unfold labeled_sum. rewrite foldl_labeled_spec by auto. unfold f_sum. rewrite fold_plus. lia. Qed.

(* with the identity element at or below every value of the region the result IS the region's maximum *)
Theorem labeled_max_correct start m arr lab k : 0 <= k < m ->
  region k arr lab <> [] -> (forall v, In v (region k arr lab) -> start <= v) ->
  let r := nthZ 0 (labeled_max start m arr lab) k in
  In r (region k arr lab) /\ forall v, In v (region k arr lab) -> v <= r.
Proof.
  intros Hk Hne Hs. unfold labeled_max. rewrite foldl_labeled_spec by auto. rewrite fold_fmax. cbv zeta.
  split; [|intros v Hv; now apply maxl_ge_in].
  destruct (maxl_attained start (region k arr lab)) as [E|E]; [|exact E].
  destruct (region k arr lab) as [|x l] eqn:R; [congruence|].
  pose proof (maxl_ge_in start (x :: l) x (or_introl eq_refl)). pose proof (Hs x (or_introl eq_refl)).
  assert (x = maxl start (x :: l)) by lia. rewrite <- H1. left; reflexivity.
Qed.

Theorem labeled_min_correct start m arr lab k : 0 <= k < m ->
  region k arr lab <> [] -> (forall v, In v (region k arr lab) -> v <= start) ->
  let r := nthZ 0 (labeled_min start m arr lab) k in
  In r (region k arr lab) /\ forall v, In v (region k arr lab) -> r <= v.
Proof.
  intros Hk Hne Hs. unfold labeled_min. rewrite foldl_labeled_spec by auto. rewrite fold_fmin. cbv zeta.
  split; [|intros v Hv; now apply minl_le_in].
  destruct (minl_attained start (region k arr lab)) as [E|E]; [|exact E].
  destruct (region k arr lab) as [|x l] eqn:R; [congruence|].
  pose proof (minl_le_in start (x :: l) x (or_introl eq_refl)). pose proof (Hs x (or_introl eq_refl)).
  assert (x = minl start (x :: l)) by lia. rewrite <- H1. left; reflexivity.
Qed.

(* the identity element matters: with the smallest POSITIVE value as start (numeric_limits<double>::min()) a
   region of negative values gets the wrong maximum *)
Example labeled_max_bad_identity : nthZ 0 (labeled_max 1 2 [-3; -5] [1; 1]) 1 = 1.
Proof. reflexivity. Qed.

(* histogram: hist[v] = number of pixels with value v *)
Theorem fullhistogram_counts l v : (forall x, In x l -> 0 <= x) -> 0 <= v <= maxl 0 l ->
  nthZ 0 (fullhistogram l) v = count_eq v l.
Proof.
  intros Hpos Hv. unfold fullhistogram. rewrite foldl_labeled_spec by lia.
  unfold region, count_eq.
  assert (G : forall L s, fold_left (fun acc _ : Z => acc + 1) L s = s + Zlen L).
  { induction L as [|a L IH]; intros s; unfold Zlen in *; simpl; [lia|]. rewrite IH. lia. }
  rewrite G. rewrite Z.add_0_l. unfold Zlen. rewrite map_length. f_equal. f_equal.
  clear. induction l as [|a l IH]; simpl; [reflexivity|].
  rewrite (Z.eqb_sym v a). destruct (a =? v); simpl; now rewrite IH.
Qed.

(* borders: a pixel is marked iff some neighbour (per the border rule) carries a different label *)
Lemma existsb_filter {A} (g P : A -> bool) l : existsb g (filter P l) = existsb (fun x => P x && g x) l.
Proof. induction l as [|a l IH]; simpl; [reflexivity|]. destruct (P a); simpl; now rewrite IH. Qed.
Lemma existsb_map {A B} (g : B -> bool) (h : A -> B) l : existsb g (map h l) = existsb (fun x => g (h x)) l.
Proof. induction l as [|a l IH]; simpl; [reflexivity|]. now rewrite IH. Qed.
Lemma existsb_ext' {A} (g h : A -> bool) l : (forall x, g x = h x) -> existsb g l = existsb h l.
Proof. intros H. induction l as [|a l IH]; simpl; [reflexivity|]. now rewrite H, IH. Qed.

Theorem borders_at_spec m f bc p : valid_mode m -> shape_ok (shape f) ->
  borders_at m f bc p = borders_spec m f bc p.
Proof.
  intros Hm Hs. unfold borders_at, borders_spec.
  rewrite entries_true_filter, existsb_filter, entries_false_all, existsb_map.
  apply existsb_ext'. intros k. cbn [fst snd]. unfold retrieve. rewrite fixpos_border by auto. destruct (border_pos _ _ _); reflexivity.
Qed.

(* relabel: partition and background preserved, labels 1..n in scan order of first appearance *)
Theorem relabel_partition l i j : (i < length l)%nat -> (j < length l)%nat ->
  (nth i (fst (relabel l)) 0 = nth j (fst (relabel l)) 0 <-> nth i l 0 = nth j l 0).
Proof. apply renumber_same_iff. Qed.
Theorem relabel_background l i : (i < length l)%nat -> (nth i (fst (relabel l)) 0 = 0 <-> nth i l 0 = 0).
Proof. apply renumber_zero_iff. Qed.
Theorem relabel_consecutive l :
  (forall i, (i < length l)%nat -> 0 <= nth i (fst (relabel l)) 0 <= snd (relabel l)) /\
  (forall n, 1 <= n <= snd (relabel l) -> In n (fst (relabel l))) /\
  (forall i, (i < length l)%nat -> nth i (fst (relabel l)) 0 <= 1 + maxl 0 (firstn i (fst (relabel l)))).
Proof.
  split; [|split].
  - intros i Hi. now apply renumber_range.
  - apply renumber_all_labels_used.
  - intros i Hi. now apply renumber_scan_order.
Qed.

Lemma nth_map_lt (g : Z -> Z) l i : (i < length l)%nat -> nth i (map g l) 0 = g (nth i l 0).
Proof. intros. rewrite nth_indep with (d' := g 0) by (rewrite map_length; lia). apply map_nth. Qed.

(* remove_regions zeroes exactly the listed (non-background) regions *)
Theorem remove_regions_spec lab regions i : (i < length lab)%nat ->
  nth i (remove_regions lab regions) 0 = if in_dec Z.eq_dec (nth i lab 0) regions then 0 else nth i lab 0.
Proof.
  intros Hi. unfold remove_regions.
  rewrite nth_map_lt by auto. set (v := nth i lab 0).
  destruct (in_dec Z.eq_dec v regions) as [I|I].
  - destruct (v =? 0) eqn:E; simpl; [lia|].
    assert (existsb (Z.eqb v) regions = true) as -> by (apply existsb_exists; exists v; split; [auto|apply Z.eqb_refl]).
    reflexivity.
  - destruct (existsb (Z.eqb v) regions) eqn:X; [|now rewrite andb_false_r].
    apply existsb_exists in X. destruct X as [x [Hx E]]. assert (v = x) by lia. subst. contradiction.
Qed.

Example labeled_examples :
  labeled_sum None 3 [5; -2; 7; 1] [1; 2; 1; 0] = [1; 12; -2] /\
  labeled_max (-128) 3 [5; -2; 7; 1] [1; 2; 1; 5] = [-128; 7; -2] /\
  fst (relabel [0; 7; 7; 3; 0; 9; 3]) = [0; 1; 1; 2; 0; 3; 2] /\ snd (relabel [0; 7; 7; 3; 0; 9; 3]) = 3 /\
  is_same_labeling [0; 1; 1; 2] [0; 5; 5; 3] = true /\ is_same_labeling [0; 1; 1; 2] [0; 5; 3; 3] = false /\
  is_same_labeling [1; 1] [0; 0] = false /\
  bbox_generic {| shape := [3; 4]; data := [0;0;0;0; 0;1;1;0; 0;0;0;0] |} = [1; 2; 1; 3] /\
  bbox_fast2 {| shape := [3; 4]; data := [0;0;0;0; 0;1;1;0; 1;0;0;0] |} = [1; 3; 0; 3] /\
  fullhistogram [2; 0; 2; 3] = [1; 0; 2; 1].
Proof. vm_compute. repeat split; reflexivity. Qed.
