(* C02, grey-scale part: for unsigned dtypes and a flat element (all members at one height c > 0 -- c = 1 for the elements
   morph.py builds from boolean masks), dilation and erosion of _morph.cpp form an adjunction on the images that the dilation
   cannot saturate (values <= max - c), and the laws of opening and closing follow. *)
Require Import MV.Base.Prelude MV.Base.CInt MV.Base.Index MV.Base.BorderSpec MV.Base.Galois2.
Require Import MV.Gen.Scalar_gen MV.Model.Filter MV.Model.Morph.
Require Import MV.Proof.ScalarSat MV.Proof.MorphProof MV.Proof.MorphLaws MV.Proof.MorphBounds.

Section GreyAdj.
  Variable t : ity.
  Hypothesis Wt : wf_ity t.
  Hypothesis Ut : signed t = false.
  Variable sh : list Z.
  Variable bc : arr.
  Variable c : Z.
  Hypothesis Hc : 0 < c <= tmax t.
  Hypothesis Hsh : shape_ok sh.
  Hypothesis Hbc : forall e, In e (entries false bc) -> length (fst e) = length sh.
  Hypothesis HflatD : Forall (fun h => h = 0 \/ h = c) (data bc).
  Hypothesis Hne : exists e, In e (entries false bc) /\ snd e = c.
  Let n := size sh.

  Definition gdil (x : list Z) : list Z := dilate_generic (DInt t) (A sh x) bc.
  Definition gero (x : list Z) : list Z := erode_generic (DInt t) (A sh x) bc.
  Definition PG (x : list Z) : Prop := okl (DInt t) n x.
  Definition PF (x : list Z) : Prop := Zlen x = n /\ Forall (fun v => 0 <= v <= tmax t - c) x.

  Lemma T0 : tmin t = 0.
  Proof. exact (unsigned_tmin t Ut). Qed.

  Lemma PF_PG x : PF x -> PG x.
  Proof.
    intros [L R]. split; auto. eapply Forall_impl; [|exact R]. intros v Hv. cbv beta in Hv. unfold d_in_range. cbn [dmin dmax]. pose proof T0. lia.
  Qed.

  Lemma PG_nth x i : PG x -> 0 <= nthZ 0 x i <= tmax t.
  Proof.
    intros [_ R]. pose proof (nthZ_range (DInt t) x i Wt R) as H. unfold d_in_range in H. cbn [dmin dmax] in H. pose proof T0. lia.
  Qed.

  Lemma PF_nth x i : PF x -> 0 <= nthZ 0 x i <= tmax t - c.
  Proof.
    intros [_ R]. unfold nthZ. destruct (i <? 0); [lia|].
    destruct (Nat.lt_ge_cases (Z.to_nat i) (length x)) as [L|L].
    - rewrite Forall_forall in R. apply R. apply nth_In. exact L.
    - rewrite nth_overflow by lia. lia.
  Qed.

  Lemma se_flat : se_ok (DInt t) bc.
  Proof.
    cbn [se_ok]. eapply Forall_impl; [|exact HflatD]. intros h [->| ->]; rewrite T0; right; lia.
  Qed.

  Lemma Hflat e : In e (entries false bc) -> snd e = 0 \/ snd e = c.
  Proof.
    intros Hin. rewrite entries_false in Hin. apply in_map_iff in Hin. destruct Hin as [k [<- _]]. simpl.
    unfold aget, nthZ. destruct (ravel (shape bc) k <? 0); [left; reflexivity|].
    destruct (Nat.lt_ge_cases (Z.to_nat (ravel (shape bc) k)) (length (data bc))) as [L|L].
    - rewrite Forall_forall in HflatD. apply HflatD. apply nth_In. exact L.
    - rewrite nth_overflow by lia. left; reflexivity.
  Qed.

  Lemma support_char e : In e (support (DInt t) bc) <-> In e (entries false bc) /\ snd e = c.
  Proof.
    unfold support. rewrite filter_In. unfold in_se. cbn [dmin]. rewrite T0. split.
    - intros [Hin Hm]. split; auto. destruct (Hflat e Hin) as [E|E]; [rewrite E in Hm; discriminate|exact E].
    - intros [Hin E]. split; auto. rewrite E. destruct (c =? 0) eqn:C; [lia|reflexivity].
  Qed.

  Lemma agetA x q : aget (A sh x) q = nthZ 0 x (ravel sh q).
  Proof. reflexivity. Qed.

  Lemma Pp : pos_shape sh.
  Proof. exact (shape_ok_pos sh Hsh). Qed.
  Local Hint Resolve Pp : core.

  Lemma gero_nth g i : PG g -> 0 <= i < n ->
    nthZ 0 (gero g) i =
    minl (tmax t) (map (fun e => Z.max 0 (nthZ 0 g (ravel sh (clampos sh (padd (unravel sh i) (fst e)))) - c))
                       (support (DInt t) bc)).
  Proof.
    intros Hg Hi. unfold gero, erode_generic. cbn [A shape].
    rewrite nthZ_map with (da := []) by (unfold Zlen; rewrite all_positions_length; fold n; lia).
    rewrite nthZ_all_positions by auto.
    rewrite erode_at_spec; [| exact Wt | split; [exact Hsh | exact (proj2 Hg)] | exact se_flat].
    unfold erode_spec. cbn [dmax A shape]. apply f_equal. apply map_ext_in. intros e He.
    apply support_char in He. destruct He as [_ E]. rewrite agetA. cbn [height is_bool]. rewrite E.
    unfold satd. cbn [dmin dmax]. rewrite T0.
    pose proof (PG_nth g (ravel sh (clampos sh (padd (unravel sh i) (fst e)))) Hg). lia.
  Qed.

  Definition GMid (f g : list Z) : Prop :=
    forall p, in_shape sh p -> forall e, In e (entries false bc) -> snd e = c ->
      nthZ 0 f (ravel sh p) <> 0 ->
      nthZ 0 f (ravel sh p) + c <= nthZ 0 g (ravel sh (clampos sh (padd p (fst e)))).

  Lemma le_gero_iff_mid f g : PF f -> PG g -> (le_list n f (gero g) <-> GMid f g).
  Proof.
    intros Hf Hg. split.
    - intros H p Hp e He Ec Hnz.
      pose proof (ravel_bound sh p Pp Hp) as Hi. specialize (H _ Hi).
      rewrite gero_nth in H by auto. rewrite unravel_ravel in H by auto.
      set (q := ravel sh (clampos sh (padd p (fst e)))) in *.
      assert (Hx : minl (tmax t) (map (fun e0 => Z.max 0 (nthZ 0 g (ravel sh (clampos sh (padd p (fst e0)))) - c))
                     (support (DInt t) bc)) <= Z.max 0 (nthZ 0 g q - c)).
      { apply minl_le_in. apply in_map_iff. exists e. split; [reflexivity|]. apply support_char. auto. }
      pose proof (PF_nth f (ravel sh p) Hf). lia.
    - intros H i Hi. rewrite gero_nth by auto. apply minl_glb.
      + pose proof (PF_nth f i Hf). lia.
      + intros x Hx. apply in_map_iff in Hx. destruct Hx as [e [<- He]]. apply support_char in He. destruct He as [He Ec].
        pose proof (unravel_in_shape sh i Pp Hi) as Hp.
        specialize (H _ Hp e He Ec). rewrite ravel_unravel in H by auto.
        pose proof (PF_nth f i Hf). destruct (Z.eq_dec (nthZ 0 f i) 0) as [Z0|NZ]; [lia|]. specialize (H NZ). lia.
  Qed.

  Lemma dadd_flat v e : In e (entries false bc) -> 0 < v <= tmax t - c ->
    dadd (DInt t) v (snd e) = if snd e =? 0 then 0 else v + c.
  Proof.
    intros He Hv. cbn [dadd]. destruct (Hflat e He) as [E|E]; rewrite E.
    - rewrite Z.eqb_refl. rewrite dilate_add_absent; [exact T0 | right; symmetry; exact T0].
    - pose proof T0 as T0'. destruct (c =? 0) eqn:C; [lia|].
      rewrite dilate_add_sat; auto; try (unfold in_range; lia); try lia.
      apply sat_id. unfold in_range. lia.
  Qed.

  Lemma Hbc' : forall e, In e (entries (is_bool (DInt t)) bc) -> length (fst e) = length (shape (A sh [])).
  Proof. exact Hbc. Qed.

  Lemma gdil_le_iff_mid f g : PF f -> PG g -> (le_list n (gdil f) g <-> GMid f g).
  Proof.
    intros Hf Hg. split.
    - intros H p Hp e He Ec Hnz.
      set (q := ravel sh (clampos sh (padd p (fst e)))).
      assert (Hq : 0 <= q < n).
      { apply ravel_bound; auto. apply clampos_in_shape; auto.
        rewrite padd_length; rewrite (in_shape_length sh p Hp); auto. symmetry; auto. }
      specialize (H q Hq). unfold gdil in H. rewrite dilate_generic_char in H; auto.
      eapply Z.le_trans; [|exact H].
      apply maxl_ge_in. apply in_map_iff. exists (q, nthZ 0 f (ravel sh p) + c). split; [reflexivity|].
      apply filter_In. split; [|simpl; lia].
      apply in_flat_map. exists p. split; [apply in_all_positions; auto|].
      unfold contribs. cbn [A shape dmin is_bool]. rewrite agetA. rewrite T0.
      destruct (nthZ 0 f (ravel sh p) =? 0) eqn:Z0; [lia|].
      apply in_map_iff. exists e. split; auto. fold q. f_equal.
      pose proof (PF_nth f (ravel sh p) Hf).
      rewrite dadd_flat by (auto; lia). rewrite Ec. destruct (c =? 0) eqn:C; [lia|reflexivity].
    - intros H i Hi. unfold gdil. rewrite dilate_generic_char; auto.
      apply maxl_lub.
      + cbn [dmin]. rewrite T0. pose proof (PG_nth g i Hg). lia.
      + intros x Hx. apply in_map_iff in Hx. destruct Hx as [u [<- Hu]].
        apply filter_In in Hu. destruct Hu as [Hu Hi'].
        apply in_flat_map in Hu. destruct Hu as [p [Hp Hu]].
        apply in_all_positions in Hp; auto.
        unfold contribs in Hu. cbn [A shape dmin is_bool] in Hu. rewrite agetA in Hu. rewrite T0 in Hu.
        destruct (nthZ 0 f (ravel sh p) =? 0) eqn:Z0; [destruct Hu|].
        apply in_map_iff in Hu. destruct Hu as [e [<- He]]. cbn [fst snd] in *.
        pose proof (PF_nth f (ravel sh p) Hf).
        rewrite dadd_flat by (auto; lia).
        destruct (snd e =? 0) eqn:E0; [pose proof (PG_nth g i Hg); lia|].
        assert (Ec : snd e = c) by (destruct (Hflat e He); lia).
        specialize (H p Hp e He Ec ltac:(lia)).
        assert (Ei : ravel sh (clampos sh (padd p (fst e))) = i) by lia. rewrite Ei in H. exact H.
  Qed.

  Theorem grey_adjunction f g : PF f -> PG g -> (le_list n (gdil f) g <-> le_list n f (gero g)).
  Proof. intros Hf Hg. rewrite gdil_le_iff_mid, le_gero_iff_mid by auto. reflexivity. Qed.

  (* ---- carriers are preserved ---- *)
  Lemma gdil_PG f : PG f -> PG (gdil f).
  Proof.
    intros Hf. destruct Hne as [e0 [He0 _]].
    apply (dil_ok (DInt t) sh bc Wt Hsh Hbc) with (e0 := e0); auto.
    intros e He. unfold d_in_range. cbn [dmin dmax]. pose proof T0. destruct (Hflat e He); lia.
  Qed.

  Lemma gero_len g : Zlen (gero g) = n.
  Proof.
    unfold gero, erode_generic, Zlen. rewrite map_length, all_positions_length. cbn [A shape].
    pose proof (size_pos sh Pp). subst n. lia.
  Qed.

  Lemma gero_PF g : PG g -> PF (gero g).
  Proof.
    intros Hg. split; [apply gero_len|]. apply Forall_nthZ'. rewrite gero_len. intros i Hi.
    rewrite gero_nth by auto. split.
    - apply minl_glb; [lia|]. intros x Hx. apply in_map_iff in Hx. destruct Hx as [e [<- _]]. lia.
    - destruct Hne as [e [He Ec]].
      eapply Z.le_trans; [apply minl_le_in; apply in_map_iff; exists e; split; [reflexivity|apply support_char; auto]|].
      pose proof (PG_nth g (ravel sh (clampos sh (padd (unravel sh i) (fst e)))) Hg). lia.
  Qed.

  Lemma lel_refl x : PG x -> le_list n x x.
  Proof. intros _ i _. lia. Qed.
  Lemma lel_trans x y z : le_list n x y -> le_list n y z -> le_list n x z.
  Proof. intros H1 H2 i Hi. specialize (H1 i Hi). specialize (H2 i Hi). lia. Qed.
  Lemma lel_antisym x y : Zlen x = n -> Zlen y = n -> le_list n x y -> le_list n y x -> x = y.
  Proof.
    intros Lx Ly H1 H2. apply nth_ext with (d := 0) (d' := 0).
    - unfold Zlen in *. lia.
    - intros k Hk. specialize (H1 (Z.of_nat k)). specialize (H2 (Z.of_nat k)).
      unfold nthZ in *. destruct (Z.of_nat k <? 0) eqn:E; [lia|]. rewrite Nat2Z.id in *.
      unfold Zlen in *. lia.
  Qed.

  Definition gopen f := gdil (gero f).      (* mahotas.open  = dilate(erode(f)) *)
  Definition gclose f := gero (gdil f).     (* mahotas.close = erode(dilate(f)) *)

  Lemma gopen_is_mh_open f : gopen f = mh_open (DInt t) (A sh f) bc.
  Proof. reflexivity. Qed.
  Lemma gclose_is_mh_close f : gclose f = mh_close (DInt t) (A sh f) bc.
  Proof. reflexivity. Qed.

  Let gdil_P : forall x, PF x -> PG (gdil x) := fun x H => gdil_PG x (PF_PG x H).

  Theorem gopen_antiextensive f : PG f -> le_list n (gopen f) f.
  Proof. exact (opening2_antiextensive _ PF PG (le_list n) gdil gero PF_PG lel_refl gero_PF grey_adjunction f). Qed.

  Theorem gclose_extensive f : PF f -> le_list n f (gclose f).
  Proof. exact (closing2_extensive _ PF PG (le_list n) gdil gero lel_refl gdil_P grey_adjunction f). Qed.

  Theorem gopen_increasing f g : PG f -> PG g -> le_list n f g -> le_list n (gopen f) (gopen g).
  Proof. exact (opening2_incr _ PF PG (le_list n) gdil gero PF_PG lel_refl lel_trans gdil_P gero_PF grey_adjunction f g). Qed.

  Theorem gclose_increasing f g : PF f -> PF g -> le_list n f g -> le_list n (gclose f) (gclose g).
  Proof. exact (closing2_incr _ PF PG (le_list n) gdil gero PF_PG lel_refl lel_trans gdil_P gero_PF grey_adjunction f g). Qed.

  Theorem gopen_idempotent f : PG f -> gopen (gopen f) = gopen f.
  Proof.
    intros Hf.
    destruct (opening2_idem_le _ PF PG (le_list n) gdil gero PF_PG lel_refl lel_trans gdil_P gero_PF grey_adjunction f Hf) as [H1 H2].
    apply lel_antisym; auto; unfold gopen; apply gdil_PG, PF_PG, gero_PF; auto.
    apply gdil_PG, PF_PG, gero_PF; auto.
  Qed.

  Theorem gclose_idempotent f : PF f -> gclose (gclose f) = gclose f.
  Proof.
    intros Hf.
    destruct (closing2_idem_le _ PF PG (le_list n) gdil gero PF_PG lel_refl lel_trans gdil_P gero_PF grey_adjunction f Hf) as [H1 H2].
    apply lel_antisym; auto; unfold gclose; apply gero_len.
  Qed.

  (* ---- top-hats are exact differences (no clamping happens) ---- *)
  Lemma nthZ_psubm d a b i : Zlen a = Zlen b -> 0 <= i < Zlen a ->
    nthZ 0 (psubm d a b) i = subm_d d (nthZ 0 a i) (nthZ 0 b i).
  Proof.
    intros L Hi. unfold psubm.
    rewrite nthZ_map with (da := (0, 0)) by (unfold Zlen in *; rewrite combine_length; lia).
    unfold nthZ. destruct (i <? 0) eqn:E; [lia|].
    rewrite combine_nth by (unfold Zlen in L; lia). reflexivity.
  Qed.

  Theorem tophat_open_exact f i : PG f -> 0 <= i < n ->
    nthZ 0 (mh_tophat_open (DInt t) (A sh f) bc) i = nthZ 0 f i - nthZ 0 (gopen f) i.
  Proof.
    intros Hf Hi. unfold mh_tophat_open. rewrite <- gopen_is_mh_open. cbn [A data].
    assert (Ho : PG (gopen f)) by (apply gdil_PG, PF_PG, gero_PF; auto).
    rewrite nthZ_psubm by (try rewrite (proj1 Hf); try rewrite (proj1 Ho); auto).
    cbn [subm_d]. pose proof (PG_nth f i Hf). pose proof (PG_nth (gopen f) i Ho).
    pose proof (gopen_antiextensive f Hf i Hi). pose proof T0.
    rewrite subm_sat by (auto; unfold in_range; lia). apply sat_id. unfold in_range. lia.
  Qed.

  Theorem tophat_close_exact f i : PF f -> 0 <= i < n ->
    nthZ 0 (mh_tophat_close (DInt t) (A sh f) bc) i = nthZ 0 (gclose f) i - nthZ 0 f i.
  Proof.
    intros Hf Hi. unfold mh_tophat_close. rewrite <- gclose_is_mh_close. cbn [A data].
    assert (Ho : PG (gclose f)) by (apply PF_PG, gero_PF, gdil_PG, PF_PG; auto).
    pose proof (PF_PG f Hf) as Hf'.
    rewrite nthZ_psubm by (try rewrite (proj1 Hf'); try rewrite (proj1 Ho); auto).
    cbn [subm_d]. pose proof (PG_nth f i Hf'). pose proof (PG_nth (gclose f) i Ho).
    pose proof (gclose_extensive f Hf i Hi). pose proof T0.
    rewrite subm_sat by (auto; unfold in_range; lia). apply sat_id. unfold in_range. lia.
  Qed.
End GreyAdj.

(* non-vacuity: a uint8 image and the 2-D cross at height 1 (what morph.py passes for a boolean mask) meet every hypothesis,
   and the operators do something on it *)
Example grey_hyps_satisfiable :
  let t := u8 in let sh := [3; 4] in
  let bc := {| shape := [3; 3]; data := [0;1;0; 1;1;1; 0;1;0] |} in
  let f := [9; 9; 9; 9;  9; 40; 9; 9;  9; 9; 9; 254] in
  wf_ity t /\ signed t = false /\ 0 < 1 <= tmax t /\ shape_ok sh /\
  (forall e, In e (entries false bc) -> length (fst e) = length sh) /\
  Forall (fun h => h = 0 \/ h = 1) (data bc) /\ (exists e, In e (entries false bc) /\ snd e = 1) /\
  PF t sh 1 f /\ gopen t sh bc f <> f /\ gclose t sh bc f <> f.
Proof.
  cbv zeta.
  split; [unfold wf_ity; simpl; lia|]. split; [reflexivity|].
  split; [assert (E : tmax u8 = 255) by reflexivity; rewrite E; lia|].
  split; [repeat constructor; unfold border_flag_value; lia|].
  split; [intros e He; vm_compute in He; repeat (destruct He as [<-|He]; [reflexivity|]); destruct He|].
  split; [repeat constructor; lia|].
  split; [exists ([0; 0], 1); split; [vm_compute; tauto | reflexivity]|].
  split; [split; [reflexivity|]; assert (E : tmax u8 = 255) by reflexivity; rewrite E; repeat constructor; lia|].
  split; vm_compute; congruence.
Qed.
