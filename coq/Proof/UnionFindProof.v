(* C03: the union-find structure of _labeled.cpp (parent array, recursive find with path compression, join by re-pointing a
   root, final compression pass) yields the same labels as the class-merging model of Model/Label.v on which the
   connected-components theorems are proved. *)
Require Import MV.Base.Prelude MV.Base.CInt MV.Base.Index MV.Base.Renumber.
Require Import MV.Model.Filter MV.Model.Label MV.Model.UnionFind MV.Proof.LabeledProof MV.Proof.RenumberPattern.

Section Forest.
  Variable N : Z.
  Definition fgn (p : list Z) (i : Z) : Prop := 0 <= i < N /\ nthZ 0 p i <> -1.

  Inductive path (p : list Z) : Z -> Z -> nat -> Prop :=
  | path_root i : nthZ 0 p i = i -> path p i i 0
  | path_step i r k : nthZ 0 p i <> i -> path p (nthZ 0 p i) r k -> path p i r (S k).

  Definition WFh (h : Z -> nat) (p : list Z) : Prop :=
    Zlen p = N /\ (forall i, fgn p i -> fgn p (nthZ 0 p i)) /\
    (forall i, fgn p i -> nthZ 0 p i <> i -> (h (nthZ 0%Z p i) < h i)%nat).

  Lemma path_fun p i r k : path p i r k -> forall r' k', path p i r' k' -> r = r' /\ k = k'.
  Proof.
    induction 1 as [i E|i r k NE P IH]; intros r' k' P'; inversion P' as [? E'|? ? ? NE' P'']; subst.
    - split; reflexivity.
    - contradiction.
    - contradiction.
    - destruct (IH _ _ P'') as [-> ->]. split; reflexivity.
  Qed.
  Lemma path_end_root p i r k : path p i r k -> nthZ 0 p r = r.
  Proof. induction 1; assumption. Qed.
  Lemma path_fg p h i r k : WFh h p -> fgn p i -> path p i r k -> fgn p r.
  Proof. intros W F P. induction P as [i E|i r k NE P IH]; [exact F | apply IH; apply W; exact F]. Qed.
  Lemma path_h p h i r k : WFh h p -> fgn p i -> path p i r k -> (h r + k <= h i)%nat.
  Proof.
    intros W F P. induction P as [i E|i r k NE P IH]; [lia|].
    destruct W as (W1 & W2 & W3). pose proof (W3 i F NE). specialize (IH (W2 i F)). lia.
  Qed.

  Lemma path_exists p h : WFh h p -> forall i, fgn p i -> exists r k, path p i r k.
  Proof.
    intros W. assert (G : forall n i, (h i < n)%nat -> fgn p i -> exists r k, path p i r k).
    { induction n as [|n IH]; intros i Hn F; [lia|].
      destruct (Z.eq_dec (nthZ 0 p i) i) as [E|NE]; [exists i, 0%nat; constructor; exact E|].
      destruct W as (W1 & W2 & W3). pose proof (W3 i F NE).
      destruct (IH (nthZ 0 p i) ltac:(lia) (W2 i F)) as (r & k & P). exists r, (S k). constructor; assumption. }
    intros i F. apply (G (S (h i)) i); [lia | exact F].
  Qed.

  (* the nodes of a path are pairwise distinct foreground indices: at most N of them *)
  Lemma path_nodes p h i r k : WFh h p -> fgn p i -> path p i r k ->
    exists nodes, length nodes = S k /\ NoDup nodes /\ (forall x, In x nodes -> 0 <= x < N /\ (h x <= h i)%nat).
  Proof.
    intros W F P. induction P as [i E|i r k NE P IH].
    - exists [i]. split; [reflexivity|]. split; [constructor; [intros []|constructor]|]. intros x [<-|[]]. split; [apply F | lia].
    - destruct W as (W1 & W2 & W3). pose proof (W3 i F NE) as Hh.
      destruct (IH (W2 i F)) as (nodes & L & ND & B). exists (i :: nodes). split; [cbn; lia|]. split.
      + constructor; [|exact ND]. intro Hin. destruct (B i Hin) as [_ Hi]. lia.
      + intros x [<-|Hx]; [split; [apply F | lia]|]. destruct (B x Hx). split; [assumption | lia].
  Qed.
  Lemma path_bound p h i r k : 0 <= N -> WFh h p -> fgn p i -> path p i r k -> (k < Z.to_nat N)%nat.
  Proof.
    intros HN W F P. destruct (path_nodes p h i r k W F P) as (nodes & L & ND & B).
    assert (I : incl nodes (Zseq 0 (Z.to_nat N))) by (intros x Hx; apply in_Zseq; destruct (B x Hx); lia).
    pose proof (NoDup_incl_length ND I) as Le. rewrite Zseq_length in Le. lia.
  Qed.

  (* ---- find *)
  Definition eq_or_root (p p' : list Z) : Prop :=
    forall x, 0 <= x < N -> (nthZ 0 p x = -1 -> nthZ 0 p' x = -1) /\
              (nthZ 0 p x <> -1 -> nthZ 0 p' x = nthZ 0 p x \/ exists k, path p x (nthZ 0 p' x) k).

  Lemma eq_or_root_refl p : eq_or_root p p.
  Proof. intros x Hx. split; [tauto | intro; left; reflexivity]. Qed.

  Lemma find_spec p h : WFh h p -> forall k i r fuel, fgn p i -> path p i r k -> (k < fuel)%nat ->
    snd (uf_find fuel p i) = r /\ Zlen (fst (uf_find fuel p i)) = N /\ eq_or_root p (fst (uf_find fuel p i)) /\
    nthZ 0 (fst (uf_find fuel p i)) i = r.
  Proof.
    intros W. induction k as [|k IH]; intros i r fuel F P Hf.
    - inversion P as [? E|]; subst. destruct fuel as [|fuel]; [lia|]. cbn [uf_find]. rewrite E, Z.eqb_refl. cbn [fst snd].
      split; [reflexivity|]. split; [apply W|]. split; [apply eq_or_root_refl | exact E].
    - inversion P as [|? ? ? NE P']; subst. destruct fuel as [|fuel]; [lia|]. cbn [uf_find].
      destruct (nthZ 0 p i =? i) eqn:E; [apply Z.eqb_eq in E; contradiction|]. cbn [fst snd].
      destruct W as (W1 & W2 & W3).
      destruct (IH (nthZ 0 p i) r fuel (W2 i F) P' ltac:(lia)) as (R1 & R2 & R3 & R4).
      set (q := uf_find fuel p (nthZ 0 p i)) in *. rewrite R1.
      split; [reflexivity|]. split; [rewrite updZ_Zlen; exact R2|]. split.
      + intros x Hx. destruct (R3 x Hx) as [B1 B2]. rewrite nthZ_updZ by (destruct F; lia).
        destruct (i =? x) eqn:Ex.
        * apply Z.eqb_eq in Ex. subst x. split; [intro Hb; destruct F as [_ Fb]; contradiction|].
          intros _. right. exists (S k). exact P.
        * split; [exact B1 | exact B2].
      + rewrite nthZ_updZ by (destruct F; lia). rewrite Z.eqb_refl. reflexivity.
  Qed.

  (* consequences of eq_or_root *)
  Lemma eor_fg p p' : eq_or_root p p' -> forall h, WFh h p -> forall x, (fgn p' x <-> fgn p x).
  Proof.
    intros E h W x. unfold fgn. split; intros [Hx Hv]; split; try exact Hx.
    - intro B. apply Hv. apply (E x Hx). exact B.
    - destruct (E x Hx) as [_ B]. destruct (B Hv) as [Eq|(k & P)]; [rewrite Eq; exact Hv|].
      assert (Fr : fgn p (nthZ 0 p' x)) by (apply (path_fg p h x _ k W (conj Hx Hv) P)). destruct Fr as [Hr _]. lia.
  Qed.

  Lemma eor_root_iff p p' h : eq_or_root p p' -> WFh h p -> forall x, fgn p x -> (nthZ 0 p' x = x <-> nthZ 0 p x = x).
  Proof.
    intros E W x [Hx Hv]. destruct (E x Hx) as [_ B]. destruct (B Hv) as [Eq|(k & P)].
    - rewrite Eq. tauto.
    - split; intro R.
      + rewrite R in P. inversion P as [? E0|? ? ? NE P']; subst; [exact E0|].
        (* a proper path from x back to x contradicts the decreasing height *)
        exfalso. pose proof (path_h p h x x (S k0) W (conj Hx Hv) P). lia.
      + assert (P0 : path p x x 0) by (constructor; exact R). destruct (path_fun p x _ k P x 0%nat P0) as [Er _]. exact Er.
  Qed.

  Lemma eor_WF p p' h : Zlen p' = N -> eq_or_root p p' -> WFh h p -> WFh h p'.
  Proof.
    intros L E W. split; [exact L|]. split.
    - intros i F'. pose proof (proj1 (eor_fg p p' E h W i) F') as F. apply (eor_fg p p' E h W).
      destruct F as [Hi Hv]. destruct (E i Hi) as [_ B]. destruct (B Hv) as [Eq|(k & P)].
      + rewrite Eq. apply W. split; assumption.
      + apply (path_fg p h i _ k W (conj Hi Hv) P).
    - intros i F' NE. pose proof (proj1 (eor_fg p p' E h W i) F') as F.
      destruct F as [Hi Hv]. destruct (E i Hi) as [_ B]. destruct (B Hv) as [Eq|(k & P)].
      + rewrite Eq in *. apply W; [split; assumption | exact NE].
      + pose proof (path_h p h i _ k W (conj Hi Hv) P). destruct k as [|k]; [|lia].
        inversion P; subst. congruence.
  Qed.

  Lemma eor_path p p' h : eq_or_root p p' -> WFh h p -> forall k x r, fgn p x -> path p x r k -> exists k', path p' x r k'.
  Proof.
    intros E W. induction k as [|k IH]; intros x r F P.
    - inversion P as [? E0|]; subst. exists 0%nat. constructor. apply (eor_root_iff p p' h E W r F). exact E0.
    - inversion P as [|? ? ? NE P']; subst. destruct F as [Hx Hv]. destruct (E x Hx) as [_ B]. destruct (B Hv) as [Eq|(k2 & P2)].
      + destruct (IH (nthZ 0 p x) r (proj1 (proj2 W) x (conj Hx Hv)) P') as (k' & Q). exists (S k'). constructor; [rewrite Eq; exact NE | rewrite Eq; exact Q].
      + assert (Er : nthZ 0 p' x = r) by (apply (path_fun p x _ k2 P2 r (S k) P)).
        assert (Fr : fgn p r) by (apply (path_fg p h x r (S k) W (conj Hx Hv) P)).
        assert (Rr : nthZ 0 p' r = r) by (apply (eor_root_iff p p' h E W r Fr); apply (path_end_root p x r (S k) P)).
        assert (Nx : r <> x) by (intro Ex; apply NE; rewrite Ex in P; apply (path_end_root p x x (S k) P)).
        exists 1%nat. apply path_step; [rewrite Er; exact Nx|]. rewrite Er. apply path_root. exact Rr.
  Qed.
End Forest.

(* ---- the abstraction: parent forest vs class list *)
Section Abstraction.
  Variable N : Z.
  Hypothesis HN : 0 <= N.
  Let fuel := Z.to_nat N.

  Definition Rel (p cls : list Z) : Prop :=
    Zlen cls = N /\
    (forall x, 0 <= x < N -> (nthZ 0 p x = -1 <-> nthZ 0 cls x = -1)) /\
    (forall x y rx ry kx ky, fgn N p x -> fgn N p y -> path p x rx kx -> path p y ry ky ->
       (rx = ry <-> nthZ 0 cls x = nthZ 0 cls y)).
  Definition St (p cls : list Z) : Prop := (exists h, WFh N h p) /\ Rel p cls.

  (* find leaves the abstraction unchanged and returns the root *)
  Lemma find_keeps p cls i : St p cls -> fgn N p i ->
    St (fst (uf_find fuel p i)) cls /\
    (forall r k, path p i r k -> snd (uf_find fuel p i) = r) /\
    eq_or_root N p (fst (uf_find fuel p i)) /\
    (forall r k, path p i r k -> nthZ 0 (fst (uf_find fuel p i)) i = r).
  Proof.
    intros [[h W] (R1 & R2 & R3)] F.
    destruct (path_exists N p h W i F) as (r & k & P).
    pose proof (path_bound N p h i r k HN W F P) as Kb.
    destruct (find_spec N p h W k i r fuel F P Kb) as (S1 & S2 & S3 & S4).
    set (p' := fst (uf_find fuel p i)) in *.
    pose proof (eor_WF N p p' h S2 S3 W) as W'.
    split; [|split; [|split; [exact S3|]]].
    - split; [exists h; exact W'|]. split; [exact R1|]. split.
      + intros x Hx. rewrite <- (R2 x Hx). destruct (S3 x Hx) as [B1 B2]. split; [|exact B1].
        intro E. destruct (Z.eq_dec (nthZ 0 p x) (-1)) as [Y|NY]; [exact Y|]. exfalso.
        assert (fgn N p' x) by (apply (eor_fg N p p' S3 h W); split; assumption). destruct H as [_ H]. contradiction.
      + intros x y rx ry kx ky Fx Fy Px Py.
        pose proof (proj1 (eor_fg N p p' S3 h W x) Fx) as Fx0. pose proof (proj1 (eor_fg N p p' S3 h W y) Fy) as Fy0.
        destruct (path_exists N p h W x Fx0) as (rx0 & kx0 & Px0). destruct (path_exists N p h W y Fy0) as (ry0 & ky0 & Py0).
        destruct (eor_path N p p' h S3 W kx0 x rx0 Fx0 Px0) as (kx1 & Qx). destruct (eor_path N p p' h S3 W ky0 y ry0 Fy0 Py0) as (ky1 & Qy).
        destruct (path_fun p' x rx kx Px rx0 kx1 Qx) as [-> _]. destruct (path_fun p' y ry ky Py ry0 ky1 Qy) as [-> _].
        apply (R3 x y rx0 ry0 kx0 ky0 Fx0 Fy0 Px0 Py0).
    - intros r' k' P2. destruct (path_fun p i r k P r' k' P2) as [<- _]. exact S1.
    - intros r' k' P2. destruct (path_fun p i r k P r' k' P2) as [<- _]. exact S4.
  Qed.

  (* pointwise equal lists are indistinguishable *)
  Lemma path_ext p q : (forall x, nthZ 0 p x = nthZ 0 q x) -> forall x r k, path p x r k -> path q x r k.
  Proof. intros E x r k P. induction P as [i Ei|i r k NE P IH]; [apply path_root; rewrite <- E; exact Ei | apply path_step; [rewrite <- E; exact NE | rewrite <- E; exact IH]]. Qed.

  Lemma St_ext p q cls cls' : Zlen q = N -> Zlen cls' = N -> (forall x, nthZ 0 p x = nthZ 0 q x) -> (forall x, nthZ 0 cls x = nthZ 0 cls' x) ->
    St p cls -> St q cls'.
  Proof.
    intros Lq Lc Ep Ec [[h (W1 & W2 & W3)] (R1 & R2 & R3)].
    assert (Fg : forall x, fgn N q x <-> fgn N p x) by (intro x; unfold fgn; rewrite Ep; tauto).
    split.
    - exists h. split; [exact Lq|]. split.
      + intros i Fi. apply Fg. rewrite <- Ep. apply W2. apply Fg. exact Fi.
      + intros i Fi NE. rewrite <- Ep in *. apply W3; [apply Fg; exact Fi | exact NE].
    - split; [exact Lc|]. split.
      + intros x Hx. rewrite <- Ep, <- Ec. apply R2. exact Hx.
      + intros x y rx ry kx ky Fx Fy Px Py. rewrite <- !Ec.
        apply (R3 x y rx ry kx ky); [apply Fg; exact Fx | apply Fg; exact Fy | |];
          apply (path_ext q p (fun z => eq_sym (Ep z))); assumption.
  Qed.
End Abstraction.

Section Join.
  Variable N : Z.
  Hypothesis HN : 0 <= N.
  Let fuel := Z.to_nat N.

  Lemma nthZ_qf_join cls i j x : 0 <= x < Zlen cls ->
    nthZ 0 (qf_join cls i j) x = if nthZ 0 cls x =? nthZ 0 cls i then nthZ 0 cls j else nthZ 0 cls x.
  Proof. intro Hx. unfold qf_join. cbv zeta. rewrite nthZ_map with (da := 0) by exact Hx. reflexivity. Qed.
  Lemma qf_join_Zlen cls i j : Zlen (qf_join cls i j) = Zlen cls.
  Proof. unfold qf_join, Zlen. cbv zeta. rewrite map_length. reflexivity. Qed.

  (* re-pointing a root ri to another root rj *)
  Lemma link_paths p ri rj : nthZ 0 p ri = ri -> ri <> rj -> 0 <= ri < N -> Zlen p = N ->
    forall x r k, path p x r k ->
    (r <> ri -> path (updZ p ri rj) x r k) /\ (r = ri -> nthZ 0 p rj = rj -> path (updZ p ri rj) x rj (S k)).
  Proof.
    intros Eri Ne Hri L x r k P. induction P as [i Ei|i r k NEi P IH].
    - assert (Hi0 : 0 <= i).
      { destruct (Z_lt_le_dec i 0) as [Neg|Pos]; [|exact Pos]. unfold nthZ in Ei. destruct (i <? 0) eqn:E; lia. }
      split.
      + intro Nr. apply path_root. rewrite nthZ_updZ by lia. destruct (ri =? i) eqn:E; [apply Z.eqb_eq in E; congruence | exact Ei].
      + intros -> Erj.
        assert (Hj0 : 0 <= rj).
        { destruct (Z_lt_le_dec rj 0) as [Neg|Pos]; [|exact Pos]. unfold nthZ in Erj. destruct (rj <? 0) eqn:E; lia. }
        apply path_step.
        * rewrite nthZ_updZ by lia. rewrite Z.eqb_refl. congruence.
        * rewrite nthZ_updZ by lia. rewrite Z.eqb_refl. apply path_root.
          rewrite nthZ_updZ by lia. destruct (ri =? rj) eqn:E; [apply Z.eqb_eq in E; congruence | exact Erj].
    - assert (Ni : i <> ri) by (intro E; subst i; contradiction).
      assert (Eu : nthZ 0 (updZ p ri rj) i = nthZ 0 p i).
      { destruct (Z_lt_le_dec i 0) as [Neg|Pos].
        - unfold nthZ. destruct (i <? 0) eqn:E; [reflexivity | lia].
        - rewrite nthZ_updZ by lia. destruct (ri =? i) eqn:E; [apply Z.eqb_eq in E; congruence | reflexivity]. }
      destruct IH as [I1 I2]. split.
      + intro Nr. apply path_step; [rewrite Eu; exact NEi | rewrite Eu; apply I1; exact Nr].
      + intros Er Erj. apply path_step; [rewrite Eu; exact NEi | rewrite Eu; apply I2; assumption].
  Qed.

  Lemma join_keeps p cls i j : St N p cls -> fgn N p i -> fgn N p j ->
    St N (uf_join fuel p i j) (qf_join cls i j).
  Proof.
    intros S0 Fi Fj. unfold uf_join. cbv zeta.
    destruct (find_keeps N HN p cls i S0 Fi) as (S1 & Ri & E1 & _). fold fuel in S1, Ri, E1.
    set (a := uf_find fuel p i) in *. set (p1 := fst a) in *. set (ri := snd a) in *.
    destruct S0 as [[h0 W0] R0]. destruct S1 as [[h1 W1] R1].
    assert (Fj1 : fgn N p1 j) by (apply (eor_fg N p p1 E1 h0 W0); exact Fj).
    assert (Fi1 : fgn N p1 i) by (apply (eor_fg N p p1 E1 h0 W0); exact Fi).
    destruct (find_keeps N HN p1 cls j (conj (ex_intro _ h1 W1) R1) Fj1) as (S2 & Rj & E2 & _). fold fuel in S2, Rj, E2.
    set (b := uf_find fuel p1 j) in *. set (p2 := fst b) in *. set (rj := snd b) in *.
    destruct S2 as [[h2 W2] R2].
    assert (Fi2 : fgn N p2 i) by (apply (eor_fg N p1 p2 E2 h1 W1); exact Fi1).
    assert (Fj2 : fgn N p2 j) by (apply (eor_fg N p1 p2 E2 h1 W1); exact Fj1).
    (* roots of i and j in p2 *)
    destruct (path_exists N p h0 W0 i Fi) as (r0 & k0 & P0). pose proof (Ri r0 k0 P0) as Eri.
    destruct (eor_path N p p1 h0 E1 W0 k0 i r0 Fi P0) as (k1 & P1).
    destruct (eor_path N p1 p2 h1 E2 W1 k1 i r0 Fi1 P1) as (k2 & P2).
    destruct (path_exists N p1 h1 W1 j Fj1) as (s0 & l0 & Q0). pose proof (Rj s0 l0 Q0) as Erj.
    destruct (eor_path N p1 p2 h1 E2 W1 l0 j s0 Fj1 Q0) as (l2 & Q2).
    fold ri in Eri. fold rj in Erj. rewrite <- Eri in *. rewrite <- Erj in *. clear Eri Erj r0 s0.
    assert (Rooti : nthZ 0 p2 ri = ri) by (apply (path_end_root p2 i ri k2 P2)).
    assert (Rootj : nthZ 0 p2 rj = rj) by (apply (path_end_root p2 j rj l2 Q2)).
    assert (Fri : fgn N p2 ri) by (apply (path_fg N p2 h2 i ri k2 W2 Fi2 P2)).
    assert (Frj : fgn N p2 rj) by (apply (path_fg N p2 h2 j rj l2 W2 Fj2 Q2)).
    destruct R2 as (C1 & C2 & C3). destruct W2 as (V1 & V2 & V3).
    destruct (Z.eq_dec ri rj) as [Eq|Ne].
    - (* already in one class: nothing changes *)
      apply (St_ext N p2 (updZ p2 ri rj) cls (qf_join cls i j)).
      + rewrite updZ_Zlen. exact V1.
      + rewrite qf_join_Zlen. exact C1.
      + intro x. destruct (Z_lt_le_dec x 0) as [Neg|Pos]; [unfold nthZ; destruct (x <? 0) eqn:E; [reflexivity | lia]|].
        rewrite nthZ_updZ by (destruct Fri; lia). destruct (ri =? x) eqn:E; [apply Z.eqb_eq in E; subst x; rewrite <- Eq; exact Rooti | reflexivity].
      + intro x. destruct (Z_lt_le_dec x 0) as [Neg|Pos]; [unfold nthZ; destruct (x <? 0) eqn:E; [reflexivity | lia]|].
        destruct (Z_lt_le_dec x N) as [In|Out].
        * rewrite nthZ_qf_join by lia.
          assert (Cij : nthZ 0 cls i = nthZ 0 cls j) by (apply (C3 i j ri rj k2 l2 Fi2 Fj2 P2 Q2); exact Eq).
          destruct (nthZ 0 cls x =? nthZ 0 cls i) eqn:E; [apply Z.eqb_eq in E; congruence | reflexivity].
        * unfold nthZ. destruct (x <? 0) eqn:E; [lia|]. rewrite !nth_overflow; [reflexivity | | ].
          -- unfold qf_join. cbv zeta. rewrite map_length. unfold Zlen in C1. lia.
          -- unfold Zlen in C1. lia.
      + split; [exists h2; split; [exact V1 | split; [exact V2 | exact V3]] | split; [exact C1 | split; [exact C2 | exact C3]]].
    - (* two classes are merged *)
      set (p3 := updZ p2 ri rj).
      assert (L3 : Zlen p3 = N) by (unfold p3; rewrite updZ_Zlen; exact V1).
      assert (U : forall x, 0 <= x < N -> nthZ 0 p3 x = if ri =? x then rj else nthZ 0 p2 x).
      { intros x Hx. unfold p3. rewrite nthZ_updZ by (destruct Fri; lia). destruct (ri =? x); reflexivity. }
      assert (Fg3 : forall x, fgn N p3 x <-> fgn N p2 x).
      { intro x. unfold fgn. split; intros [Hx Hv]; split; try exact Hx.
        - rewrite (U x Hx) in Hv. destruct (ri =? x) eqn:E; [apply Z.eqb_eq in E; subst x; apply Fri | exact Hv].
        - rewrite (U x Hx). destruct (ri =? x) eqn:E; [destruct Frj; lia | exact Hv]. }
      pose (W2 := conj V1 (conj V2 V3) : WFh N h2 p2).
      (* root of x in p2, computed *)
      set (rootf := fun x => snd (uf_find fuel p2 x)).
      assert (Rootf : forall x r k, fgn N p2 x -> path p2 x r k -> rootf x = r).
      { intros x r k Fx Px. pose proof (path_bound N p2 h2 x r k HN W2 Fx Px) as Kb.
        apply (find_spec N p2 h2 W2 k x r fuel Fx Px Kb). }
      set (h3 := fun x => if rootf x =? ri then (h2 x + h2 rj + 1)%nat else h2 x).
      (* paths in the new forest *)
      assert (LP : forall x r k, path p2 x r k -> (r <> ri -> path p3 x r k) /\ (r = ri -> path p3 x rj (S k))).
      { intros x r k Px. destruct (link_paths p2 ri rj Rooti Ne ltac:(destruct Fri; lia) V1 x r k Px) as [A B].
        split; [exact A | intro Er; apply B; [exact Er | exact Rootj]]. }
      split.
      + exists h3. split; [exact L3|]. split.
        * intros x F3. pose proof (proj1 (Fg3 x) F3) as F2. destruct F2 as [Hx Hv]. rewrite (U x Hx).
          apply Fg3. destruct (ri =? x) eqn:E; [exact Frj | apply V2; split; assumption].
        * intros x F3 NE3. pose proof (proj1 (Fg3 x) F3) as F2. destruct F2 as [Hx Hv]. rewrite (U x Hx) in *.
          unfold h3. destruct (ri =? x) eqn:E.
          -- apply Z.eqb_eq in E. subst x.
             rewrite (Rootf rj rj 0%nat Frj (path_root p2 rj Rootj)).
             rewrite (Rootf ri ri 0%nat Fri (path_root p2 ri Rooti)). rewrite Z.eqb_refl.
             destruct (rj =? ri) eqn:T2; [apply Z.eqb_eq in T2; congruence | lia].
          -- (* x and its parent have the same root *)
             destruct (path_exists N p2 h2 W2 (nthZ 0 p2 x) (V2 x (conj Hx Hv))) as (r & k' & Px').
             pose proof (path_step p2 x r k' NE3 Px') as Px.
             rewrite (Rootf x r (S k') (conj Hx Hv) Px). rewrite (Rootf (nthZ 0 p2 x) r k' (V2 x (conj Hx Hv)) Px').
             pose proof (V3 x (conj Hx Hv) NE3). destruct (r =? ri); lia.
      + split; [rewrite qf_join_Zlen; exact C1|]. split.
        * intros x Hx. rewrite nthZ_qf_join by lia. rewrite (U x Hx).
          assert (Ci : nthZ 0 cls i <> -1) by (intro B; apply (C2 i ltac:(destruct Fi2; lia)) in B; destruct Fi2; contradiction).
          assert (Cj : nthZ 0 cls j <> -1) by (intro B; apply (C2 j ltac:(destruct Fj2; lia)) in B; destruct Fj2; contradiction).
          destruct (ri =? x) eqn:E.
          -- apply Z.eqb_eq in E. subst x.
             assert (Cri : nthZ 0 cls ri = nthZ 0 cls i) by (apply (C3 ri i ri ri 0%nat k2 Fri Fi2 (path_root p2 ri Rooti) P2); reflexivity).
             rewrite Cri, Z.eqb_refl. split; intro B; [destruct Frj; lia | contradiction].
          -- destruct (nthZ 0 cls x =? nthZ 0 cls i) eqn:T2.
             ++ apply Z.eqb_eq in T2. split; intro B; [apply (C2 x Hx) in B; congruence | contradiction].
             ++ apply C2. exact Hx.
        * intros x y rx ry kx ky Fx Fy Px Py.
          pose proof (proj1 (Fg3 x) Fx) as Fx2. pose proof (proj1 (Fg3 y) Fy) as Fy2.
          destruct (path_exists N p2 h2 W2 x Fx2) as (sx & lx & Qx). destruct (path_exists N p2 h2 W2 y Fy2) as (sy & ly & Qy).
          rewrite !nthZ_qf_join by (destruct Fx2, Fy2; lia).
          pose proof (C3 x i sx ri lx k2 Fx2 Fi2 Qx P2) as Xi. pose proof (C3 y i sy ri ly k2 Fy2 Fi2 Qy P2) as Yi.
          pose proof (C3 x y sx sy lx ly Fx2 Fy2 Qx Qy) as XY.
          pose proof (C3 x j sx rj lx l2 Fx2 Fj2 Qx Q2) as Xj. pose proof (C3 y j sy rj ly l2 Fy2 Fj2 Qy Q2) as Yj.
          destruct (LP x sx lx Qx) as [Ax Bx]. destruct (LP y sy ly Qy) as [Ay By].
          destruct (Z.eq_dec sx ri) as [Ex|Nx]; destruct (Z.eq_dec sy ri) as [Ey|Ny].
          -- destruct (path_fun p3 x rx kx Px rj (S lx) (Bx Ex)) as [-> _]. destruct (path_fun p3 y ry ky Py rj (S ly) (By Ey)) as [-> _].
             rewrite (proj1 Xi Ex), (proj1 Yi Ey), !Z.eqb_refl. tauto.
          -- destruct (path_fun p3 x rx kx Px rj (S lx) (Bx Ex)) as [-> _]. destruct (path_fun p3 y ry ky Py sy ly (Ay Ny)) as [-> _].
             rewrite (proj1 Xi Ex), Z.eqb_refl.
             destruct (nthZ 0 cls y =? nthZ 0 cls i) eqn:E; [apply Z.eqb_eq in E; apply Yi in E; contradiction|].
             split; intro H; symmetry; apply Yj; symmetry; exact H.
          -- destruct (path_fun p3 x rx kx Px sx lx (Ax Nx)) as [-> _]. destruct (path_fun p3 y ry ky Py rj (S ly) (By Ey)) as [-> _].
             rewrite (proj1 Yi Ey), Z.eqb_refl.
             destruct (nthZ 0 cls x =? nthZ 0 cls i) eqn:E; [apply Z.eqb_eq in E; apply Xi in E; contradiction|].
             exact Xj.
          -- destruct (path_fun p3 x rx kx Px sx lx (Ax Nx)) as [-> _]. destruct (path_fun p3 y ry ky Py sy ly (Ay Ny)) as [-> _].
             destruct (nthZ 0 cls x =? nthZ 0 cls i) eqn:T1; [apply Z.eqb_eq in T1; apply Xi in T1; contradiction|].
             destruct (nthZ 0 cls y =? nthZ 0 cls i) eqn:T2; [apply Z.eqb_eq in T2; apply Yi in T2; contradiction|].
             exact XY.
  Qed.
End Join.

(* ---- the whole of label(): joins, compression pass, numbering *)
Require Import MV.Base.BorderSpec MV.Proof.ConvProof MV.Proof.LabelProof.

Section Whole.
  Variable f bc : arr.
  Hypothesis Wf : wf_img f.
  Hypothesis Pb : pos_shape (shape bc).
  Hypothesis Lb : length (shape bc) = length (shape f).
  Let N := Zlen (data f).
  Let fuel := length (data f).

  Lemma HN : 0 <= N. Proof. unfold N, Zlen. lia. Qed.
  Lemma fuel_N : fuel = Z.to_nat N. Proof. unfold fuel, N, Zlen. lia. Qed.

  Lemma init_at x : 0 <= x < N -> nthZ 0 (init_classes f) x = if nthZ 0 (data f) x =? 0 then -1 else x.
  Proof.
    intro Hx. unfold init_classes.
    rewrite nthZ_map with (da := 0) by (unfold Zlen; rewrite Zseq_length; unfold N, Zlen in Hx; lia).
    rewrite nthZ_Zseq by (unfold N, Zlen in Hx; lia). rewrite Z.add_0_l. reflexivity.
  Qed.
  Lemma init_len : Zlen (init_classes f) = N.
  Proof. unfold init_classes, Zlen. rewrite map_length, Zseq_length. reflexivity. Qed.

  Definition bg_ok (cls : list Z) : Prop := forall x, 0 <= x < N -> (nthZ 0 cls x = -1 <-> nthZ 0 (data f) x = 0).

  Lemma init_state : St N (init_classes f) (init_classes f) /\ bg_ok (init_classes f).
  Proof.
    assert (B : bg_ok (init_classes f)).
    { intros x Hx. rewrite (init_at x Hx). destruct (nthZ 0 (data f) x =? 0) eqn:E; [apply Z.eqb_eq in E | apply Z.eqb_neq in E]; split; intro; try tauto; lia. }
    assert (Fgx : forall x, fgn N (init_classes f) x -> nthZ 0 (init_classes f) x = x).
    { intros x [Hx Hv]. rewrite (init_at x Hx) in *. destruct (nthZ 0 (data f) x =? 0); [contradiction | reflexivity]. }
    split; [|exact B]. split.
    - exists (fun _ => 0%nat). split; [exact init_len|]. split.
      + intros i F. rewrite (Fgx i F). exact F.
      + intros i F NE. exfalso. apply NE. apply Fgx. exact F.
    - split; [exact init_len|]. split; [tauto|].
      intros x y rx ry kx ky Fx Fy Px Py.
      assert (Ex : rx = x) by (inversion Px as [? E|? ? ? NE P']; subst; [reflexivity | exfalso; apply NE; apply Fgx; exact Fx]).
      assert (Ey : ry = y) by (inversion Py as [? E|? ? ? NE P']; subst; [reflexivity | exfalso; apply NE; apply Fgx; exact Fy]).
      rewrite Ex, Ey, (Fgx x Fx), (Fgx y Fy). tauto.
  Qed.

  Lemma pair_fg i j : In (i, j) (label_pairs f bc) -> (0 <= i < N /\ nthZ 0 (data f) i <> 0) /\ (0 <= j < N /\ nthZ 0 (data f) j <> 0).
  Proof.
    intro H. apply (label_pairs_adjacent f bc i j Wf Pb Lb) in H.
    destruct H as (p & k & Hp & Hk & Hb & Hq & Fp & Fq & -> & ->). cbv zeta in *.
    destruct Wf as [So Hd]. pose proof (shape_ok_pos _ So) as Ps.
    pose proof (ravel_bound _ p Ps Hp). pose proof (ravel_bound _ _ Ps Hq). unfold N. rewrite Hd. unfold aget in Fp, Fq. repeat split; try lia; assumption.
  Qed.

  Lemma qf_join_bg cls i j : Zlen cls = N -> bg_ok cls -> 0 <= i < N -> nthZ 0 (data f) i <> 0 -> 0 <= j < N -> nthZ 0 (data f) j <> 0 ->
    bg_ok (qf_join cls i j).
  Proof.
    intros L B Hi Fi Hj Fj x Hx. rewrite (nthZ_qf_join cls i j x) by lia. rewrite <- (B x Hx).
    assert (Ci : nthZ 0 cls i <> -1) by (intro E; apply (B i Hi) in E; contradiction).
    assert (Cj : nthZ 0 cls j <> -1) by (intro E; apply (B j Hj) in E; contradiction).
    destruct (nthZ 0 cls x =? nthZ 0 cls i) eqn:E; [apply Z.eqb_eq in E; split; intro; congruence | tauto].
  Qed.

  Lemma joins_state : forall l p cls, (forall i j, In (i, j) l -> In (i, j) (label_pairs f bc)) ->
    St N p cls -> bg_ok cls ->
    St N (fold_left (fun p ij => uf_join fuel p (fst ij) (snd ij)) l p)
         (fold_left (fun c ij => qf_join c (fst ij) (snd ij)) l cls) /\
    bg_ok (fold_left (fun c ij => qf_join c (fst ij) (snd ij)) l cls).
  Proof.
    induction l as [|[i j] l IH]; intros p cls Hl S B; [split; assumption|].
    cbn [fold_left fst snd].
    destruct (pair_fg i j (Hl i j (or_introl eq_refl))) as [[Hi Fi] [Hj Fj]].
    assert (Fgi : fgn N p i).
    { split; [exact Hi|]. destruct S as [_ (R1 & R2 & _)]. intro E. apply (R2 i Hi) in E. apply (B i Hi) in E. contradiction. }
    assert (Fgj : fgn N p j).
    { split; [exact Hj|]. destruct S as [_ (R1 & R2 & _)]. intro E. apply (R2 j Hj) in E. apply (B j Hj) in E. contradiction. }
    apply IH.
    - intros a b H. apply Hl. right. exact H.
    - rewrite fuel_N. apply (join_keeps N HN p cls i j S Fgi Fgj).
    - apply qf_join_bg; try assumption. apply S.
  Qed.

  (* the compression pass *)
  Definition compressed (p : list Z) (done : list Z) : Prop :=
    forall x, In x done -> fgn N p x -> forall r k, path p x r k -> nthZ 0 p x = r.

  Lemma compress_state cls : forall l p done, (forall i, In i l -> 0 <= i < N) -> St N p cls -> compressed p done ->
    let p' := fold_left (fun p i => if nthZ 0 p i =? -1 then p else fst (uf_find fuel p i)) l p in
    St N p' cls /\ compressed p' (rev l ++ done).
  Proof.
    induction l as [|i l IH]; intros p done Hl S C; cbv zeta; [split; assumption|].
    cbn [fold_left rev]. rewrite <- app_assoc. cbn [app].
    destruct (nthZ 0 p i =? -1) eqn:E.
    - apply Z.eqb_eq in E. apply IH; [intros a H; apply Hl; right; exact H | exact S|].
      intros x [<-|Hx] Fx; [destruct Fx as [_ Fx]; contradiction | apply C; assumption].
    - apply Z.eqb_neq in E. assert (Fi : fgn N p i) by (split; [apply Hl; left; reflexivity | exact E]).
      destruct (find_keeps N HN p cls i S Fi) as (S' & _ & Eo & Ci). rewrite <- fuel_N in S', Eo, Ci.
      set (p' := fst (uf_find fuel p i)) in *. destruct S as [[h W] R].
      apply IH; [intros a H; apply Hl; right; exact H | exact S'|].
      intros x Hx Fx' r k Px'.
      pose proof (proj1 (eor_fg N p p' Eo h W x) Fx') as Fx.
      destruct (path_exists N p h W x Fx) as (r0 & k0 & Px).
      destruct (eor_path N p p' h Eo W k0 x r0 Fx Px) as (k1 & Px1).
      destruct (path_fun p' x r k Px' r0 k1 Px1) as [-> _].
      destruct Hx as [<-|Hx].
      + apply (Ci r0 k0 Px).
      + (* already compressed: its parent was its root and stays so *)
        pose proof (C x Hx Fx r0 k0 Px) as Ex. destruct Fx as [Hx0 Hv]. destruct (Eo x Hx0) as [_ B]. destruct (B Hv) as [Eq|(k2 & P2)].
        * rewrite Eq. exact Ex.
        * apply (path_fun p x _ k2 P2 r0 k0 Px).
  Qed.

  Theorem uf_label_is_label : uf_label f bc = label f bc.
  Proof.
    unfold uf_label, label, uf_classes, label_classes. cbv zeta. fold fuel.
    destruct init_state as [S0 B0].
    destruct (joins_state (label_pairs f bc) (init_classes f) (init_classes f) (fun i j H => H) S0 B0) as [S1 B1].
    set (pj := fold_left (fun p ij => uf_join fuel p (fst ij) (snd ij)) (label_pairs f bc) (init_classes f)) in *.
    set (cls := fold_left (fun c ij => qf_join c (fst ij) (snd ij)) (label_pairs f bc) (init_classes f)) in *.
    destruct (compress_state cls (Zseq 0 fuel) pj [] (fun i H => ltac:(apply in_Zseq in H; rewrite fuel_N in H; pose proof HN; lia)) S1 (fun x H => False_ind _ H)) as [S2 C2].
    cbv zeta in S2, C2.
    set (pc := fold_left (fun p i => if nthZ 0 p i =? -1 then p else fst (uf_find fuel p i)) (Zseq 0 fuel) pj) in *.
    destruct S2 as [[h W] (R1 & R2 & R3)].
    assert (Lp : length pc = length cls) by (destruct W as [W1 _]; unfold Zlen in *; lia).
    assert (InD : forall x, 0 <= x < N -> In x (rev (Zseq 0 fuel) ++ [])).
    { intros x Hx. rewrite app_nil_r. apply -> in_rev. apply in_Zseq. rewrite fuel_N. lia. }
    assert (Root : forall x, fgn N pc x -> exists k, path pc x (nthZ 0 pc x) k).
    { intros x Fx. destruct (path_exists N pc h W x Fx) as (r & k & P). exists k. rewrite (C2 x (InD x (proj1 Fx)) Fx r k P). exact P. }
    assert (nthN : forall (l : list Z) i, nth i l 0 = nthZ 0 l (Z.of_nat i)).
    { intros l i. unfold nthZ. destruct (Z.of_nat i <? 0) eqn:E; [lia|]. rewrite Nat2Z.id. reflexivity. }
    assert (LN : Z.of_nat (length pc) = N) by (destruct W as [W1 _]; exact W1).
    apply renumber_pattern; [exact Lp | |].
    - intros i j Hi Hj. rewrite !nthN. set (x := Z.of_nat i). set (y := Z.of_nat j).
      assert (Hx : 0 <= x < N) by (unfold x; lia). assert (Hy : 0 <= y < N) by (unfold y; lia).
      destruct (Z.eq_dec (nthZ 0 pc x) (-1)) as [Bx|Fx]; destruct (Z.eq_dec (nthZ 0 pc y) (-1)) as [By|Fy].
      + rewrite Bx, By. rewrite (proj1 (R2 x Hx) Bx), (proj1 (R2 y Hy) By). tauto.
      + assert (Fgy : fgn N pc y) by (split; assumption). destruct (Root y Fgy) as (k & P).
        pose proof (path_fg N pc h y _ k W Fgy P) as [Hr _].
        rewrite Bx, (proj1 (R2 x Hx) Bx). split; intro H; exfalso; [lia | apply Fy; apply R2; [exact Hy | symmetry; exact H]].
      + assert (Fgx : fgn N pc x) by (split; assumption). destruct (Root x Fgx) as (k & P).
        pose proof (path_fg N pc h x _ k W Fgx P) as [Hr _].
        rewrite By, (proj1 (R2 y Hy) By). split; intro H; exfalso; [lia | apply Fx; apply R2; [exact Hx | exact H]].
      + assert (Fgx : fgn N pc x) by (split; assumption). assert (Fgy : fgn N pc y) by (split; assumption).
        destruct (Root x Fgx) as (kx & Px). destruct (Root y Fgy) as (ky & Py).
        apply (R3 x y _ _ kx ky Fgx Fgy Px Py).
    - intros i Hi. rewrite !nthN. apply R2. lia.
  Qed.
End Whole.
