(* C18: the B-spline weights of orders 2, 3 and 4 sum to one at every real coordinate (partition of unity), so that
   interpolating a constant signal returns the constant and weights can be read as a convex-like combination. *)
Require Import QArith Qabs Qround Lia Lqa.
Require Import MV.Base.Prelude MV.Base.QHelp MV.Model.Interp MV.Proof.InterpProof.
Open Scope Q_scope.

Lemma qltb_comp a a' b b' : a == a' -> b == b' -> qltb a b = qltb a' b'.
Proof.
  intros Ea Eb. destruct (qltb a' b') eqn:E.
  - apply qltb_spec. apply qltb_spec in E. rewrite Ea, Eb. exact E.
  - apply qltb_false. apply qltb_false in E. rewrite Ea, Eb. exact E.
Qed.

Lemma bspline_comp o y y' : y == y' -> bspline o y == bspline o y'.
Proof.
  intro E. unfold bspline.
  destruct (o =? 1)%Z.
  { rewrite (qltb_comp 1 1 y y') by (reflexivity || exact E). destruct (qltb 1 y'); [reflexivity | rewrite E; reflexivity]. }
  destruct (o =? 2)%Z.
  { rewrite (qltb_comp y y' (1#2) (1#2)), (qltb_comp y y' (3#2) (3#2)) by (reflexivity || exact E).
    destruct (qltb y' (1#2)); [rewrite E; reflexivity|]. destruct (qltb y' (3#2)); [rewrite E; reflexivity | reflexivity]. }
  destruct (o =? 3)%Z.
  { rewrite (qltb_comp y y' 1 1), (qltb_comp y y' 2 2) by (reflexivity || exact E).
    destruct (qltb y' 1); [rewrite E; reflexivity|]. destruct (qltb y' 2); [rewrite E; reflexivity | reflexivity]. }
  rewrite (qltb_comp y y' (1#2) (1#2)), (qltb_comp y y' (3#2) (3#2)), (qltb_comp y y' (5#2) (5#2)) by (reflexivity || exact E).
  destruct (qltb y' (1#2)); [rewrite E; reflexivity|]. destruct (qltb y' (3#2)); [rewrite E; reflexivity|].
  destruct (qltb y' (5#2)); [rewrite E; reflexivity | reflexivity].
Qed.

(* the pieces, on closed intervals (the pieces agree at the knots) *)
Lemma b2_inner y : 0 <= y -> y <= 1#2 -> bspline 2 y == (3#4) - y * y.
Proof.
  intros H0 H1. destruct (Qlt_le_dec y (1#2)) as [L|G].
  - unfold bspline. cbn [Z.eqb Pos.eqb]. rewrite (qltb_t y (1#2)) by exact L. reflexivity.
  - assert (E : y == 1#2) by (apply Qle_antisym; assumption). rewrite (bspline_comp 2 y (1#2) E). rewrite E. vm_compute. reflexivity.
Qed.
Lemma b2_outer y : 1#2 <= y -> y <= 3#2 -> bspline 2 y == (1#2) * ((3#2) - y) * ((3#2) - y).
Proof.
  intros H0 H1. destruct (Qlt_le_dec y (3#2)) as [L|G].
  - unfold bspline. cbn [Z.eqb Pos.eqb]. rewrite (qltb_f y (1#2)) by exact H0. rewrite (qltb_t y (3#2)) by exact L. reflexivity.
  - assert (E : y == 3#2) by (apply Qle_antisym; assumption). rewrite (bspline_comp 2 y (3#2) E). rewrite E. vm_compute. reflexivity.
Qed.
Lemma b3_inner y : 0 <= y -> y <= 1 -> bspline 3 y == (y * y * (y - 2) * 3 + 4) / 6.
Proof.
  intros H0 H1. destruct (Qlt_le_dec y 1) as [L|G].
  - unfold bspline. cbn [Z.eqb Pos.eqb]. rewrite (qltb_t y 1) by exact L. reflexivity.
  - assert (E : y == 1) by (apply Qle_antisym; assumption). rewrite (bspline_comp 3 y 1 E). rewrite E. vm_compute. reflexivity.
Qed.
Lemma b3_outer y : 1 <= y -> y <= 2 -> bspline 3 y == (2 - y) * (2 - y) * (2 - y) / 6.
Proof.
  intros H0 H1. destruct (Qlt_le_dec y 2) as [L|G].
  - unfold bspline. cbn [Z.eqb Pos.eqb]. rewrite (qltb_f y 1) by exact H0. rewrite (qltb_t y 2) by exact L. reflexivity.
  - assert (E : y == 2) by (apply Qle_antisym; assumption). rewrite (bspline_comp 3 y 2 E). rewrite E. vm_compute. reflexivity.
Qed.
Lemma b4_inner y : 0 <= y -> y <= 1#2 -> bspline 4 y == (y * y) * ((y * y) * (1 # 4) - (5 # 8)) + (115 # 192).
Proof.
  intros H0 H1. destruct (Qlt_le_dec y (1#2)) as [L|G].
  - unfold bspline. cbn [Z.eqb Pos.eqb]. rewrite (qltb_t y (1#2)) by exact L. reflexivity.
  - assert (E : y == 1#2) by (apply Qle_antisym; assumption). rewrite (bspline_comp 4 y (1#2) E). rewrite E. vm_compute. reflexivity.
Qed.
Lemma b4_mid y : 1#2 <= y -> y <= 3#2 -> bspline 4 y == y * (y * (y * ((5 # 6) - y / 6) - (5 # 4)) + (5 # 24)) + (55 # 96).
Proof.
  intros H0 H1. destruct (Qlt_le_dec y (3#2)) as [L|G].
  - unfold bspline. cbn [Z.eqb Pos.eqb]. rewrite (qltb_f y (1#2)) by exact H0. rewrite (qltb_t y (3#2)) by exact L. reflexivity.
  - assert (E : y == 3#2) by (apply Qle_antisym; assumption). rewrite (bspline_comp 4 y (3#2) E). rewrite E. vm_compute. reflexivity.
Qed.
Lemma b4_outer y : 3#2 <= y -> y <= 5#2 ->
  bspline 4 y == ((y - (5 # 2)) * (y - (5 # 2))) * ((y - (5 # 2)) * (y - (5 # 2))) / 24.
Proof.
  intros H0 H1. destruct (Qlt_le_dec y (5#2)) as [L|G].
  - unfold bspline. cbn [Z.eqb Pos.eqb]. rewrite (qltb_f y (1#2)) by lra. rewrite (qltb_f y (3#2)) by exact H0.
    rewrite (qltb_t y (5#2)) by exact L. reflexivity.
  - assert (E : y == 5#2) by (apply Qle_antisym; assumption). rewrite (bspline_comp 4 y (5#2) E). rewrite E. vm_compute. reflexivity.
Qed.

(* fractional offsets: odd orders t = x - floor x in [0,1); even orders s = x - floor (x + 1/2) in [-1/2, 1/2) *)
Lemma round_frac x : let k := Qfloor (x + (1#2)) in - (1#2) <= x - inject_Z k /\ x - inject_Z k < 1#2.
Proof.
  cbv zeta. pose proof (Qfloor_le (x + (1#2))). pose proof (Qlt_floor (x + (1#2))).
  rewrite inject_Z_plus in H0. change (inject_Z 1) with 1 in H0. lra.
Qed.

Lemma inject_Z_minus a b : inject_Z (a - b) == inject_Z a - inject_Z b.
Proof. unfold Z.sub. rewrite inject_Z_plus, inject_Z_opp. ring. Qed.

Lemma abs_pos a : 0 <= a -> Qabs a == a. Proof. apply Qabs_pos. Qed.
Lemma abs_neg a : a <= 0 -> Qabs a == - a. Proof. apply Qabs_neg. Qed.

Theorem order3_partition_of_unity x : qsum (spline_weights 3 x) == 1.
Proof.
  destruct (floor_frac x) as [F0 F1]. cbv zeta in F0, F1.
  unfold spline_weights, spline_start. cbn [Z.odd].
  change (Z.quot 3 2) with 1%Z. change (Z.to_nat (3 + 1)) with 4%nat. cbn [Zseq map qsum fold_right].
  assert (E : Qfloor (x + 0) = Qfloor x) by (apply Qfloor_comp; ring). rewrite E.
  unfold zq.
  change (inject_Z (0 + 1 + 1 + 1)) with 3. change (inject_Z (0 + 1 + 1)) with 2. change (inject_Z (0 + 1)) with 1. change (inject_Z 0) with 0.
  assert (Hk : inject_Z (Qfloor x - 1) == inject_Z (Qfloor x) - 1) by (rewrite inject_Z_minus; reflexivity).
  set (k := inject_Z (Qfloor x)) in *. set (kk := inject_Z (Qfloor x - 1)) in *.
  set (t := x - k) in *. assert (Ht : t == x - k) by reflexivity. clearbody t kk k.
  rewrite (bspline_comp 3 (Qabs (kk - x + 0)) (1 + t)) by (rewrite abs_neg by lra; lra).
  rewrite (bspline_comp 3 (Qabs (kk - x + 1)) t) by (rewrite abs_neg by lra; lra).
  rewrite (bspline_comp 3 (Qabs (kk - x + 2)) (1 - t)) by (rewrite abs_pos by lra; lra).
  rewrite (bspline_comp 3 (Qabs (kk - x + 3)) (2 - t)) by (rewrite abs_pos by lra; lra).
  rewrite (b3_outer (1 + t)), (b3_inner t), (b3_inner (1 - t)), (b3_outer (2 - t)) by lra.
  field.
Qed.

Theorem order2_partition_of_unity x : qsum (spline_weights 2 x) == 1.
Proof.
  destruct (round_frac x) as [F0 F1]. cbv zeta in F0, F1.
  unfold spline_weights, spline_start. cbn [Z.odd].
  change (Z.quot 2 2) with 1%Z. change (Z.to_nat (2 + 1)) with 3%nat. cbn [Zseq map qsum fold_right].
  unfold zq.
  change (inject_Z (0 + 1 + 1)) with 2. change (inject_Z (0 + 1)) with 1. change (inject_Z 0) with 0.
  assert (Hk : inject_Z (Qfloor (x + (1#2)) - 1) == inject_Z (Qfloor (x + (1#2))) - 1) by (rewrite inject_Z_minus; reflexivity).
  set (k := inject_Z (Qfloor (x + (1#2)))) in *. set (kk := inject_Z (Qfloor (x + (1#2)) - 1)) in *.
  set (s := x - k) in *. assert (Hs : s == x - k) by reflexivity. clearbody s kk k.
  rewrite (bspline_comp 2 (Qabs (kk - x + 0)) (1 + s)) by (rewrite abs_neg by lra; lra).
  rewrite (bspline_comp 2 (Qabs (kk - x + 2)) (1 - s)) by (rewrite abs_pos by lra; lra).
  rewrite (b2_outer (1 + s)), (b2_outer (1 - s)) by lra.
  destruct (Qlt_le_dec s 0) as [N|P].
  - rewrite (bspline_comp 2 (Qabs (kk - x + 1)) (- s)) by (rewrite abs_pos by lra; lra).
    rewrite (b2_inner (- s)) by lra. ring.
  - rewrite (bspline_comp 2 (Qabs (kk - x + 1)) s) by (rewrite abs_neg by lra; lra).
    rewrite (b2_inner s) by lra. ring.
Qed.

Theorem order4_partition_of_unity x : qsum (spline_weights 4 x) == 1.
Proof.
  destruct (round_frac x) as [F0 F1]. cbv zeta in F0, F1.
  unfold spline_weights, spline_start. cbn [Z.odd].
  change (Z.quot 4 2) with 2%Z. change (Z.to_nat (4 + 1)) with 5%nat. cbn [Zseq map qsum fold_right].
  unfold zq.
  change (inject_Z (0 + 1 + 1 + 1 + 1)) with 4. change (inject_Z (0 + 1 + 1 + 1)) with 3.
  change (inject_Z (0 + 1 + 1)) with 2. change (inject_Z (0 + 1)) with 1. change (inject_Z 0) with 0.
  assert (Hk : inject_Z (Qfloor (x + (1#2)) - 2) == inject_Z (Qfloor (x + (1#2))) - 2) by (rewrite inject_Z_minus; reflexivity).
  set (k := inject_Z (Qfloor (x + (1#2)))) in *. set (kk := inject_Z (Qfloor (x + (1#2)) - 2)) in *.
  set (s := x - k) in *. assert (Hs : s == x - k) by reflexivity. clearbody s kk k.
  rewrite (bspline_comp 4 (Qabs (kk - x + 0)) (2 + s)) by (rewrite abs_neg by lra; lra).
  rewrite (bspline_comp 4 (Qabs (kk - x + 1)) (1 + s)) by (rewrite abs_neg by lra; lra).
  rewrite (bspline_comp 4 (Qabs (kk - x + 3)) (1 - s)) by (rewrite abs_pos by lra; lra).
  rewrite (bspline_comp 4 (Qabs (kk - x + 4)) (2 - s)) by (rewrite abs_pos by lra; lra).
  rewrite (b4_outer (2 + s)), (b4_mid (1 + s)), (b4_mid (1 - s)), (b4_outer (2 - s)) by lra.
  destruct (Qlt_le_dec s 0) as [N|P].
  - rewrite (bspline_comp 4 (Qabs (kk - x + 2)) (- s)) by (rewrite abs_pos by lra; lra).
    rewrite (b4_inner (- s)) by lra. field.
  - rewrite (bspline_comp 4 (Qabs (kk - x + 2)) s) by (rewrite abs_neg by lra; lra).
    rewrite (b4_inner s) by lra. field.
Qed.

(* ---- consequence: a constant signal is reproduced exactly at every in-range coordinate, for every order *)
Open Scope Z_scope.
Lemma edge_index_range len idx : 1 <= len -> 0 <= edge_index len idx < len.
Proof.
  intro H. unfold edge_index. destruct (len <=? 1) eqn:L1; [lia|]. apply Z.leb_gt in L1.
  cbv zeta. set (s2 := 2 * len - 2). assert (S2 : 0 < s2) by (unfold s2; lia).
  destruct (idx <? 0) eqn:A.
  - apply Z.ltb_lt in A. rewrite Z.quot_div_nonneg by lia.
    pose proof (Z.div_mod (- idx) s2 ltac:(lia)) as DM. pose proof (Z.mod_pos_bound (- idx) s2 S2) as MB.
    set (q := - idx / s2) in *. set (r := (- idx) mod s2) in *.
    assert (E : s2 * q + idx = - r) by lia. rewrite E.
    destruct (- r <=? 1 - len) eqn:B; [apply Z.leb_le in B | apply Z.leb_gt in B]; unfold s2 in *; lia.
  - apply Z.ltb_ge in A. destruct (idx >=? len) eqn:B.
    + rewrite Z.quot_div_nonneg by lia.
      pose proof (Z.div_mod idx s2 ltac:(lia)) as DM. pose proof (Z.mod_pos_bound idx s2 S2) as MB.
      set (q := idx / s2) in *. set (r := idx mod s2) in *.
      assert (E : idx - s2 * q = r) by lia. rewrite E.
      destruct (r >=? len) eqn:C; [apply Z.geb_le in C | rewrite Z.geb_leb in C; apply Z.leb_gt in C]; unfold s2 in *; lia.
    + rewrite Z.geb_leb in B. apply Z.leb_gt in B. lia.
Qed.
Close Scope Z_scope.

Lemma qsum_weighted_const c (f : Z -> Q) : forall (idxs : list Z) (ws : list Q),
  (forall i, In i idxs -> f i == c) -> length idxs = length ws ->
  qsum (map (fun hw : Z * Q => snd hw * f (fst hw)) (combine idxs ws)) == c * qsum ws.
Proof.
  induction idxs as [|i idxs IH]; intros [|w ws] Hf Hl; try discriminate; cbn [combine map qsum fold_right fst snd].
  - ring.
  - rewrite (Hf i) by (left; reflexivity).
    fold (qsum (map (fun hw : Z * Q => snd hw * f (fst hw)) (combine idxs ws))). fold (qsum ws).
    rewrite IH; [ring | intros j Hj; apply Hf; right; exact Hj | injection Hl as Hl; exact Hl].
Qed.

Lemma nthZ_all_eq c (dat : list Q) i : Forall (fun v => v == c) dat -> (0 <= i < Zlen dat)%Z -> nthZ 0 dat i == c.
Proof.
  intros F R. pose proof (nthZ_In 0 dat i R) as Hin. rewrite Forall_forall in F. apply F. exact Hin.
Qed.

Lemma spline_weights_length order x : length (spline_weights order x) = Z.to_nat (order + 1).
Proof. unfold spline_weights. rewrite map_length. apply Zseq_length. Qed.

Theorem constant_signal_reproduced order mode dat c x :
  (order = 1 \/ order = 2 \/ order = 3 \/ order = 4)%Z -> Forall (fun v => v == c) dat -> (1 <= Zlen dat)%Z ->
  0 <= x -> x <= inject_Z (Zlen dat - 1) -> interp1 order mode dat x == c.
Proof.
  intros Ho Hc Hl H0 H1. unfold interp1. rewrite map_coordinate_inside by assumption.
  rewrite (qsum_weighted_const c (fun i => nthZ 0 dat (edge_index (Zlen dat) (spline_start order x + i)))).
  - assert (P : qsum (spline_weights order x) == 1).
    { destruct Ho as [ -> | [ -> | [ -> | -> ] ] ];
        [apply order1_partition_of_unity | apply order2_partition_of_unity | apply order3_partition_of_unity | apply order4_partition_of_unity]. }
    rewrite P. ring.
  - intros i _. apply nthZ_all_eq; [exact Hc | apply edge_index_range; exact Hl].
  - rewrite Zseq_length, spline_weights_length. reflexivity.
Qed.
