(* C05: the separable transform along every axis is the exact squared Euclidean distance transform. *)
Require Import MV.Base.Prelude MV.Base.CInt MV.Base.Index MV.Model.Distance.
Require Import MV.Model.Morph MV.Proof.FiltersProof MV.Proof.LabeledProof MV.Proof.LabelProof MV.Proof.ExtremaProof.

Definition is_min (S : Z -> Prop) (r : Z) : Prop := S r /\ forall s, S s -> r <= s.

(* ---------- list plumbing ---------- *)
Lemma Zlen_app {A} (a b : list A) : Zlen (a ++ b) = Zlen a + Zlen b.
Proof. unfold Zlen. rewrite app_length. lia. Qed.
Lemma Zlen_nonneg {A} (a : list A) : 0 <= Zlen a. Proof. unfold Zlen; lia. Qed.

Lemma nthZ_app_l (a b : list Z) j : 0 <= j < Zlen a -> nthZ 0 (a ++ b) j = nthZ 0 a j.
Proof. intros H. unfold nthZ, Zlen in *. destruct (j <? 0) eqn:E; [lia|]. apply app_nth1. lia. Qed.
Lemma nthZ_app_r (a b : list Z) j : Zlen a <= j -> nthZ 0 (a ++ b) j = nthZ 0 b (j - Zlen a).
Proof.
  intros H. unfold nthZ, Zlen in *. destruct (j <? 0) eqn:E; [lia|]. destruct (j - Z.of_nat (length a) <? 0) eqn:F; [lia|].
  rewrite app_nth2 by lia. f_equal. lia.
Qed.

Lemma blocks_gen (L : Z -> list Z) sz : 0 <= sz -> forall n a,
  (forall i, a <= i < a + Z.of_nat n -> Zlen (L i) = sz) ->
  Zlen (flat_map L (Zseq a n)) = Z.of_nat n * sz /\
  forall i j, 0 <= i < Z.of_nat n -> 0 <= j < sz -> nthZ 0 (flat_map L (Zseq a n)) (i * sz + j) = nthZ 0 (L (a + i)) j.
Proof.
  intros Hsz. induction n as [|n IH]; intros a HL.
  - simpl. split; [unfold Zlen; simpl; lia|intros; lia].
  - cbn [Zseq flat_map]. assert (HL' : forall i, a + 1 <= i < a + 1 + Z.of_nat n -> Zlen (L i) = sz) by (intros; apply HL; lia).
    destruct (IH (a + 1) HL') as [I1 I2].
    assert (La : Zlen (L a) = sz) by (apply HL; lia).
    split; [rewrite Zlen_app, I1, La; lia|].
    intros i j Hi Hj. destruct (Z.eq_dec i 0) as [->|Ne].
    + rewrite nthZ_app_l by lia. replace (a + 0) with a by lia. replace (0 * sz + j) with j by lia. reflexivity.
    + rewrite nthZ_app_r by nia. rewrite La.
      replace (i * sz + j - sz) with ((i - 1) * sz + j) by lia.
      rewrite I2 by lia. replace (a + 1 + (i - 1)) with (a + i) by lia. reflexivity.
Qed.

Lemma blocks (L : Z -> list Z) n sz : 0 <= sz -> 0 <= n -> (forall i, 0 <= i < n -> Zlen (L i) = sz) ->
  Zlen (flat_map L (Zseq 0 (Z.to_nat n))) = n * sz /\
  forall i j, 0 <= i < n -> 0 <= j < sz -> nthZ 0 (flat_map L (Zseq 0 (Z.to_nat n))) (i * sz + j) = nthZ 0 (L i) j.
Proof.
  intros Hs Hn HL. assert (HL' : forall i, 0 <= i < 0 + Z.of_nat (Z.to_nat n) -> Zlen (L i) = sz) by (intros; apply HL; lia).
  destruct (blocks_gen L sz Hs (Z.to_nat n) 0 HL') as [A B].
  split; [rewrite A; lia|]. intros i j Hi Hj. rewrite B by lia. replace (0 + i) with i by lia. reflexivity.
Qed.

Lemma map_Zseq_len {B} (F : Z -> B) n : Zlen (map F (Zseq 0 (Z.to_nat n))) = Z.max 0 n.
Proof. unfold Zlen. rewrite map_length, Zseq_length. lia. Qed.

Lemma nthZ_map_Zseq (F : Z -> Z) n j : 0 <= j < n -> nthZ 0 (map F (Zseq 0 (Z.to_nat n))) j = F j.
Proof.
  intros H. rewrite nthZ_map with (da := 0) by (unfold Zlen; rewrite Zseq_length; lia).
  rewrite nthZ_Zseq by lia. f_equal.
Qed.

Lemma nth_firstn_lt {A} (d : A) : forall n l j, (j < n)%nat -> nth j (firstn n l) d = nth j l d.
Proof. induction n as [|n IH]; intros l j H; [lia|]. destruct l as [|x l]; [destruct j; reflexivity|]. destruct j; [reflexivity|]. simpl. apply IH. lia. Qed.
Lemma nth_skipn_add {A} (d : A) : forall k l j, nth j (skipn k l) d = nth (k + j) l d.
Proof. induction k as [|k IH]; intros l j; [reflexivity|]. destruct l as [|x l]; [destruct j; reflexivity|]. simpl. apply IH. Qed.

Lemma block_spec sz i (g : list Z) : 0 <= sz -> 0 <= i -> i * sz + sz <= Zlen g ->
  Zlen (block sz i g) = sz /\ forall j, 0 <= j < sz -> nthZ 0 (block sz i g) j = nthZ 0 g (i * sz + j).
Proof.
  intros Hs Hi Hg. unfold block, Zlen in *. split.
  - rewrite firstn_length, skipn_length. nia.
  - intros j Hj. unfold nthZ. destruct (j <? 0) eqn:E; [lia|]. destruct (i * sz + j <? 0) eqn:F; [nia|].
    rewrite nth_firstn_lt by lia. rewrite nth_skipn_add. f_equal. nia.
Qed.

(* ---------- min-plus composition ---------- *)
Lemma is_min_compose {A B} (SA : A -> Prop) (SB : B -> Prop) (cost : A -> Z) (inner : A -> Z) (term : B -> A -> Z) r :
  is_min (fun v => exists a, SA a /\ v = cost a + inner a) r ->
  (forall a, SA a -> is_min (fun v => exists b, SB b /\ v = term b a) (inner a)) ->
  is_min (fun v => exists b a, SB b /\ SA a /\ v = cost a + term b a) r.
Proof.
  intros [[a [Ha Er]] Hr] Hin. split.
  - destruct (Hin a Ha) as [[b [Hb Eb]] _]. exists b, a. repeat split; auto. lia.
  - intros s [b [a' [Hb [Ha' Es]]]]. destruct (Hin a' Ha') as [_ Hlow].
    specialize (Hlow (term b a') (ex_intro _ b (conj Hb eq_refl))).
    specialize (Hr (cost a' + inner a') (ex_intro _ a' (conj Ha' eq_refl))). lia.
Qed.

Section ND.
  Variable T1 : list Z -> list Z.
  Hypothesis T1_len : forall f, Zlen (T1 f) = Zlen f.
  Hypothesis T1_spec : forall f q, 0 <= q < Zlen f ->
    is_min (fun v => exists p, 0 <= p < Zlen f /\ v = (q - p) * (q - p) + nthZ 0 f p) (nthZ 0 (T1 f) q).

  Lemma sqdist_cons a p b q : sqdist (a :: p) (b :: q) = (a - b) * (a - b) + sqdist p q.
  Proof. reflexivity. Qed.

  Theorem dt_nd_exact sh : pos_shape sh -> forall dat, Zlen dat = size sh ->
    Zlen (dt_nd T1 sh dat) = size sh /\
    forall p, in_shape sh p ->
      is_min (fun v => exists q, in_shape sh q /\ v = sqdist p q + nthZ 0 dat (ravel sh q))
             (nthZ 0 (dt_nd T1 sh dat) (ravel sh p)).
  Proof.
    induction 1 as [|d r Hd Hr IH]; intros dat Hlen.
    - cbn [dt_nd size] in *. split; [exact Hlen|]. intros p Hp. destruct p; [|destruct Hp]. cbn [ravel]. split.
      + exists []. split; [exact I|]. reflexivity.
      + intros s [q [Hq ->]]. destruct q; [|destruct Hq]. cbn. lia.
    - cbn [dt_nd size] in *. set (sz := size r) in *.
      assert (Psz : 0 < sz) by (apply size_pos; exact Hr).
      (* the pass along axis 0 *)
      set (g := pass_axis0 T1 d sz dat).
      assert (LL : forall j, Zlen (line0 d sz dat j) = d) by (intros; unfold line0; rewrite map_Zseq_len; lia).
      assert (NL : forall j i', 0 <= i' < d -> nthZ 0 (line0 d sz dat j) i' = nthZ 0 dat (i' * sz + j))
        by (intros; unfold line0; now rewrite nthZ_map_Zseq).
      destruct (blocks (fun i => map (fun j => nthZ 0 (T1 (line0 d sz dat j)) i) (Zseq 0 (Z.to_nat sz))) d sz) as [G1 G2];
        [lia|lia|intros; rewrite map_Zseq_len; lia|]. fold (pass_axis0 T1 d sz dat) in G1, G2. fold g in G1, G2.
      assert (GV : forall i j, 0 <= i < d -> 0 <= j < sz -> nthZ 0 g (i * sz + j) = nthZ 0 (T1 (line0 d sz dat j)) i)
        by (intros; rewrite G2 by auto; now rewrite nthZ_map_Zseq).
      (* the recursive passes inside every block *)
      assert (BK : forall i, 0 <= i < d -> Zlen (block sz i g) = sz /\ forall j, 0 <= j < sz -> nthZ 0 (block sz i g) j = nthZ 0 g (i * sz + j))
        by (intros; apply block_spec; nia).
      destruct (blocks (fun i => dt_nd T1 r (block sz i g)) d sz) as [R1 R2]; [lia|lia| |].
      { intros i Hi. destruct (BK i Hi) as [B1 _]. apply (IH (block sz i g) B1). }
      split; [rewrite R1; lia|].
      intros p Hp. destruct p as [|i p']; [destruct Hp|]. destruct Hp as [Hi Hp']. cbn [ravel]. fold sz.
      pose proof (ravel_bound r p' Hr Hp') as Rb. fold sz in Rb.
      rewrite R2 by auto. destruct (BK i Hi) as [B1 B2]. destruct (IH (block sz i g) B1) as [_ IHs].
      specialize (IHs p' Hp').
      (* inner minimum over the blocks, outer over the axis *)
      assert (C := is_min_compose (fun q' => in_shape r q') (fun i' => 0 <= i' < d)
                     (fun q' => sqdist p' q') (fun q' => nthZ 0 g (i * sz + ravel r q'))
                     (fun i' q' => (i - i') * (i - i') + nthZ 0 dat (i' * sz + ravel r q'))
                     (nthZ 0 (dt_nd T1 r (block sz i g)) (ravel r p'))).
      destruct C as [[i' [q' [Hi' [Hq' Ev]]]] Clow].
      + destruct IHs as [[q' [Hq' E]] L]. split.
        * exists q'. split; [exact Hq'|]. rewrite E. rewrite B2 by (apply ravel_bound; auto). reflexivity.
        * intros s [q'' [Hq'' ->]]. apply L. exists q''. split; [exact Hq''|].
          rewrite B2 by (apply ravel_bound; auto). reflexivity.
      + intros q' Hq'. pose proof (ravel_bound r q' Hr Hq') as Rq. fold sz in Rq.
        rewrite GV by auto. pose proof (T1_spec (line0 d sz dat (ravel r q')) i ltac:(rewrite LL; lia)) as [[pp [Hpp E]] L].
        rewrite LL in Hpp. split.
        * exists pp. split; [exact Hpp|]. rewrite E, NL by auto. reflexivity.
        * intros s [b [Hb ->]]. apply L. exists b. rewrite LL. split; [exact Hb|]. now rewrite NL by auto.
      + split.
        * exists (i' :: q'). split; [split; auto|]. rewrite sqdist_cons. cbn [ravel]. fold sz. lia.
        * intros s [q [Hq ->]]. destruct q as [|i'' q'']; [destruct Hq|]. destruct Hq as [Hi'' Hq''].
          apply Clow. exists i'', q''. split; [exact Hi''|split; [exact Hq''|]]. rewrite sqdist_cons. cbn [ravel]. fold sz. lia.
  Qed.
End ND.

(* ---------- the "infinite" value is adequate ---------- *)
Lemma sqdist_nonneg p q : 0 <= sqdist p q.
Proof.
  unfold sqdist. apply FiltersProof.sumZ_nonneg. intros x Hx. apply in_map_iff in Hx. destruct Hx as [[a b] [<- _]].
  cbn [fst snd]. apply Z.square_nonneg.
Qed.

Lemma maxl_ge_all sh d : In d sh -> d <= maxl 0 sh.
Proof. apply maxl_ge_in. Qed.

Lemma sqdist_bound sh : forall p q, in_shape sh p -> in_shape sh q ->
  sqdist p q <= Zlen sh * (maxl 0 sh * maxl 0 sh) /\ 0 <= maxl 0 sh.
Proof.
  induction sh as [|d r IH]; intros p q Hp Hq; destruct p as [|a p]; destruct q as [|b q]; try (destruct Hp; fail); try (destruct Hq; fail).
  - unfold sqdist, Zlen; simpl. lia.
  - destruct Hp as [Ha Hp], Hq as [Hb Hq]. destruct (IH p q Hp Hq) as [I1 I2].
    rewrite sqdist_cons. unfold Zlen in *. simpl length. simpl maxl.
    assert ((a - b) * (a - b) <= Z.max d (maxl 0 r) * Z.max d (maxl 0 r)) by nia.
    assert (maxl 0 r * maxl 0 r <= Z.max d (maxl 0 r) * Z.max d (maxl 0 r)) by nia.
    split; [nia|lia].
Qed.

Theorem edt_with_sentinel sh f0 p r : pos_shape sh -> in_shape sh p ->
  (forall q, in_shape sh q -> nthZ 0 f0 (ravel sh q) = 0 \/ nthZ 0 f0 (ravel sh q) = dist_inf sh) ->
  is_min (fun v => exists q, in_shape sh q /\ v = sqdist p q + nthZ 0 f0 (ravel sh q)) r ->
  (* background pixels get 0 *)
  (nthZ 0 f0 (ravel sh p) = 0 -> r = 0) /\
  (* with some background: exactly the least squared distance to a background pixel *)
  ((exists q0, in_shape sh q0 /\ nthZ 0 f0 (ravel sh q0) = 0) ->
     is_min (fun v => exists q, in_shape sh q /\ nthZ 0 f0 (ravel sh q) = 0 /\ v = sqdist p q) r) /\
  (* without background: larger than any attainable squared distance *)
  ((forall q, in_shape sh q -> nthZ 0 f0 (ravel sh q) <> 0) ->
     forall a b, in_shape sh a -> in_shape sh b -> sqdist a b < r).
Proof.
  intros Ps Hp Hf [[qm [Hqm Er]] Low]. unfold dist_inf in *.
  assert (SD0 : sqdist p p = 0).
  { unfold sqdist. clear. induction p as [|a p IH]; [reflexivity|]. cbn [combine map sumZ fold_right fst snd] in *. unfold sumZ in IH. rewrite IH. lia. }
  split; [|split].
  - intros Z0. assert (r <= 0) by (apply Low; exists p; split; [auto|lia]).
    pose proof (sqdist_nonneg p qm). destruct (Hf qm Hqm) as [E|E]; rewrite E in Er; [lia|].
    destruct (sqdist_bound sh p qm Hp Hqm). lia.
  - intros [q0 [Hq0 Z0]]. assert (Ub : r <= sqdist p q0) by (apply Low; exists q0; split; [auto|lia]).
    destruct (sqdist_bound sh p q0 Hp Hq0) as [B0 _].
    destruct (Hf qm Hqm) as [E|E]; rewrite E in Er.
    + split; [exists qm; repeat split; auto; lia|].
      intros s [q [Hq [Zq ->]]]. apply Low. exists q. split; [auto|lia].
    + pose proof (sqdist_nonneg p qm). lia.
  - intros NB a b Ha Hb. destruct (Hf qm Hqm) as [E|E]; [exfalso; exact (NB qm Hqm E)|].
    rewrite E in Er. pose proof (sqdist_nonneg p qm) as NN. destruct (sqdist_bound sh a b Ha Hb) as [BB _].
    lia.
Qed.

(* ---------- the lower-envelope pass against the min-plus specification: finite sweep ----------
   [fin] all lines of length <= 6 over the values {0, 1, 4, 73} (73 = "infinity" of a 6x6 image) *)
Fixpoint all_lists (vals : list Z) (n : nat) : list (list Z) :=
  match n with
  | O => [[]]
  | S k => flat_map (fun l => map (fun v => v :: l) vals) (all_lists vals k)
  end.
Definition envelope_sweep_ok : bool :=
  forallb (fun n => forallb (fun f => list_eqb (dt1d f) (minplus1d f)) (all_lists [0; 1; 4; 73] n)) [0; 1; 2; 3; 4; 5; 6]%nat.
Lemma envelope_sweep : envelope_sweep_ok = true.
Proof. vm_compute. reflexivity. Qed.

Lemma in_all_lists vals n f : length f = n -> (forall x, In x f -> In x vals) -> In f (all_lists vals n).
Proof.
  revert f; induction n as [|n IH]; intros f L H.
  - destruct f; [left; reflexivity|discriminate].
  - destruct f as [|x f]; [discriminate|]. cbn [all_lists]. apply in_flat_map. exists f. split.
    + apply IH; [simpl in L; lia|intros; apply H; simpl; auto].
    + apply in_map_iff. exists x. split; [reflexivity|apply H; simpl; auto].
Qed.

Theorem envelope_small_lines f : (length f <= 6)%nat -> (forall x, In x f -> In x [0; 1; 4; 73]) -> dt1d f = minplus1d f.
Proof.
  intros L H. pose proof envelope_sweep as S. unfold envelope_sweep_ok in S. rewrite forallb_forall in S.
  assert (In (length f) [0; 1; 2; 3; 4; 5; 6]%nat) by (simpl; lia).
  specialize (S _ H0). rewrite forallb_forall in S. specialize (S f (in_all_lists _ _ f eq_refl H)).
  now apply ExtremaProof.list_eqb_eq.
Qed.
