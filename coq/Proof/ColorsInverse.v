(* C20: the matrix of xyz2rgb inverts the matrix of rgb2xyz to within 1/1000 on linear RGB in [0,1] (both matrices are the
   4-digit ones written in colors.py and RE-TRANSLATED on every run; the identities below hold by computation on the generated
   definitions). *)
Require Import Reals Lra.
Require Import MV.Base.RHelp MV.Gen.Colors_gen.
Open Scope R_scope.

Definition M_apply (lr lg lb : R) : R * R * R :=
  (((IZR (1031) / IZR (2500)) * lr + (IZR (447) / IZR (1250)) * lg + (IZR (361) / IZR (2000)) * lb),
   ((IZR (1063) / IZR (5000)) * lr + (IZR (447) / IZR (625)) * lg + (IZR (361) / IZR (5000)) * lb),
   ((IZR (193) / IZR (10000)) * lr + (IZR (149) / IZR (1250)) * lg + (IZR (1901) / IZR (2000)) * lb)).

Definition Minv_apply (x y z : R) : R * R * R :=
  (((IZR (16203) / IZR (5000)) * x + (IZR (-3843) / IZR (2500)) * y + (IZR (-2493) / IZR (5000)) * z),
   ((IZR (-9689) / IZR (10000)) * x + (IZR (9379) / IZR (5000)) * y + (IZR (83) / IZR (2000)) * z),
   ((IZR (557) / IZR (10000)) * x + (IZR (-51) / IZR (250)) * y + (IZR (1057) / IZR (1000)) * z)).

(* the generated conversions are: transfer function, then M;  Minv, then inverse transfer function *)
Lemma rgb2xyz_is_M r g b : rgb2xyz_px r g b = M_apply (srgb_to_linear r) (srgb_to_linear g) (srgb_to_linear b).
Proof. reflexivity. Qed.

Lemma xyz2rgb_is_Minv x y z :
  xyz2rgb_px x y z = let '(a, b, c) := Minv_apply x y z in (linear_to_srgb a, linear_to_srgb b, linear_to_srgb c).
Proof. reflexivity. Qed.

Theorem matrices_inverse_within_1e3 lr lg lb : 0 <= lr <= 1 -> 0 <= lg <= 1 -> 0 <= lb <= 1 ->
  let '(x, y, z) := M_apply lr lg lb in
  let '(a, b, c) := Minv_apply x y z in
  Rabs (a - lr) <= 1 / 1000 /\ Rabs (b - lg) <= 1 / 1000 /\ Rabs (c - lb) <= 1 / 1000.
Proof.
  intros H1 H2 H3. unfold M_apply, Minv_apply. repeat split; apply Rabs_le; lra.
Qed.
