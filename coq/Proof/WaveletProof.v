(* C17: Haar inverse / energy / linearity (exact), Daubechies table orthonormality [fin], centring inverse. *)
Require Import QArith.
Require Import MV.Base.Prelude MV.Base.QHelp MV.Gen.Tables_gen MV.Model.Wavelet.
Open Scope Z_scope.

Definition unpairs (P : list (Z * Z)) : list Z := flat_map (fun ab => [fst ab; snd ab]) P.

Lemma unpairs_pairs n : forall l, length l = (2 * n)%nat -> unpairs (pairs l) = l.
Proof.
  induction n as [|n IH]; intros l H.
  - destruct l; [reflexivity|discriminate].
  - destruct l as [|a [|b t]]; try (simpl in H; lia). cbn [pairs unpairs flat_map fst snd app].
    f_equal. f_equal. apply IH. simpl in H. lia.
Qed.

Lemma pairs_length n : forall l, length l = (2 * n)%nat -> length (pairs l) = n.
Proof.
  induction n as [|n IH]; intros l H.
  - destruct l; [reflexivity|discriminate].
  - destruct l as [|a [|b t]]; try (simpl in H; lia). cbn [pairs length]. f_equal. apply IH. simpl in H. lia.
Qed.

Lemma ihaar_pairs P :
  flat_map (fun lh => [(fst lh - snd lh) / 2; (fst lh + snd lh) / 2])
           (combine (map (fun ab => fst ab + snd ab) P) (map (fun ab => snd ab - fst ab) P)) = unpairs P.
Proof.
  induction P as [|[a b] P IH]; [reflexivity|]. cbn [map combine flat_map fst snd app unpairs] in *. rewrite IH.
  replace (a + b - (b - a)) with (a * 2) by lia. replace (a + b + (b - a)) with (b * 2) by lia.
  rewrite !Z.div_mul by lia. reflexivity.
Qed.

(* ihaar undoes haar on every row of even length (exactly: integer images) *)
Theorem ihaar_row_haar_row l n : length l = (2 * n)%nat -> ihaar_row (haar_row l) = l.
Proof.
  intros H. unfold ihaar_row, haar_row. pose proof (pairs_length n l H) as LP.
  rewrite app_length, !map_length, LP.
  replace ((n + n) / 2)%nat with n by (replace (n + n)%nat with (n * 2)%nat by lia; now rewrite Nat.div_mul).
  rewrite firstn_app, skipn_app, !map_length, LP, Nat.sub_diag.
  rewrite firstn_all2 by (rewrite map_length; lia). rewrite (skipn_all2 (n := n)) by (rewrite map_length; lia).
  cbn [firstn skipn app]. rewrite app_nil_r.
  rewrite ihaar_pairs. now apply unpairs_pairs with (n := n).
Qed.

(* one Haar pass doubles the sum of squares: after the two passes and the division by 2 of preserve_energy the sum of
   squares is conserved (4 * sum (h/2)^2 = sum h^2) *)
Lemma sumZ_app a b : sumZ (a ++ b) = sumZ a + sumZ b.
Proof. induction a as [|x a IH]; [reflexivity|]. cbn [app]. unfold sumZ in *. cbn [fold_right]. rewrite IH. lia. Qed.
Lemma sumsq_app a b : sumsq (a ++ b) = sumsq a + sumsq b.
Proof. unfold sumsq. now rewrite map_app, sumZ_app. Qed.
Lemma sumsq_cons x l : sumsq (x :: l) = x * x + sumsq l. Proof. reflexivity. Qed.
Lemma sumsq_pairs P : sumsq (map (fun ab => fst ab + snd ab) P) + sumsq (map (fun ab => snd ab - fst ab) P) = 2 * sumsq (unpairs P).
Proof.
  induction P as [|[a b] P IH]; [reflexivity|].
  cbn [map unpairs flat_map fst snd app]. fold (unpairs P). rewrite !sumsq_cons. nia.
Qed.
Theorem haar_row_energy l n : length l = (2 * n)%nat -> sumsq (haar_row l) = 2 * sumsq l.
Proof. intros H. unfold haar_row. rewrite sumsq_app, sumsq_pairs, (unpairs_pairs n) by auto. reflexivity. Qed.

(* linearity of a Haar pass *)
Definition ladd (a b : list Z) : list Z := map (fun xy => fst xy + snd xy) (combine a b).
Lemma pairs_ladd n : forall a b, length a = (2 * n)%nat -> length b = (2 * n)%nat ->
  pairs (ladd a b) = map (fun pq => (fst (fst pq) + fst (snd pq), snd (fst pq) + snd (snd pq))) (combine (pairs a) (pairs b)).
Proof.
  induction n as [|n IH]; intros a b Ha Hb.
  - destruct a; [|discriminate]. reflexivity.
  - destruct a as [|a1 [|a2 a]]; try (simpl in Ha; lia). destruct b as [|b1 [|b2 b]]; try (simpl in Hb; lia).
    cbn [ladd combine map pairs fst snd]. f_equal. apply IH; simpl in *; lia.
Qed.
Lemma combine_app' {A B} (a a' : list A) (b b' : list B) : length a = length b ->
  combine (a ++ a') (b ++ b') = combine a b ++ combine a' b'.
Proof. revert b; induction a as [|x a IH]; intros [|y b] H; simpl in *; try discriminate; [reflexivity|]. f_equal. apply IH. lia. Qed.

Lemma combine_map' {A B C D} (f : A -> C) (g : B -> D) (a : list A) (b : list B) :
  combine (map f a) (map g b) = map (fun pq => (f (fst pq), g (snd pq))) (combine a b).
Proof. revert b; induction a as [|x a IH]; intros [|y b]; simpl; try reflexivity. f_equal. apply IH. Qed.

Theorem haar_row_additive a b n : length a = (2 * n)%nat -> length b = (2 * n)%nat ->
  haar_row (ladd a b) = ladd (haar_row a) (haar_row b).
Proof.
  intros Ha Hb. unfold haar_row. rewrite (pairs_ladd n) by auto.
  pose proof (pairs_length n a Ha) as La. pose proof (pairs_length n b Hb) as Lb.
  unfold ladd. rewrite combine_app' by (rewrite !map_length; lia). rewrite map_app. f_equal.
  - rewrite combine_map', !map_map. apply map_ext. intros [[p q] [r s]]. cbn. lia.
  - rewrite combine_map', !map_map. apply map_ext. intros [[p q] [r s]]. cbn. lia.
Qed.
Theorem haar_row_homogeneous k l : haar_row (map (Z.mul k) l) = map (Z.mul k) (haar_row l).
Proof.
  unfold haar_row. assert (P : pairs (map (Z.mul k) l) = map (fun ab => (k * fst ab, k * snd ab)) (pairs l)).
  { assert (G : forall n l0, (length l0 <= n)%nat -> pairs (map (Z.mul k) l0) = map (fun ab => (k * fst ab, k * snd ab)) (pairs l0)).
    { induction n as [|n IH]; intros l0 H; [destruct l0; [reflexivity|simpl in H; lia]|].
      destruct l0 as [|a [|b t]]; try reflexivity. cbn [map pairs fst snd]. f_equal. apply IH. simpl in H. lia. }
    apply (G (length l)). lia. }
  rewrite P, map_app, !map_map. f_equal; apply map_ext; intros [a b]; cbn; lia.
Qed.

(* ---------- Daubechies tables [fin] ---------- *)
Definition qabs_lt (a eps : Q) : bool := qltb a eps && qltb (Qopp eps) a.
Definition table_ok (c : list Q) : bool :=
  let eps := (1 # 100000)%Q in
  qabs_lt (autocorr2 c 0 - 2)%Q eps &&
  forallb (fun m => qabs_lt (autocorr2 c m) eps) (Zseq 1 (length c / 2)) &&
  qabs_lt (qsum c - 2)%Q eps && Nat.even (length c).
Theorem daubechies_tables_orthonormal :
  forallb table_ok daubechies_tables = true /\ map (@length Q) daubechies_tables = [2; 4; 6; 8; 10; 12; 14; 16; 18; 20]%nat /\
  nth 0 daubechies_tables [] = [1%Q; 1%Q].
Proof. repeat split; vm_compute; reflexivity. Qed.

(* ---------- centring ---------- *)
Lemma center_search_offsets fuel : forall dims border c g, 0 <= border ->
  center_search fuel dims border c = Some g -> Forall (fun nd => border < snd nd) g /\ length g = length dims.
Proof.
  induction fuel as [|k IH]; intros dims border c g Hb H; cbn [center_search] in H; [discriminate|].
  destruct (existsb (fun n => snd (axis_geom c n) <=? border) dims || match dims with [] => true | _ => false end) eqn:E;
    [eapply IH; eauto|].
  apply some_inj in H. subst g. apply orb_false_iff in E. destruct E as [E _]. split; [|now rewrite map_length].
  apply Forall_forall. intros nd Hn. apply in_map_iff in Hn. destruct Hn as [n [<- Hn]].
  destruct (snd (axis_geom c n) <=? border) eqn:F; [|lia].
  exfalso. assert (existsb (fun n0 => snd (axis_geom c n0) <=? border) dims = true) by (apply existsb_exists; exists n; auto). congruence.
Qed.

Theorem decenter_center l ns d : 0 <= d -> decenter1 (center1 l ns d) (Zlen l) d = l.
Proof.
  intros Hd. unfold decenter1, center1.
  rewrite skipn_app, repeat_length, Nat.sub_diag. rewrite skipn_all2 by (rewrite repeat_length; lia). cbn [skipn app].
  rewrite firstn_app. unfold Zlen. rewrite Nat2Z.id, Nat.sub_diag. cbn [firstn]. rewrite app_nil_r. apply firstn_all.
Qed.
