(* Nearest-mode (edge replication) closed form of the GENERATED fix_offset. *)
Require Import MV.Base.Prelude MV.Base.CInt MV.Base.BorderSpec MV.Gen.Scalar_gen.

Ltac break_ifs :=
  repeat match goal with
  | |- context[if ?b then _ else _] => let E := fresh "E" in destruct b eqn:E
  end.

Lemma fix_nearest_is_clamp cc len : 1 <= len -> fix_offset ExtendNearest cc len = clamp cc len.
Proof. intros H. unfold fix_offset, clamp, ExtendNearest, ExtendMirror, ExtendReflect, ExtendWrap. simpl. break_ifs; lia. Qed.

