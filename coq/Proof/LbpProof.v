(* C19: the rotation-invariant LBP mapping, for EVERY number of points P >= 1 and every P-bit code:
   rolling is a cyclic rotation of the P bits (P rolls are the identity, codes stay below 2^P), and codes that are
   rotations of one another are mapped to the same bin. *)
Require Import MV.Base.Prelude MV.Model.Texture MV.Proof.TextureProof.

Fixpoint rolls (k : nat) (v points : Z) : Z :=
  match k with O => v | S j => rolls j (roll_right v points) points end.

Lemma rolls_S k : forall v points, rolls (S k) v points = roll_right (rolls k v points) points.
Proof. induction k as [|k IH]; intros v points; [reflexivity|]. cbn [rolls] in *. rewrite IH. reflexivity. Qed.

Lemma pow2_split a : 0 < a -> 2 ^ a = 2 * 2 ^ (a - 1).
Proof. intros H. replace a with (Z.succ (a - 1)) at 1 by lia. rewrite Z.pow_succ_r by lia. reflexivity. Qed.

(* closed form of k rolls: the low k bits move to the top *)
Lemma rolls_closed points v : 1 <= points -> 0 <= v < 2 ^ points ->
  forall k, (k <= Z.to_nat points)%nat ->
  rolls k v points = v / 2 ^ Z.of_nat k + (v mod 2 ^ Z.of_nat k) * 2 ^ (points - Z.of_nat k).
Proof.
  intros HP Hv. induction k as [|k IH]; intros Hk.
  - cbn [rolls]. change (Z.of_nat 0) with 0. rewrite Z.pow_0_r, Z.div_1_r, Z.mod_1_r. lia.
  - rewrite rolls_S, IH by lia. clear IH.
    set (K := Z.of_nat k). assert (HK : 0 <= K /\ K + 1 <= points) by (subst K; lia).
    replace (Z.of_nat (S k)) with (K + 1) by (subst K; lia).
    set (a := v / 2 ^ K). set (b := v mod 2 ^ K).
    assert (P2K : 0 < 2 ^ K) by (apply Z.pow_pos_nonneg; lia).
    assert (E1 : 2 ^ (points - K) = 2 * 2 ^ (points - (K + 1))).
    { rewrite (pow2_split (points - K)) by lia. f_equal. f_equal. lia. }
    unfold roll_right. rewrite E1.
    replace (a + b * (2 * 2 ^ (points - (K + 1)))) with (a + (b * 2 ^ (points - (K + 1))) * 2) by ring.
    rewrite Z.div_add by lia. rewrite Z.mod_add by lia.
    assert (E2 : v / 2 ^ (K + 1) = a / 2).
    { rewrite Z.pow_add_r by lia. rewrite Z.pow_1_r. unfold a. rewrite Z.div_div by lia. reflexivity. }
    assert (E3 : v mod 2 ^ (K + 1) = b + 2 ^ K * (a mod 2)).
    { rewrite Z.pow_add_r by lia. rewrite Z.pow_1_r. unfold a, b. apply Z.rem_mul_r; lia. }
    rewrite E2, E3.
    assert (E4 : 2 ^ K * 2 ^ (points - (K + 1)) = 2 ^ (points - 1)).
    { rewrite <- Z.pow_add_r by lia. f_equal. lia. }
    replace ((b + 2 ^ K * (a mod 2)) * 2 ^ (points - (K + 1)))
      with (b * 2 ^ (points - (K + 1)) + (a mod 2) * (2 ^ K * 2 ^ (points - (K + 1)))) by ring.
    rewrite E4. ring.
Qed.

Theorem rolls_period points v : 1 <= points -> 0 <= v < 2 ^ points -> rolls (Z.to_nat points) v points = v.
Proof.
  intros HP Hv. rewrite rolls_closed by (auto; lia). rewrite Z2Nat.id by lia.
  rewrite Z.div_small, Z.mod_small by lia. rewrite Z.sub_diag, Z.pow_0_r. lia.
Qed.

Lemma roll_range points v : 1 <= points -> 0 <= v < 2 ^ points -> 0 <= roll_right v points < 2 ^ points.
Proof.
  intros HP Hv. unfold roll_right.
  assert (E : 2 ^ points = 2 * 2 ^ (points - 1)) by (apply pow2_split; lia).
  assert (P : 0 < 2 ^ (points - 1)) by (apply Z.pow_pos_nonneg; lia).
  pose proof (Z.mod_pos_bound v 2 ltac:(lia)). 
  assert (v / 2 < 2 ^ (points - 1)) by (apply Z.div_lt_upper_bound; lia).
  assert (0 <= v / 2) by (apply Z.div_pos; lia).
  nia.
Qed.

Lemma rolls_range points v k : 1 <= points -> 0 <= v < 2 ^ points -> 0 <= rolls k v points < 2 ^ points.
Proof.
  intros HP. revert v. induction k as [|k IH]; intros v Hv; cbn [rolls]; [exact Hv|]. apply IH. apply roll_range; auto.
Qed.

Lemma rolls_add a b v points : rolls (a + b) v points = rolls b (rolls a v points) points.
Proof. revert v. induction a as [|a IH]; intros v; cbn [rolls Nat.add]; [reflexivity|]. apply IH. Qed.

Lemma in_rotations n : forall v points x, In x (rotations n v points) <-> exists k, (k < n)%nat /\ x = rolls k v points.
Proof.
  induction n as [|n IH]; intros v points x; cbn [rotations].
  - split; [intros []|intros [k [Hk _]]; lia].
  - split.
    + intros [<-|H]; [exists O; split; [lia|reflexivity]|].
      apply IH in H. destruct H as [k [Hk ->]]. exists (S k). split; [lia|reflexivity].
    + intros [k [Hk ->]]. destruct k as [|k]; [left; reflexivity|]. right. apply IH. exists k. split; [lia|reflexivity].
Qed.

(* rolling a code does not change the set of codes visited (period P) ... *)
Lemma rotations_roll_incl points v : 1 <= points -> 0 <= v < 2 ^ points ->
  let n := S (Z.to_nat points) in
  (forall x, In x (rotations n (roll_right v points) points) -> In x (rotations n v points)) /\
  (forall x, In x (rotations n v points) -> In x (rotations n (roll_right v points) points)).
Proof.
  intros HP Hv n. set (P := Z.to_nat points). assert (HPn : (1 <= P)%nat) by (subst P; lia).
  pose proof (rolls_period points v HP Hv) as Per. fold P in Per.
  split; intros x Hx; apply in_rotations in Hx; destruct Hx as [k [Hk ->]]; apply in_rotations.
  - (* rolls k (roll v) = rolls (k+1) v; if k+1 = P+1 it equals rolls 1 v *)
    change (rolls k (roll_right v points) points) with (rolls (S k) v points).
    destruct (Nat.eq_dec k P) as [->|Ne].
    + exists 1%nat. split; [subst n; lia|].
      replace (S P) with (P + 1)%nat by lia. rewrite rolls_add, Per. reflexivity.
    + exists (S k). split; [subst n; lia | reflexivity].
  - destruct k as [|k].
    + (* v itself = rolls P v = rolls (P-1) (roll v) *)
      exists (P - 1)%nat. split; [subst n; lia|].
      change (rolls (P - 1) (roll_right v points) points) with (rolls (S (P - 1)) v points).
      replace (S (P - 1)) with P by lia. cbn [rolls]. symmetry. exact Per.
    + exists k. split; [subst n; lia | reflexivity].
Qed.

(* ... hence rotated codes share the bin *)
Theorem lbp_map_roll_invariant points v : 1 <= points -> 0 <= v < 2 ^ points ->
  lbp_map (roll_right v points) points = lbp_map v points.
Proof.
  intros HP Hv.
  destruct (lbp_map_is_least_rotation v points) as [_ [L1 I1]].
  destruct (lbp_map_is_least_rotation (roll_right v points) points) as [_ [L2 I2]].
  destruct (rotations_roll_incl points v HP Hv) as [A B].
  pose proof (L1 _ (A _ I2)). pose proof (L2 _ (B _ I1)). lia.
Qed.

Theorem lbp_map_rotation_invariant points v k : 1 <= points -> 0 <= v < 2 ^ points ->
  lbp_map (rolls k v points) points = lbp_map v points.
Proof.
  intros HP. revert v. induction k as [|k IH]; intros v Hv; cbn [rolls]; [reflexivity|].
  rewrite IH by (apply roll_range; auto). apply lbp_map_roll_invariant; auto.
Qed.

(* the bin is itself a rotation of the code, below 2^P, and a fixed point of the mapping *)
Theorem lbp_map_is_a_rotation points v : 1 <= points -> 0 <= v < 2 ^ points ->
  (exists k, lbp_map v points = rolls k v points) /\ 0 <= lbp_map v points < 2 ^ points /\
  lbp_map (lbp_map v points) points = lbp_map v points.
Proof.
  intros HP Hv. destruct (lbp_map_is_least_rotation v points) as [_ [L I]].
  apply in_rotations in I. destruct I as [k [_ E]].
  split; [exists k; exact E|]. split; [rewrite E; apply rolls_range; auto|].
  rewrite E at 1. rewrite lbp_map_rotation_invariant by auto.
  (* lbp_map (lbp_map v) = lbp_map (rolls k v) = lbp_map v; and lbp_map v <= itself as the least of its own rotations *)
  reflexivity.
Qed.

(* 10110 -> (3 rolls) 11010; both map to 01011 *)
Example lbp_rotation_example : rolls 3 22 5 = 26 /\ lbp_map 22 5 = 11 /\ lbp_map 26 5 = 11.
Proof. vm_compute. repeat split. Qed.
