(* The GENERATED scalar helpers erode_sub / dilate_add / subm are saturating arithmetic,
   for every width and signedness. *)
Require Import MV.Base.Prelude MV.Base.CInt MV.Gen.Scalar_gen.

Lemma sat_cases t x : wf_ity t ->
  (x < tmin t /\ sat t x = tmin t) \/ (in_range t x /\ sat t x = x) \/ (tmax t < x /\ sat t x = tmax t).
Proof.
  intros H. pose proof (tmin_le_tmax' t H). unfold sat, in_range.
  destruct (Z_lt_le_dec x (tmin t)); [left; lia|].
  destruct (Z_lt_le_dec (tmax t) x); [right; right; lia| right; left; lia].
Qed.

Lemma signed_tmin_neg t : wf_ity t -> signed t = true -> tmin t < 0 /\ 0 <= tmax t /\ tmin t = - tmax t - 1.
Proof.
  unfold wf_ity, tmin, tmax. intros H S. rewrite S.
  pose proof (pow2_pos (bits t - 1) ltac:(lia)). lia.
Qed.

Lemma unsigned_tmin t : signed t = false -> tmin t = 0.
Proof. unfold tmin. now intros ->. Qed.

Lemma tmin_le0 t : wf_ity t -> tmin t <= 0.
Proof.
  unfold wf_ity, tmin. intros H. destruct (signed t); [|lia].
  pose proof (pow2_pos (bits t - 1) ltac:(lia)). lia.
Qed.

Theorem erode_sub_sat t a b : wf_ity t -> in_range t a -> 0 <= b <= tmax t -> b <> tmin t ->
  erode_sub t a b = sat t (a - b).
Proof.
  intros W Ha Hb Hn. unfold erode_sub.
  destruct (b =? tmin t) eqn:E1; [lia|].
  pose proof (range_width t W) as RW. pose proof (pow2_pos (bits t) ltac:(unfold wf_ity in W; lia)) as PP.
  unfold in_range in Ha.
  destruct (signed t) eqn:S; cbn [negb andb].
  - destruct (signed_tmin_neg t W S) as (N1 & N2 & N3).
    destruct (sat_cases t (a - b) W) as [[L E]|[[R E]|[L E]]]; rewrite E.
    + rewrite wrap_under by (auto; lia). destruct (a - b + 2 ^ bits t >? a) eqn:C; lia.
    + rewrite wrap_id by auto. destruct (a - b >? a) eqn:C; lia.
    + lia.
  - rewrite (unsigned_tmin t S) in *.
    destruct (b >? a) eqn:C.
    + unfold sat. rewrite (unsigned_tmin t S). lia.
    + rewrite wrap_id by (auto; unfold in_range; rewrite (unsigned_tmin t S); lia).
      symmetry. apply sat_id. unfold in_range. rewrite (unsigned_tmin t S). lia.
Qed.

Theorem erode_sub_absent t a : erode_sub t a (tmin t) = tmax t.
Proof. unfold erode_sub. now rewrite Z.eqb_refl. Qed.

Theorem dilate_add_sat t a b : wf_ity t -> in_range t a -> a <> tmin t -> 0 <= b <= tmax t -> b <> tmin t ->
  dilate_add t a b = sat t (a + b).
Proof.
  intros W Ha Na Hb Nb. unfold dilate_add.
  destruct (a =? tmin t) eqn:E1; [lia|]. destruct (b =? tmin t) eqn:E2; [lia|].
  pose proof (range_width t W) as RW. pose proof (pow2_pos (bits t) ltac:(unfold wf_ity in W; lia)) as PP.
  unfold in_range in Ha. pose proof (tmin_le0 t W) as T0.
  destruct (sat_cases t (a + b) W) as [[L E]|[[R E]|[L E]]]; rewrite E.
  - lia.
  - rewrite wrap_id by auto. destruct ((b >? 0) && (a + b <? a)) eqn:C; lia.
  - rewrite wrap_over by (auto; lia). destruct ((b >? 0) && (a + b - 2 ^ bits t <? a)) eqn:C; lia.
Qed.

Theorem dilate_add_absent t a b : a = tmin t \/ b = tmin t -> dilate_add t a b = tmin t.
Proof.
  unfold dilate_add. intros [->| ->].
  - now rewrite Z.eqb_refl.
  - rewrite Z.eqb_refl. destruct (a =? tmin t) eqn:E; [apply Z.eqb_eq in E; auto | auto].
Qed.

(* subm: exact subtraction clamped to the dtype range, for EVERY pair of values and width *)
Theorem subm_sat t a b : wf_ity t -> in_range t a -> in_range t b -> subm t a b = sat t (a - b).
Proof.
  intros W Ha Hb. unfold subm.
  pose proof (range_width t W) as RW. pose proof (pow2_pos (bits t) ltac:(unfold wf_ity in W; lia)) as PP.
  pose proof (tmin_le_tmax' t W) as LE.
  unfold in_range in *.
  destruct (signed t) eqn:S.
  - destruct (signed_tmin_neg t W S) as (N1 & N2 & N3).
    destruct (sat_cases t (a - b) W) as [[L E]|[[R E]|[L E]]]; rewrite E.
    + rewrite wrap_under by (auto; lia).
      repeat match goal with |- context[if ?c then _ else _] => destruct c eqn:? end;
        try (rewrite wrap_id by (auto; unfold in_range; lia)); lia.
    + rewrite !wrap_id by auto.
      repeat match goal with |- context[if ?c then _ else _] => destruct c eqn:? end;
        try (rewrite wrap_id by (auto; unfold in_range; lia)); lia.
    + rewrite wrap_over by (auto; lia).
      repeat match goal with |- context[if ?c then _ else _] => destruct c eqn:? end;
        try (rewrite wrap_id by (auto; unfold in_range; lia)); lia.
  - rewrite (unsigned_tmin t S) in *.
    destruct (b >? a) eqn:C.
    + rewrite wrap_id by (auto; unfold in_range; rewrite (unsigned_tmin t S); lia).
      unfold sat. rewrite (unsigned_tmin t S). lia.
    + rewrite wrap_id by (auto; unfold in_range; rewrite (unsigned_tmin t S); lia).
      symmetry. apply sat_id. unfold in_range. rewrite (unsigned_tmin t S). lia.
Qed.

Example subm_examples :
  subm i8 (-100) 100 = -128 /\ subm i8 100 (-100) = 127 /\ subm u8 3 5 = 0 /\ subm u16 65535 1 = 65534 /\
  erode_sub i8 (-128) 1 = -128 /\ dilate_add i8 (-5) 1 = -4 /\ dilate_add u8 250 10 = 255.
Proof. vm_compute. repeat split. Qed.
