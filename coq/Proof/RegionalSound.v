(* C14: what regmax / regmin keep is plateau-closed: a marked pixel never has an unmarked in-image neighbour that is weakly
   better.  The flood of remove_fake_regmin_max is related to the marking flood of FloodProof by complementing the marks. *)
Require Import MV.Base.Prelude MV.Base.CInt MV.Base.Index MV.Model.Filter MV.Model.Morph MV.Model.Extrema.
Require Import MV.Proof.LabeledProof MV.Proof.ExtremaProof MV.Proof.FloodProof.

Definition compl (m : list Z) : list Z := map (fun v => if v =? 0 then 1 else 0) m.
Definition ref0 (sh : list Z) (n : nat) : arr := {| shape := sh; data := repeat 0 n |}.

Lemma map_upd {A B} (g : A -> B) : forall l i v, map g (upd l i v) = upd (map g l) i (g v).
Proof. induction l as [|a l IH]; intros [|i] v; cbn [upd map]; try reflexivity. rewrite IH. reflexivity. Qed.
Lemma compl_updZ m i : compl (updZ m i 0) = updZ (compl m) i 1.
Proof. unfold compl, updZ. destruct (i <? 0); [reflexivity|]. apply (map_upd (fun v => if v =? 0 then 1 else 0)). Qed.
Lemma compl_Zlen m : Zlen (compl m) = Zlen m.
Proof. unfold compl, Zlen. rewrite map_length. reflexivity. Qed.
Lemma nthZ_compl m i : 0 <= i < Zlen m -> nthZ 0 (compl m) i = if nthZ 0 m i =? 0 then 1 else 0.
Proof. intro H. unfold compl. apply (nthZ_map (fun v => if v =? 0 then 1 else 0) 0 0 m i H). Qed.
Lemma aget_ref0 sh n p : aget (ref0 sh n) p = 0.
Proof.
  unfold aget, ref0. cbn [shape data]. unfold nthZ. destruct (ravel sh p <? 0); [reflexivity|].
  generalize (Z.to_nat (ravel sh p)). induction n as [|n IH]; intros [|k]; cbn; auto.
Qed.

Section Sim.
  Variable sh : list Z.
  Variable offs : list (list Z).
  Variable n0 : nat.
  Hypothesis Ps : pos_shape sh.

  Lemma inner_sim p : forall os m st, Zlen m = size sh ->
    let a := fold_left (fun ms off => let np := padd p off in
                                      if in_shapeb sh np && negb (nthZ 0 (fst ms) (ravel sh np) =? 0)
                                      then (updZ (fst ms) (ravel sh np) 0, np :: snd ms) else ms) os (m, st) in
    fold_left (inner (ref0 sh n0) p) os (compl m, st) = (compl (fst a), snd a) /\ Zlen (fst a) = size sh.
  Proof.
    induction os as [|off os IH]; intros m st Hl; cbv zeta; [cbn [fold_left fst snd]; split; [reflexivity | exact Hl]|].
    cbn [fold_left]. unfold inner at 2. cbn [fst snd shape ref0]. rewrite aget_ref0. cbv zeta.
    destruct (in_shapeb sh (padd p off)) eqn:T1; cbn [andb].
    - apply in_shapeb_iff in T1. pose proof (ravel_bound sh (padd p off) Ps T1) as B.
      rewrite nthZ_compl by lia. cbn [Z.eqb andb].
      destruct (nthZ 0 m (ravel sh (padd p off)) =? 0) eqn:E; cbn [negb Z.eqb].
      + apply IH. exact Hl.
      + rewrite <- compl_updZ. apply IH. rewrite updZ_Zlen. exact Hl.
    - apply IH. exact Hl.
  Qed.

  Lemma flood_sim : forall fuel m st, Zlen m = size sh ->
    flood_mark fuel (ref0 sh n0) offs (compl m) st = compl (flood_unmark fuel sh offs m st).
  Proof.
    induction fuel as [|k IH]; intros m st Hl; [reflexivity|].
    destruct st as [|p rest]; [reflexivity|].
    rewrite (flood_mark_unfold (ref0 sh n0) offs k (compl m) p rest). cbn [flood_unmark].
    destruct (inner_sim p offs m rest Hl) as [E L]. cbv zeta in E, L.
    destruct (fold_left _ offs (m, rest)) as [m' st'] eqn:F. cbn [fst snd] in *.
    change (shape (ref0 sh n0)) with sh. rewrite E. cbn [fst snd]. apply IH. exact L.
  Qed.
End Sim.

Section RegSound.
  Variable is_min : bool.
  Variable f : arr.
  Variable offs : list (list Z).
  Let sh := shape f.
  Hypothesis Ps : pos_shape sh.
  Hypothesis Sym : forall off p, In off offs -> in_shape sh p -> in_shape sh (padd p off) ->
                   exists off', In off' offs /\ padd (padd p off) off' = p.

  (* a processed, still marked pixel has no unmarked weakly better in-image neighbour *)
  Definition settled (m : list Z) (p : list Z) : Prop :=
    nthZ 0 m (ravel sh p) <> 0 -> forall off, In off offs -> in_shape sh (padd p off) ->
    nthZ 0 m (ravel sh (padd p off)) = 0 -> weakly_better is_min (aget f (padd p off)) (aget f p) = false.
  Definition J (m : list Z) (done : list (list Z)) : Prop :=
    Zlen m = size sh /\ forall p, In p done -> in_shape sh p -> settled m p.

  (* what the flood of one step guarantees *)
  Lemma flood_step_closure m p : Zlen m = size sh -> in_shape sh p ->
    let m1 := updZ m (ravel sh p) 0 in
    let ms := flood_unmark (2 * length m + 2) sh offs m1 [p] in
    Zlen ms = size sh /\ sub ms m /\ nthZ 0 ms (ravel sh p) = 0 /\
    forall q, in_shape sh q -> nthZ 0 ms (ravel sh q) = 0 -> nthZ 0 m (ravel sh q) <> 0 ->
      forall off, In off offs -> in_shape sh (padd q off) -> nthZ 0 ms (ravel sh (padd q off)) = 0.
  Proof.
    intros Hl Hp. cbv zeta. set (m1 := updZ m (ravel sh p) 0). set (F := (2 * length m + 2)%nat).
    set (ms := flood_unmark F sh offs m1 [p]).
    pose proof (ravel_bound sh p Ps Hp) as Bp.
    assert (L1 : Zlen m1 = size sh) by (unfold m1; rewrite updZ_Zlen; exact Hl).
    assert (S1 : sub ms m) by (eapply sub_trans; [apply flood_unmark_sub | apply sub_updZ0]).
    assert (Z1 : nthZ 0 m1 (ravel sh p) = 0) by (unfold m1; rewrite nthZ_updZ by lia; rewrite Z.eqb_refl; reflexivity).
    assert (Zp : nthZ 0 ms (ravel sh p) = 0).
    { destruct (flood_unmark_sub F sh offs m1 [p] (ravel sh p)) as [E|E]; [exact E | fold ms in E; rewrite E; exact Z1]. }
    set (r0 := ref0 sh (length m)).
    assert (Sh0 : shape r0 = sh) by reflexivity.
    (* the marking flood on the complemented marks *)
    assert (I2 : Inv2 r0 offs (compl m1) [p] (compl m1) [p]).
    { unfold Inv2. rewrite Sh0. split; [rewrite compl_Zlen; exact L1|]. split; [|split].
      - intros q [<-|[]]. split; [exact Hp|]. unfold marked. rewrite Sh0. rewrite nthZ_compl by lia. rewrite Z1. cbn. lia.
      - intros q _ H. exact H.
      - intros q Hq Mq. destruct (list_eq_dec Z.eq_dec q p) as [->|Ne]; [right; left; left; reflexivity|].
        left. split; [exact Mq|]. intros [E|[]]. congruence. }
    assert (Fu : (cz (compl m1) + length [p] <= F)%nat).
    { pose proof (cz_le (compl m1)). unfold compl in H. rewrite map_length in H. unfold m1, updZ in H.
      assert (length (if ravel sh p <? 0 then m else upd m (Z.to_nat (ravel sh p)) 0) = length m) by (destruct (ravel sh p <? 0); [reflexivity | apply upd_length]).
      unfold F. cbn [length]. unfold compl, m1, updZ. lia. }
    assert (Ps0 : pos_shape (shape r0)) by (rewrite Sh0; exact Ps).
    destruct (flood_mark_closure r0 offs Ps0 (compl m1) [p] F (compl m1) [p] I2 Fu) as (FL & FM & FC).
    unfold r0 in FL, FM, FC. rewrite (flood_sim sh offs (length m) Ps F m1 [p] L1) in FL, FM, FC. fold ms in FL, FM, FC. fold r0 in FL, FM, FC.
    rewrite Sh0 in FL, FM, FC. rewrite compl_Zlen in FL.
    split; [exact FL|]. split; [exact S1|]. split; [exact Zp|].
    intros q Hq Zq Mq off Ho Hn.
    pose proof (ravel_bound sh q Ps Hq) as Bq. pose proof (ravel_bound sh (padd q off) Ps Hn) as Bn.
    assert (Mk : marked r0 (compl ms) q).
    { unfold marked. rewrite Sh0. rewrite nthZ_compl by lia. rewrite Zq. cbn. lia. }
    destruct (FC q Hq Mk) as [[M1 NIn]|C].
    - (* q was already unmarked before the flood and is not p: impossible, it was marked in m *)
      exfalso. unfold marked in M1. rewrite Sh0 in M1. rewrite nthZ_compl in M1 by lia.
      assert (Nqp : q <> p) by (intro E; apply NIn; left; symmetry; exact E).
      assert (E1 : nthZ 0 m1 (ravel sh q) = nthZ 0 m (ravel sh q)).
      { unfold m1. rewrite nthZ_updZ by lia. destruct (ravel sh p =? ravel sh q) eqn:E; [|reflexivity].
        apply Z.eqb_eq in E. exfalso. apply Nqp. symmetry. apply (ravel_inj sh p q Ps Hp Hq E). }
      rewrite E1 in M1. destruct (nthZ 0 m (ravel sh q) =? 0) eqn:E; [apply Z.eqb_eq in E; contradiction | cbn in M1; lia].
    - assert (Bg : bgp r0 (padd q off)) by (split; [rewrite Sh0; exact Hn | apply aget_ref0]).
      specialize (C off Ho Bg). unfold marked in C. rewrite Sh0 in C. rewrite nthZ_compl in C by lia.
      destruct (nthZ 0 ms (ravel sh (padd q off)) =? 0) eqn:E; [apply Z.eqb_eq in E; exact E | cbn in C; lia].
  Qed.

  Lemma step_settles m done p : in_shape sh p -> J m done -> J (regmm_step is_min f offs m p) (p :: done).
  Proof.
    intros Hp (Hl & Hs). unfold regmm_step. fold sh.
    destruct (nthZ 0 m (ravel sh p) =? 0) eqn:E0.
    - apply Z.eqb_eq in E0. split; [exact Hl|]. intros q [<-|Hq] Hq'; [intro N; contradiction | apply Hs; assumption].
    - apply Z.eqb_neq in E0. destruct (existsb _ offs) eqn:Ex.
      + destruct (flood_step_closure m p Hl Hp) as (FL & FS & FZ & FC). cbv zeta in *.
        set (ms := flood_unmark (2 * length m + 2) sh offs (updZ m (ravel sh p) 0) [p]) in *.
        split; [exact FL|]. intros q Hin Hq Mq off Ho Hn Zn.
        (* q is marked after the flood, so it was marked before and is not p *)
        assert (Mq0 : nthZ 0 m (ravel sh q) <> 0) by (destruct (FS (ravel sh q)) as [E|E]; [contradiction | rewrite <- E; exact Mq]).
        assert (Nqp : q <> p) by (intro E; subst q; contradiction).
        destruct Hin as [E|Hin]; [congruence|].
        destruct (Z.eq_dec (nthZ 0 m (ravel sh (padd q off))) 0) as [Z0|NZ0].
        * (* the neighbour was already unmarked before this step *)
          apply (Hs q Hin Hq Mq0 off Ho Hn Z0).
        * (* the neighbour was unmarked by this flood: then all its neighbours, q included, are unmarked *)
          exfalso. destruct (Sym off q Ho Hq Hn) as (off' & Ho' & Eb).
          pose proof (FC (padd q off) Hn Zn NZ0 off' Ho' ltac:(rewrite Eb; exact Hq)) as Zq. rewrite Eb in Zq. contradiction.
      + split; [exact Hl|]. intros q [<-|Hq] Hq'; [|apply Hs; assumption].
        intros _ off Ho Hn Zn. 
        destruct (weakly_better is_min (aget f (padd p off)) (aget f p)) eqn:W; [|reflexivity].
        exfalso. match type of Ex with ?L = false => assert (X : L = true) end.
        { apply existsb_exists. exists off. split; [exact Ho|]. cbv zeta.
          rewrite (proj2 (in_shapeb_iff sh (padd p off)) Hn), Zn, W. reflexivity. }
        congruence.
  Qed.

  Theorem scan_is_plateau_closed m0 : Zlen m0 = size sh -> forall p, in_shape sh p ->
    settled (fold_left (regmm_step is_min f offs) (all_positions sh) m0) p.
  Proof.
    intros Hl.
    assert (G : forall l m done, (forall p, In p l -> in_shape sh p) -> J m done ->
                J (fold_left (regmm_step is_min f offs) l m) (rev l ++ done)).
    { induction l as [|a l IH]; intros m done Hi Jm; [exact Jm|]. cbn [fold_left rev]. rewrite <- app_assoc. cbn [app].
      apply IH; [intros p Hp; apply Hi; right; exact Hp | apply step_settles; [apply Hi; left; reflexivity | exact Jm]]. }
    intros p Hp.
    destruct (G (all_positions sh) m0 [] (fun q Hq => proj1 (in_all_positions sh q Ps) Hq) (conj Hl (fun q H => False_ind _ H))) as [_ K].
    apply K; [|exact Hp]. apply in_or_app. left. apply in_rev. rewrite rev_involutive. apply (in_all_positions sh p Ps). exact Hp.
  Qed.
End RegSound.

Theorem regmm_is_plateau_closed is_min f bc : pos_shape (shape f) ->
  (forall off p, In off (nbr_offsets bc) -> in_shape (shape f) p -> in_shape (shape f) (padd p off) ->
     exists off', In off' (nbr_offsets bc) /\ padd (padd p off) off' = p) ->
  forall p, in_shape (shape f) p -> nthZ 0 (regmm is_min f bc) (ravel (shape f) p) <> 0 ->
  forall off, In off (nbr_offsets bc) -> in_shape (shape f) (padd p off) ->
  nthZ 0 (regmm is_min f bc) (ravel (shape f) (padd p off)) = 0 ->
  weakly_better is_min (aget f (padd p off)) (aget f p) = false.
Proof.
  intros Ps Sym p Hp. unfold regmm.
  apply (scan_is_plateau_closed is_min f (nbr_offsets bc) Ps Sym (locmm is_min f bc)); [|exact Hp].
  unfold locmm, Zlen. rewrite map_length, all_positions_length. pose proof (size_pos _ Ps). lia.
Qed.
