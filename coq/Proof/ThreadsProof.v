(* C12: serial equivalence of disciplined calls under every interleaving; idempotent lazy initialisation; RAII lock protocol. *)
Require Import ZArith List Bool Lia String.
Require Import MV.Model.Threads MV.Gen.Threads_gen.
Import ListNotations.

Section Serial.
  Variable L : Type.
  Variable owner : loc -> option tid.
  Variable step : tid -> L -> mem -> L * list (loc * Z).
  Hypothesis D : disciplined L owner step.

  Lemma apply_writes_other m ws x : (forall v, ~ In (x, v) ws) -> apply_writes m ws x = m x.
  Proof.
    revert m. induction ws as [|[y v] ws IH]; intros m H; cbn [apply_writes fold_left]; [reflexivity|].
    change (apply_writes (upd m y v) ws x = m x). rewrite IH.
    - unfold upd. cbn [fst snd]. destruct (Z.eqb x y) eqn:E; [|reflexivity].
      apply Z.eqb_eq in E. subst. exfalso. apply (H v). left. reflexivity.
    - intros v' Hin. apply (H v'). right. exact Hin.
  Qed.

  Lemma apply_writes_agree t m m' ws : agree owner t m m' -> agree owner t (apply_writes m ws) (apply_writes m' ws).
  Proof.
    revert m m'. induction ws as [|[y v] ws IH]; intros m m' H; cbn [apply_writes fold_left]; [exact H|].
    apply IH. intros x Hx. unfold upd. cbn [fst snd]. destruct (Z.eqb x y); [reflexivity | apply H; exact Hx].
  Qed.

  (* a step of another call leaves everything t can see untouched *)
  Lemma other_step_invisible t u l m : u <> t -> agree owner t (apply_writes m (snd (step u l m))) m.
  Proof.
    intros Hne x Hx. apply apply_writes_other. intros v Hin.
    apply (writes_owned _ _ _ D) in Hin. destruct Hx as [Hx|Hx]; rewrite Hx in Hin; [injection Hin as E; congruence | discriminate].
  Qed.

  (* main invariant: at every moment of every schedule, call t's local state and everything it can see are what they are
     when t runs alone for the number of steps it has taken so far *)
  Lemma run_cons u sched s : run L step (u :: sched) s = run L step sched (sys_step L step s u).
  Proof. reflexivity. Qed.
  Lemma sys_step_eq (ls : locals L) m u lu ws : step u (ls u) m = (lu, ws) ->
    sys_step L step (ls, m) u = (set_local L ls u lu, apply_writes m ws).
  Proof. intro H. unfold sys_step. cbn [fst snd]. rewrite H. reflexivity. Qed.
  Lemma steps_of_same t sched : steps_of t (t :: sched) = S (steps_of t sched).
  Proof. unfold steps_of. cbn [filter]. rewrite Nat.eqb_refl. reflexivity. Qed.
  Lemma steps_of_other t u sched : u <> t -> steps_of t (u :: sched) = steps_of t sched.
  Proof. intro H. unfold steps_of. cbn [filter]. destruct (Nat.eqb t u) eqn:E; [apply Nat.eqb_eq in E; congruence | reflexivity]. Qed.
  Lemma solo_S t n l m lu ws : step t l m = (lu, ws) -> solo L step t (S n) l m = solo L step t n lu (apply_writes m ws).
  Proof. intro H. cbn [solo]. rewrite H. reflexivity. Qed.

  Lemma interleaving_invisible_gen t sched : forall (ls : locals L) m l0 m0, ls t = l0 -> agree owner t m m0 ->
    let '(ls', m') := run L step sched (ls, m) in
    let '(l1, m1) := solo L step t (steps_of t sched) l0 m0 in ls' t = l1 /\ agree owner t m' m1.
  Proof.
    induction sched as [|u sched IH]; intros ls m l0 m0 E A.
    - cbn. split; assumption.
    - rewrite run_cons. destruct (step u (ls u) m) as [lu ws] eqn:Su. rewrite (sys_step_eq _ _ _ _ _ Su).
      destruct (Nat.eq_dec u t) as [->|Hne].
      + rewrite steps_of_same.
        assert (Su0 : step t l0 m0 = (lu, ws)).
        { rewrite <- Su. rewrite E. symmetry. apply (reads_visible _ _ _ D). exact A. }
        rewrite (solo_S _ _ _ _ _ _ Su0). apply IH.
        * unfold set_local. rewrite Nat.eqb_refl. reflexivity.
        * apply apply_writes_agree. exact A.
      + rewrite (steps_of_other _ _ _ Hne). apply IH.
        * unfold set_local. destruct (Nat.eqb t u) eqn:E2; [apply Nat.eqb_eq in E2; congruence | exact E].
        * intros x Hx. transitivity (m x); [|apply A; exact Hx].
          assert (Hw : ws = snd (step u (ls u) m)) by (rewrite Su; reflexivity). rewrite Hw.
          apply (other_step_invisible t u); [exact Hne | exact Hx].
  Qed.
  Theorem interleaving_invisible t sched (ls : locals L) m :
    let '(ls', m') := run L step sched (ls, m) in
    let '(l1, m1) := solo L step t (steps_of t sched) (ls t) m in
    ls' t = l1 /\ agree owner t m' m1.
  Proof. apply interleaving_invisible_gen; [reflexivity | intros x _; reflexivity]. Qed.

  (* shared inputs are never written *)
  Lemma shared_never_written sched : forall ls m x, owner x = None -> snd (run L step sched (ls, m)) x = m x.
  Proof.
    induction sched as [|u sched IH]; intros ls m x Hx; [reflexivity|].
    rewrite run_cons. destruct (step u (ls u) m) as [lu ws] eqn:Su. rewrite (sys_step_eq _ _ _ _ _ Su).
    rewrite (IH _ _ _ Hx). apply apply_writes_other. intros v Hin.
    assert (Hin' : In (x, v) (snd (step u (ls u) m))) by (rewrite Su; exact Hin).
    apply (writes_owned _ _ _ D) in Hin'. congruence.
  Qed.

  (* the statement users rely on: whatever the schedule, a call finishes with the result (local state and the memory it owns
     or shares) it produces when run alone *)
  Corollary serial_equivalence t sched (ls : locals L) m :
    fst (run L step sched (ls, m)) t = fst (solo L step t (steps_of t sched) (ls t) m) /\
    (forall x, owner x = Some t -> snd (run L step sched (ls, m)) x = snd (solo L step t (steps_of t sched) (ls t) m) x) /\
    (forall x, owner x = None -> snd (run L step sched (ls, m)) x = m x).
  Proof.
    pose proof (interleaving_invisible t sched ls m) as H.
    split; [|split].
    - destruct (run L step sched (ls, m)) as [ls' m']. destruct (solo L step t (steps_of t sched) (ls t) m) as [l1 m1].
      destruct H as [H1 _]. exact H1.
    - destruct (run L step sched (ls, m)) as [ls' m']. destruct (solo L step t (steps_of t sched) (ls t) m) as [l1 m1].
      destruct H as [_ H2]. intros x Hx. apply H2. left. exact Hx.
    - intros x Hx. apply shared_never_written. exact Hx.
  Qed.
End Serial.

(* the hypotheses are satisfiable by a non-trivial system: call t repeatedly adds the shared input (location 0) into its own
   cell (location t+1) *)
Section Example.
  Definition ex_owner (x : loc) : option tid := if (x <=? 0)%Z then None else Some (Z.to_nat (x - 1)).
  Definition ex_cell (t : tid) : loc := (Z.of_nat t + 1)%Z.
  Definition ex_step (t : tid) (l : nat) (m : mem) : nat * list (loc * Z) := (S l, [(ex_cell t, (m (ex_cell t) + m 0%Z)%Z)]).
  Lemma ex_owner_cell t : ex_owner (ex_cell t) = Some t.
  Proof.
    unfold ex_owner, ex_cell. destruct (Z.leb_spec (Z.of_nat t + 1) 0); [lia|].
    f_equal. replace (Z.of_nat t + 1 - 1)%Z with (Z.of_nat t) by lia. apply Nat2Z.id.
  Qed.
  Lemma ex_disciplined : disciplined nat ex_owner ex_step.
  Proof.
    split.
    - intros t l m m' A. unfold ex_step.
      rewrite (A 0%Z) by (right; reflexivity). rewrite (A (ex_cell t)) by (left; apply ex_owner_cell). reflexivity.
    - intros t l m x v [H|[]]. injection H as <- _. apply ex_owner_cell.
  Qed.
  (* two calls, an arbitrary-looking schedule: each ends with its solo result *)
  Example ex_run :
    let m0 : mem := fun x => if (x =? 0)%Z then 5%Z else 0%Z in
    let '(ls, m) := run nat ex_step [0; 1; 1; 0; 1]%nat (fun _ => 0%nat, m0) in
    (ls 0%nat, ls 1%nat, m 1%Z, m 2%Z) = (2%nat, 3%nat, 10%Z, 15%Z).
  Proof. vm_compute. reflexivity. Qed.
End Example.

(* lazily initialised module-level value *)
Section Lazy.
  Variable v0 : Z.
  Lemma lazy_invariant evs c : cell_ok v0 c -> cell_ok v0 (fold_left (lazy_step v0) evs c).
  Proof.
    revert c. induction evs as [|e evs IH]; intros c H; cbn [fold_left]; [exact H|].
    apply IH. destruct e; cbn [lazy_step]; [exact H | right; reflexivity].
  Qed.
  (* whatever other calls have done before, a caller observes v0 *)
  Theorem lazy_init_every_caller_sees_v0 evs : observed v0 (fold_left (lazy_step v0) evs (Empty)) = v0.
  Proof.
    destruct (lazy_invariant evs Empty (or_introl eq_refl)) as [E|E]; rewrite E; reflexivity.
  Qed.
End Lazy.

(* RAII lock release: after the scope is left (normally or by an exception: the destructor runs either way) the lock is held
   again and the object is inactive, whatever the body did; restoring twice is impossible *)
Lemma g_body_inv body g : (held g = false /\ active g = true) \/ (held g = true /\ active g = false) ->
  let g' := fold_left g_body body g in (held g' = false /\ active g' = true) \/ (held g' = true /\ active g' = false).
Proof.
  revert g. induction body as [|e body IH]; intros g H; cbn [fold_left]; [exact H|].
  apply IH. destruct e; cbn [g_body]; [|exact H].
  destruct H as [[H1 H2]|[H1 H2]]; rewrite H2; [right; split; reflexivity | right; split; assumption].
Qed.
Theorem gil_reacquired_on_every_exit body g0 : held (call_scope body g0) = true /\ active (call_scope body g0) = false.
Proof.
  unfold call_scope. pose proof (g_body_inv body (g_ctor g0) (or_introl (conj eq_refl eq_refl))) as H. cbv zeta in H.
  destruct H as [[H1 H2]|[H1 H2]]; unfold g_dtor; rewrite H2; [split; reflexivity | split; assumption].
Qed.

(* ---- the inventory re-translated from the sources satisfies the discipline *)
Open Scope string_scope.
(* no static data in any native module; namespace-scope variables are never assigned after their definition *)
Theorem no_static_mutable_state : cxx_static_state = [].
Proof. reflexivity. Qed.
Theorem namespace_variables_never_reassigned : forallb (fun v => negb (snd v)) cxx_namespace_vars = true.
Proof. vm_compute. reflexivity. Qed.
(* every lock release is a stack object (its destructor runs on every exit path), and the struct implements the protocol *)
Theorem gil_release_is_raii :
  forallb (fun u => String.eqb (snd u) "stack") gil_release_uses = true /\
  gil_release_ctor = ["PyEval_SaveThread"; "active_ = true"] /\
  gil_release_restore = ["PyEval_RestoreThread"; "active_ = false"] /\
  gil_release_dtor_restores_when_active = true.
Proof. vm_compute. repeat split; reflexivity. Qed.
Theorem gil_release_sites_exist : (30 <= List.length gil_release_uses)%nat.
Proof. vm_compute. repeat constructor. Qed.
(* Python: the only module-level state written by a function is lazily initialised and published complete; no module-level
   container is mutated by any function *)
Theorem python_globals_are_idempotent_lazy_inits :
  forallb (fun p => snd p) py_global_inits_complete_before_publish = true /\
  List.length py_global_inits_complete_before_publish = List.length py_global_writes /\
  py_mutated_containers = [].
Proof. vm_compute. repeat split; reflexivity. Qed.

(* while the lock is released the kernels touch the Python C API only through field-reading macros of PyArrayObject, the
   addresses of exception type objects and the PythonException carrier (no reference counting, no allocation, no error state);
   the reference counting inside numpy::array_base is guarded separately (refcount_gil) *)
Definition nogil_allowed : list string :=
  ["PyArray_DATA"; "PyArray_DIM"; "PyArray_DIMS"; "PyArray_NDIM"; "PyArray_SIZE"; "PyArray_STRIDE"; "PyArray_STRIDES";
   "PyArray_ITEMSIZE"; "PyArray_TYPE"; "PyArray_GETPTR1"; "PyArray_GETPTR2"; "PyArray_ISCARRAY"; "PyArray_ISCARRAY_RO";
   "PyExc_ValueError"; "PyExc_RuntimeError"; "PyExc_MemoryError"; "PythonException"; "PyArrayObject"].
Theorem no_python_api_while_released :
  forallb (fun e => existsb (String.eqb (snd e)) nogil_allowed) nogil_python_api = true.
Proof. vm_compute. reflexivity. Qed.
