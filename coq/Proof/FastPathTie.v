(* C01: the hand-written model of the 2-D boolean fast path (Model/MorphFast.v) performs exactly the updates of the loops
   re-translated from mahotas/_morph.cpp on every run (Gen/FastPath_gen.v): row clamp, segment bounds, the three column loops
   of each branch with the cells they write and read. *)
Require Import MV.Base.Prelude MV.Base.CInt MV.Base.Index MV.Gen.FastPath_gen MV.Model.MorphFast.

Definition gen_fb_updates (is_er : bool) (Ny Nx : Z) (pos : list (Z * Z)) : list (Z * Z) :=
  flat_map (fun y =>
    flat_map (fun d => let '(dy, dx) := d in
                       let dy' := gen_fb_dy y dy Ny in
                       let x0 := gen_fb_x0 dx Nx in
                       let x1 := gen_fb_x1 x0 dx Nx in
                       let rows := if is_er then gen_fb_rows_erode y dy' else gen_fb_rows_dilate y dy' in
                       map (fun oc_ic => (fst rows * Nx + fst oc_ic, snd rows * Nx + snd oc_ic))
                           (if is_er then gen_fb_cols_erode x0 x1 dx Nx else gen_fb_cols_dilate x0 x1 dx Nx)) pos)
    (Zseq 0 (Z.to_nat Ny)).

Lemma tie_dy y dy Ny : 0 <= y < Ny -> gen_fb_dy y dy Ny = fb_dy y dy Ny.
Proof.
  intros H. unfold gen_fb_dy, fb_dy. destruct (y + dy <? 0) eqn:A.
  - destruct (y + - y >=? Ny) eqn:B; [lia | reflexivity].
  - reflexivity.
Qed.

Lemma tie_x0 dx Nx : gen_fb_x0 dx Nx = fb_x0 dx Nx. Proof. reflexivity. Qed.
Lemma tie_x1 dx Nx : gen_fb_x1 (fb_x0 dx Nx) dx Nx = fb_x1 dx Nx. Proof. reflexivity. Qed.

Lemma tie_cols_erode dx Nx : gen_fb_cols_erode (fb_x0 dx Nx) (fb_x1 dx Nx) dx Nx = fb_cols dx Nx.
Proof. unfold gen_fb_cols_erode, fb_cols. rewrite Z.sub_0_r. reflexivity. Qed.

Lemma tie_cols_dilate dx Nx :
  gen_fb_cols_dilate (fb_x0 dx Nx) (fb_x1 dx Nx) dx Nx = map (fun xc => (snd xc, fst xc)) (fb_cols dx Nx).
Proof. unfold gen_fb_cols_dilate, fb_cols. rewrite Z.sub_0_r, !map_app, !map_map. reflexivity. Qed.

Lemma flat_map_ext_in {A B} (f g : A -> list B) l : (forall a, In a l -> f a = g a) -> flat_map f l = flat_map g l.
Proof. induction l as [|a l IH]; intros H; cbn [flat_map]; [reflexivity|]. rewrite (H a (or_introl eq_refl)), IH; auto. intros; apply H; right; auto. Qed.

Theorem gen_updates_are_model_updates is_er Ny Nx pos : gen_fb_updates is_er Ny Nx pos = fb_updates is_er Ny Nx pos.
Proof.
  unfold gen_fb_updates, fb_updates. apply flat_map_ext_in. intros y Hy. apply in_Zseq in Hy.
  apply flat_map_ext_in. intros [dy dx] _. cbv zeta. rewrite tie_dy by lia. rewrite tie_x0, tie_x1.
  destruct is_er.
  - rewrite tie_cols_erode. cbn [gen_fb_rows_erode fst snd]. apply map_ext. intros [x c]. reflexivity.
  - rewrite tie_cols_dilate, map_map. cbn [gen_fb_rows_dilate fst snd]. apply map_ext. intros [x c]. reflexivity.
Qed.

Theorem gen_seed_recognised : gen_fb_seed_recognised = true.
Proof. reflexivity. Qed.
