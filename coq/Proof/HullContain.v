(* C15: containment for the monotone chains of the convex hull (_convex.cpp inPlaceScan).  For the points sorted by the scan
   order, the chain runs from the least to the greatest point, its vertices increase, and EVERY input point q lies, within the
   slab of consecutive chain vertices b <= q <= a that contains it, on the right of (or on) the edge b -> a.  The first scan
   (ascending) and the second (descending, over the end points and the discarded points) give the two sides of the polygon, so
   every foreground pixel is a vertex or lies between the two chains. *)
Require Import MV.Base.Prelude MV.Base.CInt MV.Base.Index MV.Model.Topology MV.Proof.TopologyProof.
Require Import Lia Sorting.Sorted.

(* ---------- orientation algebra ---------- *)
Lemma is_left_same_end b p : is_left b p b = 0. Proof. unfold is_left. ring. Qed.
Lemma is_left_same_tip a p : is_left a p p = 0. Proof. unfold is_left. ring. Qed.
Lemma is_left_swap b a p : is_left b p a = - is_left b a p. Proof. unfold is_left. ring. Qed.

Definition flt (a b : pt) : Prop := fst a < fst b \/ (fst a = fst b /\ snd a < snd b).
Definition rlt (a b : pt) : Prop := flt b a.

Lemma forward_lt_iff a b : forward_lt a b = true <-> flt a b.
Proof. unfold forward_lt, flt. destruct (fst a =? fst b) eqn:E; rewrite Z.ltb_lt; lia. Qed.
Lemma reverse_lt_iff a b : reverse_lt a b = true <-> rlt a b.
Proof. unfold reverse_lt, rlt, flt. destruct (fst a =? fst b) eqn:E; rewrite Z.gtb_lt; lia. Qed.

(* half-plane transitivity of the orientation test (vectors from the base point all lex-positive) *)
Lemma L1 b a p q : flt b a -> flt a p -> (flt b q \/ q = b) ->
  is_left b a q <= 0 -> is_left b a p >= 0 -> is_left b p q <= 0.
Proof.
  destruct b as [by_ bx], a as [ay ax], p as [py px], q as [qy qx]. unfold flt, is_left. cbn [fst snd].
  intros Hba Hap Hbq C1 C2.
  destruct Hbq as [Hbq|Hbq]; [|injection Hbq as -> ->; lia].
  set (uy := qy - by_) in *. set (ux := qx - bx) in *. set (vy := ay - by_) in *. set (vx := ax - bx) in *.
  set (wy := py - by_) in *. set (wx := px - bx) in *.
  assert (Huy : 0 <= uy) by lia. assert (Hvy : 0 <= vy) by lia. assert (Hwy : 0 <= wy) by lia.
  assert (ID : (vy * wx - wy * vx) * uy + (wy * ux - uy * wx) * vy + (uy * vx - vy * ux) * wy = 0) by ring.
  destruct (Z.eq_dec vy 0) as [V0|V0].
  - assert (0 < vx) by lia. assert (wy = 0) by nia. nia.
  - assert (0 < vy) by lia. nia.
Qed.

Lemma L2 b a p q : flt b a -> flt a p -> (flt a q \/ q = a) -> flt q p ->
  is_left a p q <= 0 -> is_left b a p >= 0 -> is_left b p q <= 0.
Proof.
  destruct b as [by_ bx], a as [ay ax], p as [py px], q as [qy qx]. unfold flt, is_left. cbn [fst snd].
  intros Hba Hap Haq Hqp C1 C2.
  destruct Haq as [Haq|Haq]; [|injection Haq as -> ->; lia].
  set (uy := py - ay) in *. set (ux := px - ax) in *. set (vy := py - by_) in *. set (vx := px - bx) in *.
  set (wy := py - qy) in *. set (wx := px - qx) in *.
  assert (Huy : 0 <= uy) by lia. assert (Hvy : 0 <= vy) by lia. assert (Hwy : 0 <= wy) by lia.
  assert (ID : (vy * wx - wy * vx) * uy + (wy * ux - uy * wx) * vy + (uy * vx - vy * ux) * wy = 0) by ring.
  destruct (Z.eq_dec uy 0) as [U0|U0].
  - assert (0 < ux) by lia. nia.
  - assert (0 < uy) by lia. nia.
Qed.

(* the same for the descending order, by point reflection *)
Definition pneg (a : pt) : pt := (- fst a, - snd a).
Lemma is_left_neg a b c : is_left (pneg a) (pneg b) (pneg c) = is_left a b c.
Proof. unfold is_left, pneg. cbn [fst snd]. ring. Qed.
Lemma rlt_neg a b : rlt a b <-> flt (pneg a) (pneg b).
Proof. unfold rlt, flt, pneg. cbn [fst snd]. lia. Qed.
Lemma pneg_inj a b : pneg a = pneg b -> a = b.
Proof. destruct a, b. unfold pneg. cbn [fst snd]. intros E. injection E as E1 E2. f_equal; lia. Qed.

Lemma L1r b a p q : rlt b a -> rlt a p -> (rlt b q \/ q = b) ->
  is_left b a q <= 0 -> is_left b a p >= 0 -> is_left b p q <= 0.
Proof.
  intros H1 H2 H3 C1 C2. rewrite <- is_left_neg in *.
  apply (L1 (pneg b) (pneg a) (pneg p) (pneg q)); auto; try (apply (proj1 (rlt_neg _ _)); assumption).
  destruct H3 as [H3| ->]; [left; apply (proj1 (rlt_neg _ _)); exact H3 | right; reflexivity].
Qed.
Lemma L2r b a p q : rlt b a -> rlt a p -> (rlt a q \/ q = a) -> rlt q p ->
  is_left a p q <= 0 -> is_left b a p >= 0 -> is_left b p q <= 0.
Proof.
  intros H1 H2 H3 H4 C1 C2. rewrite <- is_left_neg in *.
  apply (L2 (pneg b) (pneg a) (pneg p) (pneg q)); auto; try (apply (proj1 (rlt_neg _ _)); assumption).
  destruct H3 as [H3| ->]; [left; apply (proj1 (rlt_neg _ _)); exact H3 | right; reflexivity].
Qed.

(* ---------- the scan, for any strict total order with the two orientation lemmas ---------- *)
Section Chain.
  Variable lt : pt -> pt -> bool.
  Let LT (a b : pt) : Prop := lt a b = true.
  Let LE (a b : pt) : Prop := LT a b \/ a = b.
  Hypothesis lt_irrefl : forall a, ~ LT a a.
  Hypothesis lt_trans : forall a b c, LT a b -> LT b c -> LT a c.
  Hypothesis lt_total : forall a b, a <> b -> LT a b \/ LT b a.
  Hypothesis HL1 : forall b a p q, LT b a -> LT a p -> LE b q -> is_left b a q <= 0 -> is_left b a p >= 0 -> is_left b p q <= 0.
  Hypothesis HL2 : forall b a p q, LT b a -> LT a p -> LE a q -> LT q p -> is_left a p q <= 0 -> is_left b a p >= 0 -> is_left b p q <= 0.

  Lemma pt_eq_dec (a b : pt) : {a = b} + {a <> b}.
  Proof. destruct a as [a1 a2], b as [b1 b2]. destruct (Z.eq_dec a1 b1), (Z.eq_dec a2 b2); [left; congruence | right; congruence ..]. Qed.

  (* insertion sort gives a strictly increasing list of the same points *)
  Lemma pinsert_sorted x : forall l, StronglySorted LT l -> ~ In x l -> StronglySorted LT (pinsert lt x l).
  Proof.
    induction l as [|y l IH]; intros S N; cbn [pinsert]; [repeat constructor|].
    inversion S as [|? ? Sl Fy]; subst.
    destruct (lt y x) eqn:E.
    - constructor; [apply IH; auto; intros H; apply N; right; exact H|].
      apply Forall_forall. intros z Hz. apply in_pinsert in Hz. destruct Hz as [->|Hz]; [exact E|].
      rewrite Forall_forall in Fy. apply Fy. exact Hz.
    - assert (Hxy : LT x y).
      { destruct (lt_total x y) as [H|H]; [intros ->; apply N; left; reflexivity | exact H | unfold LT in H; congruence]. }
      constructor; [exact S|]. constructor; [exact Hxy|].
      rewrite Forall_forall in *. intros z Hz. eapply lt_trans; [exact Hxy | apply Fy; exact Hz].
  Qed.

  Lemma psort_sorted l : NoDup l -> StronglySorted LT (psort lt l).
  Proof.
    induction 1 as [|x l Hx ND IH]; cbn [psort fold_right]; [constructor|].
    apply pinsert_sorted; [exact IH|]. intros H. apply Hx. apply (in_psort lt). exact H.
  Qed.

  (* edges of a stack given top first: (b, a) with a directly above b *)
  Fixpoint edges_ok (P : pt -> pt -> Prop) (st : list pt) : Prop :=
    match st with a :: ((b :: _) as t) => P b a /\ edges_ok P t | _ => True end.

  Section Step.
    Variable done : list pt.          (* the points consumed so far *)
    Variable p : pt.                  (* the next one: greater than all of them *)
    Hypothesis Hp : forall q, In q done -> LT q p.

    (* what the stack satisfies while p is being inserted *)
    Record PI (st : list pt) : Prop := {
      pi_ne : st <> [];
      pi_in : forall x, In x st -> In x done;
      pi_desc : edges_ok (fun b a => LT b a) st;
      pi_cov : edges_ok (fun b a => forall q, In q done -> LE b q -> LE q a -> is_left b a q <= 0) st;
      pi_pend : forall q, In q done -> LE (hd p st) q -> is_left (hd p st) p q <= 0
    }.

    Lemma pop_keeps st disc : PI st -> PI (fst (chain_pop st p disc)) /\
      last (fst (chain_pop st p disc)) p = last st p.
    Proof.
      revert disc. induction st as [|a rest IH]; intros disc H; [destruct (pi_ne _ H); reflexivity|].
      cbn [chain_pop]. destruct rest as [|b r]; [cbn [fst]; auto|].
      destruct (is_left b a p >=? 0) eqn:T; [|cbn [fst]; auto].
      apply Z.geb_le in T. destruct H as [NE IN DESC COV PEND]. cbn [edges_ok hd] in *.
      destruct DESC as [Dba DESC]. destruct COV as [Cba COV].
      assert (Hap : LT a p) by (apply Hp, IN; left; reflexivity).
      assert (PIb : PI (b :: r)).
      { constructor; cbn [hd]; auto; [discriminate | intros x Hx; apply IN; right; exact Hx |].
        intros q Hq [Hbq| <-]; [|rewrite is_left_same_end; lia].
        destruct (pt_eq_dec q a) as [->|Nqa].
        - apply (HL1 b a p a Dba Hap); [left; exact Dba | | lia].
          apply Cba; [exact Hq | left; exact Dba | right; reflexivity].
        - destruct (lt_total q a Nqa) as [Lqa|Laq].
          + apply (HL1 b a p q Dba Hap); [left; exact Hbq | | lia].
            apply Cba; [exact Hq | left; exact Hbq | left; exact Lqa].
          + apply (HL2 b a p q Dba Hap); [left; exact Laq | apply Hp; exact Hq | | lia].
            apply PEND; [exact Hq | left; exact Laq]. }
      destruct (IH (a :: disc) PIb) as [I1 I2]. split; [exact I1|]. rewrite I2. reflexivity.
    Qed.
  End Step.

  (* invariant between points *)
  Record INV (done st : list pt) : Prop := {
    iv_ne : st <> [];
    iv_in : forall x, In x st -> In x done;
    iv_desc : edges_ok (fun b a => LT b a) st;
    iv_cov : edges_ok (fun b a => forall q, In q done -> LE b q -> LE q a -> is_left b a q <= 0) st;
    iv_top : forall q, In q done -> LE q (hd (0, 0) st);
    iv_bot : forall q, In q done -> LE (last st (0, 0)) q
  }.

  Lemma edges_cons_intro (P : pt -> pt -> Prop) x y t : P y x -> edges_ok P (y :: t) -> edges_ok P (x :: y :: t).
  Proof. intros A B. split; assumption. Qed.

  Lemma edges_mono_in (P Q : pt -> pt -> Prop) st : (forall b a, In a st -> In b st -> P b a -> Q b a) -> edges_ok P st -> edges_ok Q st.
  Proof.
    induction st as [|a [|b r] IH]; intros H; cbn [edges_ok]; auto. intros [A B]. split.
    - apply H; [left; reflexivity | right; left; reflexivity | exact A].
    - apply IH; [|exact B]. intros b0 a0 Ha Hb. apply H; right; assumption.
  Qed.

  Lemma last_indep (l : list pt) d d' : l <> [] -> last l d = last l d'.
  Proof. induction l as [|x [|y l] IH]; intros H; [congruence | reflexivity |]. apply IH. discriminate. Qed.
  Lemma last_in (l : list pt) d : l <> [] -> In (last l d) l.
  Proof. induction l as [|x [|y l] IH]; intros H; [congruence | left; reflexivity |]. right. apply IH. discriminate. Qed.

  Lemma step_inv done st disc p : INV done st -> (forall q, In q done -> LT q p) ->
    INV (p :: done) (fst (chain_step (st, disc) p)).
  Proof.
    intros [NE IN DESC COV TOP BOT] Hp.
    assert (P0 : PI done p st).
    { constructor; auto. intros q Hq Hle. destruct st as [|a r]; [congruence|]. cbn [hd] in *.
      destruct (TOP q Hq) as [Lqa| ->]; [|rewrite is_left_same_end; lia].
      destruct Hle as [Laq| <-]; [exfalso; apply (lt_irrefl q); eapply lt_trans; eauto | rewrite is_left_same_end; lia]. }
    destruct (pop_keeps done p Hp st disc P0) as [[NE' IN' DESC' COV' PEND'] LAST].
    unfold chain_step. cbn [fst snd]. destruct (chain_pop st p disc) as [st' disc'] eqn:E. cbn [fst] in *.
    destruct st' as [|a r]; [congruence|]. cbn [hd] in PEND'.
    assert (Hap : LT a p) by (apply Hp, IN'; left; reflexivity).
    assert (LB : last (a :: r) (0, 0) = last st (0, 0)).
    { rewrite (last_indep (a :: r) (0, 0) p) by discriminate. rewrite LAST. apply last_indep. exact NE. }
    constructor; cbn [hd].
    - discriminate.
    - intros x [<-|Hx]; [left; reflexivity | right; apply IN'; exact Hx].
    - apply edges_cons_intro; [exact Hap | exact DESC'].
    - apply edges_cons_intro.
      + intros q [<-|Hq] Haq Hqp; [rewrite is_left_same_tip; lia | apply PEND'; auto].
      + eapply edges_mono_in; [|exact COV']. intros b0 a0 Ia0 Ib0 H q [<-|Hq] Hb Ha; [|apply H; auto].
        exfalso. assert (La : LT a0 p) by (apply Hp, IN'; exact Ia0).
        destruct Ha as [Ha| ->]; [apply (lt_irrefl a0); eapply lt_trans; eauto | apply (lt_irrefl a0); exact La].
    - intros q [<-|Hq]; [right; reflexivity | left; apply Hp; exact Hq].
    - change (last (p :: a :: r) (0, 0)) with (last (a :: r) (0, 0)). rewrite LB.
      intros q [<-|Hq]; [|apply BOT; exact Hq].
      left. apply Hp, IN. apply last_in. exact NE.
  Qed.

  (* the whole scan *)
  Lemma fold_inv rest : forall done st disc, INV done st -> StronglySorted LT rest ->
    (forall q x, In q done -> In x rest -> LT q x) ->
    INV (rev rest ++ done) (fst (fold_left chain_step rest (st, disc))).
  Proof.
    induction rest as [|p rest IH]; intros done st disc HI S Hlt; cbn [fold_left rev app]; [exact HI|].
    inversion S as [|? ? S' Fp]; subst.
    pose proof (step_inv done st disc p HI (fun q Hq => Hlt q p Hq (or_introl eq_refl))) as H1.
    destruct (chain_step (st, disc) p) as [st1 d1] eqn:E. cbn [fst] in H1.
    rewrite <- app_assoc. cbn [app]. apply IH; [exact H1 | exact S' |].
    intros q x [<-|Hq] Hx; [rewrite Forall_forall in Fp; apply Fp; exact Hx | apply Hlt; [exact Hq | right; exact Hx]].
  Qed.

  Theorem scan_contains pts : NoDup pts -> pts <> [] ->
    let st := rev (fst (scan lt pts)) in               (* the chain, greatest vertex first *)
    st <> [] /\
    edges_ok (fun b a => LT b a) st /\
    edges_ok (fun b a => forall q, In q pts -> LE b q -> LE q a -> is_left b a q <= 0) st /\
    (forall q, In q pts -> LE (last st (0, 0)) q /\ LE q (hd (0, 0) st)).
  Proof.
    intros ND NE. cbv zeta. unfold scan.
    pose proof (psort_sorted pts ND) as S.
    destruct (psort lt pts) as [|p0 rest] eqn:EP.
    { exfalso. destruct pts as [|x pts]; [congruence|]. assert (H : In x (psort lt (x :: pts))) by (apply in_psort; left; reflexivity).
      rewrite EP in H. destruct H. }
    inversion S as [|? ? S' F0]; subst.
    assert (I0 : INV [p0] [p0]).
    { constructor; cbn [hd last edges_ok]; auto; [discriminate | intros q [<-|[]]; right; reflexivity | intros q [<-|[]]; right; reflexivity]. }
    pose proof (fold_inv rest [p0] [p0] [] I0 S') as HI.
    assert (Hlt : forall q x, In q [p0] -> In x rest -> LT q x).
    { intros q x [<-|[]] Hx. rewrite Forall_forall in F0. apply F0. exact Hx. }
    specialize (HI Hlt). destruct (fold_left chain_step rest ([p0], [])) as [st disc]. cbn [fst] in *.
    rewrite rev_involutive. destruct HI as [NE' IN' DESC' COV' TOP' BOT'].
    assert (SAME : forall q, In q pts <-> In q (rev rest ++ [p0])).
    { intros q. rewrite <- (in_psort lt q pts), EP. rewrite in_app_iff, <- in_rev. cbn [In]. tauto. }
    split; [exact NE'|]. split; [exact DESC'|]. split.
    - eapply edges_mono_in; [|exact COV']. intros b a _ _ H q Hq. apply H. apply SAME. exact Hq.
    - intros q Hq. apply SAME in Hq. split; [apply BOT' | apply TOP']; exact Hq.
  Qed.
End Chain.

(* ---------- the two scans of the convex hull ---------- *)
Lemma flt_irrefl a : ~ flt a a. Proof. unfold flt. lia. Qed.
Lemma flt_trans a b c : flt a b -> flt b c -> flt a c. Proof. unfold flt. lia. Qed.
Lemma flt_total (a b : pt) : a <> b -> flt a b \/ flt b a.
Proof.
  destruct a as [a1 a2], b as [b1 b2]. unfold flt. cbn [fst snd]. intros N.
  destruct (Z.eq_dec a1 b1) as [->|]; [|lia]. destruct (Z.eq_dec a2 b2) as [->|]; [congruence | lia].
Qed.

Theorem forward_scan_contains pts : NoDup pts -> pts <> [] ->
  let st := rev (fst (scan forward_lt pts)) in
  st <> [] /\
  edges_ok (fun b a => forward_lt b a = true) st /\
  edges_ok (fun b a => forall q, In q pts -> (forward_lt b q = true \/ b = q) -> (forward_lt q a = true \/ q = a) -> is_left b a q <= 0) st /\
  (forall q, In q pts -> (forward_lt (last st (0, 0)) q = true \/ last st (0, 0) = q) /\ (forward_lt q (hd (0, 0) st) = true \/ q = hd (0, 0) st)).
Proof.
  apply (scan_contains forward_lt).
  - intros a H. apply forward_lt_iff in H. exact (flt_irrefl a H).
  - intros a b c H1 H2. apply forward_lt_iff. apply forward_lt_iff in H1, H2. eapply flt_trans; eauto.
  - intros a b N. destruct (flt_total a b N); [left | right]; apply forward_lt_iff; assumption.
  - intros b a p q H1 H2 H3 C1 C2. apply forward_lt_iff in H1, H2. apply (L1 b a p q); auto.
    destruct H3 as [H3| ->]; [left; apply forward_lt_iff; exact H3 | right; reflexivity].
  - intros b a p q H1 H2 H3 H4 C1 C2. apply forward_lt_iff in H1, H2, H4. apply (L2 b a p q); auto.
    destruct H3 as [H3| ->]; [left; apply forward_lt_iff; exact H3 | right; reflexivity].
Qed.

Theorem reverse_scan_contains pts : NoDup pts -> pts <> [] ->
  let st := rev (fst (scan reverse_lt pts)) in
  st <> [] /\
  edges_ok (fun b a => reverse_lt b a = true) st /\
  edges_ok (fun b a => forall q, In q pts -> (reverse_lt b q = true \/ b = q) -> (reverse_lt q a = true \/ q = a) -> is_left b a q <= 0) st /\
  (forall q, In q pts -> (reverse_lt (last st (0, 0)) q = true \/ last st (0, 0) = q) /\ (reverse_lt q (hd (0, 0) st) = true \/ q = hd (0, 0) st)).
Proof.
  apply (scan_contains reverse_lt).
  - intros a H. apply reverse_lt_iff in H. exact (flt_irrefl a H).
  - intros a b c H1 H2. apply reverse_lt_iff. apply reverse_lt_iff in H1, H2. unfold rlt in *. eapply flt_trans; eauto.
  - intros a b N. destruct (flt_total a b N); [right | left]; apply reverse_lt_iff; assumption.
  - intros b a p q H1 H2 H3 C1 C2. apply reverse_lt_iff in H1, H2. apply (L1r b a p q); auto.
    destruct H3 as [H3| ->]; [left; apply reverse_lt_iff; exact H3 | right; reflexivity].
  - intros b a p q H1 H2 H3 H4 C1 C2. apply reverse_lt_iff in H1, H2, H4. apply (L2r b a p q); auto.
    destruct H3 as [H3| ->]; [left; apply reverse_lt_iff; exact H3 | right; reflexivity].
Qed.

(* non-vacuity: on a concrete point set the first chain keeps the three extreme points and every point is right of / on it *)
Example hull_chain_example :
  fst (scan forward_lt [(0, 0); (1, 1); (2, 0); (1, 3); (1, 0)]) = [(0, 0); (1, 3); (2, 0)] /\
  is_left (0, 0) (1, 3) (1, 1) <= 0 /\ is_left (1, 3) (2, 0) (1, 3) <= 0.
Proof. vm_compute. repeat split; discriminate. Qed.

(* the foreground pixels of a 2-D image are pairwise distinct points *)
Lemma NoDup_all_positions' sh : pos_shape sh -> NoDup (all_positions sh).
Proof.
  intros Hs. unfold all_positions.
  assert (G : forall l, NoDup l -> (forall i, In i l -> 0 <= i < size sh) -> NoDup (map (unravel sh) l)).
  { induction l as [|i l IH]; intros ND Hr; simpl; constructor.
    - intros Hin. apply in_map_iff in Hin. destruct Hin as [j [E Hj]].
      inversion ND; subst. assert (i = j).
      { rewrite <- (ravel_unravel sh i), <- (ravel_unravel sh j); auto; [now rewrite E | apply Hr; right; auto | apply Hr; left; auto]. }
      subst. contradiction.
    - inversion ND; subst. apply IH; auto. intros; apply Hr; right; auto. }
  apply G.
  - clear G. generalize 0 as a. induction (Z.to_nat (size sh)) as [|n IH]; intros a; simpl; constructor; [|apply IH].
    intros H. apply in_Zseq in H. lia.
  - intros i Hi. apply in_Zseq in Hi. pose proof (size_pos sh Hs). lia.
Qed.

Lemma fg_points_nodup f h w : shape f = [h; w] -> 0 < h -> 0 < w -> NoDup (fg_points f).
Proof.
  intros Hs Hh Hw. unfold fg_points. rewrite Hs.
  assert (Pp : pos_shape [h; w]) by (repeat constructor; lia).
  assert (ND : NoDup (filter (fgb f) (all_positions [h; w]))) by (apply NoDup_filter, NoDup_all_positions'; exact Pp).
  assert (IN : forall p, In p (filter (fgb f) (all_positions [h; w])) -> exists y x, p = [y; x]).
  { intros p Hp. apply filter_In in Hp. destruct Hp as [Hp _]. apply in_all_positions in Hp; auto.
    destruct p as [|y [|x [|z r]]]; simpl in Hp; try tauto. eauto. }
  revert ND IN. generalize (filter (fgb f) (all_positions [h; w])) as l.
  induction l as [|p l IH]; intros ND IN; cbn [map]; constructor.
  - intros H. apply in_map_iff in H. destruct H as [p' [E Hp']].
    destruct (IN p (or_introl eq_refl)) as [y [x ->]]. destruct (IN p' (or_intror Hp')) as [y' [x' ->]].
    cbn in E. injection E as -> ->. inversion ND; contradiction.
  - inversion ND; subst. apply IH; auto. intros; apply IN; right; auto.
Qed.
