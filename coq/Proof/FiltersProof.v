(* C07: rank / median / mean filters, template_match and find2d equal their definitions. *)
Require Import MV.Base.Prelude MV.Base.CInt MV.Base.Index MV.Base.BorderSpec.
Require Import MV.Gen.Scalar_gen MV.Model.Filter MV.Model.Filters MV.Proof.BorderNearest MV.Proof.Border MV.Proof.ConvProof MV.Proof.ScalarSat.
Require Import Coq.Sorting.Sorted.

(* ---------- samples ---------- *)
Lemma flat_map_filter {A B} (g : A -> list B) (P : A -> bool) l :
  flat_map g (filter P l) = flat_map (fun x => if P x then g x else []) l.
Proof. induction l as [|a l IH]; simpl; [reflexivity|]. destruct (P a); simpl; now rewrite IH. Qed.

Lemma flat_map_map {A B C} (g : B -> list C) (h : A -> B) l : flat_map g (map h l) = flat_map (fun x => g (h x)) l.
Proof. induction l as [|a l IH]; simpl; [reflexivity|]. now rewrite IH. Qed.

Lemma flat_map_ext' {A B} (g h : A -> list B) l : (forall x, g x = h x) -> flat_map g l = flat_map h l.
Proof. intros H. induction l as [|a l IH]; simpl; [reflexivity|]. now rewrite H, IH. Qed.

Theorem gather_spec m f bc p : valid_mode m -> shape_ok (shape f) ->
  gather m f bc 0 p = samples_spec m f bc p.
Proof.
  intros Hm Hs. unfold gather, samples_spec. rewrite entries_true_filter, flat_map_filter, entries_false_all, flat_map_map.
  apply flat_map_ext'. intros k. cbn [snd fst].
  destruct (aget bc k =? 0); cbn [negb]; [reflexivity|].
  unfold retrieve. rewrite fixpos_border by auto.
  destruct (border_pos _ _ _); reflexivity.
Qed.

(* ---------- order statistics ---------- *)
Lemma count_lt_cons x a l : count_lt x (a :: l) = (if a <? x then 1 else 0) + count_lt x l.
Proof. unfold count_lt, Zlen. simpl. destruct (a <? x); simpl length; lia. Qed.
Lemma count_le_cons x a l : count_le x (a :: l) = (if a <=? x then 1 else 0) + count_le x l.
Proof. unfold count_le, Zlen. simpl. destruct (a <=? x); simpl length; lia. Qed.
Lemma count_lt_nonneg x l : 0 <= count_lt x l. Proof. unfold count_lt, Zlen. lia. Qed.
Lemma count_le_nonneg x l : 0 <= count_le x l. Proof. unfold count_le, Zlen. lia. Qed.

Lemma count_lt_insert x a l : count_lt x (insert a l) = count_lt x (a :: l).
Proof.
  induction l as [|y t IH]; simpl; [reflexivity|].
  destruct (a <=? y); [reflexivity|]. rewrite !count_lt_cons. rewrite IH, count_lt_cons. lia.
Qed.
Lemma count_le_insert x a l : count_le x (insert a l) = count_le x (a :: l).
Proof.
  induction l as [|y t IH]; simpl; [reflexivity|].
  destruct (a <=? y); [reflexivity|]. rewrite !count_le_cons. rewrite IH, count_le_cons. lia.
Qed.
Lemma count_lt_isort x l : count_lt x (isort l) = count_lt x l.
Proof. induction l as [|a l IH]; simpl; [reflexivity|]. rewrite count_lt_insert, !count_lt_cons, IH. reflexivity. Qed.
Lemma count_le_isort x l : count_le x (isort l) = count_le x l.
Proof. induction l as [|a l IH]; simpl; [reflexivity|]. rewrite count_le_insert, !count_le_cons, IH. reflexivity. Qed.

Lemma in_insert x a l : In x (insert a l) <-> x = a \/ In x l.
Proof.
  induction l as [|y t IH]; simpl; [intuition|].
  destruct (a <=? y); simpl; [intuition|]. rewrite IH. intuition.
Qed.
Lemma in_isort x l : In x (isort l) <-> In x l.
Proof. induction l as [|a l IH]; simpl; [tauto|]. rewrite in_insert, IH. intuition. Qed.
Lemma insert_length a l : length (insert a l) = S (length l).
Proof. induction l as [|y t IH]; simpl; [reflexivity|]. destruct (a <=? y); simpl; auto. Qed.
Lemma isort_length l : length (isort l) = length l.
Proof. induction l as [|a l IH]; simpl; [reflexivity|]. now rewrite insert_length, IH. Qed.

Definition sorted (l : list Z) : Prop := StronglySorted Z.le l.
Lemma insert_sorted a l : sorted l -> sorted (insert a l).
Proof.
  unfold sorted. induction l as [|y t IH]; intros S; simpl.
  - constructor; constructor.
  - destruct (a <=? y) eqn:E.
    + constructor; [exact S|]. inversion S as [|? ? St Ft]; subst.
      constructor; [lia|]. rewrite Forall_forall in *. intros z Hz. specialize (Ft z Hz). lia.
    + inversion S as [|? ? St Ft]; subst. constructor; [apply IH; exact St|].
      rewrite Forall_forall in *. intros z Hz. apply in_insert in Hz. destruct Hz as [->|Hz]; [lia|auto].
Qed.
Lemma isort_sorted l : sorted (isort l).
Proof. induction l as [|a l IH]; simpl; [constructor|]. now apply insert_sorted. Qed.

Lemma count_lt_all_ge a t : (forall z, In z t -> a <= z) -> count_lt a t = 0.
Proof.
  induction t as [|y t IHt]; intros H; [reflexivity|]. rewrite count_lt_cons.
  rewrite IHt by (intros; apply H; simpl; auto). specialize (H y (or_introl eq_refl)).
  destruct (y <? a) eqn:E; lia.
Qed.

Lemma sorted_nth_counts s : sorted s -> forall r, (r < length s)%nat ->
  count_lt (nth r s 0) s <= Z.of_nat r < count_le (nth r s 0) s.
Proof.
  unfold sorted. induction 1 as [|a t St IH Ft]; intros r Hr; [simpl in Hr; lia|].
  rewrite Forall_forall in Ft.
  destruct r as [|r]; cbn [nth].
  - rewrite count_lt_cons, count_le_cons, Z.ltb_irrefl, Z.leb_refl.
    rewrite (count_lt_all_ge a t) by (intros; apply Ft; auto).
    pose proof (count_le_nonneg a t). lia.
  - simpl in Hr. specialize (IH r ltac:(lia)).
    assert (In (nth r t 0) t) by (apply nth_In; lia).
    pose proof (Ft _ H). rewrite count_lt_cons, count_le_cons.
    destruct (a <? nth r t 0); destruct (a <=? nth r t 0) eqn:E; lia.
Qed.

Theorem isort_nth_is_rth_smallest l r : 0 <= r < Zlen l -> is_rth_smallest l r (nthZ 0 (isort l) r).
Proof.
  intros Hr. unfold is_rth_smallest, nthZ, Zlen in *. destruct (r <? 0) eqn:E; [lia|].
  pose proof (sorted_nth_counts (isort l) (isort_sorted l) (Z.to_nat r)) as H.
  rewrite isort_length in H. specialize (H ltac:(lia)).
  rewrite count_lt_isort, count_le_isort in H. split; [|lia].
  apply in_isort. apply nth_In. rewrite isort_length. lia.
Qed.

(* uniqueness: the r-th smallest value is determined by the counting conditions *)
Lemma count_lt_le_mono l x y : x < y -> count_le x l <= count_lt y l.
Proof.
  intros H. induction l as [|a l IH]; [unfold count_le, count_lt; simpl; lia|].
  rewrite count_le_cons, count_lt_cons. destruct (a <=? x) eqn:E1; destruct (a <? y) eqn:E2; lia.
Qed.
Theorem rth_smallest_unique l r v w : is_rth_smallest l r v -> is_rth_smallest l r w -> v = w.
Proof.
  intros [_ Hv] [_ Hw]. destruct (Z.lt_trichotomy v w) as [L|[E|L]]; [|exact E|].
  - pose proof (count_lt_le_mono l v w L). lia.
  - pose proof (count_lt_le_mono l w v L). lia.
Qed.

(* rank_filter at one pixel *)
Definition eff_rank (n N2 rank : Z) : Z := if n =? N2 then rank else Z.quot (n * rank) N2.

Theorem rank_at_spec m f bc rank p v : valid_mode m -> shape_ok (shape f) ->
  rank_at m f bc rank p = Some v ->
  let s := samples_spec m f bc p in
  let N2 := Zlen (entries true bc) in
  0 <= rank < N2 /\ (0 < Zlen s -> is_rth_smallest s (eff_rank (Zlen s) N2 rank) v).
Proof.
  intros Hm Hs E. unfold rank_at in E. cbv zeta in *.
  destruct ((rank <? 0) || (rank >=? Zlen (entries true bc))) eqn:G; [discriminate|].
  apply some_inj in E. rewrite gather_spec in E by auto.
  split; [lia|]. intros Hpos. subst v.
  apply isort_nth_is_rth_smallest. unfold eff_rank.
  set (n := Zlen (samples_spec m f bc p)) in *. set (N2 := Zlen (entries true bc)) in *.
  destruct (n =? N2) eqn:En; [lia|].
  assert (n <= N2).
  { subst n N2. rewrite <- gather_spec with (m := m) by auto. unfold gather, Zlen.
    clear. induction (entries true bc) as [|e l IH]; simpl; [lia|]. rewrite app_length.
    destruct (retrieve m f p (fst e)); simpl; [lia|]. destruct (m =? ExtendConstant); simpl; lia. }
  split; [apply Z.quot_pos; nia|]. apply Z.quot_lt_upper_bound; nia.
Qed.

(* when no sample is dropped (every mode but `ignore` at the border) it is plain rank selection *)
Corollary rank_at_full m f bc rank p v : valid_mode m -> shape_ok (shape f) ->
  rank_at m f bc rank p = Some v -> Zlen (samples_spec m f bc p) = Zlen (entries true bc) ->
  is_rth_smallest (samples_spec m f bc p) rank v.
Proof.
  intros Hm Hs E L. destruct (rank_at_spec m f bc rank p v Hm Hs E) as [R H].
  unfold eff_rank in H. rewrite L, Z.eqb_refl in H. apply H. lia.
Qed.

(* ---------- mean ---------- *)
Theorem mean_at_spec m f bc p : valid_mode m -> shape_ok (shape f) ->
  mean_at m f bc p = (sumZ (samples_spec m f bc p), Zlen (samples_spec m f bc p)).
Proof.
  intros Hm Hs. rewrite <- gather_spec by auto. unfold mean_at, gather.
  assert (G : forall (l : list (list Z * Z)) s n, fold_left (fun sn e => match retrieve m f p (fst e) with
                         | Some v => (fst sn + v, snd sn)
                         | None => if m =? ExtendConstant then (fst sn + 0, snd sn) else (fst sn, snd sn - 1)
                         end) l (s, n + Zlen l) =
            (s + sumZ (flat_map (fun e => match retrieve m f p (fst e) with Some v => [v]
                       | None => if m =? ExtendConstant then [0] else [] end) l),
             n + Zlen (flat_map (fun e => match retrieve m f p (fst e) with Some v => [v]
                       | None => if m =? ExtendConstant then [0] else [] end) l))).
  { induction l as [|e l IH]; intros s n; simpl.
    - unfold Zlen; simpl. f_equal; lia.
    - unfold Zlen in *. simpl length. rewrite app_length.
      destruct (retrieve m f p (fst e)) as [v|]; cbn [fst snd].
      + replace (n + Z.of_nat (S (length l))) with ((n + 1) + Z.of_nat (length l)) by lia.
        rewrite IH. unfold sumZ. rewrite fold_right_app. simpl.
        f_equal; [|simpl; lia].
        fold sumZ. generalize (flat_map (fun e0 => match retrieve m f p (fst e0) with Some v0 => [v0]
                       | None => if m =? ExtendConstant then [0] else [] end) l). intros L. unfold sumZ. lia.
      + destruct (m =? ExtendConstant); cbn [fst snd].
        * replace (n + Z.of_nat (S (length l))) with ((n + 1) + Z.of_nat (length l)) by lia.
          rewrite IH. simpl. f_equal; lia.
        * replace (n + Z.of_nat (S (length l)) - 1) with (n + Z.of_nat (length l)) by lia.
          rewrite IH. simpl. f_equal. }
  specialize (G (entries true bc) 0 0). rewrite !Z.add_0_l in G. exact G.
Qed.

(* ---------- template_match ---------- *)
Lemma sumZ_nonneg l : (forall x, In x l -> 0 <= x) -> 0 <= sumZ l.
Proof.
  induction l as [|x l IH]; intros H; simpl; [lia|].
  assert (0 <= x) by (apply H; simpl; auto).
  assert (0 <= sumZ l) by (apply IH; intros; apply H; simpl; auto). lia.
Qed.

Lemma fold_wrap_sum_opt {A} t (g : A -> option Z) l a0 : wf_ity t ->
  (forall e x, In e l -> g e = Some x -> 0 <= x) -> 0 <= a0 ->
  a0 + sumZ (map (fun e => match g e with Some x => x | None => 0 end) l) <= tmax t ->
  fold_left (fun a e => match g e with Some x => wrap t (a + x) | None => a end) l a0
  = a0 + sumZ (map (fun e => match g e with Some x => x | None => 0 end) l).
Proof.
  intros W. revert a0; induction l as [|e l IH]; intros a0 Hg H0 Hb; simpl in *; [lia|].
  assert (0 <= sumZ (map (fun e => match g e with Some x => x | None => 0 end) l)).
  { apply sumZ_nonneg. intros x Hx. apply in_map_iff in Hx. destruct Hx as [e' [E Hi]].
    destruct (g e') eqn:G; [|lia]. subst. eapply Hg; eauto. }
  pose proof (tmin_le0 t W).
  destruct (g e) as [x|] eqn:G.
  - assert (0 <= x) by (eapply Hg; eauto).
    rewrite wrap_id by (auto; unfold in_range; lia).
    rewrite IH; [lia| intros; eapply Hg; eauto | lia | lia].
  - rewrite IH; [lia| intros; eapply Hg; eauto | lia | lia].
Qed.

Lemma fold_left_map' {A B C} (f : A -> B -> A) (h : C -> B) l a :
  fold_left f (map h l) a = fold_left (fun a x => f a (h x)) l a.
Proof. revert a; induction l as [|x l IH]; intros a; simpl; [reflexivity|]. apply IH. Qed.

Lemma tm_sample_window m f p off : valid_mode m -> shape_ok (shape f) ->
  tm_sample m f p off = window_sample m f p off.
Proof.
  intros Hm Hs. unfold tm_sample, window_sample, retrieve. rewrite fixpos_border by auto.
  destruct (border_pos m (shape f) (padd p off)); reflexivity.
Qed.

Theorem tm_at_spec ty m f t p : wf_ity ty -> valid_mode m -> shape_ok (shape f) ->
  (* no intermediate overflow: every absolute difference and the total are representable *)
  (forall k v, In k (all_positions (shape t)) ->
      window_sample m f p (psub k (centre (shape t))) = Some v -> Z.abs (v - aget t k) <= tmax ty) ->
  ssd_spec m f t p <= tmax ty ->
  tm_at (DInt ty) m f t p = ssd_spec m f t p.
Proof.
  intros W Hm Hs Hd Hb. unfold tm_at, ssd_spec in *. rewrite entries_false_all.
  pose proof (tmin_le0 ty W) as T0.
  set (g := fun k => match window_sample m f p (psub k (centre (shape t))) with
                     | Some v => Some ((v - aget t k) * (v - aget t k)) | None => None end).
  transitivity (fold_left (fun a k => match g k with Some x => wrap ty (a + x) | None => a end) (all_positions (shape t)) 0).
  - rewrite fold_left_map'.
    assert (G : forall l a,
      (forall k v, In k l -> window_sample m f p (psub k (centre (shape t))) = Some v ->
                   Z.abs (v - aget t k) <= tmax ty) ->
      fold_left (fun a0 x => match tm_sample m f p (fst (psub x (centre (shape t)), aget t x)) with
                   | Some v => let tj := snd (psub x (centre (shape t)), aget t x) in
                               let delta := wrapd (DInt ty) (if v >? tj then v - tj else tj - v) in
                               wrapd (DInt ty) (a0 + delta * delta)
                   | None => a0 end) l a
      = fold_left (fun a k => match g k with Some x => wrap ty (a + x) | None => a end) l a).
    { induction l as [|k l IH]; intros a Hl; [reflexivity|].
      cbn [fold_left]. rewrite <- IH by (intros; eapply Hl; simpl; eauto). f_equal.
      unfold g. rewrite tm_sample_window by auto. cbn [fst snd].
      destruct (window_sample m f p (psub k (centre (shape t)))) as [v|] eqn:E; [|reflexivity].
      specialize (Hl k v (or_introl eq_refl) E). cbn [wrapd]. cbv zeta.
      destruct (v >? aget t k) eqn:C;
        (rewrite (wrap_id ty (_ - _)) by (auto; unfold in_range; lia)); f_equal; nia. }
    apply G. exact Hd.
  - rewrite fold_wrap_sum_opt; auto; try lia.
    + rewrite Z.add_0_l. f_equal. apply map_ext. intros k. unfold g. destruct (window_sample _ _ _ _); reflexivity.
    + intros k x _. unfold g. destruct (window_sample _ _ _ _); [|discriminate]. intros E; apply some_inj in E. subst x. apply Z.square_nonneg.
    + rewrite Z.add_0_l. erewrite map_ext; [exact Hb|]. intros k. unfold g. destruct (window_sample _ _ _ _); reflexivity.
Qed.

(* constant mode pads the window with 0: a template hanging over the edge is charged the squares of its own entries there *)
Example ssd_constant_pads_with_zero :
  let f := {| shape := [3]; data := [1; 2; 3] |} in let t := {| shape := [3]; data := [2; 2; 2] |} in
  map (ssd_spec M_constant f t) (all_positions (shape f)) = [4 + 1 + 0; 1 + 0 + 1; 0 + 1 + 4]
  /\ map (ssd_spec M_ignore f t) (all_positions (shape f)) = [1 + 0; 1 + 0 + 1; 0 + 1]
  /\ template_match (DInt {| bits := 8; signed := false |}) ExtendConstant f t = [5; 2; 5].
Proof. vm_compute. repeat split; reflexivity. Qed.

(* ---------- find2d ---------- *)
Theorem find2d_marks_iff_occurs f t y x : shape f = [nthZ 0 (shape f) 0; nthZ 0 (shape f) 1] ->
  pos_shape (shape f) -> pos_shape (shape t) -> in_shape (shape f) [y; x] ->
  nthZ 0 (find2d f t) (ravel (shape f) [y; x]) = 1 <-> occurs_at f t y x.
Proof.
  intros Sh Pf Pt Hin. unfold find2d.
  pose proof (ravel_bound _ _ Pf Hin) as RB.
  rewrite nthZ_map with (da := []) by (unfold Zlen; rewrite all_positions_length; lia).
  rewrite nthZ_all_positions by lia. rewrite unravel_ravel by auto.
  change (nthZ 0 [y; x] 0) with y. change (nthZ 0 [y; x] 1) with x.
  unfold occurs_at.
  set (N0 := nthZ 0 (shape f) 0). set (N1 := nthZ 0 (shape f) 1).
  set (T0 := nthZ 0 (shape t) 0). set (T1 := nthZ 0 (shape t) 1).
  destruct ((y <=? N0 - T0) && (x <=? N1 - T1) && window_eq f t y x) eqn:E.
  - split; [intros _|reflexivity]. rewrite !andb_true_iff in E. destruct E as [[E1 E2] E3].
    repeat split; try lia. intros k Hk. unfold window_eq in E3. rewrite forallb_forall in E3.
    specialize (E3 k). rewrite in_all_positions in E3 by auto. specialize (E3 Hk). lia.
  - split; [discriminate|]. intros [H1 [H2 H3]]. exfalso.
    rewrite !andb_false_iff in E. destruct E as [[E|E]|E]; try lia.
    assert (window_eq f t y x = true); [|congruence].
    unfold window_eq. rewrite forallb_forall. intros k Hk. rewrite in_all_positions in Hk by auto.
    rewrite H3 by auto. apply Z.eqb_refl.
Qed.

Example find_flush_bottom_right :
  find2d {| shape := [2; 3]; data := [0; 0; 0; 0; 1; 2] |} {| shape := [1; 2]; data := [1; 2] |} = [0; 0; 0; 0; 1; 0]
  /\ find2d {| shape := [2; 2]; data := [1; 2; 3; 4] |} {| shape := [2; 2]; data := [1; 2; 3; 4] |} = [1; 0; 0; 0].
Proof. vm_compute. split; reflexivity. Qed.

Example rank_examples :
  rank_filter ExtendReflect {| shape := [5]; data := [5; 1; 4; 2; 3] |} {| shape := [3]; data := [1; 1; 1] |} 1 [9;9;9;9;9]
   = [5; 4; 2; 3; 3]
  /\ rank_filter ExtendIgnore {| shape := [3]; data := [5; 1; 4] |} {| shape := [3]; data := [1; 1; 1] |} 2 [9;9;9] = [5; 5; 4]
  /\ rank_filter ExtendReflect {| shape := [3]; data := [5; 1; 4] |} {| shape := [3]; data := [1; 1; 1] |} 3 [7;8;9] = [7; 8; 9].
Proof. vm_compute. repeat split; reflexivity. Qed.
