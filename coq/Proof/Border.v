(* Theorems about the GENERATED fix_offset (Gen/Scalar_gen.v): range and closed forms. *)
Require Import MV.Base.Prelude MV.Base.CInt MV.Base.BorderSpec MV.Gen.Scalar_gen MV.Proof.BorderNearest.

Definition border_spec (mode cc len : Z) : Z :=
  match border_map mode cc len with Some c => c | None => border_flag_value end.

Lemma fix_constant_spec m cc len : m = ExtendConstant \/ m = ExtendIgnore ->
  fix_offset m cc len = if (0 <=? cc) && (cc <? len) then cc else border_flag_value.
Proof.
  intros [-> | ->]; unfold fix_offset, ExtendConstant, ExtendIgnore, ExtendNearest, ExtendMirror, ExtendReflect, ExtendWrap; simpl; break_ifs; lia.
Qed.

Lemma mod_by_q cc sz q : 0 <= cc - sz * q < sz -> cc mod sz = cc - sz * q.
Proof. intros. symmetry. apply Z.mod_unique_pos with (q := q); lia. Qed.

Ltac rw_mod :=
  match goal with |- context[?c mod ?s] =>
    first [ rewrite (mod_by_q c s 0) by lia
          | rewrite (mod_by_q c s (-1)) by lia
          | match goal with |- context[?a ÷ s] =>
              first [ rewrite (mod_by_q c s (a ÷ s)) by lia
                    | rewrite (mod_by_q c s (- (a ÷ s))) by lia
                    | rewrite (mod_by_q c s (- (a ÷ s) - 1)) by lia
                    | rewrite (mod_by_q c s (- (a ÷ s) + 1)) by lia
                    | rewrite (mod_by_q c s (a ÷ s + 1)) by lia
                    | rewrite (mod_by_q c s (a ÷ s - 1)) by lia ]
            end ]
  end.

Ltac break_code_ifs :=
  repeat match goal with
  | |- context[if ?b then _ else _] =>
      lazymatch b with
      | context[Z.modulo] => fail
      | _ => let E := fresh "E" in destruct b eqn:E
      end
  end.

Ltac unfold_fix :=
  unfold fix_offset, ExtendNearest, ExtendMirror, ExtendReflect, ExtendWrap, ExtendConstant, ExtendIgnore;
  cbn [Z.eqb Pos.eqb orb]; cbv zeta.

Lemma fix_wrap_is_mod cc len : 1 <= len -> fix_offset ExtendWrap cc len = cc mod len.
Proof.
  intros H. unfold_fix. break_code_ifs; try (assert (len = 1) by lia; subst; now rewrite Z.mod_1_r);
    rw_mod; lia.
Qed.

Lemma fix_reflect_spec cc len : 1 <= len -> fix_offset ExtendReflect cc len = reflect_spec cc len.
Proof.
  intros H. unfold reflect_spec. unfold_fix.
  break_code_ifs; try rw_mod; break_ifs; lia.
Qed.

Lemma fix_mirror_spec cc len : 1 <= len -> fix_offset ExtendMirror cc len = mirror_spec cc len.
Proof.
  intros H. unfold mirror_spec. unfold_fix.
  break_code_ifs; try rw_mod;
    try (match goal with |- context[?s * (?a ÷ ?s) + ?c] => destruct (Z.eq_dec (s * (a ÷ s) + c) 0) end; rw_mod);
    break_ifs; lia.
Qed.

Theorem fix_offset_spec m cc len : valid_mode m -> 1 <= len ->
  fix_offset m cc len = border_spec m cc len.
Proof.
  intros Hm H. unfold valid_mode in Hm.
  assert (C : m = ExtendNearest \/ m = ExtendWrap \/ m = ExtendReflect \/ m = ExtendMirror \/
              m = ExtendConstant \/ m = ExtendIgnore)
    by (unfold ExtendNearest, ExtendWrap, ExtendReflect, ExtendMirror, ExtendConstant, ExtendIgnore; lia).
  destruct C as [->|[->|[->|[->|[->| ->]]]]]; unfold border_spec, border_map; cbn [Z.eqb Pos.eqb].
  - now rewrite fix_nearest_is_clamp.
  - now rewrite fix_wrap_is_mod.
  - now rewrite fix_reflect_spec.
  - now rewrite fix_mirror_spec.
  - rewrite fix_constant_spec by auto. now destruct ((0 <=? cc) && (cc <? len)).
  - rewrite fix_constant_spec by auto. now destruct ((0 <=? cc) && (cc <? len)).
Qed.

Lemma border_spec_range m cc len : valid_mode m -> 1 <= len ->
  let r := border_spec m cc len in
  (0 <= r < len) \/ ((m = ExtendConstant \/ m = ExtendIgnore) /\ ~ (0 <= cc < len) /\ r = border_flag_value).
Proof.
  intros Hm H. unfold valid_mode in Hm. cbv zeta.
  unfold border_spec, border_map, clamp, reflect_spec, mirror_spec,
    M_nearest, M_wrap, M_reflect, M_mirror, M_constant, M_ignore,
    ExtendNearest, ExtendWrap, ExtendReflect, ExtendMirror, ExtendConstant, ExtendIgnore.
  break_ifs; try lia.
Qed.

(* C10 core: every index produced by the border map is inside the axis, or is the flag
   (only in constant/ignore mode, only for a coordinate outside the axis). *)
Theorem fix_offset_in_range m cc len : valid_mode m -> 1 <= len ->
  let r := fix_offset m cc len in
  (0 <= r < len) \/ ((m = ExtendConstant \/ m = ExtendIgnore) /\ ~ (0 <= cc < len) /\ r = border_flag_value).
Proof. intros Hm H. rewrite fix_offset_spec by auto. now apply border_spec_range. Qed.

Theorem fix_offset_id_inside m cc len : valid_mode m -> 0 <= cc < len -> fix_offset m cc len = cc.
Proof.
  intros Hm H. rewrite fix_offset_spec by (auto; lia). unfold valid_mode in Hm.
  unfold border_spec, border_map, clamp, reflect_spec, mirror_spec,
    M_nearest, M_wrap, M_reflect, M_mirror, M_constant, M_ignore,
    ExtendNearest, ExtendWrap, ExtendReflect, ExtendMirror, ExtendConstant, ExtendIgnore.
  break_code_ifs; try lia.
  - apply Z.mod_small; lia.
  - rewrite Z.mod_small by lia. break_ifs; lia.
  - rewrite Z.mod_small by lia. break_ifs; lia.
Qed.

(* periodicity: what makes the border rule well defined for kernels larger than the image *)
Theorem fix_wrap_periodic cc len k : 1 <= len ->
  fix_offset ExtendWrap (cc + k * len) len = fix_offset ExtendWrap cc len.
Proof. intros. rewrite !fix_wrap_is_mod by auto. now rewrite Z.mod_add by lia. Qed.

Theorem fix_reflect_periodic cc len k : 1 <= len ->
  fix_offset ExtendReflect (cc + k * (2 * len)) len = fix_offset ExtendReflect cc len.
Proof. intros. rewrite !fix_reflect_spec by auto. unfold reflect_spec. now rewrite Z.mod_add by lia. Qed.

Theorem fix_reflect_symmetric cc len : 1 <= len ->
  fix_offset ExtendReflect (- cc - 1) len = fix_offset ExtendReflect cc len.
Proof.
  intros. rewrite !fix_reflect_spec by auto. unfold reflect_spec. cbv zeta.
  assert (E : (- cc - 1) mod (2 * len) = 2 * len - 1 - cc mod (2 * len)).
  { rewrite (mod_by_q (- cc - 1) (2 * len) (- (cc / (2 * len)) - 1)); lia. }
  rewrite E. break_ifs; lia.
Qed.

Theorem fix_mirror_symmetric cc len : 1 <= len ->
  fix_offset ExtendMirror (- cc) len = fix_offset ExtendMirror cc len.
Proof.
  intros. rewrite !fix_mirror_spec by auto. unfold mirror_spec.
  destruct (len <=? 1) eqn:L; [reflexivity|]. cbv zeta.
  destruct (Z.eq_dec (cc mod (2 * len - 2)) 0) as [Z0|NZ].
  - assert (E : (- cc) mod (2 * len - 2) = 0) by (rewrite (mod_by_q (- cc) (2 * len - 2) (- (cc / (2 * len - 2)))); lia).
    rewrite E, Z0. reflexivity.
  - assert (E : (- cc) mod (2 * len - 2) = 2 * len - 2 - cc mod (2 * len - 2)).
    { rewrite (mod_by_q (- cc) (2 * len - 2) (- (cc / (2 * len - 2)) - 1)); lia. }
    rewrite E. break_ifs; lia.
Qed.

Example fix_offset_examples :
  fix_offset ExtendReflect (-8) 2 = 0 /\ fix_offset ExtendReflect (-1) 4 = 0 /\
  fix_offset ExtendMirror (-1) 4 = 1 /\ fix_offset ExtendWrap (-1) 4 = 3 /\
  fix_offset ExtendNearest 9 4 = 3 /\ fix_offset ExtendConstant 4 4 = border_flag_value.
Proof. vm_compute. repeat split. Qed.
