(* C16: the incremental search of _histogram.cpp otsu() (running class means, early exit when the upper class is empty,
   skipping levels while the lower class is empty) returns the FIRST maximiser of the between-class variance: otsu = otsu_spec
   for every histogram of non-negative counts. *)
Require Import QArith Qabs Qminmax Lqa.
Require Import MV.Base.Prelude MV.Base.QHelp MV.Model.Threshold MV.Proof.ThresholdProof.
Open Scope Z_scope.

(* ---- sums over prefixes *)
Lemma sumZ_app0 a b : sumZ (a ++ b) = sumZ a + sumZ b.
Proof. unfold sumZ. induction a as [|x a IH]; cbn [app fold_right]; [lia | rewrite IH; lia]. Qed.
Lemma combine_app0 {A B} (a a' : list A) (b b' : list B) : length a = length b -> combine (a ++ a') (b ++ b') = combine a b ++ combine a' b'.
Proof. revert b. induction a as [|x a IH]; intros [|y b] H; try discriminate; [reflexivity|]. cbn [app combine]. rewrite IH by (cbn in H; lia). reflexivity. Qed.
Lemma Zseq_snoc a k : Zseq a (S k) = Zseq a k ++ [a + Z.of_nat k].
Proof. revert a. induction k as [|k IH]; intro a; [cbn; f_equal; lia|]. cbn [Zseq app] in *. f_equal. rewrite (IH (a + 1)). f_equal. f_equal. lia. Qed.
Lemma weighted_snoc l x : weighted (l ++ [x]) = weighted l + Zlen l * x.
Proof.
  unfold weighted. rewrite app_length. cbn [length]. rewrite Nat.add_1_r, Zseq_snoc, combine_app0 by (rewrite Zseq_length; reflexivity).
  rewrite map_app, sumZ_app0. cbn [combine map sumZ fold_right fst snd]. unfold Zlen. lia.
Qed.
Lemma firstn_snoc {A} (d : A) : forall k l, (k < length l)%nat -> firstn (S k) l = firstn k l ++ [nth k l d].
Proof. induction k as [|k IH]; intros [|x l] H; cbn in H; try lia; [reflexivity|]. cbn [firstn nth app]. f_equal. apply IH. lia. Qed.

Lemma sum_firstn1 l : sumZ (firstn 1 l) = nth 0 l 0.
Proof. destruct l as [|x l]; [reflexivity|]. cbn. lia. Qed.
Lemma weighted_firstn1 l : weighted (firstn 1 l) = 0.
Proof. destruct l as [|x l]; [reflexivity|]. cbn. lia. Qed.

Lemma In_firstn' {A} (x : A) : forall k l, In x (firstn k l) -> In x l.
Proof. induction k as [|k IH]; intros [|y l] H; cbn in H; try tauto. destruct H as [->|H]; [left; reflexivity | right; apply IH; exact H]. Qed.
Lemma sumZ_nonneg' l : Forall (fun v => 0 <= v) l -> 0 <= sumZ l.
Proof. induction 1 as [|x l Hx Hl IH]; cbn [sumZ fold_right]; [lia|]. unfold sumZ in IH. lia. Qed.

Section Otsu.
  Variable hist : list Z.
  Hypothesis Hnn : Forall (fun v => 0 <= v) hist.
  Let n := Zlen hist.
  Let tot := sumZ hist.
  Let W := weighted hist.
  Definition nB (T : Z) := cnt_le hist T.
  Definition sB (T : Z) := sum_le hist T.
  Definition nO (T : Z) := tot - nB T.
  Definition sO (T : Z) := W - sB T.
  Definition h (T : Z) := nthZ 0 hist T.

  Lemma h_nonneg T : 0 <= h T.
  Proof. unfold h, nthZ. destruct (T <? 0); [lia|]. destruct (nth_in_or_default (Z.to_nat T) hist 0) as [I|E]; [|rewrite E; lia]. rewrite Forall_forall in Hnn. apply Hnn. exact I. Qed.

  Lemma firstn_len T : 0 <= T < n -> Zlen (firstn (Z.to_nat T) hist) = T.
  Proof. intro H. unfold Zlen. rewrite firstn_length. unfold n, Zlen in H. lia. Qed.

  Lemma step_nB T : 1 <= T < n -> nB T = nB (T - 1) + h T.
  Proof.
    intro H. unfold nB, cnt_le, h. replace (Z.to_nat (T + 1)) with (S (Z.to_nat T)) by lia. replace (Z.to_nat (T - 1 + 1)) with (Z.to_nat T) by lia.
    rewrite (firstn_snoc 0) by (unfold n, Zlen in H; lia). rewrite sumZ_app0. cbn [sumZ fold_right].
    unfold nthZ. destruct (T <? 0) eqn:E; lia.
  Qed.
  Lemma step_sB T : 1 <= T < n -> sB T = sB (T - 1) + T * h T.
  Proof.
    intro H. unfold sB, sum_le, h. replace (Z.to_nat (T + 1)) with (S (Z.to_nat T)) by lia. replace (Z.to_nat (T - 1 + 1)) with (Z.to_nat T) by lia.
    rewrite (firstn_snoc 0) by (unfold n, Zlen in H; lia). rewrite weighted_snoc. rewrite firstn_len by lia.
    unfold nthZ. destruct (T <? 0) eqn:E; [lia | reflexivity].
  Qed.
  Lemma nB0 : nB 0 = h 0.
  Proof. unfold nB, cnt_le, h. change (Z.to_nat (0 + 1)) with 1%nat. rewrite sum_firstn1. reflexivity. Qed.
  Lemma sB0 : sB 0 = 0.
  Proof. unfold sB, sum_le. change (Z.to_nat (0 + 1)) with 1%nat. apply weighted_firstn1. Qed.

  Lemma nB_nonneg T : 0 <= nB T.
  Proof.
    unfold nB, cnt_le. apply sumZ_nonneg'. rewrite Forall_forall in *. intros x Hx. apply Hnn. apply (In_firstn' x _ _ Hx).
  Qed.

  Lemma nB_step_le T : 1 <= T < n -> nB (T - 1) <= nB T.
  Proof. intro H. rewrite (step_nB T H). pose proof (h_nonneg T). lia. Qed.
  Lemma nB_mono : forall k T, 0 <= T -> T + Z.of_nat k < n -> nB T <= nB (T + Z.of_nat k).
  Proof.
    induction k as [|k IH]; intros T H0 H1; [rewrite Z.add_0_r; lia|].
    specialize (IH T H0 ltac:(lia)). pose proof (nB_step_le (T + Z.of_nat (S k)) ltac:(lia)) as S1.
    replace (T + Z.of_nat (S k) - 1) with (T + Z.of_nat k) in S1 by lia. lia.
  Qed.
  Lemma nB_last : 1 <= n -> nB (n - 1) = tot.
  Proof.
    intro H. unfold nB, cnt_le, tot. replace (Z.to_nat (n - 1 + 1)) with (length hist) by (unfold n, Zlen; lia).
    rewrite firstn_all. reflexivity.
  Qed.
  Lemma nB_le_tot T : 0 <= T < n -> nB T <= tot.
  Proof.
    intro H. rewrite <- nB_last by lia. pose proof (nB_mono (Z.to_nat (n - 1 - T)) T ltac:(lia) ltac:(lia)) as M.
    replace (T + Z.of_nat (Z.to_nat (n - 1 - T))) with (n - 1) in M by lia. exact M.
  Qed.
  Lemma nO_nonneg T : 0 <= T < n -> 0 <= nO T.
  Proof. intro H. unfold nO. pose proof (nB_le_tot T H). lia. Qed.
  Lemma nO_step_le T : 1 <= T < n -> nO T <= nO (T - 1).
  Proof. intro H. unfold nO. pose proof (nB_step_le T H). lia. Qed.

  Lemma zero_prefix : forall k, Z.of_nat k < n -> nB (Z.of_nat k) = 0 -> sB (Z.of_nat k) = 0.
  Proof.
    induction k as [|k IH]; intros H E; [apply sB0|].
    assert (R : 1 <= Z.of_nat (S k) < n) by lia.
    rewrite (step_nB _ R) in E. rewrite (step_sB _ R).
    replace (Z.of_nat (S k) - 1) with (Z.of_nat k) in * by lia.
    pose proof (nB_nonneg (Z.of_nat k)). pose proof (h_nonneg (Z.of_nat (S k))).
    rewrite (IH ltac:(lia) ltac:(lia)). assert (h (Z.of_nat (S k)) = 0) by lia. rewrite H2. lia.
  Qed.

  (* the two cumulative lists of the code *)
  Lemma prefix_nth : forall l acc k, (k < length l)%nat -> nth k (prefix_sums acc l) 0 = acc + sumZ (firstn (S k) l).
  Proof.
    induction l as [|x l IH]; intros acc k H; [cbn in H; lia|]. destruct k as [|k].
    - cbn. lia.
    - cbn [prefix_sums nth]. rewrite IH by (cbn in H; lia).
      change (firstn (S (S k)) (x :: l)) with (x :: firstn (S k) l).
      change (sumZ (x :: firstn (S k) l)) with (x + sumZ (firstn (S k) l)). lia.
  Qed.
  Lemma prefix_len : forall l acc, length (prefix_sums acc l) = length l.
  Proof. induction l as [|x l IH]; intro acc; [reflexivity|]. cbn. rewrite IH. reflexivity. Qed.
  Lemma nBl_at T : 0 <= T < n -> nthZ 0 (prefix_sums 0 hist) T = nB T.
  Proof.
    intro H. unfold nthZ. destruct (T <? 0) eqn:E; [lia|]. rewrite prefix_nth by (unfold n, Zlen in H; lia).
    unfold nB, cnt_le. replace (Z.to_nat (T + 1)) with (S (Z.to_nat T)) by lia. lia.
  Qed.
  Lemma nOl_at t T : 0 <= T < n -> nthZ 0 (map (fun b => t - b) (prefix_sums 0 hist)) T = t - nB T.
  Proof.
    intro H. rewrite nthZ_map with (da := 0) by (unfold Zlen; rewrite prefix_len; unfold n, Zlen in H; lia).
    rewrite nBl_at by exact H. reflexivity.
  Qed.

  (* ---- Q helpers *)
  Lemma zq_plus a b : (zq (a + b) == zq a + zq b)%Q. Proof. unfold zq. rewrite inject_Z_plus. reflexivity. Qed.
  Lemma zq_mult a b : (zq (a * b) == zq a * zq b)%Q. Proof. unfold zq. rewrite inject_Z_mult. reflexivity. Qed.
  Lemma zq_minus a b : (zq (a - b) == zq a - zq b)%Q.
  Proof. unfold zq, Z.sub. rewrite inject_Z_plus, inject_Z_opp. reflexivity. Qed.
  Lemma zq_neq0 a : a <> 0 -> ~ (zq a == 0)%Q.
  Proof. intros H E. apply H. unfold zq, Qeq in E. cbn [inject_Z Qnum Qden] in E. lia. Qed.

  Definition mB (T : Z) : Q := if nB T =? 0 then 0%Q else (zq (sB T) / zq (nB T))%Q.
  Definition sstep (bt : Z * Q) (T : Z) : Z * Q := if qltb (snd bt) (sigma_spec hist T) then (T, sigma_spec hist T) else bt.

  Lemma sigma_unfold T : sigma_spec hist T =
    if (nB T =? 0) || (nO T =? 0) then 0%Q
    else (zq (nB T) * zq (nO T) * (zq (sB T) / zq (nB T) - zq (sO T) / zq (nO T)) * (zq (sB T) / zq (nB T) - zq (sO T) / zq (nO T)))%Q.
  Proof. reflexivity. Qed.

  Definition Inv (T : Z) (s : ostate) (bt : Z * Q) : Prop :=
    o_bestT s = fst bt /\ (o_best s == snd bt)%Q /\ (0 <= snd bt)%Q /\
    ((o_stop s = false /\ (o_muB s == mB T)%Q /\ (o_muO s == zq (sO T) / zq (nO T))%Q /\ nO T <> 0) \/
     (o_stop s = true /\ nO T = 0)).

  Lemma qltb_comp' a a' b b' : (a == a')%Q -> (b == b')%Q -> qltb a b = qltb a' b'.
  Proof.
    intros Ea Eb. destruct (qltb a' b') eqn:E.
    - apply qltb_spec. apply qltb_spec in E. rewrite Ea, Eb. exact E.
    - apply qltb_false. apply qltb_false in E. rewrite Ea, Eb. exact E.
  Qed.

  Lemma sstep_zero bt T : (0 <= snd bt)%Q -> (sigma_spec hist T == 0)%Q -> sstep bt T = bt.
  Proof. intros H E. unfold sstep. rewrite (qltb_comp' (snd bt) (snd bt) (sigma_spec hist T) 0 ltac:(reflexivity) E). rewrite (proj2 (qltb_false (snd bt) 0) H). reflexivity. Qed.

  Lemma otsu_step_inv t T s bt : t = tot -> 1 <= T < n -> Inv (T - 1) s bt ->
    Inv T (otsu_step hist (prefix_sums 0 hist) (map (fun b => t - b) (prefix_sums 0 hist)) s T) (sstep bt T).
  Proof.
    intros -> HT (I1 & I2 & I3 & I4). unfold otsu_step.
    rewrite (nBl_at T ltac:(lia)), (nBl_at (T - 1) ltac:(lia)), (nOl_at tot T ltac:(lia)), (nOl_at tot (T - 1) ltac:(lia)).
    fold (nO T) (nO (T - 1)) (h T).
    pose proof (nB_nonneg T) as NB. pose proof (nB_nonneg (T - 1)) as NBp. pose proof (h_nonneg T) as HH.
    pose proof (nO_nonneg T ltac:(lia)) as NO. pose proof (nO_step_le T HT) as NOle.
    pose proof (step_nB T HT) as SN. pose proof (step_sB T HT) as SS.
    destruct I4 as [(St & MB & MO & NOp)|(St & Zp)].
    - rewrite St.
      destruct (nB T =? 0) eqn:EB.
      + (* lower class still empty: nothing changes *)
        apply Z.eqb_eq in EB. rewrite (sstep_zero bt T I3) by (rewrite sigma_unfold, EB; reflexivity).
        split; [exact I1|]. split; [exact I2|]. split; [exact I3|]. left. split; [exact St|].
        assert (Ep : nB (T - 1) = 0) by lia. assert (Eh : h T = 0) by lia.
        split; [|split].
        * unfold mB in *. rewrite Ep in MB. rewrite EB. exact MB.
        * unfold sO, nO in *. rewrite SS, SN, Eh. rewrite Z.mul_0_r, !Z.add_0_r. exact MO.
        * unfold nO in *. rewrite SN, Eh, Z.add_0_r. exact NOp.
      + apply Z.eqb_neq in EB. destruct (nO T =? 0) eqn:EO.
        * (* upper class empty: stop *)
          apply Z.eqb_eq in EO. rewrite (sstep_zero bt T I3) by (rewrite sigma_unfold, EO, orb_true_r; reflexivity).
          cbn [o_bestT o_best o_stop]. split; [exact I1|]. split; [exact I2|]. split; [exact I3|]. right. split; [reflexivity | exact EO].
        * apply Z.eqb_neq in EO.
          set (muB' := Qred ((o_muB s * zq (nB (T - 1)) + zq (T * h T)) / zq (nB T))%Q).
          set (muO' := Qred ((o_muO s * zq (nO (T - 1)) - zq (T * h T)) / zq (nO T))%Q).
          assert (EmB : (muB' == zq (sB T) / zq (nB T))%Q).
          { unfold muB'. rewrite Qred_correct. rewrite MB. unfold mB. destruct (nB (T - 1) =? 0) eqn:Ep.
            - apply Z.eqb_eq in Ep.
              assert (Zs : sB (T - 1) = 0).
              { pose proof (zero_prefix (Z.to_nat (T - 1)) ltac:(lia)) as ZP. rewrite Z2Nat.id in ZP by lia. apply ZP. exact Ep. }
              rewrite SS, Zs, Ep, Z.add_0_l. change (zq 0) with 0%Q. field. apply zq_neq0. exact EB.
            - apply Z.eqb_neq in Ep. rewrite SS, zq_plus. field. split; apply zq_neq0; assumption. }
          assert (EmO : (muO' == zq (sO T) / zq (nO T))%Q).
          { unfold muO'. rewrite Qred_correct. rewrite MO. unfold sO at 2. rewrite SS.
            replace (W - (sB (T - 1) + T * h T)) with (sO (T - 1) - T * h T) by (unfold sO; lia).
            rewrite zq_minus. field. split; apply zq_neq0; assumption. }
          set (sg := Qred (zq (nB T) * zq (nO T) * (muB' - muO') * (muB' - muO'))%Q).
          assert (Esg : (sg == sigma_spec hist T)%Q).
          { unfold sg. rewrite Qred_correct. rewrite sigma_unfold.
            rewrite (proj2 (Z.eqb_neq (nB T) 0) EB), (proj2 (Z.eqb_neq (nO T) 0) EO). cbn [orb].
            rewrite EmB, EmO. reflexivity. }
          unfold sstep. rewrite (qltb_comp' (o_best s) (snd bt) sg (sigma_spec hist T) I2 Esg).
          destruct (qltb (snd bt) (sigma_spec hist T)) eqn:Dec; cbn [o_bestT o_best o_stop o_muB o_muO fst snd].
          -- split; [reflexivity|]. split; [exact Esg|]. split.
             ++ apply qltb_spec in Dec. apply Qlt_le_weak. eapply Qle_lt_trans; [exact I3 | exact Dec].
             ++ left. split; [reflexivity|]. split; [unfold mB; rewrite (proj2 (Z.eqb_neq (nB T) 0) EB); exact EmB|]. split; [exact EmO | exact EO].
          -- split; [exact I1|]. split; [exact I2|]. split; [exact I3|].
             left. split; [reflexivity|]. split; [unfold mB; rewrite (proj2 (Z.eqb_neq (nB T) 0) EB); exact EmB|]. split; [exact EmO | exact EO].
    - (* already stopped *)
      rewrite St. assert (Z0 : nO T = 0) by lia.
      rewrite (sstep_zero bt T I3) by (rewrite sigma_unfold, Z0, orb_true_r; reflexivity).
      split; [exact I1|]. split; [exact I2|]. split; [exact I3|]. right. split; [exact St | exact Z0].
  Qed.

  Lemma fold_inv t : t = tot -> forall k T0 s bt, 0 <= T0 -> T0 + Z.of_nat k < n -> Inv T0 s bt ->
    Inv (T0 + Z.of_nat k)
        (fold_left (otsu_step hist (prefix_sums 0 hist) (map (fun b => t - b) (prefix_sums 0 hist))) (Zseq (T0 + 1) k) s)
        (fold_left sstep (Zseq (T0 + 1) k) bt).
  Proof.
    intros Et. induction k as [|k IH]; intros T0 s bt H0 H1 I; [cbn [fold_left Zseq]; rewrite Z.add_0_r; exact I|].
    cbn [Zseq fold_left].
    replace (T0 + Z.of_nat (S k)) with ((T0 + 1) + Z.of_nat k) by lia.
    apply IH; [lia | lia|].
    apply (otsu_step_inv t (T0 + 1) s bt Et ltac:(lia)). replace (T0 + 1 - 1) with T0 by lia. exact I.
  Qed.

  Lemma sum_hd_tl : tot = nth 0 hist 0 + sumZ (tl hist).
  Proof. unfold tot. clear. destruct hist as [|x l]; [reflexivity|]. reflexivity. Qed.

  Theorem otsu_is_spec : otsu hist = otsu_spec hist.
  Proof.
    unfold otsu. cbv zeta. fold n.
    destruct (n <=? 1) eqn:E1.
    - (* at most one level *)
      apply Z.leb_le in E1. unfold otsu_spec. replace (length hist - 1)%nat with 0%nat by (unfold n, Zlen in E1; lia). reflexivity.
    - apply Z.leb_gt in E1.
      assert (Hs : sumZ (tl hist) = nO 0).
      { unfold nO. rewrite nB0. unfold h, nthZ. cbn [Z.ltb Z.compare Z.to_nat]. pose proof sum_hd_tl. lia. }
      rewrite Hs.
      assert (Tot : nthZ 0 (prefix_sums 0 hist) (n - 1) = tot) by (rewrite nBl_at by lia; apply nB_last; lia).
      rewrite Tot.
      destruct (nO 0 =? 0) eqn:E2.
      + (* everything at level 0: every split has an empty upper class *)
        apply Z.eqb_eq in E2. unfold otsu_spec.
        assert (AllZ : forall T, 0 <= T < n -> (sigma_spec hist T == 0)%Q).
        { intros T HT. rewrite sigma_unfold.
          assert (ZT : nO T = 0).
          { pose proof (nO_nonneg T HT) as NN. pose proof (nB_mono (Z.to_nat T) 0 ltac:(lia) ltac:(lia)) as M.
            rewrite Z.add_0_l, Z2Nat.id in M by lia. unfold nO in *. lia. }
          rewrite ZT, orb_true_r. reflexivity. }
        assert (G : forall l bt, (forall T, In T l -> 0 <= T < n) -> (0 <= snd bt)%Q -> fold_left sstep l bt = bt).
        { induction l as [|T l IH]; intros bt Hl Hb; [reflexivity|]. cbn [fold_left].
          rewrite (sstep_zero bt T Hb (AllZ T (Hl T (or_introl eq_refl)))). apply IH; [intros T' HT'; apply Hl; right; exact HT' | exact Hb]. }
        fold sstep. rewrite G; [reflexivity | |].
        * intros T HT. apply in_Zseq in HT. unfold n, Zlen in *. lia.
        * cbn [snd]. rewrite (AllZ 0 ltac:(lia)). apply Qle_refl.
      + apply Z.eqb_neq in E2.
        rewrite (nBl_at 0 ltac:(lia)), (nOl_at tot 0 ltac:(lia)). fold (nO 0).
        unfold otsu_spec. fold sstep.
        set (s0 := {| o_muB := 0; o_muO := (zq (weighted hist) / zq (nO 0))%Q;
                      o_best := (zq (nB 0) * zq (nO 0) * (0 - zq (weighted hist) / zq (nO 0)) * (0 - zq (weighted hist) / zq (nO 0)))%Q;
                      o_bestT := 0; o_stop := false |}).
        assert (I0 : Inv 0 s0 (0, sigma_spec hist 0)).
        { unfold Inv, s0. cbn [o_bestT o_best o_stop o_muB o_muO fst snd].
          pose proof (nB_nonneg 0) as NB. pose proof (nO_nonneg 0 ltac:(lia)) as NO.
          assert (SO0 : sO 0 = weighted hist) by (unfold sO; rewrite sB0; fold W; lia).
          assert (Sg : (zq (nB 0) * zq (nO 0) * (0 - zq (weighted hist) / zq (nO 0)) * (0 - zq (weighted hist) / zq (nO 0)) == sigma_spec hist 0)%Q).
          { rewrite sigma_unfold. rewrite (proj2 (Z.eqb_neq (nO 0) 0) E2), orb_false_r. rewrite SO0, sB0.
            destruct (nB 0 =? 0) eqn:EB; [apply Z.eqb_eq in EB; rewrite EB; change (zq 0) with 0%Q; ring|].
            apply Z.eqb_neq in EB. change (zq 0) with 0%Q. field. split; apply zq_neq0; assumption. }
          split; [reflexivity|]. split; [exact Sg|]. split.
          - rewrite <- Sg.
            assert (A : (0 <= zq (nB 0))%Q) by (unfold zq; change 0%Q with (inject_Z 0); rewrite <- Zle_Qle; exact NB).
            assert (B : (0 <= zq (nO 0))%Q) by (unfold zq; change 0%Q with (inject_Z 0); rewrite <- Zle_Qle; exact NO).
            set (d := (0 - zq (weighted hist) / zq (nO 0))%Q).
            assert (D : (0 <= d * d)%Q) by (destruct (Qlt_le_dec d 0); nra).
            rewrite <- Qmult_assoc. apply Qmult_le_0_compat; [apply Qmult_le_0_compat; assumption | exact D].
          - left. split; [reflexivity|]. split.
            + unfold mB. rewrite sB0. destruct (nB 0 =? 0) eqn:EB; [reflexivity|]. apply Z.eqb_neq in EB. change (zq 0) with 0%Q. field. apply zq_neq0. exact EB.
            + split; [rewrite SO0; reflexivity | exact E2]. }
        pose proof (fold_inv tot eq_refl (length hist - 1) 0 s0 (0, sigma_spec hist 0) ltac:(lia) ltac:(unfold n, Zlen in *; lia) I0) as F.
        rewrite Z.add_0_l in F. change (0 + 1) with 1 in F. destruct F as (F1 & _). exact F1.
  Qed.
End Otsu.
