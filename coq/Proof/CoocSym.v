(* C19: rotating an image by 180 degrees transposes its co-occurrence counts (ordered pairs at offset delta become ordered pairs
   at the same offset with the two grey levels exchanged), so the symmetric matrix C + C^T is invariant -- any dimension,
   any offset. *)
Require Import MV.Base.Prelude MV.Base.CInt MV.Base.Index MV.Base.BorderSpec MV.Model.Texture.
Require Import Permutation.

Definition rot180 (f : arr) : arr := {| shape := shape f; data := rev (data f) |}.

(* the point reflection of a position *)
Fixpoint prev (sh p : list Z) : list Z :=
  match sh, p with d :: r, a :: q => (d - 1 - a) :: prev r q | _, _ => [] end.

Lemma prev_in_shape sh : forall p, in_shape sh p -> in_shape sh (prev sh p).
Proof. induction sh as [|d r IH]; destruct p as [|a q]; simpl; try tauto. intros [H1 H2]. split; [lia|auto]. Qed.

Lemma prev_invol sh : forall p, in_shape sh p -> prev sh (prev sh p) = p.
Proof. induction sh as [|d r IH]; destruct p as [|a q]; simpl; try tauto. intros [H1 H2]. f_equal; [lia|auto]. Qed.

Lemma ravel_prev sh : pos_shape sh -> forall p, in_shape sh p -> ravel sh (prev sh p) = size sh - 1 - ravel sh p.
Proof.
  induction 1 as [|d r Hd Hr IH]; intros p Hp.
  - destruct p; simpl in *; [lia | tauto].
  - destruct p as [|a q]; simpl in *; [tauto|]. destruct Hp as [H1 H2]. rewrite IH by auto. ring.
Qed.

Lemma nthZ_rev (l : list Z) i : 0 <= i < Zlen l -> nthZ 0 (rev l) i = nthZ 0 l (Zlen l - 1 - i).
Proof.
  intros Hi. unfold nthZ, Zlen in *. destruct (i <? 0) eqn:E1; [lia|]. destruct (Z.of_nat (length l) - 1 - i <? 0) eqn:E2; [lia|].
  rewrite rev_nth by lia. f_equal. lia.
Qed.

Lemma aget_rot180 f p : wf_arr f -> in_shape (shape f) p -> aget (rot180 f) p = aget f (prev (shape f) p).
Proof.
  intros [Hs Hl] Hp. unfold aget, rot180. cbn [shape data].
  pose proof (ravel_bound (shape f) p Hs Hp).
  rewrite nthZ_rev by lia. rewrite ravel_prev by auto. f_equal. lia.
Qed.

(* positions and offsets *)
Lemma padd_in_len sh : forall p d, in_shape sh (padd p d) -> in_shape sh p -> length d = length sh -> True.
Proof. auto. Qed.

Lemma prev_padd sh : forall p d, in_shape sh p -> length d = length sh -> prev sh (padd p d) = psub (prev sh p) d.
Proof.
  induction sh as [|s r IH]; destruct p as [|a q]; destruct d as [|b e]; simpl; try tauto; try discriminate; try reflexivity.
  intros [H1 H2] L. injection L as L. f_equal; [lia | auto].
Qed.

Lemma padd_psub sh : forall p d, in_shape sh p -> length d = length sh -> padd (psub p d) d = p.
Proof.
  induction sh as [|s r IH]; destruct p as [|a q]; destruct d as [|b e]; simpl; try tauto; try discriminate; try reflexivity.
  intros [H1 H2] L. injection L as L. f_equal; [lia | auto].
Qed.

Lemma psub_padd sh : forall p d, in_shape sh p -> length d = length sh -> psub (padd p d) d = p.
Proof.
  induction sh as [|s r IH]; destruct p as [|a q]; destruct d as [|b e]; simpl; try tauto; try discriminate; try reflexivity.
  intros [H1 H2] L. injection L as L. f_equal; [lia | auto].
Qed.

Lemma in_shape_len sh : forall p, in_shape sh p -> length p = length sh.
Proof. induction sh; destruct p; simpl; try tauto. intros [_ H]. f_equal. auto. Qed.

Lemma padd_len p : forall d, length d = length p -> length (padd p d) = length p.
Proof. induction p; destruct d; simpl; intros; try discriminate; auto. Qed.

Lemma prev_len sh : forall p, length p = length sh -> length (prev sh p) = length sh.
Proof. induction sh; destruct p; simpl; intros; try discriminate; auto. Qed.

Lemma NoDup_all_positions sh : pos_shape sh -> NoDup (all_positions sh).
Proof.
  intros Hs. unfold all_positions.
  assert (G : forall l, NoDup l -> (forall i, In i l -> 0 <= i < size sh) -> NoDup (map (unravel sh) l)).
  { induction l as [|i l IH]; intros ND Hr; simpl; constructor.
    - intros Hin. apply in_map_iff in Hin. destruct Hin as [j [E Hj]].
      inversion ND; subst. assert (i = j).
      { rewrite <- (ravel_unravel sh i), <- (ravel_unravel sh j); auto; [now rewrite E | apply Hr; right; auto | apply Hr; left; auto]. }
      subst. contradiction.
    - inversion ND; subst. apply IH; auto. intros; apply Hr; right; auto. }
  apply G.
  - clear G. generalize 0 as a. induction (Z.to_nat (size sh)) as [|n IH]; intros a; simpl; constructor; [|apply IH].
    intros H. apply in_Zseq in H. lia.
  - intros i Hi. apply in_Zseq in Hi. pose proof (size_pos sh Hs). lia.
Qed.

Section Rot.
  Variable f : arr.
  Variable delta : list Z.
  Hypothesis Hf : wf_arr f.
  Hypothesis Hd : length delta = length (shape f).
  Let sh := shape f.

  Definition good (g : arr) (a b : Z) (p : list Z) : bool :=
    in_shapeb (shape g) (padd p delta) && (aget g p =? a) && (aget g (padd p delta) =? b).
  Definition phi (p : list Z) : list Z := psub (prev sh p) delta.

  Lemma Pp : pos_shape sh. Proof. exact (proj1 Hf). Qed.

  (* phi maps the pairs counted for (rot180 f, a, b) to the pairs counted for (f, b, a), and is an involution there *)
  Lemma phi_good a b p : in_shape sh p -> good (rot180 f) a b p = true ->
    in_shape sh (phi p) /\ good f b a (phi p) = true /\ phi (phi p) = p.
  Proof.
    intros Hp G. unfold good in G. cbn [rot180 shape] in G. fold sh in G.
    apply andb_prop in G. destruct G as [G Gb]. apply andb_prop in G. destruct G as [Gi Ga].
    apply in_shapeb_iff in Gi. apply Z.eqb_eq in Ga, Gb.
    rewrite aget_rot180 in Ga, Gb by auto. fold sh in Ga, Gb.
    assert (E : phi p = prev sh (padd p delta)) by (unfold phi; symmetry; apply prev_padd; auto).
    assert (Hq : in_shape sh (phi p)) by (rewrite E; apply prev_in_shape; auto).
    assert (Hqd : padd (phi p) delta = prev sh p).
    { unfold phi. apply (padd_psub sh); auto. apply prev_in_shape; auto. }
    split; [exact Hq|]. split.
    - unfold good. fold sh. rewrite Hqd.
      assert (in_shapeb sh (prev sh p) = true) by (apply in_shapeb_iff, prev_in_shape; auto).
      rewrite H, E, Gb, Ga, !Z.eqb_refl. reflexivity.
    - unfold phi at 1. rewrite E. rewrite prev_invol by auto. apply (psub_padd sh); auto.
  Qed.

  Lemma phi_good' a b q : in_shape sh q -> good f b a q = true ->
    in_shape sh (phi q) /\ good (rot180 f) a b (phi q) = true /\ phi (phi q) = q.
  Proof.
    intros Hq G. unfold good in G. fold sh in G.
    apply andb_prop in G. destruct G as [G Ga]. apply andb_prop in G. destruct G as [Gi Gb].
    apply in_shapeb_iff in Gi. apply Z.eqb_eq in Ga, Gb.
    assert (E : phi q = prev sh (padd q delta)) by (unfold phi; symmetry; apply prev_padd; auto).
    assert (Hp : in_shape sh (phi q)) by (rewrite E; apply prev_in_shape; auto).
    assert (Hpd : padd (phi q) delta = prev sh q).
    { unfold phi. apply (padd_psub sh); auto. apply prev_in_shape; auto. }
    split; [exact Hp|]. split.
    - unfold good. cbn [rot180 shape]. fold sh. rewrite Hpd.
      assert (Hin : in_shapeb sh (prev sh q) = true) by (apply in_shapeb_iff, prev_in_shape; auto).
      rewrite Hin. rewrite !aget_rot180 by (auto; apply prev_in_shape; auto). fold sh.
      rewrite E at 1. rewrite !prev_invol by auto. rewrite Ga, Gb, !Z.eqb_refl. reflexivity.
    - unfold phi at 1. rewrite E. rewrite prev_invol by auto. apply (psub_padd sh); auto.
  Qed.

  Theorem cooc_spec_rot180 a b : cooc_spec (rot180 f) delta a b = cooc_spec f delta b a.
  Proof.
    assert (U : forall g x y, cooc_spec g delta x y = Zlen (filter (good g x y) (all_positions (shape g)))) by reflexivity.
    rewrite !U. cbn [rot180 shape]. fold sh.
    set (L := all_positions sh).
    assert (ND : NoDup L) by (apply NoDup_all_positions, Pp).
    assert (InL : forall p, In p L <-> in_shape sh p) by (intros; apply in_all_positions, Pp).
    unfold Zlen. f_equal.
    rewrite <- (map_length phi (filter (good (rot180 f) a b) L)).
    apply Permutation_length. apply NoDup_Permutation.
    - (* phi is injective on the counted positions *)
      assert (G : forall l, NoDup l -> (forall p, In p l -> in_shape sh p /\ good (rot180 f) a b p = true) -> NoDup (map phi l)).
      { induction l as [|p l IH]; intros N H; simpl; constructor.
        - intros Hin. apply in_map_iff in Hin. destruct Hin as [p' [E Hp']].
          destruct (H p (or_introl eq_refl)) as [A1 A2]. destruct (H p' (or_intror Hp')) as [B1 B2].
          destruct (phi_good a b p A1 A2) as [_ [_ I1]]. destruct (phi_good a b p' B1 B2) as [_ [_ I2]].
          assert (p = p') by (rewrite <- I1, <- I2, E; reflexivity). subst. inversion N; contradiction.
        - inversion N; subst. apply IH; auto. intros; apply H; right; auto. }
      apply G; [apply NoDup_filter; exact ND|].
      intros p Hp. apply filter_In in Hp. destruct Hp as [Hp Gp]. split; [apply InL; auto | auto].
    - apply NoDup_filter; exact ND.
    - intros q. split.
      + intros Hq. apply in_map_iff in Hq. destruct Hq as [p [<- Hp]]. apply filter_In in Hp. destruct Hp as [Hp Gp].
        apply InL in Hp. destruct (phi_good a b p Hp Gp) as [A [B _]]. apply filter_In. split; [apply InL; auto | auto].
      + intros Hq. apply filter_In in Hq. destruct Hq as [Hq Gq]. apply InL in Hq.
        destruct (phi_good' a b q Hq Gq) as [A [B C]]. apply in_map_iff. exists (phi q). split; [exact C|].
        apply filter_In. split; [apply InL; auto | auto].
  Qed.

  (* the symmetric count C[a,b] + C[b,a] is invariant *)
  Corollary cooc_sym_rot180 a b :
    cooc_spec (rot180 f) delta a b + cooc_spec (rot180 f) delta b a = cooc_spec f delta a b + cooc_spec f delta b a.
  Proof. rewrite !cooc_spec_rot180. lia. Qed.
End Rot.

Example rot180_example :
  let f := {| shape := [2; 3]; data := [0; 1; 2; 2; 1; 0] |} in
  let g := {| shape := [2; 3]; data := [0; 1; 1; 2; 0; 0] |} in
  rot180 f = f /\ cooc_spec g [0; 1] 0 1 = 1 /\ cooc_spec (rot180 g) [0; 1] 0 1 = 0 /\ cooc_spec (rot180 g) [0; 1] 1 0 = 1.
Proof. vm_compute. repeat split. Qed.

(* ---------- transposition of a 2-D image permutes the directions: counts at (dy, dx) become counts at (dx, dy) ---------- *)
Definition transpose2 (f : arr) : arr :=
  match shape f with
  | [h; w] => {| shape := [w; h]; data := map (fun i => nthZ 0 (data f) ((i mod h) * w + i / h)) (Zseq 0 (Z.to_nat (h * w))) |}
  | _ => f
  end.

Definition swap2 (p : list Z) : list Z := match p with [y; x] => [x; y] | _ => p end.

Section Tr.
  Variable f : arr.
  Variables h w : Z.
  Hypothesis Hsh : shape f = [h; w].
  Hypothesis Hf : wf_arr f.

  Lemma hw_pos : 0 < h /\ 0 < w.
  Proof. destruct Hf as [P _]. rewrite Hsh in P. inversion P as [|? ? H1 P']; subst. inversion P'; subst. auto. Qed.

  Lemma shape_tr : shape (transpose2 f) = [w; h].
  Proof. unfold transpose2. rewrite Hsh. reflexivity. Qed.

  Lemma aget_tr x y : 0 <= x < w -> 0 <= y < h -> aget (transpose2 f) [x; y] = aget f [y; x].
  Proof.
    intros Hx Hy. unfold aget. rewrite shape_tr, Hsh. unfold transpose2. rewrite Hsh. cbn [data ravel size].
    replace (x * (h * 1) + (y * 1 + 0)) with (x * h + y) by ring.
    replace (y * (w * 1) + (x * 1 + 0)) with (y * w + x) by ring.
    assert (0 <= x * h + y < h * w) by nia.
    rewrite nthZ_map with (da := 0) by (unfold Zlen; rewrite Zseq_length; lia).
    rewrite nthZ_Zseq by lia. rewrite Z.add_0_l.
    replace ((x * h + y) mod h) with y by (rewrite Z.add_comm, Z.mod_add by lia; symmetry; apply Z.mod_small; lia).
    replace ((x * h + y) / h) with x by (rewrite Z.add_comm, Z.div_add by lia; rewrite Z.div_small by lia; lia).
    reflexivity.
  Qed.

  Lemma in22 a b p : in_shape [a; b] p <-> exists y x, p = [y; x] /\ 0 <= y < a /\ 0 <= x < b.
  Proof.
    split.
    - destruct p as [|y [|x [|z r]]]; simpl; try tauto. intros [H1 [H2 _]]. exists y, x. auto.
    - intros [y [x [-> [H1 H2]]]]. simpl. auto.
  Qed.

  Theorem cooc_spec_transpose dy dx a b :
    cooc_spec (transpose2 f) [dx; dy] a b = cooc_spec f [dy; dx] a b.
  Proof.
    destruct hw_pos as [Ph Pw].
    unfold cooc_spec. rewrite shape_tr, Hsh.
    set (G := fun p => in_shapeb [w; h] (padd p [dx; dy]) && (aget (transpose2 f) p =? a) && (aget (transpose2 f) (padd p [dx; dy]) =? b)).
    set (F := fun p => in_shapeb [h; w] (padd p [dy; dx]) && (aget f p =? a) && (aget f (padd p [dy; dx]) =? b)).
    assert (Pwh : pos_shape [w; h]) by (repeat constructor; lia).
    assert (Phw : pos_shape [h; w]) by (repeat constructor; lia).
    unfold Zlen. f_equal.
    rewrite <- (map_length swap2 (filter G (all_positions [w; h]))).
    apply Permutation_length. apply NoDup_Permutation.
    - assert (Inj : forall l, NoDup l -> (forall p, In p l -> in_shape [w; h] p) -> NoDup (map swap2 l)).
      { induction l as [|p l IH]; intros N H; simpl; constructor.
        - intros Hin. apply in_map_iff in Hin. destruct Hin as [p' [E Hp']].
          destruct (proj1 (in22 w h p) (H p (or_introl eq_refl))) as [y [x [-> _]]].
          destruct (proj1 (in22 w h p') (H p' (or_intror Hp'))) as [y' [x' [-> _]]].
          simpl in E. injection E as E1 E2. subst. inversion N; contradiction.
        - inversion N; subst. apply IH; auto. intros; apply H; right; auto. }
      apply Inj; [apply NoDup_filter, NoDup_all_positions; auto|].
      intros p Hp. apply filter_In in Hp. apply in_all_positions; [auto | tauto].
    - apply NoDup_filter, NoDup_all_positions; auto.
    - assert (Key : forall x y, 0 <= x < w -> 0 <= y < h -> G [x; y] = F [y; x]).
      { intros x y Hx Hy. unfold G, F. cbn [padd].
        assert (E : in_shapeb [w; h] [x + dx; y + dy] = in_shapeb [h; w] [y + dy; x + dx]).
        { cbn [in_shapeb]. rewrite !andb_true_r. rewrite (andb_comm ((0 <=? x + dx) && (x + dx <? w))). reflexivity. }
        rewrite E. rewrite aget_tr by auto.
        destruct (in_shapeb [h; w] [y + dy; x + dx]) eqn:I; [|reflexivity].
        apply in_shapeb_iff in I. cbn [in_shape] in I. rewrite aget_tr by lia. reflexivity. }
      intros q. split.
      + intros Hq. apply in_map_iff in Hq. destruct Hq as [p [<- Hp]]. apply filter_In in Hp. destruct Hp as [Hp Gp].
        apply in_all_positions in Hp; auto. destruct (proj1 (in22 w h p) Hp) as [x [y [-> [Hx Hy]]]].
        cbn [swap2]. apply filter_In. split; [apply in_all_positions; auto; simpl; lia|]. rewrite <- Key; auto.
      + intros Hq. apply filter_In in Hq. destruct Hq as [Hq Fq]. apply in_all_positions in Hq; auto.
        destruct (proj1 (in22 h w q) Hq) as [y [x [-> [Hy Hx]]]].
        apply in_map_iff. exists [x; y]. split; [reflexivity|]. apply filter_In.
        split; [apply in_all_positions; auto; simpl; lia|]. rewrite Key; auto.
  Qed.
End Tr.

Example transpose_example :
  let g := {| shape := [2; 3]; data := [0; 1; 1; 2; 0; 0] |} in
  data (transpose2 g) = [0; 2; 1; 0; 1; 0] /\ cooc_spec g [0; 1] 0 1 = 1 /\ cooc_spec (transpose2 g) [1; 0] 0 1 = 1 /\
  cooc_spec (transpose2 g) [0; 1] 0 1 = 0.
Proof. vm_compute. repeat split. Qed.
