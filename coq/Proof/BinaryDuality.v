(* C02: binary dilation is the complement of the erosion of the complement, for every element whose clamped neighbourhood
   relation is symmetric -- in particular for every element that is symmetric and closed under shrinking its offsets
   coordinate-wise (cross, boxes, disks), borders included. *)
Require Import MV.Base.Prelude MV.Base.CInt MV.Base.Index MV.Base.BorderSpec.
Require Import MV.Gen.Scalar_gen MV.Model.Filter MV.Model.Morph.
Require Import MV.Proof.ScalarSat MV.Proof.MorphProof MV.Proof.MorphLaws MV.Proof.MorphBounds.

Definition bnot (x : list Z) : list Z := map (fun v => 1 - v) x.

Definition offs (bc : arr) : list (list Z) := map fst (entries true bc).

(* p reaches q: some member offset, added to p and clamped into the image, gives q *)
Definition reaches (sh : list Z) (bc : arr) (p q : list Z) : Prop :=
  exists o, In o (offs bc) /\ clampos sh (padd p o) = q.

Definition nbr_sym (sh : list Z) (bc : arr) : Prop :=
  forall p q, in_shape sh p -> in_shape sh q -> reaches sh bc p q -> reaches sh bc q p.

Section Duality.
  Variable sh : list Z.
  Variable bc : arr.
  Hypothesis Hsh : shape_ok sh.
  Hypothesis Hbc : forall e, In e (entries true bc) -> length (fst e) = length sh.
  Hypothesis Hsym : nbr_sym sh bc.
  Let n := size sh.

  Lemma Pp : pos_shape sh.
  Proof. exact (shape_ok_pos sh Hsh). Qed.
  Local Hint Resolve Pp : core.

  Lemma bnot_bimg f : bimg sh f -> bimg sh (bnot f).
  Proof.
    intros [L B]. split; [unfold bnot, Zlen in *; rewrite map_length; exact L|].
    unfold bnot. apply Forall_forall. intros x Hx. apply in_map_iff in Hx. destruct Hx as [v [<- Hv]].
    rewrite Forall_forall in B. destruct (B v Hv) as [->| ->]; [right|left]; reflexivity.
  Qed.

  Lemma nthZ_bnot f i : 0 <= i < Zlen f -> nthZ 0 (bnot f) i = 1 - nthZ 0 f i.
  Proof. intros Hi. unfold bnot. now rewrite nthZ_map with (da := 0). Qed.

  Lemma clamp_len p o : in_shape sh p -> In o (offs bc) -> in_shape sh (clampos sh (padd p o)).
  Proof.
    intros Hp Ho. apply clampos_in_shape; auto.
    unfold offs in Ho. apply in_map_iff in Ho. destruct Ho as [e [<- He]].
    rewrite padd_length; rewrite (in_shape_length sh p Hp); auto. symmetry; auto.
  Qed.

  (* dilation: a pixel is set exactly when some set pixel reaches it *)
  Lemma bdil_one f i : bimg sh f -> 0 <= i < n ->
    (nthZ 0 (bdil sh bc f) i = 1 <->
     exists p, in_shape sh p /\ nthZ 0 f (ravel sh p) = 1 /\ reaches sh bc p (unravel sh i)).
  Proof.
    intros [Lf Bf] Hi. unfold bdil. rewrite dilate_generic_char; auto. cbn [A shape dmin]. split.
    - intros E.
      match type of E with maxl 0 ?l = 1 => destruct (maxl_attained 0 l) as [E0|Hin] end; [lia|].
      rewrite E in Hin. apply in_map_iff in Hin. destruct Hin as [u [Eu Hu]].
      apply filter_In in Hu. destruct Hu as [Hu Hi'].
      apply in_flat_map in Hu. destruct Hu as [p [Hp Hu]]. apply in_all_positions in Hp; auto.
      unfold contribs in Hu. cbn [A shape dmin is_bool] in Hu. unfold aget in Hu. cbn [A shape data] in Hu.
      destruct (nthZ 0 f (ravel sh p) =? 0) eqn:Z0; [destruct Hu|].
      apply in_map_iff in Hu. destruct Hu as [e [<- He]]. cbn [fst snd] in *.
      exists p. split; auto. split.
      + destruct (nthZ_bit f (ravel sh p) Bf); lia.
      + exists (fst e). split; [unfold offs; apply in_map; exact He|].
        assert (Ei : ravel sh (clampos sh (padd p (fst e))) = i) by lia. rewrite <- Ei.
        rewrite unravel_ravel; auto. apply clamp_len; auto. unfold offs; apply in_map; exact He.
    - intros [p [Hp [E1 [o [Ho Eq]]]]].
      unfold offs in Ho. apply in_map_iff in Ho. destruct Ho as [e [<- He]].
      assert (Hge : 1 <= maxl 0 (map snd (filter (fun u => fst u =? i)
                 (flat_map (contribs DBool (A sh f) bc) (all_positions sh))))).
      { apply maxl_ge_in. apply in_map_iff. exists (i, 1). split; [reflexivity|].
        apply filter_In. split; [|simpl; lia].
        apply in_flat_map. exists p. split; [apply in_all_positions; auto|].
        unfold contribs. cbn [A shape dmin is_bool]. unfold aget. cbn [A shape data]. rewrite E1. simpl.
        apply in_map_iff. exists e. split; auto. f_equal.
        - rewrite Eq. apply ravel_unravel; auto.
        - unfold dadd, dilate_add_bool. pose proof (entries_true_nz bc e He).
          destruct (snd e =? 0) eqn:Z0; [lia|]. reflexivity. }
      pose proof (bdil_bimg sh bc Hsh Hbc f (conj Lf Bf)) as [Ld Bd].
      pose proof (nthZ_bit _ i Bd) as Hb. unfold bdil in Hb. rewrite dilate_generic_char in Hb; auto.
      cbn [A shape dmin] in Hb. destruct Hb; lia.
  Qed.

  (* erosion: a pixel is cleared exactly when it reaches some cleared pixel *)
  Lemma bero_zero g i : bimg sh g -> 0 <= i < n ->
    (nthZ 0 (bero sh bc g) i = 0 <->
     exists q, nthZ 0 g (ravel sh q) = 0 /\ reaches sh bc (unravel sh i) q).
  Proof.
    intros [Lg Bg] Hi. rewrite ero_nth by auto. split.
    - intros E.
      match type of E with minl 1 ?l = 0 => destruct (minl_attained 1 l) as [E0|Hin] end; [lia|].
      rewrite E in Hin. apply in_map_iff in Hin. destruct Hin as [e [Ee He]].
      rewrite (esub_bool_bit sh) in Ee; [| exact (nthZ_bit g _ Bg) | exact (entries_true_nz bc e He)].
      exists (clampos sh (padd (unravel sh i) (fst e))). split; auto.
      exists (fst e). split; [unfold offs; apply in_map; exact He | reflexivity].
    - intros [q [E0 [o [Ho Eq]]]].
      unfold offs in Ho. apply in_map_iff in Ho. destruct Ho as [e [<- He]].
      assert (Hle : minl 1 (map (fun e0 => esub DBool (nthZ 0 g (ravel sh (clampos sh (padd (unravel sh i) (fst e0))))) (snd e0))
                (entries true bc)) <= 0).
      { apply minl_le_in. apply in_map_iff. exists e. split; auto.
        rewrite (esub_bool_bit sh); [| exact (nthZ_bit g _ Bg) | exact (entries_true_nz bc e He)]. rewrite Eq. exact E0. }
      pose proof (bero_bimg sh bc Hsh g (conj Lg Bg)) as [Le Be].
      pose proof (nthZ_bit _ i Be) as Hb. rewrite ero_nth in Hb by auto. destruct Hb; lia.
  Qed.

  Theorem binary_duality f : bimg sh f -> bdil sh bc f = bnot (bero sh bc (bnot f)).
  Proof.
    intros Hf. pose proof (bnot_bimg f Hf) as Hnf.
    pose proof (bdil_bimg sh bc Hsh Hbc f Hf) as [Ld Bd].
    pose proof (bero_bimg sh bc Hsh _ Hnf) as [Le Be].
    apply nth_ext with (d := 0) (d' := 0).
    - unfold bnot at 1. rewrite map_length. unfold Zlen in Ld, Le. apply Nat2Z.inj. rewrite Ld, Le. reflexivity.
    - intros k Hk. set (i := Z.of_nat k).
      assert (Hi : 0 <= i < n) by (unfold Zlen in Ld; subst i n; lia).
      assert (N1 : nth k (bdil sh bc f) 0 = nthZ 0 (bdil sh bc f) i).
      { unfold nthZ, i. destruct (Z.of_nat k <? 0) eqn:E; [lia|]. now rewrite Nat2Z.id. }
      assert (N2 : nth k (bnot (bero sh bc (bnot f))) 0 = nthZ 0 (bnot (bero sh bc (bnot f))) i).
      { unfold nthZ, i. destruct (Z.of_nat k <? 0) eqn:E; [lia|]. now rewrite Nat2Z.id. }
      rewrite N1, N2. rewrite nthZ_bnot by (rewrite Le; exact Hi).
      pose proof (bdil_one f i Hf Hi) as D. pose proof (bero_zero (bnot f) i Hnf Hi) as Z.
      destruct (nthZ_bit _ i Bd) as [E|E]; destruct (nthZ_bit _ i Be) as [E'|E']; rewrite E, E'; try reflexivity; exfalso.
      + (* dilation 0, erosion of the complement 0: some reached pixel has complement 0, i.e. is set, and reaches back *)
        destruct (proj1 Z E') as [q [Eq Hr]].
        assert (Hq : in_shape sh q).
        { destruct Hr as [o [Ho <-]]. apply clamp_len; auto. apply unravel_in_shape; auto. }
        rewrite nthZ_bnot in Eq by (rewrite (proj1 Hf); apply ravel_bound; auto).
        assert (D1 : nthZ 0 (bdil sh bc f) i = 1).
        { apply D. exists q. split; auto. split; [lia|]. apply Hsym; auto. apply unravel_in_shape; auto. }
        lia.
      + destruct (proj1 D E) as [p [Hp [E1 Hr]]].
        assert (Z0 : nthZ 0 (bero sh bc (bnot f)) i = 0).
        { apply Z. exists p. split.
          - rewrite nthZ_bnot by (rewrite (proj1 Hf); apply ravel_bound; auto). lia.
          - apply Hsym; auto. apply unravel_in_shape; auto. }
        lia.
  Qed.
End Duality.

(* ---- a sufficient condition on the element alone: closed under shrinking offsets coordinate-wise (hence symmetric) ---- *)
Definition absle (a b : list Z) : Prop := Forall2 (fun x y => Z.abs x <= Z.abs y) a b.
Definition shrink_closed (bc : arr) : Prop := forall o o', In o (offs bc) -> absle o' o -> In o' (offs bc).

Lemma clamp_back sh : forall p o, in_shape sh p -> length o = length sh ->
  absle (psub p (clampos sh (padd p o))) o /\
  padd (clampos sh (padd p o)) (psub p (clampos sh (padd p o))) = p.
Proof.
  induction sh as [|d r IH]; intros p o Hp Lo.
  - destruct p; [|destruct Hp]. destruct o; [|discriminate]. split; [constructor|reflexivity].
  - destruct p as [|a p]; [destruct Hp|]. destruct o as [|b o]; [discriminate|].
    destruct Hp as [Ha Hp]. simpl in Lo. injection Lo as Lo.
    destruct (IH p o Hp Lo) as [I1 I2].
    unfold clampos in *. cbn [padd combine map fst snd psub]. split.
    + constructor; [unfold clamp; lia | exact I1].
    + cbn [padd]. f_equal; [lia | exact I2].
Qed.

Theorem shrink_closed_nbr_sym sh bc : shape_ok sh ->
  (forall e, In e (entries true bc) -> length (fst e) = length sh) ->
  shrink_closed bc -> nbr_sym sh bc.
Proof.
  intros Hsh Hbc Hc p q Hp Hq [o [Ho Eq]].
  assert (Lo : length o = length sh).
  { unfold offs in Ho. apply in_map_iff in Ho. destruct Ho as [e [<- He]]. auto. }
  destruct (clamp_back sh p o Hp Lo) as [I1 I2]. rewrite Eq in I1, I2.
  exists (psub p q). split; [apply (Hc o); auto|]. rewrite I2. apply clampos_id. exact Hp.
Qed.

(* executable test of shrink_closed, sound *)
Fixpoint cube (o : list Z) : list (list Z) :=
  match o with
  | [] => [[]]
  | a :: r => flat_map (fun x => map (cons x) (cube r)) (Zseq (- Z.abs a) (Z.to_nat (2 * Z.abs a + 1)))
  end.

Lemma cube_complete o : forall o', absle o' o -> In o' (cube o).
Proof.
  induction o as [|a r IH]; intros o' H; inversion H; subst; simpl; [left; reflexivity|].
  apply in_flat_map. exists x. split; [apply in_Zseq; lia|]. apply in_map. apply IH. assumption.
Qed.

Fixpoint zl_eqb (a b : list Z) : bool :=
  match a, b with
  | [], [] => true
  | x :: a', y :: b' => (x =? y) && zl_eqb a' b'
  | _, _ => false
  end.

Lemma zl_eqb_true a : forall b, zl_eqb a b = true -> a = b.
Proof.
  induction a as [|x a IH]; destruct b as [|y b]; simpl; intros H; try reflexivity; try discriminate.
  apply andb_prop in H. destruct H as [H1 H2]. apply Z.eqb_eq in H1. subst. f_equal. auto.
Qed.

Definition memb (o : list Z) (l : list (list Z)) : bool := existsb (zl_eqb o) l.

Lemma memb_In o l : memb o l = true -> In o l.
Proof. unfold memb. intros H. apply existsb_exists in H. destruct H as [x [Hx E]]. apply zl_eqb_true in E. now subst. Qed.

Definition shrink_closedb (bc : arr) : bool :=
  forallb (fun o => forallb (fun o' => memb o' (offs bc)) (cube o)) (offs bc).

Lemma shrink_closedb_sound bc : shrink_closedb bc = true -> shrink_closed bc.
Proof.
  unfold shrink_closedb. intros H o o' Ho Hle. rewrite forallb_forall in H. specialize (H o Ho).
  rewrite forallb_forall in H. apply memb_In. apply H. apply cube_complete. exact Hle.
Qed.

(* cross, boxes and disks of morph.py (centred, as get_structuring_elem / disk build them) pass the test *)
Definition se2 (rows : list (list Z)) : arr := {| shape := [Z.of_nat (length rows); Z.of_nat (length (hd [] rows))]; data := concat rows |}.
Definition cross2 := se2 [[0;1;0];[1;1;1];[0;1;0]].
Definition box3 := se2 [[1;1;1];[1;1;1];[1;1;1]].
Definition box5 := se2 [[1;1;1;1;1];[1;1;1;1;1];[1;1;1;1;1];[1;1;1;1;1];[1;1;1;1;1]].
Definition disk2 := se2 [[0;0;1;0;0];[0;1;1;1;0];[1;1;1;1;1];[0;1;1;1;0];[0;0;1;0;0]].
Definition disk3 := se2 [[0;0;0;1;0;0;0];[0;1;1;1;1;1;0];[0;1;1;1;1;1;0];[1;1;1;1;1;1;1];[0;1;1;1;1;1;0];[0;1;1;1;1;1;0];[0;0;0;1;0;0;0]].
Definition cross3 : arr := {| shape := [3;3;3]; data := [0;0;0;0;1;0;0;0;0; 0;1;0;1;1;1;0;1;0; 0;0;0;0;1;0;0;0;0] |}.
Definition cross1 : arr := {| shape := [3]; data := [1;1;1] |}.

Example usual_elements_shrink_closed :
  forallb shrink_closedb [cross1; cross2; box3; box5; disk2; disk3; cross3] = true.
Proof. vm_compute. reflexivity. Qed.

(* an element that is NOT symmetric fails it, and the duality then fails too (so the hypothesis is needed) *)
Example asymmetric_element_fails :
  let bc := se2 [[0;0;0];[0;1;1];[0;0;0]] in
  shrink_closedb bc = false /\
  bdil [1; 3] bc [0; 1; 0] <> bnot (bero [1; 3] bc (bnot [0; 1; 0])).
Proof. split; vm_compute; congruence. Qed.

Corollary binary_duality_usual sh bc : shape_ok sh ->
  (forall e, In e (entries true bc) -> length (fst e) = length sh) ->
  shrink_closedb bc = true ->
  forall f, bimg sh f -> bdil sh bc f = bnot (bero sh bc (bnot f)).
Proof.
  intros Hsh Hbc Hc f Hf. apply binary_duality; auto.
  apply shrink_closed_nbr_sym; auto. apply shrink_closedb_sound; auto.
Qed.
