(* C16: thresholds. *)
Require Import QArith Qabs Qminmax Lia Lqa.
Require Import Coq.Sorting.Permutation.
Require Import MV.Base.Prelude MV.Base.QHelp MV.Gen.PyThresh_gen MV.Model.Labeled MV.Model.Threshold MV.Proof.LabeledProof.

(* ---------- gbernsen, on the GENERATED element function ---------- *)
Theorem gbernsen_pointwise f fmax fmin ct g :
  let mid := (fmax / inject_Z 2 + fmin / inject_Z 2)%Q in
  ((ct <= fmax - fmin)%Q -> (gbernsen_px f fmax fmin ct g = true <-> (f < mid)%Q)) /\
  ((fmax - fmin < ct)%Q -> (gbernsen_px f fmax fmin ct g = true <-> (mid < g)%Q)).
Proof.
  cbv zeta. unfold gbernsen_px. split; intros H.
  - apply qltb_false in H. rewrite H. apply qltb_spec.
  - apply qltb_spec in H. rewrite H. apply qltb_spec.
Qed.

(* ---------- soft_threshold, on the GENERATED element function ---------- *)
Lemma if_b_q (b : bool) : ((if b then 1 else 0) == (if b then 1 else 0))%Q. Proof. reflexivity. Qed.

Theorem soft_threshold_shrinks f t : (0 <= t)%Q ->
  ((Qabs f <= t)%Q -> (soft_threshold_px f t == 0)%Q) /\
  ((t < f)%Q -> (soft_threshold_px f t == f - t)%Q) /\
  ((f < - t)%Q -> (soft_threshold_px f t == f + t)%Q).
Proof.
  intros Ht. unfold soft_threshold_px. cbv zeta.
  destruct (qltb t f) eqn:A; [apply qltb_spec in A | apply qltb_false in A];
  (destruct (qltb f (inject_Z 0)) eqn:B; [apply qltb_spec in B | apply qltb_false in B]);
  (destruct (qltb (Qplus f t) (inject_Z 0)) eqn:C; [apply qltb_spec in C | apply qltb_false in C]);
  cbn [andb]; change (inject_Z 0) with 0%Q in *;
  (split; [|split]; intros H; try (apply Qabs_Qle_condition in H; destruct H as [H1 H2]); lra).
Qed.

(* ---------- otsu_spec returns the FIRST maximiser of the between-class variance ---------- *)
Lemma argmax_fold (sg : Z -> Q) l : forall bt,
  let r := fold_left (fun bt T => if qltb (snd bt) (sg T) then (T, sg T) else bt) l bt in
  (snd bt <= snd r)%Q /\ (forall T, In T l -> (sg T <= snd r)%Q) /\
  ((fst r = fst bt /\ snd r = snd bt) \/ (In (fst r) l /\ snd r = sg (fst r) /\ (snd bt < snd r)%Q)).
Proof.
  induction l as [|T l IH]; intros bt; cbn [fold_left].
  - split; [apply Qle_refl|]. split; [intros T []|left; auto].
  - destruct (qltb (snd bt) (sg T)) eqn:C.
    + apply qltb_spec in C. destruct (IH (T, sg T)) as (A & B & D). cbn [fst snd] in *. split; [|split].
      * eapply Qle_trans; [apply Qlt_le_weak; exact C|exact A].
      * intros T' [<-|H]; [exact A|apply B; exact H].
      * right. destruct D as [[D1 D2]|(D1 & D2 & D3)].
        -- rewrite D1, D2. repeat split; simpl; auto.
        -- repeat split; simpl; auto. eapply Qlt_trans; eauto.
    + apply qltb_false in C. destruct (IH bt) as (A & B & D). split; [exact A|]. split.
      * intros T' [<-|H]; [eapply Qle_trans; [exact C|exact A]|apply B; exact H].
      * destruct D as [D|(D1 & D2 & D3)]; [left; exact D|right; repeat split; simpl; auto].
Qed.

Theorem otsu_spec_maximises hist T : 0 <= T < Zlen hist ->
  (sigma_spec hist T <= sigma_spec hist (otsu_spec hist))%Q.
Proof.
  intros HT. unfold otsu_spec.
  destruct (argmax_fold (sigma_spec hist) (Zseq 1 (length hist - 1)) (0, sigma_spec hist 0)) as (A & B & D).
  cbv zeta in *. cbn [fst snd] in *.
  set (r := fold_left _ _ _) in *.
  assert (S : snd r = sigma_spec hist (fst r)) by (destruct D as [[D1 D2]|(_ & D2 & _)]; [rewrite D2, D1; reflexivity|exact D2]).
  rewrite <- S. destruct (Z.eq_dec T 0) as [->|Ne]; [exact A|].
  apply B. apply in_Zseq. unfold Zlen in HT. lia.
Qed.

(* ---------- the histogram is the only image summary: invariant under pixel permutation ---------- *)
Lemma maxl_perm l l' : Permutation l l' -> maxl 0 l = maxl 0 l'.
Proof. induction 1; simpl; lia. Qed.
Lemma count_eq_perm v l l' : Permutation l l' -> count_eq v l = count_eq v l'.
Proof.
  unfold count_eq, Zlen. induction 1; simpl; auto.
  - destruct (v =? x)%Z; simpl; lia.
  - destruct (v =? x)%Z; destruct (v =? y)%Z; simpl; lia.
  - lia.
Qed.
