(* C02 on the 2-D boolean fast path: opening and closing computed through fast_binary_dilate_erode_2d (both passes) are the
   openings and closings of the generic path, so every law proved for those holds on the fast path as well. *)
Require Import MV.Base.Prelude MV.Base.CInt MV.Base.Index MV.Base.BorderSpec.
Require Import MV.Gen.Scalar_gen MV.Model.Filter MV.Model.Morph MV.Model.MorphFast.
Require Import MV.Proof.MorphProof MV.Proof.MorphLaws MV.Proof.MorphFastProof.

Definition fopen (sh : list Z) (bc : arr) (f : list Z) : list Z := fast2d false (A sh (fast2d true (A sh f) bc)) bc.
Definition fclose (sh : list Z) (bc : arr) (f : list Z) : list Z := fast2d true (A sh (fast2d false (A sh f) bc)) bc.

Section Fast.
  Variables (Ny Nx By Bx : Z) (bc : arr).
  Hypothesis Hsh : shape_ok [Ny; Nx].
  Hypothesis Hb : shape bc = [By; Bx].
  Hypothesis HBy : 1 <= By.
  Hypothesis HBx : 1 <= Bx.
  Hypothesis Hbc : forall e, In e (entries true bc) -> length (fst e) = length [Ny; Nx].

  Lemma fast_ero f : bimg [Ny; Nx] f -> fast2d true (A [Ny; Nx] f) bc = bero [Ny; Nx] bc f.
  Proof. intros Hf. unfold bero. eapply (proj1 (fast_path_is_generic (A [Ny; Nx] f) bc Ny Nx By Bx eq_refl Hsh Hf Hb HBy HBx)). Qed.
  Lemma fast_dil f : bimg [Ny; Nx] f -> fast2d false (A [Ny; Nx] f) bc = bdil [Ny; Nx] bc f.
  Proof. intros Hf. unfold bdil. eapply (proj2 (fast_path_is_generic (A [Ny; Nx] f) bc Ny Nx By Bx eq_refl Hsh Hf Hb HBy HBx)). Qed.

  Theorem fopen_is_bopen f : bimg [Ny; Nx] f -> fopen [Ny; Nx] bc f = bopen [Ny; Nx] bc f.
  Proof.
    intros Hf. unfold fopen, bopen. rewrite (fast_ero f Hf).
    apply fast_dil. apply bero_bimg; auto.
  Qed.
  Theorem fclose_is_bclose f : bimg [Ny; Nx] f -> fclose [Ny; Nx] bc f = bclose [Ny; Nx] bc f.
  Proof.
    intros Hf. unfold fclose, bclose. rewrite (fast_dil f Hf).
    apply fast_ero. apply bdil_bimg; auto.
  Qed.

  (* the laws, on the fast path *)
  Theorem fast_open_close_laws f g : bimg [Ny; Nx] f -> bimg [Ny; Nx] g ->
    le_list (size [Ny; Nx]) (fopen [Ny; Nx] bc f) f /\
    le_list (size [Ny; Nx]) f (fclose [Ny; Nx] bc f) /\
    fopen [Ny; Nx] bc (fopen [Ny; Nx] bc f) = fopen [Ny; Nx] bc f /\
    fclose [Ny; Nx] bc (fclose [Ny; Nx] bc f) = fclose [Ny; Nx] bc f /\
    (le_list (size [Ny; Nx]) f g ->
       le_list (size [Ny; Nx]) (fopen [Ny; Nx] bc f) (fopen [Ny; Nx] bc g) /\
       le_list (size [Ny; Nx]) (fclose [Ny; Nx] bc f) (fclose [Ny; Nx] bc g)).
  Proof.
    intros Hf Hg.
    assert (Of : bimg [Ny; Nx] (bopen [Ny; Nx] bc f)) by (unfold bopen; apply bdil_bimg; auto; apply bero_bimg; auto).
    assert (Cf : bimg [Ny; Nx] (bclose [Ny; Nx] bc f)) by (unfold bclose; apply bero_bimg; auto; apply bdil_bimg; auto).
    rewrite !(fopen_is_bopen f Hf), !(fclose_is_bclose f Hf), (fopen_is_bopen g Hg), (fclose_is_bclose g Hg).
    rewrite (fopen_is_bopen _ Of), (fclose_is_bclose _ Cf).
    repeat split.
    - apply bopen_antiextensive; auto.
    - apply bclose_extensive; auto.
    - apply bopen_idempotent; auto.
    - apply bclose_idempotent; auto.
    - apply bopen_increasing; auto.
    - apply bclose_increasing; auto.
  Qed.
End Fast.
