(* C13: the C-contiguous 2-D fast path of bbox (carray2_bbox: after a hit, skip ahead to the current right bound) computes the
   same extrema as the generic scan, hence the tight bounding box, for every 2-D array. *)
Require Import MV.Base.Prelude MV.Base.CInt MV.Base.Index MV.Model.Filter MV.Model.Labeled MV.Proof.LabeledProof MV.Proof.BboxProof.

(* the per-pixel update of the generic scan, on the 4-entry extrema of a 2-D image *)
Definition U (y : Z) (e : list Z) (x : Z) : list Z :=
  [Z.min (nthZ 0 e 0) y; Z.max (nthZ 0 e 1) (y + 1); Z.min (nthZ 0 e 2) x; Z.max (nthZ 0 e 3) (x + 1)].
Definition nzcols (row : list Z) (x : Z) (k : nat) : list Z := filter (fun c => negb (nthZ 0 row c =? 0)) (Zseq x k).

Definition e4 (e : list Z) : Prop := exists a b c d, e = [a; b; c; d].

Lemma U_e4 y e x : e4 (U y e x). Proof. unfold U. do 4 eexists. reflexivity. Qed.
Lemma fold_U_e4 y cols : forall e, e4 e -> e4 (fold_left (U y) cols e).
Proof. induction cols as [|c cols IH]; intros e He; [exact He|]. cbn [fold_left]. apply IH. apply U_e4. Qed.

(* a pixel inside the current box of its own row changes nothing *)
Lemma U_inside y a b c d x : a <= y -> y + 1 <= b -> c <= x -> x + 1 <= d -> U y [a; b; c; d] x = [a; b; c; d].
Proof.
  intros. unfold U. change (nthZ 0 [a; b; c; d] 0) with a. change (nthZ 0 [a; b; c; d] 1) with b.
  change (nthZ 0 [a; b; c; d] 2) with c. change (nthZ 0 [a; b; c; d] 3) with d.
  f_equal; [lia | f_equal; [lia | f_equal; [lia | f_equal; lia]]].
Qed.
Lemma fold_U_inside y a b c d cols : a <= y -> y + 1 <= b -> (forall x, In x cols -> c <= x /\ x + 1 <= d) ->
  fold_left (U y) cols [a; b; c; d] = [a; b; c; d].
Proof.
  intros H1 H2. induction cols as [|x cols IH]; intro H; [reflexivity|]. cbn [fold_left].
  destruct (H x (or_introl eq_refl)). rewrite U_inside by assumption. apply IH. intros z Hz. apply H. right. exact Hz.
Qed.

Lemma nzcols_split row x k j : (j <= k)%nat -> nzcols row x k = nzcols row x j ++ nzcols row (x + Z.of_nat j) (k - j).
Proof.
  intro H. unfold nzcols. rewrite <- filter_app. f_equal.
  revert x k H. induction j as [|j IH]; intros x k H.
  - cbn [Zseq app]. rewrite Z.add_0_r, Nat.sub_0_r. reflexivity.
  - destruct k as [|k]; [lia|]. cbn [Zseq app]. f_equal. rewrite (IH (x + 1) k ltac:(lia)). f_equal. f_equal; lia.
Qed.

Lemma bbox2_row_spec row y N1 : forall fuel x a b c d, 0 <= x -> (Z.to_nat (N1 - x) < fuel)%nat ->
  bbox2_row fuel row y x N1 [a; b; c; d] = fold_left (U y) (nzcols row x (Z.to_nat (N1 - x))) [a; b; c; d].
Proof.
  induction fuel as [|fuel IH]; intros x a b c d Hx Hf; [lia|].
  cbn [bbox2_row]. destruct (x <? N1) eqn:L.
  - apply Z.ltb_lt in L.
    assert (Es : Z.to_nat (N1 - x) = S (Z.to_nat (N1 - (x + 1)))) by lia.
    rewrite Es. unfold nzcols at 1. cbn [Zseq filter]. fold (nzcols row (x + 1) (Z.to_nat (N1 - (x + 1)))).
    destruct (nthZ 0 row x =? 0) eqn:Z0; cbn [negb].
    + apply IH; lia.
    + cbn [fold_left]. change (nthZ 0 [a; b; c; d] 0) with a. change (nthZ 0 [a; b; c; d] 1) with b.
      change (nthZ 0 [a; b; c; d] 2) with c. change (nthZ 0 [a; b; c; d] 3) with d.
      set (a1 := Z.min a y). set (b1 := Z.max b (y + 1)). set (c1 := Z.min c x).
      change (nthZ 0 [a1; b1; c1; d] 0) with a1. change (nthZ 0 [a1; b1; c1; d] 1) with b1. change (nthZ 0 [a1; b1; c1; d] 2) with c1.
      assert (EU : U y [a; b; c; d] x = [a1; b1; c1; Z.max d (x + 1)]) by reflexivity. rewrite EU.
      destruct (x + 1 <? d) eqn:J.
      * (* skip ahead to column d *)
        apply Z.ltb_lt in J. rewrite Z.max_l by lia.
        replace (x + (d - x - 1) + 1) with d by lia.
        destruct (Z_le_gt_dec d N1) as [DN|DN].
        -- rewrite (nzcols_split row (x + 1) (Z.to_nat (N1 - (x + 1))) (Z.to_nat (d - (x + 1)))) by lia.
           rewrite fold_left_app.
           rewrite (fold_U_inside y a1 b1 c1 d); [| unfold a1; lia | unfold b1; lia |].
           ++ rewrite IH by lia. f_equal. f_equal; lia.
           ++ intros z Hz. unfold nzcols in Hz. apply filter_In in Hz. destruct Hz as [Hz _]. apply in_Zseq in Hz. unfold c1. lia.
        -- (* the right bound is already beyond the row: nothing left to scan *)
           rewrite (fold_U_inside y a1 b1 c1 d); [| unfold a1; lia | unfold b1; lia |].
           ++ destruct fuel as [|fuel']; [reflexivity|]. cbn [bbox2_row]. destruct (d <? N1) eqn:Q; [apply Z.ltb_lt in Q; lia | reflexivity].
           ++ intros z Hz. unfold nzcols in Hz. apply filter_In in Hz. destruct Hz as [Hz _]. apply in_Zseq in Hz. unfold c1. lia.
      * apply Z.ltb_ge in J. rewrite Z.max_r by lia. apply IH; lia.
  - apply Z.ltb_ge in L. replace (Z.to_nat (N1 - x)) with 0%nat by lia. reflexivity.
Qed.

(* ---- positions of a (d :: r) array, row-block by row-block *)
Lemma Zseq_app a n m : Zseq a (n + m) = Zseq a n ++ Zseq (a + Z.of_nat n) m.
Proof.
  revert a. induction n as [|n IH]; intro a; [cbn [Zseq app plus]; f_equal; lia|].
  cbn [plus Zseq app]. f_equal. rewrite IH. f_equal. f_equal. lia.
Qed.
Lemma Zseq_shift a n : Zseq a n = map (fun j => a + j) (Zseq 0 n).
Proof.
  revert a. induction n as [|n IH]; intro a; [reflexivity|]. cbn [Zseq map]. f_equal; [lia|].
  rewrite (IH (a + 1)), (IH (0 + 1)), map_map. apply map_ext. intro j. lia.
Qed.
Lemma Zseq_blocks (s : nat) : forall d, Zseq 0 (d * s) = flat_map (fun i => map (fun j => i * Z.of_nat s + j) (Zseq 0 s)) (Zseq 0 d).
Proof.
  assert (G : forall d a, Zseq (a * Z.of_nat s) (d * s) = flat_map (fun i => map (fun j => i * Z.of_nat s + j) (Zseq 0 s)) (Zseq a d)).
  { induction d as [|d IH]; intro a; [reflexivity|]. cbn [Nat.mul Zseq flat_map]. rewrite Zseq_app. f_equal.
    - apply Zseq_shift.
    - rewrite <- IH. f_equal. lia. }
  intro d. apply (G d 0).
Qed.

Lemma all_positions_cons d r : 0 <= d -> pos_shape r ->
  all_positions (d :: r) = flat_map (fun i => map (cons i) (all_positions r)) (Zseq 0 (Z.to_nat d)).
Proof.
  intros Hd Pr. unfold all_positions. cbn [size]. pose proof (size_pos r Pr) as Sp.
  replace (Z.to_nat (d * size r)) with (Z.to_nat d * Z.to_nat (size r))%nat by nia.
  rewrite Zseq_blocks. rewrite flat_map_concat_map, concat_map, map_map, <- flat_map_concat_map.
  apply flat_map_ext_in'. intros i Hi. apply in_Zseq in Hi. rewrite !map_map. apply map_ext_in. intros j Hj. apply in_Zseq in Hj.
  cbn [unravel]. rewrite Z2Nat.id by lia.
  assert (E1 : (i * size r + j) / size r = i) by (rewrite Z.div_add_l by lia; rewrite Z.div_small by lia; lia).
  assert (E2 : (i * size r + j) mod size r = j) by (rewrite Z.add_comm, Z.mod_add by lia; apply Z.mod_small; lia).
  rewrite E1, E2. reflexivity.
Qed.

Lemma nth_firstn_lt' {A} (d : A) : forall n l j, (j < n)%nat -> nth j (firstn n l) d = nth j l d.
Proof. induction n as [|n IH]; intros l j H; [lia|]. destruct l as [|x l]; [destruct j; reflexivity|]. destruct j; [reflexivity|]. simpl. apply IH. lia. Qed.
Lemma nth_skipn_add' {A} (d : A) : forall k l j, nth j (skipn k l) d = nth (k + j) l d.
Proof. induction k as [|k IH]; intros l j; [reflexivity|]. destruct l as [|x l]; [destruct j; reflexivity|]. simpl. apply IH. Qed.
Lemma fold_left_ext_in' {A B} (g h : B -> A -> B) l : (forall b x, In x l -> g b x = h b x) -> forall b, fold_left g l b = fold_left h l b.
Proof. induction l as [|x l IH]; intros E b; [reflexivity|]. cbn [fold_left]. rewrite (E b x (or_introl eq_refl)). apply IH. intros b' y Hy. apply E. right. exact Hy. Qed.

(* ---- the two scans, row by row *)
Fixpoint scan_rows (w : nat) (n : nat) (y0 : Z) (l : list Z) (e : list Z) : list Z :=
  match n with
  | O => e
  | S k => scan_rows w k (y0 + 1) (skipn w l) (fold_left (U y0) (nzcols (firstn w l) 0 w) e)
  end.

Lemma fast_is_scan_rows w : forall n y0 l e, e4 e ->
  snd (fold_left (fun ye row => (fst ye + 1, bbox2_row (S w) row (fst ye) 0 (Z.of_nat w) (snd ye))) (rows_of n w l) (y0, e)) =
  scan_rows w n y0 l e.
Proof.
  induction n as [|n IH]; intros y0 l e He; [reflexivity|].
  cbn [rows_of fold_left scan_rows fst snd]. destruct He as (a & b & c & d & ->).
  rewrite (bbox2_row_spec (firstn w l) y0 (Z.of_nat w) (S w) 0 a b c d ltac:(lia) ltac:(lia)).
  replace (Z.to_nat (Z.of_nat w - 0)) with w by lia.
  apply IH. apply fold_U_e4. do 4 eexists. reflexivity.
Qed.

Lemma upd_ext_U a b c d y x : upd_ext [a; b; c; d] [y; x] = U y [a; b; c; d] x.
Proof. reflexivity. Qed.

Lemma generic_is_scan_rows w (Hw : (0 < w)%nat) : forall n y0 l e, e4 e ->
  fold_left (fun ext p => if nthZ 0 l ((nthZ 0 p 0 - y0) * Z.of_nat w + nthZ 0 p 1) =? 0 then ext else upd_ext ext p)
            (flat_map (fun y => map (fun x => [y; x]) (Zseq 0 w)) (Zseq y0 n)) e =
  scan_rows w n y0 l e.
Proof.
  induction n as [|n IH]; intros y0 l e He; [reflexivity|].
  cbn [Zseq flat_map scan_rows]. rewrite fold_left_app.
  (* the first row *)
  assert (Row : forall cols e1, e4 e1 -> (forall x, In x cols -> 0 <= x < Z.of_nat w) ->
                fold_left (fun ext p => if nthZ 0 l ((nthZ 0 p 0 - y0) * Z.of_nat w + nthZ 0 p 1) =? 0 then ext else upd_ext ext p)
                          (map (fun x => [y0; x]) cols) e1 =
                fold_left (U y0) (filter (fun c => negb (nthZ 0 (firstn w l) c =? 0)) cols) e1).
  { induction cols as [|x cols IHc]; intros e1 He1 Hc; [reflexivity|]. cbn [map fold_left filter].
    change (nthZ 0 [y0; x] 0) with y0. change (nthZ 0 [y0; x] 1) with x.
    replace ((y0 - y0) * Z.of_nat w + x) with x by lia.
    assert (Ex : nthZ 0 (firstn w l) x = nthZ 0 l x).
    { pose proof (Hc x (or_introl eq_refl)). unfold nthZ. destruct (x <? 0) eqn:E; [lia|]. apply nth_firstn_lt'. lia. }
    rewrite Ex. destruct (nthZ 0 l x =? 0) eqn:Z0; cbn [negb].
    - apply IHc; [exact He1 | intros z Hz; apply Hc; right; exact Hz].
    - cbn [fold_left]. destruct He1 as (a & b & c & d & ->). rewrite upd_ext_U.
      apply IHc; [apply U_e4 | intros z Hz; apply Hc; right; exact Hz]. }
  rewrite (Row (Zseq 0 w) e He) by (intros x Hx; apply in_Zseq in Hx; lia).
  fold (nzcols (firstn w l) 0 w).
  rewrite <- (IH (y0 + 1) (skipn w l)) by (apply fold_U_e4; exact He).
  apply fold_left_ext_in'. intros ext p Hp.
  apply in_flat_map in Hp. destruct Hp as (y & Hy & Hp). apply in_map_iff in Hp. destruct Hp as (x & <- & Hx).
  apply in_Zseq in Hy. apply in_Zseq in Hx.
  change (nthZ 0 [y; x] 0) with y. change (nthZ 0 [y; x] 1) with x.
  assert (El : nthZ 0 l ((y - y0) * Z.of_nat w + x) = nthZ 0 (skipn w l) ((y - (y0 + 1)) * Z.of_nat w + x)).
  { unfold nthZ. destruct ((y - y0) * Z.of_nat w + x <? 0) eqn:A; [nia|]. destruct ((y - (y0 + 1)) * Z.of_nat w + x <? 0) eqn:B; [nia|].
    rewrite nth_skipn_add'. f_equal. nia. }
  rewrite El. reflexivity.
Qed.

Lemma scan_rows_e4 w : forall n y0 l e, e4 e -> e4 (scan_rows w n y0 l e).
Proof. induction n as [|n IH]; intros y0 l e He; [exact He|]. cbn [scan_rows]. apply IH. apply fold_U_e4. exact He. Qed.

Theorem bbox_fast2_is_generic f N0 N1 : shape f = [N0; N1] -> 0 < N0 -> 0 < N1 -> bbox_fast2 f = bbox_generic f.
Proof.
  intros Es H0 H1. unfold bbox_fast2, bbox_generic, bbox_scan. cbv zeta. rewrite Es.
  change (nthZ 0 [N0; N1] 0) with N0. change (nthZ 0 [N0; N1] 1) with N1.
  set (w := Z.to_nat N1). set (n := Z.to_nat N0).
  assert (Ew : N1 = Z.of_nat w) by (unfold w; lia).
  assert (E0 : e4 [N0; 0; N1; 0]) by (do 4 eexists; reflexivity).
  (* fast path *)
  assert (Fast : snd (fold_left (fun ye row => (fst ye + 1, bbox2_row (S w) row (fst ye) 0 N1 (snd ye))) (rows_of n w (data f)) (0, [N0; 0; N1; 0]))
                 = scan_rows w n 0 (data f) [N0; 0; N1; 0]).
  { rewrite Ew at 1. rewrite <- (fast_is_scan_rows w n 0 (data f) [N0; 0; N1; 0] E0). rewrite <- Ew. reflexivity. }
  (* generic scan *)
  assert (Gen : fold_left (fun ext p => if aget f p =? 0 then ext else upd_ext ext p) (all_positions [N0; N1]) (ext_init [N0; N1])
                = scan_rows w n 0 (data f) [N0; 0; N1; 0]).
  { rewrite (all_positions_cons N0 [N1] ltac:(lia) ltac:(constructor; [lia | constructor])).
    assert (A1 : all_positions [N1] = map (fun i => [i]) (Zseq 0 w)).
    { unfold all_positions. cbn [size]. rewrite Z.mul_1_r. apply map_ext. intro i. cbn [unravel size]. rewrite Z.div_1_r. reflexivity. }
    rewrite A1. fold n.
    assert (FM : flat_map (fun i => map (cons i) (map (fun i0 => [i0]) (Zseq 0 w))) (Zseq 0 n) =
                 flat_map (fun y => map (fun x => [y; x]) (Zseq 0 w)) (Zseq 0 n)).
    { apply flat_map_ext_in'. intros y _. rewrite map_map. reflexivity. }
    rewrite FM. change (ext_init [N0; N1]) with [N0; 0; N1; 0].
    rewrite <- (generic_is_scan_rows w ltac:(unfold w; lia) n 0 (data f) [N0; 0; N1; 0] E0).
    apply fold_left_ext_in'. intros ext p Hp.
    apply in_flat_map in Hp. destruct Hp as (y & Hy & Hp). apply in_map_iff in Hp. destruct Hp as (x & <- & Hx).
    change (nthZ 0 [y; x] 0) with y. change (nthZ 0 [y; x] 1) with x.
    unfold aget. rewrite Es. cbn [ravel size]. replace (y * (N1 * 1) + (x * 1 + 0)) with ((y - 0) * Z.of_nat w + x) by lia. reflexivity. }
  fold w n. rewrite Fast, Gen.
  destruct (scan_rows_e4 w n 0 (data f) [N0; 0; N1; 0] E0) as (a & b & c & d & ->).
  destruct (nthZ 0 [a; b; c; d] 1 =? 0); reflexivity.
Qed.

Theorem bbox_fast2_is_spec f N0 N1 : shape f = [N0; N1] -> 0 < N0 -> 0 < N1 -> bbox_fast2 f = bbox_spec f.
Proof.
  intros Es H0 H1. rewrite (bbox_fast2_is_generic f N0 N1 Es H0 H1). apply bbox_generic_is_spec.
  rewrite Es. constructor; [lia|]. constructor; [lia | constructor].
Qed.
