(* C05: the lower-envelope pass of _distance.cpp (dist_transform, Felzenszwalb & Huttenlocher) computes, for EVERY line f and
   every position q, the exact minimum over p of (q-p)^2 + f[p].  All comparisons of intersection abscissae are between
   fractions with positive denominators and are modelled (and proved) by cross-multiplication over Z. *)
Require Import MV.Base.Prelude MV.Base.CInt MV.Base.Index MV.Model.Distance.
Require Import Lia.

Lemma dt1d_unfold (f : list Z) : (1 <= length f)%nat ->
  dt1d_with_origin f =
  snd (fold_left (fun st q => let h := sweep_adv (length f) q (fst st) in
                              let vk := match h with (v, _) :: _ => v | [] => 0 end in
                              (h, snd st ++ [((q - vk) * (q - vk) + nthZ 0 f vk, vk)]))
                 (Zseq 0 (length f)) (rev (build_hull f), [])).
Proof. intro H. destruct f as [|a f']; [cbn in H; lia | reflexivity]. Qed.

Section Envelope.
  Variable f : list Z.
  Definition P (p x : Z) : Z := (x - p) * (x - p) + nthZ 0 f p.
  Definition N (p q : Z) : Z := (nthZ 0 f q + q * q) - (nthZ 0 f p + p * p).

  (* the difference of two parabolas is linear in x *)
  Lemma Pdiff p q x : P p x - P q x = x * (2 * (q - p)) - N p q.
  Proof. unfold P, N. ring. Qed.
  Lemma right_better p q x : N p q <= x * (2 * (q - p)) -> P q x <= P p x.
  Proof. intro H. pose proof (Pdiff p q x). lia. Qed.
  Lemma left_better p q x : x * (2 * (q - p)) <= N p q -> P p x <= P q x.
  Proof. intro H. pose proof (Pdiff p q x). lia. Qed.

  (* z <= x and x <= z for an integer x *)
  Definition ext_le_int (z : ext) (x : Z) : Prop := match z with NegInf => True | Fin c d => c <= x * d end.
  Definition int_le_ext (x : Z) (z : ext) : Prop := match z with NegInf => False | Fin c d => x * d <= c end.

  (* two adjacent hull entries: lo below hi *)
  Definition link (lo hi : Z * ext) : Prop :=
    fst lo < fst hi /\ snd hi = Fin (N (fst lo) (fst hi)) (2 * (fst hi - fst lo)) /\
    ext_lt_frac (snd lo) (N (fst lo) (fst hi)) (2 * (fst hi - fst lo)) = true.
  Definition zpos (e : Z * ext) : Prop := match snd e with NegInf => True | Fin _ d => 0 < d end.

  Fixpoint down (l : list (Z * ext)) : Prop :=       (* top first *)
    match l with
    | a :: ((b :: _) as t) => link b a /\ down t
    | [a] => snd a = NegInf
    | [] => False
    end.
  Fixpoint up (l : list (Z * ext)) : Prop :=         (* bottom first, any suffix *)
    match l with
    | a :: ((b :: _) as t) => link a b /\ up t
    | _ => True
    end.

  Lemma link_zpos lo hi : link lo hi -> zpos hi.
  Proof. intros (A & B & _). unfold zpos. rewrite B. lia. Qed.

  (* transitivity of the order of abscissae against an integer *)
  Lemma ext_lt_le_int z c d x : 0 < d -> zpos (0, z) -> ext_lt_frac z c d = true -> c <= x * d -> ext_le_int z x.
  Proof.
    intros Hd Hz L H. destruct z as [|c0 d0]; [exact I|]. cbn in *. apply Z.ltb_lt in L.
    (* c0*d < c*d0 , c <= x*d  ==> c0 <= x*d0 *)
    assert (c0 * d < x * d * d0) by nia. assert (d * (x * d0 - c0) > 0) by nia. nia.
  Qed.
  Lemma int_le_lt_ext x z c d : 0 < d -> zpos (0, z) -> int_le_ext x z -> ext_lt_frac z c d = true -> x * d <= c.
  Proof.
    intros Hd Hz H L. destruct z as [|c0 d0]; [destruct H|]. cbn in *. apply Z.ltb_lt in L.
    (* x*d0 <= c0, c0*d < c*d0 ==> x*d <= c *)
    assert (x * d0 * d < c * d0) by nia. assert (d0 * (c - x * d) > 0) by nia. nia.
  Qed.

  (* below the pointer (top-first): if x is at or right of the head's abscissa, the head beats everything under it *)
  Lemma down_dominates : forall l v z x, down ((v, z) :: l) -> ext_le_int z x -> forall u, In u (map fst l) -> P v x <= P u x.
  Proof.
    induction l as [|[v' z'] l IH]; intros v z x D H u Hu; [destruct Hu|].
    cbn [down] in D. destruct D as [(A & B & C) D']. cbn [fst snd] in *.
    assert (S1 : P v x <= P v' x). { apply right_better. subst z. exact H. }
    destruct Hu as [<-|Hu]; [exact S1|].
    assert (Z' : zpos (0, z')). { destruct l as [|b l']; [cbn in D'; cbn; rewrite D'; exact I | cbn [down] in D'; destruct D' as [L' _]; apply (link_zpos _ _ L')]. }
    assert (H' : ext_le_int z' x). { subst z. apply (ext_lt_le_int z' (N v' v) (2 * (v - v')) x ltac:(lia) Z' C H). }
    pose proof (IH v' z' x D' H' u Hu). lia.
  Qed.

  (* above the pointer (bottom-first): if x is at or left of the next abscissa, the head beats everything over it *)
  Lemma up_dominates : forall t v z x, up ((v, z) :: t) -> zpos (v, z) ->
    (match t with [] => True | (_, z1) :: _ => int_le_ext x z1 end) -> forall u, In u (map fst t) -> P v x <= P u x.
  Proof.
    induction t as [|[v1 z1] t IH]; intros v z x U Zp H u Hu; [destruct Hu|].
    cbn [up] in U. destruct U as [(A & B & C) U']. cbn [fst snd] in *.
    assert (S1 : P v x <= P v1 x). { apply left_better. subst z1. exact H. }
    destruct Hu as [<-|Hu]; [exact S1|].
    assert (Z1 : zpos (v1, z1)) by (unfold zpos; cbn [snd]; subst z1; lia).
    assert (H' : match t with [] => True | (_, z2) :: _ => int_le_ext x z2 end).
    { destruct t as [|[v2 z2] t']; [exact I|]. cbn [up] in U'. destruct U' as [(A2 & B2 & C2) _]. cbn [fst snd] in *.
      subst z2. cbn [int_le_ext]. apply (int_le_lt_ext x z1 (N v1 v2) (2 * (v2 - v1)) ltac:(lia) Z1 H C2). }
    pose proof (IH v1 z1 x U' Z1 H' u Hu). lia.
  Qed.

  (* ---------- first sweep: the hull after processing 0..q-1 ---------- *)
  Definition dom (q : Z) (l : list (Z * ext)) : Prop :=
    forall p, 0 <= p < q -> forall x, exists v, In v (map fst l) /\ P v x <= P p x.
  Definition verts_below (q : Z) (l : list (Z * ext)) : Prop := forall v, In v (map fst l) -> 0 <= v < q.

  Lemma down_tail a l : l <> [] -> down (a :: l) -> down l.
  Proof. destruct l as [|b l]; [congruence|]. cbn [down]. tauto. Qed.

  Lemma hull_pop_spec q : forall hull, down hull -> verts_below q hull ->
    (forall p, 0 <= p < q -> forall x, (exists v, In v (map fst hull) /\ P v x <= P p x) \/ P q x <= P p x) ->
    let h' := hull_pop f q hull in
    down h' /\ verts_below (q + 1) h' /\ dom (q + 1) h' /\ (length h' <= length hull + 1)%nat /\ In q (map fst h').
  Proof.
    induction hull as [|[vk zk] rest IH]; intros D V C; [destruct D|]. cbv zeta. cbn [hull_pop].
    set (num := nthZ 0 f q + q * q - (nthZ 0 f vk + vk * vk)). set (den := 2 * (q - vk)).
    assert (Vk : 0 <= vk < q) by (apply V; left; reflexivity).
    assert (EN : num = N vk q) by reflexivity.
    destruct (ext_lt_frac zk num den) eqn:T.
    - (* push *)
      split; [|split; [|split; [|split]]].
      + cbn [down]. split; [|exact D]. unfold link. cbn [fst snd]. split; [lia | split; [reflexivity | exact T]].
      + intros v Hv. cbn [map fst In] in Hv. destruct Hv as [<-|Hv]; [lia|]. pose proof (V v Hv). lia.
      + intros p Hp x. destruct (Z.eq_dec p q) as [->|Np].
        * exists q. split; [left; reflexivity | lia].
        * destruct (C p ltac:(lia) x) as [(v & Hv & Le)|Le].
          -- exists v. split; [right; exact Hv | exact Le].
          -- exists q. split; [left; reflexivity | exact Le].
      + cbn [length]. lia.
      + left. reflexivity.
    - (* pop: vk is dominated everywhere by q or by the entry below it *)
      destruct rest as [|[v' z'] rest'].
      { cbn [down] in D. cbn [snd] in D. subst zk. cbn in T. discriminate. }
      pose proof D as D0. cbn [down] in D. destruct D as [(A & B & Cz) D']. cbn [fst snd] in *.
      assert (IHr := IH D').
      assert (V' : verts_below q ((v', z') :: rest')) by (intros v Hv; apply V; right; exact Hv).
      assert (C' : forall p, 0 <= p < q -> forall x,
                   (exists v, In v (map fst ((v', z') :: rest')) /\ P v x <= P p x) \/ P q x <= P p x).
      { intros p Hp x. destruct (C p Hp x) as [(v & Hv & Le)|Le]; [|right; exact Le].
        destruct Hv as [<-|Hv]; [|left; exists v; split; [exact Hv | exact Le]].
        (* the witness is vk itself *)
        cbn [fst snd] in Le. subst zk. cbn [ext_lt_frac] in T. apply Z.ltb_ge in T.
        set (c := N v' vk) in *. set (d := 2 * (vk - v')) in *.
        destruct (Z_le_gt_dec c (x * d)) as [G|L].
        - (* x at or right of z_k >= s: q is better than vk *)
          right. assert (S1 : P q x <= P vk x).
          { apply right_better. rewrite <- EN. fold den.
            assert (num * d <= x * d * den) by nia. assert (d * (x * den - num) >= 0) by nia. nia. }
          lia.
        - (* x left of z_k: the entry below is better than vk *)
          left. exists v'. split; [left; reflexivity|].
          assert (S1 : P v' x <= P vk x) by (apply left_better; fold d; fold c; lia). lia. }
      destruct (IHr V' C') as (R1 & R2 & R3 & R4 & R5).
      split; [exact R1 | split; [exact R2 | split; [exact R3 | split; [|exact R5]]]].
      cbn [length] in *. lia.
  Qed.

  Definition n := Zlen f.

  Lemma build_hull_fold : forall qs hull q0, qs = Zseq q0 (length qs) -> 1 <= q0 ->
    down hull -> verts_below q0 hull -> dom q0 hull -> (Z.of_nat (length hull) <= q0) ->
    let h := fold_left (fun h q => hull_pop f q h) qs hull in
    down h /\ verts_below (q0 + Zlen qs) h /\ dom (q0 + Zlen qs) h /\ Z.of_nat (length h) <= q0 + Zlen qs.
  Proof.
    induction qs as [|q qs IH]; intros hull q0 E H1 D V Dm Ln; cbv zeta.
    - cbn [fold_left]. unfold Zlen. cbn [length]. rewrite Z.add_0_r. split; [assumption | split; [assumption | split; assumption]].
    - cbn [length Zseq] in E. injection E as Eq Eqs. subst q. cbn [fold_left].
      destruct (hull_pop_spec q0 hull D V) as (R1 & R2 & R3 & R4 & R5).
      { intros p Hp x. left. apply Dm. exact Hp. }
      cbv zeta in *.
      destruct (IH (hull_pop f q0 hull) (q0 + 1) Eqs ltac:(lia) R1 R2 R3 ltac:(lia)) as (S1 & S2 & S3 & S4).
      cbv zeta in *. unfold Zlen in *. cbn [length]. rewrite Nat2Z.inj_succ.
      replace (q0 + Z.succ (Z.of_nat (length qs))) with (q0 + 1 + Z.of_nat (length qs)) by lia.
      split; [assumption | split; [assumption | split; assumption]].
  Qed.

  Hypothesis nonempty : (1 <= length f)%nat.

  Lemma build_hull_spec : let h := build_hull f in
    down h /\ verts_below n h /\ dom n h /\ Z.of_nat (length h) <= n.
  Proof.
    cbv zeta. unfold build_hull.
    pose proof (build_hull_fold (Zseq 1 (length f - 1)) [(0, NegInf)] 1) as B. cbv zeta in B.
    rewrite Zseq_length in B.
    assert (E : 1 + Zlen (Zseq 1 (length f - 1)) = n).
    { unfold n, Zlen. rewrite Zseq_length. lia. }
    rewrite E in B. apply B.
    - reflexivity.
    - lia.
    - reflexivity.
    - intros v Hv. cbn [map fst In] in Hv. destruct Hv as [<-|[]]. lia.
    - intros p Hp x. assert (p = 0) by lia. subst p. exists 0. split; [left; reflexivity | lia].
    - cbn [length]. lia.
  Qed.

  (* ---------- from top-first to bottom-first ---------- *)
  Lemma up_snoc : forall l a b, up (l ++ [a]) -> link a b -> up (l ++ [a; b]).
  Proof.
    induction l as [|x l IH]; intros a b U L.
    - cbn [app up]. split; [exact L | exact I].
    - destruct l as [|y l'].
      + cbn [app up] in *. destruct U as [U1 _]. split; [exact U1|]. split; [exact L | exact I].
      + cbn [app] in *. cbn [up] in U. destruct U as [U1 U2]. cbn [up]. split; [exact U1|]. apply (IH a b U2 L).
  Qed.
  Lemma down_up_rev : forall l, down l -> up (rev l).
  Proof.
    induction l as [|a l IH]; intro D; [destruct D|].
    destruct l as [|b l'].
    - cbn. exact I.
    - cbn [down] in D. destruct D as [L D']. specialize (IH D').
      cbn [rev] in *. rewrite <- app_assoc. cbn [app]. apply up_snoc; assumption.
  Qed.
  Lemma up_suffix : forall pre h, up (pre ++ h) -> up h.
  Proof.
    induction pre as [|a pre IH]; intros h U; [exact U|].
    apply IH. cbn [app] in U. destruct (pre ++ h) as [|b t] eqn:E; [destruct pre; destruct h; cbn in *; try discriminate; exact I|].
    cbn [up] in U. tauto.
  Qed.
  Lemma down_suffix : forall pre h, h <> [] -> down (pre ++ h) -> down h.
  Proof.
    induction pre as [|a pre IH]; intros h Hn D; [exact D|].
    apply (IH h Hn). cbn [app] in D. apply (down_tail a (pre ++ h)); [destruct pre; destruct h; cbn; congruence | exact D].
  Qed.

  (* ---------- second sweep ---------- *)
  (* pointer state at query x: bottom-first hull split as pre ++ (v,z) :: t with z < x (or the bottom) *)
  Definition ptr_ok (full : list (Z * ext)) (x : Z) (h : list (Z * ext)) : Prop :=
    exists pre v z t, h = (v, z) :: t /\ full = pre ++ h /\ ext_lt_int z x = true.

  Lemma ext_lt_int_le z x : ext_lt_int z x = true -> ext_le_int z x.
  Proof. destruct z as [|c d]; cbn; [trivial|]. intro H. apply Z.ltb_lt in H. lia. Qed.
  Lemma ext_lt_int_mono z x y : zpos (0, z) -> x <= y -> ext_lt_int z x = true -> ext_lt_int z y = true.
  Proof. destruct z as [|c d]; cbn; [trivial|]. intros Hd Hxy H. apply Z.ltb_lt in H. apply Z.ltb_lt. nia. Qed.

  Lemma sweep_adv_spec full x : up full -> (forall e, In e full -> zpos e) ->
    forall fuel h, ptr_ok full x h -> (length h <= fuel)%nat ->
    let h' := sweep_adv fuel x h in
    ptr_ok full x h' /\ (length h' <= length h)%nat /\
    match h' with _ :: (_, z1) :: _ => int_le_ext x z1 | _ => True end.
  Proof.
    intros U Zp. induction fuel as [|fuel IH]; intros h Ok Hl; cbv zeta.
    - destruct Ok as (pre & v & z & t & -> & _ & _). cbn in Hl. lia.
    - destruct Ok as (pre & v & z & t & Eh & Ef & Hz). subst h. cbn [sweep_adv].
      destruct t as [|[v1 z1] t'].
      + split; [exists pre, v, z, []; auto | split; [lia | exact I]].
      + destruct (ext_lt_int z1 x) eqn:A.
        * assert (Ok' : ptr_ok full x ((v1, z1) :: t')).
          { exists (pre ++ [(v, z)]), v1, z1, t'. split; [reflexivity|]. split; [rewrite <- app_assoc; exact Ef | exact A]. }
          destruct (IH ((v1, z1) :: t') Ok' ltac:(cbn [length] in *; lia)) as (R1 & R2 & R3). cbv zeta in *.
          split; [exact R1|]. split; [cbn [length] in *; lia | exact R3].
        * split; [exists pre, v, z, ((v1, z1) :: t'); auto|]. split; [lia|].
          assert (Z1 : zpos (v1, z1)). { apply Zp. rewrite Ef. apply in_or_app. right. right. left. reflexivity. }
          unfold zpos in Z1. cbn [snd] in Z1. destruct z1 as [|c d]; [cbn in A; discriminate|]. cbn in *. apply Z.ltb_ge in A. lia.
  Qed.

  (* the entry selected by the pointer is optimal among all hull vertices *)
  Lemma pointer_optimal hull x h : down hull -> (forall e, In e hull -> zpos e) ->
    ptr_ok (rev hull) x h -> match h with _ :: (_, z1) :: _ => int_le_ext x z1 | _ => True end ->
    match h with (v, _) :: _ => forall u, In u (map fst hull) -> P v x <= P u x | [] => False end.
  Proof.
    intros D Zp (pre & v & z & t & -> & Ef & Hz) Hn u Hu.
    assert (Hu' : In u (map fst (pre ++ (v, z) :: t))) by (rewrite <- Ef, map_rev; apply in_rev; rewrite rev_involutive; exact Hu).
    rewrite map_app in Hu'. cbn [map fst] in Hu'. apply in_app_or in Hu'.
    assert (Zv : zpos (v, z)). { apply Zp. apply in_rev. rewrite Ef. apply in_or_app. right. left. reflexivity. }
    destruct Hu' as [Hp|[<-|Ht]].
    - (* below: the top-first list (v,z) :: rev pre is a tail of hull *)
      assert (Eh : hull = rev t ++ (v, z) :: rev pre).
      { rewrite <- (rev_involutive hull), Ef, rev_app_distr. cbn [rev]. rewrite <- app_assoc. reflexivity. }
      assert (Dd : down ((v, z) :: rev pre)) by (apply (down_suffix (rev t)); [congruence | rewrite <- Eh; exact D]).
      apply (down_dominates (rev pre) v z x Dd (ext_lt_int_le z x Hz)).
      rewrite map_rev. apply in_rev. rewrite rev_involutive. exact Hp.
    - lia.
    - assert (Uu : up ((v, z) :: t)) by (apply (up_suffix pre); rewrite <- Ef; apply down_up_rev; exact D).
      apply (up_dominates t v z x Uu Zv); [|exact Ht]. destruct t as [|[v1 z1] t']; [exact I | exact Hn].
  Qed.

  Lemma down_zpos : forall l, down l -> forall e, In e l -> zpos e.
  Proof.
    induction l as [|a l IH]; intros D e He; [destruct He|].
    destruct l as [|b l'].
    - destruct He as [<-|[]]. cbn in D. unfold zpos. rewrite D. exact I.
    - cbn [down] in D. destruct D as [L D']. destruct He as [<-|He]; [apply (link_zpos _ _ L) | apply (IH D' e He)].
  Qed.

  (* ---------- the whole pass ---------- *)
  Definition opt (q : Z) (r : Z * Z) : Prop :=
    0 <= snd r < n /\ fst r = P (snd r) q /\ forall p, 0 <= p < n -> fst r <= P p q.

  Lemma sweep_fold hull : down hull -> verts_below n hull -> dom n hull -> Z.of_nat (length hull) <= n ->
    forall qs q0 h acc, qs = Zseq q0 (length qs) -> ptr_ok (rev hull) q0 h ->
    let res := snd (fold_left (fun st q => let h := sweep_adv (length f) q (fst st) in
                                           let vk := match h with (v, _) :: _ => v | [] => 0 end in
                                           (h, snd st ++ [((q - vk) * (q - vk) + nthZ 0 f vk, vk)])) qs (h, acc)) in
    exists outs, res = acc ++ outs /\ length outs = length qs /\
                 forall i, (i < length qs)%nat -> opt (q0 + Z.of_nat i) (nth i outs (0, 0)).
  Proof.
    intros D V Dm Ln. pose proof (down_zpos hull D) as Zp.
    assert (Zp' : forall e, In e (rev hull) -> zpos e) by (intros e He; apply Zp; apply in_rev; exact He).
    assert (U : up (rev hull)) by (apply down_up_rev; exact D).
    induction qs as [|q qs IH]; intros q0 h acc E Ok; cbv zeta.
    - cbn [fold_left snd]. exists []. rewrite app_nil_r. split; [reflexivity|]. split; [reflexivity|]. intros i Hi. cbn in Hi. lia.
    - cbn [length Zseq] in E. injection E as Eq Eqs. subst q. cbn [fold_left fst snd].
      assert (Hlen : (length h <= length f)%nat).
      { destruct Ok as (pre & v & z & t & -> & Ef & _).
        assert (length (rev hull) = length (pre ++ (v, z) :: t)) by (rewrite Ef; reflexivity).
        rewrite rev_length, app_length in H. unfold n, Zlen in Ln. lia. }
      destruct (sweep_adv_spec (rev hull) q0 U Zp' (length f) h Ok Hlen) as (Ok1 & L1 & Stop). cbv zeta in *.
      set (h1 := sweep_adv (length f) q0 h) in *.
      pose proof (pointer_optimal hull q0 h1 D Zp Ok1 Stop) as Best.
      destruct h1 as [|[vk zk] t1] eqn:Eh1; [destruct Best|].
      assert (Ok2 : ptr_ok (rev hull) (q0 + 1) ((vk, zk) :: t1)).
      { destruct Ok1 as (pre & v & z & t & Eq1 & Ef & Hz). injection Eq1 as -> -> ->.
        exists pre, v, z, t. split; [reflexivity|]. split; [exact Ef|].
        apply (ext_lt_int_mono z q0 (q0 + 1)); [|lia | exact Hz].
        assert (In (v, z) (rev hull)) by (rewrite Ef; apply in_or_app; right; left; reflexivity).
        specialize (Zp' _ H). unfold zpos in *. exact Zp'. }
      destruct (IH (q0 + 1) ((vk, zk) :: t1) (acc ++ [((q0 - vk) * (q0 - vk) + nthZ 0 f vk, vk)]) Eqs Ok2) as (outs & R1 & R2 & R3).
      cbv zeta in R1.
      exists (((q0 - vk) * (q0 - vk) + nthZ 0 f vk, vk) :: outs). split; [rewrite R1, <- app_assoc; reflexivity|].
      split; [cbn [length]; lia|]. intros i Hi. destruct i as [|i].
      + cbn [nth]. rewrite Z.add_0_r. unfold opt. cbn [fst snd].
        assert (Vin : In vk (map fst hull)).
        { destruct Ok1 as (pre & v & z & t & Eq1 & Ef & _). injection Eq1 as -> -> ->.
          rewrite <- (rev_involutive hull), Ef, map_rev. apply -> in_rev. rewrite map_app. apply in_or_app. right. left. reflexivity. }
        split; [apply V; exact Vin|]. split; [reflexivity|].
        intros p Hp. destruct (Dm p Hp q0) as (v & Hv & Le). specialize (Best v Hv). unfold P in *. lia.
      + cbn [nth]. replace (q0 + Z.of_nat (S i)) with (q0 + 1 + Z.of_nat i) by lia. apply R3. cbn [length] in Hi. lia.
  Qed.

  Theorem dt1d_with_origin_spec : exists outs, dt1d_with_origin f = outs /\ length outs = length f /\
    forall i, (i < length f)%nat -> opt (Z.of_nat i) (nth i outs (0, 0)).
  Proof.
    rewrite (dt1d_unfold f nonempty).
    destruct build_hull_spec as (D & V & Dm & Ln). cbv zeta in *.
    destruct (sweep_fold (build_hull f) D V Dm Ln (Zseq 0 (length f)) 0 (rev (build_hull f)) []) as (outs & R1 & R2 & R3).
    - rewrite Zseq_length. reflexivity.
    - (* the pointer starts at the bottom entry, whose abscissa is -inf *)
      destruct (rev (build_hull f)) as [|[v0 z0] t] eqn:Er.
      + exfalso. assert (build_hull f = []) by (rewrite <- (rev_involutive (build_hull f)), Er; reflexivity). rewrite H in D. exact D.
      + exists [], v0, z0, t. split; [reflexivity|]. split; [reflexivity|].
        (* z0 = NegInf: the last element of the top-first list *)
        assert (Z0 : z0 = NegInf).
        { assert (Dl : down [(v0, z0)]).
          { assert (Eb : build_hull f = rev t ++ [(v0, z0)]) by (rewrite <- (rev_involutive (build_hull f)), Er; reflexivity).
            apply (down_suffix (rev t)); [congruence|]. rewrite <- Eb. exact D. }
          exact Dl. }
        subst z0. reflexivity.
    - cbv zeta in R1. exists outs. rewrite Zseq_length in *. split; [exact R1|]. split; [exact R2|].
      intros i Hi. specialize (R3 i Hi). rewrite Z.add_0_l in R3. exact R3.
  Qed.
End Envelope.
