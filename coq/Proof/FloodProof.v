(* C14: close_holes -- the stack-based flood of _morph.cpp marks exactly the background pixels reachable from a border
   background pixel through the neighbourhood, for every image, every neighbourhood and any dimension; the holes that are
   filled are the background pixels that are NOT reachable. *)
Require Import MV.Base.Prelude MV.Base.CInt MV.Base.Index MV.Model.Filter MV.Model.Morph MV.Model.Extrema.
Require Import MV.Proof.LabeledProof MV.Proof.ExtremaProof.

(* ---- counting zeros *)
Definition cz (m : list Z) : nat := length (filter (Z.eqb 0) m).
Lemma cz_upd : forall m i, (i < length m)%nat -> nth i m 0 = 0 -> (cz (upd m i 1%Z) + 1 = cz m)%nat.
Proof.
  induction m as [|a m IH]; intros i Hi Hz; [cbn in Hi; lia|].
  destruct i as [|i]; cbn [upd nth] in *.
  - subst a. unfold cz. cbn [filter Z.eqb length]. lia.
  - unfold cz in *. cbn [filter]. specialize (IH i ltac:(cbn in Hi; lia) Hz). destruct (0 =? a); cbn [length]; lia.
Qed.
Lemma cz_updZ m i : 0 <= i < Zlen m -> nthZ 0 m i = 0 -> (cz (updZ m i 1%Z) + 1 = cz m)%nat.
Proof.
  intros Hi Hz. unfold updZ, nthZ, Zlen in *. destruct (i <? 0) eqn:E; [lia|]. apply cz_upd; [lia | exact Hz].
Qed.
Lemma cz_le m : (cz m <= length m)%nat.
Proof. unfold cz. induction m as [|a m IH]; cbn [filter length]; [lia|]. destruct (0 =? a); cbn [length]; lia. Qed.

Section Flood.
  Variable ref : arr.
  Variable offs : list (list Z).
  Variable seeds : list (list Z).
  Let sh := shape ref.
  Hypothesis Ps : pos_shape sh.

  Definition bgp (p : list Z) : Prop := in_shape sh p /\ aget ref p = 0.
  Definition marked (m : list Z) (p : list Z) : Prop := nthZ 0 m (ravel sh p) <> 0.
  Inductive reach : list Z -> Prop :=
  | reach_seed s : In s seeds -> reach s
  | reach_step p off : reach p -> In off offs -> bgp (padd p off) -> reach (padd p off).

  Definition inner (p : list Z) (ms : list Z * list (list Z)) (off : list Z) : list Z * list (list Z) :=
    let np := padd p off in
    if in_shapeb sh np && (aget ref np =? 0) && (nthZ 0 (fst ms) (ravel sh np) =? 0)
    then (updZ (fst ms) (ravel sh np) 1, np :: snd ms) else ms.

  Lemma marked_updZ m i q : Zlen m = size sh -> 0 <= i < size sh -> in_shape sh q ->
    (marked (updZ m i 1) q <-> marked m q \/ ravel sh q = i).
  Proof.
    intros Hl Hi Hq. unfold marked. pose proof (ravel_bound sh q Ps Hq) as B.
    rewrite nthZ_updZ by lia. destruct (i =? ravel sh q) eqn:E; [apply Z.eqb_eq in E | apply Z.eqb_neq in E]; split; intro H.
    - right. lia.
    - lia.
    - left. exact H.
    - destruct H as [H|H]; [exact H | lia].
  Qed.

  (* one sweep over the offsets from p *)
  Lemma inner_spec p : forall os m st, Zlen m = size sh ->
    let r := fold_left (inner p) os (m, st) in
    Zlen (fst r) = size sh /\
    (exists new, snd r = new ++ st /\
       (forall q, In q new -> bgp q /\ (exists off, In off os /\ q = padd p off) /\ ~ marked m q /\ marked (fst r) q) /\
       (forall q, in_shape sh q -> marked (fst r) q -> ~ marked m q -> In q new)) /\
    (forall q, in_shape sh q -> (marked (fst r) q <-> marked m q \/ (exists off, In off os /\ q = padd p off /\ bgp q))) /\
    (cz (fst r) + length (snd r) = cz m + length st)%nat.
  Proof.
    induction os as [|off os IH]; intros m st Hl; cbv zeta.
    - cbn [fold_left fst snd]. split; [exact Hl|]. split.
      + exists []. split; [reflexivity|]. split; [intros q []| intros q _ A B; contradiction].
      + split; [|reflexivity]. intros q Hq. split; [intro H; left; exact H | intros [H|(off & [] & _)]; exact H].
    - cbn [fold_left].
      assert (Hin : inner p (m, st) off =
                    if in_shapeb sh (padd p off) && (aget ref (padd p off) =? 0) && (nthZ 0 m (ravel sh (padd p off)) =? 0)
                    then (updZ m (ravel sh (padd p off)) 1, padd p off :: st) else (m, st)) by reflexivity.
      rewrite Hin. clear Hin.
      destruct (in_shapeb sh (padd p off) && (aget ref (padd p off) =? 0) && (nthZ 0 m (ravel sh (padd p off)) =? 0)) eqn:T.
      + apply andb_true_iff in T. destruct T as [T T3]. apply andb_true_iff in T. destruct T as [T1 T2].
        apply in_shapeb_iff in T1. apply Z.eqb_eq in T2. apply Z.eqb_eq in T3.
        set (np := padd p off) in *. pose proof (ravel_bound sh np Ps T1) as B.
        set (m1 := updZ m (ravel sh np) 1).
        assert (Hl1 : Zlen m1 = size sh) by (unfold m1; rewrite updZ_Zlen; exact Hl).
        destruct (IH m1 (np :: st) Hl1) as (R1 & (new & E & N1 & N2) & R3 & R4). cbv zeta in *.
        set (r := fold_left (inner p) os (m1, np :: st)) in *.
        assert (M1 : forall q, in_shape sh q -> (marked m1 q <-> marked m q \/ q = np)).
        { intros q Hq. unfold m1. rewrite (marked_updZ m _ q Hl B Hq). split; intros [H|H]; [left; exact H | right; apply (ravel_inj sh q np Ps Hq T1 H) | left; exact H | right; rewrite H; reflexivity]. }
        split; [exact R1|]. split; [|split].
        * exists (new ++ [np]). split; [rewrite E, <- app_assoc; reflexivity|]. split.
          -- intros q Hq. apply in_app_or in Hq. destruct Hq as [Hq|[<-|[]]].
             ++ destruct (N1 q Hq) as (A1 & (o & Ho & Eo) & A3 & A4). split; [exact A1|]. split; [exists o; split; [right; exact Ho | exact Eo]|].
                split; [|exact A4]. intro Mq. apply A3. apply M1; [apply A1 | left; exact Mq].
             ++ split; [split; assumption|]. split; [exists off; split; [left; reflexivity | reflexivity]|].
                split; [unfold marked; lia|]. apply R3; [exact T1|]. left. apply M1; [exact T1 | right; reflexivity].
          -- intros q Hq Mq NMq. destruct (list_eq_dec Z.eq_dec q np) as [->|Ne]; [apply in_or_app; right; left; reflexivity|].
             apply in_or_app. left. apply N2; [exact Hq | exact Mq|]. intro M. apply M1 in M; [|exact Hq]. destruct M as [M|M]; [contradiction | congruence].
        * intros q Hq. rewrite (R3 q Hq). rewrite (M1 q Hq). split.
          -- intros [[H|H]|(o & Ho & Eo & Bo)].
             ++ left. exact H.
             ++ right. exists off. split; [left; reflexivity|]. split; [exact H | subst q; split; assumption].
             ++ right. exists o. split; [right; exact Ho | split; assumption].
          -- intros [H|(o & [<-|Ho] & Eo & Bo)].
             ++ left. left. exact H.
             ++ left. right. exact Eo.
             ++ right. exists o. split; [exact Ho | split; assumption].
        * rewrite R4. cbn [length]. pose proof (cz_updZ m (ravel sh np) ltac:(lia) T3). fold m1 in H. lia.
      + destruct (IH m st Hl) as (R1 & (new & E & N1 & N2) & R3 & R4). cbv zeta in *.
        split; [exact R1|]. split; [|split; [|exact R4]].
        * exists new. split; [exact E|]. split; [|exact N2].
          intros q Hq. destruct (N1 q Hq) as (A1 & (o & Ho & Eo) & A3 & A4). split; [exact A1|]. split; [exists o; split; [right; exact Ho | exact Eo]|]. split; assumption.
        * intros q Hq. rewrite (R3 q Hq). split.
          -- intros [H|(o & Ho & Eo & Bo)]; [left; exact H | right; exists o; split; [right; exact Ho | split; assumption]].
          -- intros [H|(o & [<-|Ho] & Eo & Bo)]; [left; exact H | | right; exists o; split; [exact Ho | split; assumption]].
             (* the skipped offset: its target is not an unmarked background pixel, so it is already marked *)
             left. destruct Bo as [B1 B2]. subst q.
             apply andb_false_iff in T. destruct T as [T|T].
             ++ apply andb_false_iff in T. destruct T as [T|T].
                ** exfalso. apply in_shapeb_iff in B1. congruence.
                ** apply Z.eqb_neq in T. contradiction.
             ++ apply Z.eqb_neq in T. exact T.
  Qed.

  Lemma classic_marked m q : marked m q \/ ~ marked m q.
  Proof. unfold marked. destruct (Z.eq_dec (nthZ 0 m (ravel sh q)) 0) as [E|E]; [right; intro H; apply H; exact E | left; exact E]. Qed.

  (* ---- the loop *)
  Definition Inv (m : list Z) (st : list (list Z)) : Prop :=
    Zlen m = size sh /\
    (forall q, In q st -> in_shape sh q /\ marked m q) /\
    (forall q, in_shape sh q -> marked m q -> reach q) /\
    (forall q, in_shape sh q -> marked m q -> In q st \/ forall off, In off offs -> bgp (padd q off) -> marked m (padd q off)) /\
    (forall s, In s seeds -> in_shape sh s /\ marked m s).
  Definition Final (m : list Z) : Prop :=
    Zlen m = size sh /\ forall q, in_shape sh q -> (marked m q <-> reach q).

  Lemma flood_mark_unfold k m p rest :
    flood_mark (S k) ref offs m (p :: rest) =
    flood_mark k ref offs (fst (fold_left (inner p) offs (m, rest))) (snd (fold_left (inner p) offs (m, rest))).
  Proof.
    change (flood_mark (S k) ref offs m (p :: rest))
      with (let '(a, b) := fold_left (inner p) offs (m, rest) in flood_mark k ref offs a b).
    destruct (fold_left (inner p) offs (m, rest)) as [m' st']. reflexivity.
  Qed.

  Lemma reach_in_shape q : (forall s, In s seeds -> in_shape sh s) -> reach q -> in_shape sh q.
  Proof. intros Hs R. induction R as [s Hin|p off R IH Ho B]; [apply Hs; exact Hin | apply B]. Qed.

  Lemma inv_done m : Inv m [] -> Final m.
  Proof.
    intros (I1 & I2 & I3 & I4 & I5). split; [exact I1|]. intros q Hq. split; [apply I3; exact Hq|].
    intro R. clear Hq. induction R as [s Hin|p off R IH Ho B].
    - apply I5. exact Hin.
    - assert (Hp : in_shape sh p) by (apply reach_in_shape; [intros s Hs; apply I5; exact Hs | exact R]).
      destruct (I4 p Hp IH) as [[]|C]. apply C; assumption.
  Qed.

  Lemma flood_mark_ok : forall fuel m st, Inv m st -> (cz m + length st <= fuel)%nat -> Final (flood_mark fuel ref offs m st).
  Proof.
    induction fuel as [|k IH]; intros m st I Hm.
    - assert (st = []) by (destruct st; [reflexivity | cbn in Hm; lia]). subst st. cbn [flood_mark]. apply inv_done. exact I.
    - destruct st as [|p rest]; [cbn [flood_mark]; apply inv_done; exact I|].
      rewrite flood_mark_unfold. destruct I as (I1 & I2 & I3 & I4 & I5).
      destruct (inner_spec p offs m rest I1) as (R1 & (new & E & N1 & N2) & R3 & R4). cbv zeta in *.
      set (r := fold_left (inner p) offs (m, rest)) in *.
      assert (Mono : forall q, in_shape sh q -> marked m q -> marked (fst r) q) by (intros q Hq M; apply R3; [exact Hq | left; exact M]).
      destruct (I2 p (or_introl eq_refl)) as [Hp Mp].
      apply IH.
      + split; [exact R1|]. split; [|split; [|split]].
        * intros q Hq. rewrite E in Hq. apply in_app_or in Hq. destruct Hq as [Hq|Hq].
          -- destruct (N1 q Hq) as ((A1 & _) & _ & _ & A4). split; assumption.
          -- destruct (I2 q (or_intror Hq)) as [A1 A2]. split; [exact A1 | apply Mono; assumption].
        * intros q Hq Mq. apply R3 in Mq; [|exact Hq]. destruct Mq as [Mq|(o & Ho & Eo & Bo)]; [apply I3; assumption|].
          subst q. apply reach_step; [apply I3; assumption | exact Ho | exact Bo].
        * intros q Hq Mq. destruct (list_eq_dec Z.eq_dec q p) as [->|Ne].
          -- right. intros off Ho Bo. apply R3; [apply Bo|]. right. exists off. split; [exact Ho | split; [reflexivity | exact Bo]].
          -- apply R3 in Mq; [|exact Hq]. destruct Mq as [Mq|(o & Ho & Eo & Bo)].
             ++ destruct (I4 q Hq Mq) as [[Eq|Hin]|C].
                ** congruence.
                ** left. rewrite E. apply in_or_app. right. exact Hin.
                ** right. intros off Ho Bo. apply Mono; [apply Bo | apply C; assumption].
             ++ (* newly marked or already marked *)
                destruct (classic_marked m q) as [M|NM].
                ** destruct (I4 q Hq M) as [[Eq|Hin]|C]; [congruence | left; rewrite E; apply in_or_app; right; exact Hin |
                     right; intros off Ho' Bo'; apply Mono; [apply Bo' | apply C; assumption]].
                ** left. rewrite E. apply in_or_app. left. apply N2; [exact Hq | | exact NM].
                   apply R3; [exact Hq|]. right. exists o. split; [exact Ho | split; assumption].
        * intros s Hs. destruct (I5 s Hs) as [A1 A2]. split; [exact A1 | apply Mono; assumption].
      + cbn [length] in Hm. lia.
  Qed.
  (* ---- a second reading of the same loop, from ARBITRARY initial marks mi and stack st0: everything marked by the flood,
          and every pixel of the initial stack, ends with all its eligible neighbours marked (used for regmax/regmin) *)
  Variable mi : list Z.
  Variable st0 : list (list Z).
  Definition closed_at (m : list Z) (q : list Z) : Prop := forall off, In off offs -> bgp (padd q off) -> marked m (padd q off).
  Definition Inv2 (m : list Z) (st : list (list Z)) : Prop :=
    Zlen m = size sh /\
    (forall q, In q st -> in_shape sh q /\ marked m q) /\
    (forall q, in_shape sh q -> marked mi q -> marked m q) /\
    (forall q, in_shape sh q -> marked m q -> (marked mi q /\ ~ In q st0) \/ In q st \/ closed_at m q).
  Definition Final2 (m : list Z) : Prop :=
    Zlen m = size sh /\
    (forall q, in_shape sh q -> marked mi q -> marked m q) /\
    (forall q, in_shape sh q -> marked m q -> (marked mi q /\ ~ In q st0) \/ closed_at m q).

  Lemma flood_mark_closure : forall fuel m st, Inv2 m st -> (cz m + length st <= fuel)%nat -> Final2 (flood_mark fuel ref offs m st).
  Proof.
    assert (Done : forall m, Inv2 m [] -> Final2 m).
    { intros m (I1 & I2 & I3 & I4). split; [exact I1|]. split; [exact I3|]. intros q Hq Mq.
      destruct (I4 q Hq Mq) as [H|[[]|H]]; [left; exact H | right; exact H]. }
    induction fuel as [|k IH]; intros m st I Hm.
    - assert (st = []) by (destruct st; [reflexivity | cbn in Hm; lia]). subst st. cbn [flood_mark]. apply Done. exact I.
    - destruct st as [|p rest]; [cbn [flood_mark]; apply Done; exact I|].
      rewrite flood_mark_unfold. destruct I as (I1 & I2 & I3 & I4).
      destruct (inner_spec p offs m rest I1) as (R1 & (new & E & N1 & N2) & R3 & R4). cbv zeta in *.
      set (r := fold_left (inner p) offs (m, rest)) in *.
      assert (Mono : forall q, in_shape sh q -> marked m q -> marked (fst r) q) by (intros q Hq M; apply R3; [exact Hq | left; exact M]).
      destruct (I2 p (or_introl eq_refl)) as [Hp Mp].
      apply IH.
      + split; [exact R1|]. split; [|split].
        * intros q Hq. rewrite E in Hq. apply in_app_or in Hq. destruct Hq as [Hq|Hq].
          -- destruct (N1 q Hq) as ((A1 & _) & _ & _ & A4). split; assumption.
          -- destruct (I2 q (or_intror Hq)) as [A1 A2]. split; [exact A1 | apply Mono; assumption].
        * intros q Hq Mq. apply Mono; [exact Hq | apply I3; assumption].
        * intros q Hq Mq. destruct (list_eq_dec Z.eq_dec q p) as [->|Ne].
          -- right. right. intros off Ho Bo. apply R3; [apply Bo|]. right. exists off. split; [exact Ho | split; [reflexivity | exact Bo]].
          -- destruct (classic_marked m q) as [M|NM].
             ++ destruct (I4 q Hq M) as [H|[[Eq|Hin]|C]].
                ** left. exact H.
                ** congruence.
                ** right. left. rewrite E. apply in_or_app. right. exact Hin.
                ** right. right. intros off Ho Bo. apply Mono; [apply Bo | apply C; assumption].
             ++ right. left. rewrite E. apply in_or_app. left. apply N2; assumption.
      + cbn [length] in Hm. lia.
  Qed.
End Flood.

(* ---- close_holes *)
Definition ch_offs (bc : arr) : list (list Z) := map fst (entries true (remove_centre bc)).
Definition ch_seeds (ref : arr) : list (list Z) :=
  filter (fun p => on_border (shape ref) p && (aget ref p =? 0)) (all_positions (shape ref)).

Lemma ch_seed_iff ref s : pos_shape (shape ref) ->
  (In s (ch_seeds ref) <-> in_shape (shape ref) s /\ on_border (shape ref) s = true /\ aget ref s = 0).
Proof.
  intro Ps. unfold ch_seeds. rewrite filter_In, (in_all_positions _ _ Ps), andb_true_iff, Z.eqb_eq. tauto.
Qed.

Theorem close_holes_correct ref bc : wf_arr ref -> forall p, in_shape (shape ref) p ->
  (nthZ 0 (close_holes ref bc) (ravel (shape ref) p) = 0 <-> reach ref (ch_offs bc) (ch_seeds ref) p) /\
  (nthZ 0 (close_holes ref bc) (ravel (shape ref) p) = 1 <-> ~ reach ref (ch_offs bc) (ch_seeds ref) p).
Proof.
  intros [Ps Hl] p Hp. unfold close_holes. cbv zeta.
  fold (ch_seeds ref). fold (ch_offs bc).
  set (sh := shape ref) in *.
  set (g := fun q => if on_border sh q && (aget ref q =? 0) then 1 else 0).
  set (marks0 := map g (all_positions sh)).
  assert (L0 : Zlen marks0 = size sh).
  { unfold marks0, Zlen. rewrite map_length, all_positions_length. pose proof (size_pos sh Ps). lia. }
  assert (M0 : forall q, in_shape sh q -> nthZ 0 marks0 (ravel sh q) = g q).
  { intros q Hq. pose proof (ravel_bound sh q Ps Hq) as B. unfold marks0.
    rewrite nthZ_map with (da := []) by (unfold Zlen; rewrite all_positions_length; lia).
    rewrite nthZ_all_positions by exact B. rewrite (unravel_ravel sh q Ps Hq). reflexivity. }
  assert (MS : forall q, in_shape sh q -> (marked ref marks0 q <-> In q (ch_seeds ref))).
  { intros q Hq. unfold marked. fold sh. rewrite (M0 q Hq). unfold g. rewrite (ch_seed_iff ref q Ps). fold sh.
    destruct (on_border sh q && (aget ref q =? 0)) eqn:E.
    - apply andb_true_iff in E. destruct E as [E1 E2]. apply Z.eqb_eq in E2. split; [intros _; tauto | intros _; lia].
    - split; [intro H; lia|]. intros (_ & E1 & E2). rewrite E1 in E. apply Z.eqb_eq in E2. rewrite E2 in E. discriminate. }
  assert (I0 : Inv ref (ch_offs bc) (ch_seeds ref) marks0 (ch_seeds ref)).
  { split; [exact L0|]. split; [|split; [|split]].
    - intros q Hq. pose proof (proj1 (ch_seed_iff ref q Ps) Hq) as (A & _). split; [exact A | apply MS; assumption].
    - intros q Hq Mq. apply reach_seed. apply MS; assumption.
    - intros q Hq Mq. left. apply MS; assumption.
    - intros s Hs. pose proof (proj1 (ch_seed_iff ref s Ps) Hs) as (A & _). split; [exact A | apply MS; assumption]. }
  assert (Fuel : (cz marks0 + length (ch_seeds ref) <= 2 * length (data ref) + 2)%nat).
  { pose proof (cz_le marks0). assert (length marks0 = length (data ref)).
    { unfold marks0. rewrite map_length, all_positions_length. unfold Zlen in Hl. fold sh. lia. }
    assert (length (ch_seeds ref) <= length (all_positions sh))%nat.
    { unfold ch_seeds. fold sh. clear. induction (all_positions sh) as [|a l IH]; cbn [filter length]; [lia|].
      destruct (on_border sh a && (aget ref a =? 0)); cbn [length]; lia. }
    rewrite all_positions_length in H1. unfold Zlen in Hl. fold sh in Hl. lia. }
  destruct (flood_mark_ok ref (ch_offs bc) (ch_seeds ref) Ps _ marks0 (ch_seeds ref) I0 Fuel) as [FL FM].
  set (mf := flood_mark (2 * length (data ref) + 2) ref (ch_offs bc) marks0 (ch_seeds ref)) in *.
  pose proof (ravel_bound sh p Ps Hp) as B. fold sh in FL, FM.
  rewrite nthZ_map with (da := 0) by lia.
  specialize (FM p Hp). unfold marked in FM. fold sh in FM.
  destruct (nthZ 0 mf (ravel sh p) =? 0) eqn:E; [apply Z.eqb_eq in E | apply Z.eqb_neq in E]; split; split; intro H; try lia.
  - exfalso. apply FM in H. contradiction.
  - intro R. apply FM in R. contradiction.
  - apply FM. exact E.
  - exfalso. apply H. apply FM. exact E.
Qed.
