(* C17: ihaar(haar(f)) = f for every 2-D integer image with even sides -- the two-pass transforms of _convolve.cpp
   (rows, then columns; the inverse in the same order), not only a single row. *)
Require Import MV.Base.Prelude MV.Model.Wavelet MV.Proof.WaveletProof.
Open Scope Z_scope.

Definition get (rows : list (list Z)) (i j : nat) : Z := nth j (nth i rows []) 0.
Definition rect (h w : nat) (rows : list (list Z)) : Prop := length rows = h /\ Forall (fun r => length r = w) rows.

Lemma rect_row h w rows i : rect h w rows -> (i < h)%nat -> length (nth i rows []) = w.
Proof. intros [L F] Hi. rewrite Forall_forall in F. apply F. apply nth_In. lia. Qed.

Lemma rect_ext h w a b : rect h w a -> rect h w b -> (forall i j, (i < h)%nat -> (j < w)%nat -> get a i j = get b i j) -> a = b.
Proof.
  intros Ra Rb H. apply nth_ext with (d := []) (d' := []); [destruct Ra, Rb; lia|].
  intros i Hi. assert (Hi' : (i < h)%nat) by (destruct Ra; lia).
  apply nth_ext with (d := 0) (d' := 0); [rewrite (rect_row h w a i), (rect_row h w b i); auto|].
  intros j Hj. rewrite (rect_row h w a i) in Hj by auto. apply H; auto.
Qed.

Lemma nth_firstn_lt' {A} (d : A) : forall n l j, (j < n)%nat -> nth j (firstn n l) d = nth j l d.
Proof. induction n as [|n IH]; intros l j H; [lia|]. destruct l as [|x l]; [destruct j; reflexivity|]. destruct j; [reflexivity|]. simpl. apply IH. lia. Qed.
Lemma nth_skipn' {A} (d : A) : forall k l j, nth j (skipn k l) d = nth (k + j) l d.
Proof. induction k as [|k IH]; intros l j; [reflexivity|]. destruct l as [|x l]; [destruct j; reflexivity|]. simpl. apply IH. Qed.

(* ---------- transpose ---------- *)
Lemma transpose_length w rows : length (transpose w rows) = w.
Proof. revert rows. induction w as [|w IH]; intros rows; cbn [transpose length]; [reflexivity|]. now rewrite IH. Qed.

Lemma transpose_get w : forall rows i j, (j < w)%nat -> (i < length rows)%nat ->
  nth i (nth j (transpose w rows) []) 0 = nth j (nth i rows []) 0.
Proof.
  induction w as [|w IH]; intros rows i j Hj Hi; [lia|]. cbn [transpose]. destruct j as [|j].
  - cbn [nth]. rewrite nth_indep with (d' := hd 0 []) by (rewrite map_length; lia).
    rewrite (map_nth (fun r => hd 0 r)). destruct (nth i rows []); reflexivity.
  - cbn [nth]. rewrite IH by (rewrite ?map_length; lia).
    rewrite nth_indep with (d' := tl []) by (rewrite map_length; lia).
    rewrite (map_nth (@tl Z)). destruct (nth i rows []) as [|x r]; [destruct j; reflexivity | reflexivity].
Qed.

Lemma transpose_rect h w rows : length rows = h -> rect w h (transpose w rows).
Proof.
  intros L. split; [apply transpose_length|]. revert rows L. induction w as [|w IH]; intros rows L; cbn [transpose]; constructor.
  - rewrite map_length. exact L.
  - apply IH. rewrite map_length. exact L.
Qed.

Lemma get_transpose h w rows i j : length rows = h -> (i < w)%nat -> (j < h)%nat -> get (transpose w rows) i j = get rows j i.
Proof. intros L Hi Hj. unfold get. apply transpose_get; lia. Qed.

(* ---------- entries of the row transforms ---------- *)
Lemma pairs_nth n : forall l i, length l = (2 * n)%nat -> (i < n)%nat ->
  nth i (pairs l) (0, 0) = (nth (2 * i) l 0, nth (2 * i + 1) l 0).
Proof.
  induction n as [|n IH]; intros l i H Hi; [lia|].
  destruct l as [|a [|b t]]; try (simpl in H; lia). cbn [pairs]. destruct i as [|i]; [reflexivity|].
  cbn [nth]. rewrite IH by (simpl in H; lia). replace (2 * S i)%nat with (S (S (2 * i))) by lia.
  replace (S (S (2 * i)) + 1)%nat with (S (S (2 * i + 1))) by lia. reflexivity.
Qed.

Lemma haar_row_length l n : length l = (2 * n)%nat -> length (haar_row l) = (2 * n)%nat.
Proof. intros H. unfold haar_row. rewrite app_length, !map_length, (pairs_length n l H). lia. Qed.

Lemma haar_row_nth l n i : length l = (2 * n)%nat -> (i < 2 * n)%nat ->
  nth i (haar_row l) 0 = if (i <? n)%nat then nth (2 * i) l 0 + nth (2 * i + 1) l 0
                         else nth (2 * (i - n) + 1) l 0 - nth (2 * (i - n)) l 0.
Proof.
  intros H Hi. unfold haar_row. pose proof (pairs_length n l H) as LP.
  destruct (Nat.ltb_spec i n) as [Lt|Ge].
  - rewrite app_nth1 by (rewrite map_length; lia).
    rewrite nth_indep with (d' := (fun ab : Z * Z => fst ab + snd ab) (0, 0)) by (rewrite map_length; lia).
    rewrite (map_nth (fun ab : Z * Z => fst ab + snd ab)). rewrite (pairs_nth n) by auto. reflexivity.
  - rewrite app_nth2 by (rewrite map_length; lia). rewrite map_length, LP.
    rewrite nth_indep with (d' := (fun ab : Z * Z => snd ab - fst ab) (0, 0)) by (rewrite map_length; lia).
    rewrite (map_nth (fun ab : Z * Z => snd ab - fst ab)). rewrite (pairs_nth n) by (auto; lia). reflexivity.
Qed.

Lemma flat2_nth {A} (d : A) (f g : A -> Z) : forall L x, (x < length L)%nat ->
  nth (2 * x) (flat_map (fun a => [f a; g a]) L) 0 = f (nth x L d) /\
  nth (2 * x + 1) (flat_map (fun a => [f a; g a]) L) 0 = g (nth x L d).
Proof.
  induction L as [|a L IH]; intros x Hx; [simpl in Hx; lia|]. destruct x as [|x]; [split; reflexivity|].
  cbn [flat_map app]. replace (2 * S x)%nat with (S (S (2 * x))) by lia. replace (S (S (2 * x)) + 1)%nat with (S (S (2 * x + 1))) by lia.
  cbn [nth]. apply IH. simpl in Hx. lia.
Qed.

Lemma flat2_length {A} (f g : A -> Z) L : length (flat_map (fun a => [f a; g a]) L) = (2 * length L)%nat.
Proof. induction L as [|a L IH]; [reflexivity|]. cbn [flat_map app length]. rewrite IH. lia. Qed.

Lemma half n : ((2 * n) / 2 = n)%nat.
Proof. replace (2 * n)%nat with (n * 2)%nat by lia. apply Nat.div_mul. lia. Qed.

Lemma ihaar_row_length l n : length l = (2 * n)%nat -> length (ihaar_row l) = (2 * n)%nat.
Proof.
  intros H. unfold ihaar_row. rewrite flat2_length, combine_length, firstn_length, skipn_length, H, half. lia.
Qed.

Lemma ihaar_row_nth l n x : length l = (2 * n)%nat -> (x < n)%nat ->
  nth (2 * x) (ihaar_row l) 0 = (nth x l 0 - nth (n + x) l 0) / 2 /\
  nth (2 * x + 1) (ihaar_row l) 0 = (nth x l 0 + nth (n + x) l 0) / 2.
Proof.
  intros H Hx. unfold ihaar_row. rewrite H, half.
  assert (LC : length (combine (firstn n l) (skipn n l)) = n) by (rewrite combine_length, firstn_length, skipn_length; lia).
  destruct (flat2_nth (0, 0) (fun lh : Z * Z => (fst lh - snd lh) / 2) (fun lh : Z * Z => (fst lh + snd lh) / 2)
                      (combine (firstn n l) (skipn n l)) x ltac:(lia)) as [E1 E2].
  rewrite E1, E2. rewrite combine_nth by (rewrite firstn_length, skipn_length; lia). cbn [fst snd].
  rewrite nth_firstn_lt' by lia. rewrite nth_skipn'. split; reflexivity.
Qed.

(* ---------- entries of the per-row maps ---------- *)
Lemma get_map (F : list Z -> list Z) rows i j : (i < length rows)%nat -> get (map F rows) i j = nth j (F (nth i rows [])) 0.
Proof.
  intros Hi. unfold get. rewrite nth_indep with (d' := F []) by (rewrite map_length; lia). rewrite (map_nth F). reflexivity.
Qed.

Lemma rect_map (F : list Z -> list Z) h w rows : rect h w rows -> (forall r, length r = w -> length (F r) = w) -> rect h w (map F rows).
Proof.
  intros [L A] HF. split; [rewrite map_length; exact L|]. rewrite Forall_forall in *. intros r Hr.
  apply in_map_iff in Hr. destruct Hr as [r0 [<- Hr0]]. apply HF. apply A. exact Hr0.
Qed.

Lemma get_haar h n X i j : rect h (2 * n) X -> (i < h)%nat -> (j < 2 * n)%nat ->
  get (map haar_row X) i j = if (j <? n)%nat then get X i (2 * j) + get X i (2 * j + 1)
                             else get X i (2 * (j - n) + 1) - get X i (2 * (j - n)).
Proof.
  intros R Hi Hj. rewrite get_map by (destruct R; auto; lia). apply haar_row_nth; [apply (rect_row h (2 * n) X i R Hi) | exact Hj].
Qed.

Lemma get_ihaar h n X i x : rect h (2 * n) X -> (i < h)%nat -> (x < n)%nat ->
  get (map ihaar_row X) i (2 * x) = (get X i x - get X i (n + x)) / 2 /\
  get (map ihaar_row X) i (2 * x + 1) = (get X i x + get X i (n + x)) / 2.
Proof.
  intros R Hi Hx. rewrite !get_map by (destruct R; auto; lia). apply ihaar_row_nth; [apply (rect_row h (2 * n) X i R Hi) | exact Hx].
Qed.

Ltac Zify.zify_post_hook ::= Z.div_mod_to_equations.

Section TwoD.
  Variables m n : nat.
  Let h := (2 * m)%nat.
  Let w := (2 * n)%nat.
  Variable f : list (list Z).
  Hypothesis Rf : rect h w f.

  Let A := map haar_row f.
  Let B := transpose w A.
  Let C := map haar_row B.
  Let H := transpose h C.

  Lemma RA : rect h w A. Proof. apply rect_map; [exact Rf|]. intros r Hr. apply (haar_row_length r n Hr). Qed.
  Lemma RB : rect w h B. Proof. apply transpose_rect. apply RA. Qed.
  Lemma RC : rect w h C. Proof. apply rect_map; [exact RB|]. intros r Hr. apply (haar_row_length r m Hr). Qed.
  Lemma RH : rect h w H. Proof. apply transpose_rect. apply RC. Qed.

  Lemma H_is_haar2d : H = haar2d w h f. Proof. reflexivity. Qed.

  (* the four quadrants of haar(f) *)
  Lemma H_entries y x : (y < m)%nat -> (x < n)%nat ->
    let f00 := get f (2 * y) (2 * x) in let f01 := get f (2 * y) (2 * x + 1) in
    let f10 := get f (2 * y + 1) (2 * x) in let f11 := get f (2 * y + 1) (2 * x + 1) in
    get H y x = (f00 + f01) + (f10 + f11) /\
    get H y (n + x) = (f01 - f00) + (f11 - f10) /\
    get H (m + y) x = (f10 + f11) - (f00 + f01) /\
    get H (m + y) (n + x) = (f11 - f10) - (f01 - f00).
  Proof.
    intros Hy Hx. cbv zeta.
    assert (GH : forall i j, (i < h)%nat -> (j < w)%nat -> get H i j = get C j i).
    { intros i j Hi Hj. unfold H. apply (get_transpose w h C i j); [apply RC | exact Hi | exact Hj]. }
    assert (GB : forall j i, (i < h)%nat -> (j < w)%nat -> get B j i = get A i j).
    { intros j i Hi Hj. unfold B. apply (get_transpose h w A j i); [apply RA | exact Hj | exact Hi]. }
    assert (GC : forall j i, (j < w)%nat -> (i < h)%nat ->
              get C j i = if (i <? m)%nat then get B j (2 * i) + get B j (2 * i + 1)
                          else get B j (2 * (i - m) + 1) - get B j (2 * (i - m))).
    { intros j i Hj Hi. unfold C. apply (get_haar w m B j i RB Hj Hi). }
    assert (GA : forall i j, (i < h)%nat -> (j < w)%nat ->
              get A i j = if (j <? n)%nat then get f i (2 * j) + get f i (2 * j + 1)
                          else get f i (2 * (j - n) + 1) - get f i (2 * (j - n))).
    { intros i j Hi Hj. unfold A. apply (get_haar h n f i j Rf Hi Hj). }
    unfold h, w in *.
    assert (T1 : (x <? n)%nat = true) by (apply Nat.ltb_lt; lia).
    assert (T2 : (n + x <? n)%nat = false) by (apply Nat.ltb_ge; lia).
    assert (T3 : (y <? m)%nat = true) by (apply Nat.ltb_lt; lia).
    assert (T4 : (m + y <? m)%nat = false) by (apply Nat.ltb_ge; lia).
    assert (E1 : (n + x - n = x)%nat) by lia. assert (E2 : (m + y - m = y)%nat) by lia.
    repeat split.
    - rewrite GH, GC, T3, !GB, !GA, T1 by lia. ring.
    - rewrite GH, GC, T3, !GB, !GA, T2, E1 by lia. ring.
    - rewrite GH, GC, T4, E2, !GB, !GA, T1 by lia. ring.
    - rewrite GH, GC, T4, E2, !GB, !GA, T2, E1 by lia. ring.
  Qed.

  Let A' := map ihaar_row H.
  Let B' := transpose w A'.
  Let C' := map ihaar_row B'.
  Let R := transpose h C'.

  Lemma RA' : rect h w A'. Proof. apply rect_map; [exact RH|]. intros r Hr. apply (ihaar_row_length r n Hr). Qed.
  Lemma RB' : rect w h B'. Proof. apply transpose_rect. apply RA'. Qed.
  Lemma RC' : rect w h C'. Proof. apply rect_map; [exact RB'|]. intros r Hr. apply (ihaar_row_length r m Hr). Qed.
  Lemma RR : rect h w R. Proof. apply transpose_rect. apply RC'. Qed.

  Theorem ihaar2d_haar2d : ihaar2d w h (haar2d w h f) = f.
  Proof.
    change (ihaar2d w h (haar2d w h f)) with R.
    apply (rect_ext h w); [apply RR | exact Rf |]. intros i j Hi Hj.
    assert (GR : forall i j, (i < h)%nat -> (j < w)%nat -> get R i j = get C' j i).
    { intros i0 j0 Hi0 Hj0. unfold R. apply (get_transpose w h C' i0 j0); [apply RC' | exact Hi0 | exact Hj0]. }
    assert (GB : forall j i, (i < h)%nat -> (j < w)%nat -> get B' j i = get A' i j).
    { intros j0 i0 Hi0 Hj0. unfold B'. apply (get_transpose h w A' j0 i0); [apply RA' | exact Hj0 | exact Hi0]. }
    unfold h, w in *.
    assert (Dy : exists y, (y < m)%nat /\ (i = 2 * y \/ i = 2 * y + 1)%nat).
    { exists (i / 2)%nat. pose proof (Nat.div_mod_eq i 2). pose proof (Nat.mod_upper_bound i 2 ltac:(lia)). lia. }
    assert (Dx : exists x, (x < n)%nat /\ (j = 2 * x \/ j = 2 * x + 1)%nat).
    { exists (j / 2)%nat. pose proof (Nat.div_mod_eq j 2). pose proof (Nat.mod_upper_bound j 2 ltac:(lia)). lia. }
    destruct Dy as [y [Hy Ey]]. destruct Dx as [x [Hx Ex]].
    destruct (H_entries y x Hy Hx) as (H00 & H01 & H10 & H11). cbv zeta in *.
    rewrite GR by lia.
    destruct (get_ihaar (2 * n) m B' j y RB' ltac:(lia) Hy) as [Ce Co].
    destruct (get_ihaar (2 * m) n H y x RH ltac:(lia) Hx) as [A0e A0o].
    destruct (get_ihaar (2 * m) n H (m + y) x RH ltac:(lia) Hx) as [A1e A1o].
    fold A' in A0e, A0o, A1e, A1o. fold C' in Ce, Co.
    rewrite !GB in Ce, Co by lia.
    rewrite H00, H01 in A0e, A0o. rewrite H10, H11 in A1e, A1o.
    destruct Ey as [-> | ->]; destruct Ex as [-> | ->].
    - rewrite Ce, A0e, A1e. lia.
    - rewrite Ce, A0o, A1o. lia.
    - rewrite Co, A0e, A1e. lia.
    - rewrite Co, A0o, A1o. lia.
  Qed.
End TwoD.

Example haar2d_example :
  haar2d 2 2 [[1; 2]; [3; 5]] = [[11; 3]; [5; 1]] /\ ihaar2d 2 2 [[11; 3]; [5; 1]] = [[1; 2]; [3; 5]].
Proof. vm_compute. split; reflexivity. Qed.

(* ---------- energy of the 2-D transform: each pass doubles the sum of squares, so haar multiplies it by 4 (and the
   energy-preserving variant, which halves the coefficients, conserves it) ---------- *)
Definition sumsq2 (rows : list (list Z)) : Z := sumZ (map sumsq rows).

Lemma sumZ_app' a b : sumZ (a ++ b) = sumZ a + sumZ b.
Proof. induction a as [|x a IH]; [reflexivity|]. cbn [app sumZ fold_right] in *. unfold sumZ in *. lia. Qed.

Lemma sumsq2_transpose w : forall rows, Forall (fun r => length r = w) rows -> sumsq2 (transpose w rows) = sumsq2 rows.
Proof.
  induction w as [|w IH]; intros rows F.
  - cbn [transpose]. unfold sumsq2. cbn [map]. induction F as [|r rows Hr F IHF]; [reflexivity|].
    cbn [map]. destruct r; [|discriminate]. unfold sumZ in *. cbn [fold_right]. unfold sumsq at 1. cbn. exact IHF.
  - cbn [transpose]. unfold sumsq2 in *. cbn [map].
    assert (F' : Forall (fun r => length r = w) (map (@tl Z) rows)).
    { clear IH. induction F as [|r rows Hr F IHF]; cbn [map]; constructor; auto. destruct r; [discriminate|]. simpl in *. lia. }
    unfold sumZ at 1. cbn [fold_right]. fold (sumZ (map sumsq (transpose w (map (@tl Z) rows)))).
    rewrite (IH _ F'). clear IH F'.
    induction F as [|r rows Hr F IHF]; [reflexivity|].
    destruct r as [|x r]; [discriminate|]. cbn [map hd tl]. rewrite sumsq_cons.
    unfold sumZ in *. cbn [fold_right]. rewrite sumsq_cons. lia.
Qed.

Lemma sumsq2_map_haar h n rows : rect h (2 * n) rows -> sumsq2 (map haar_row rows) = 2 * sumsq2 rows.
Proof.
  intros [_ F]. unfold sumsq2. induction F as [|r rows Hr F IH]; [reflexivity|]. cbn [map].
  unfold sumZ in *. cbn [fold_right]. rewrite (haar_row_energy r n Hr). lia.
Qed.

Theorem haar2d_energy m n f : rect (2 * m) (2 * n) f -> sumsq2 (haar2d (2 * n) (2 * m) f) = 4 * sumsq2 f.
Proof.
  intros Rf. unfold haar2d.
  pose proof (RA m n f Rf) as R1. pose proof (RB m n f Rf) as R2. pose proof (RC m n f Rf) as R3.
  rewrite sumsq2_transpose by (apply (proj2 R3)).
  rewrite (sumsq2_map_haar (2 * n) m) by exact R2.
  rewrite sumsq2_transpose by (apply (proj2 R1)).
  rewrite (sumsq2_map_haar (2 * m) n) by exact Rf. lia.
Qed.
