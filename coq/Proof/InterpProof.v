(* C18: order-1 interpolation is linear interpolation of the two neighbours (identity at integer coordinates),
   B-spline weights of order 1 form a partition of unity, zoom maps corners to corners. *)
Require Import QArith Qabs Qround Lqa.
Require Import MV.Base.Prelude MV.Base.QHelp MV.Gen.Scalar_gen MV.Model.Interp.
Open Scope Q_scope.

Lemma qltb_t a b : a < b -> qltb a b = true. Proof. apply qltb_spec. Qed.
Lemma qltb_f a b : b <= a -> qltb a b = false. Proof. apply qltb_false. Qed.

Lemma floor_frac x : let k := Qfloor x in 0 <= x - inject_Z k /\ x - inject_Z k < 1.
Proof.
  cbv zeta. pose proof (Qfloor_le x). pose proof (Qlt_floor x).
  rewrite inject_Z_plus in H0. change (inject_Z 1) with 1 in H0. lra.
Qed.

(* in-range coordinates are left alone by the border map *)
Lemma map_coordinate_inside mode len x : 0 <= x -> x <= inject_Z (len - 1) -> map_coordinate mode len x = Some x.
Proof.
  intros H0 H1. unfold map_coordinate, zq. rewrite (qltb_f x 0) by exact H0. rewrite (qltb_f (inject_Z (len - 1)) x) by exact H1. reflexivity.
Qed.

(* order 1: weights (1 - t, t) with t the fractional part *)
Lemma weights_order1 x : let t := x - inject_Z (Qfloor x) in
  exists w0 w1, spline_weights 1 x = [w0; w1] /\ w0 == 1 - t /\ w1 == t.
Proof.
  cbv zeta. destruct (floor_frac x) as [F0 F1]. cbv zeta in F0, F1.
  unfold spline_weights, spline_start. cbn [Z.odd Z.quot Z.to_nat Z.add Pos.to_nat Pos.iter_op Nat.add Zseq map Z.eqb].
  change (Z.quot 1 2) with 0%Z. rewrite Z.sub_0_r.
  assert (E : Qfloor (x + 0) = Qfloor x) by (apply Qfloor_comp; ring). rewrite E.
  eexists. eexists. split; [reflexivity|]. unfold zq. change (inject_Z (0 + 1)) with 1. change (inject_Z 0) with 0.
  set (k := inject_Z (Qfloor x)) in *. unfold bspline. cbn [Z.eqb].
  split.
  - assert (A : Qabs (k - x + 0) == x - k) by (rewrite Qabs_neg by lra; ring).
    rewrite (qltb_f 1 (Qabs (k - x + 0))) by (apply Qabs_Qle_condition; split; lra).
    unfold Qminus. apply Qplus_comp; [reflexivity|]. apply Qopp_comp. exact A.
  - assert (A : Qabs (k - x + 1) == 1 - (x - k)) by (rewrite Qabs_pos by lra; ring).
    rewrite (qltb_f 1 (Qabs (k - x + 1))) by (apply Qabs_Qle_condition; split; lra).
    transitivity (1 - (1 - (x - k))); [unfold Qminus at 1 3; apply Qplus_comp; [reflexivity|apply Qopp_comp; exact A]|ring].
Qed.

Theorem order1_partition_of_unity x : qsum (spline_weights 1 x) == 1.
Proof. destruct (weights_order1 x) as (w0 & w1 & E & A & B). rewrite E. cbn [qsum fold_right]. rewrite A, B. ring. Qed.

(* order 1 at an in-range coordinate: linear interpolation between floor(x) and floor(x)+1 (mirrored at the far edge,
   where its weight is 0) *)
Theorem order1_is_linear_interpolation mode dat x : 0 <= x -> x <= inject_Z (Zlen dat - 1) ->
  let k := Qfloor x in let t := x - inject_Z k in
  interp1 1 mode dat x == (1 - t) * nthZ 0 dat (edge_index (Zlen dat) k) + t * nthZ 0 dat (edge_index (Zlen dat) (k + 1)).
Proof.
  intros H0 H1. cbv zeta. unfold interp1. rewrite map_coordinate_inside by assumption.
  destruct (weights_order1 x) as (w0 & w1 & E & A & B). rewrite E.
  unfold spline_start. cbn [Z.odd]. change (Z.quot 1 2) with 0%Z. rewrite Z.sub_0_r.
  assert (Ef : Qfloor (x + 0) = Qfloor x) by (apply Qfloor_comp; ring). rewrite Ef.
  cbn [Z.to_nat Z.add Pos.to_nat Pos.iter_op Nat.add Zseq combine map qsum fold_right fst snd].
  change (Z.to_nat (1 + 1)) with 2%nat. cbn [Zseq combine map qsum fold_right fst snd].
  rewrite Z.add_0_r. rewrite A, B. change (0 + 1)%Z with 1%Z. ring.
Qed.

(* at integer coordinates inside the array: the sample itself -- a zero shift or unit zoom returns the input, an
   integer shift is an exact translation *)
Theorem order1_at_integer_is_sample mode dat k : (0 <= k < Zlen dat)%Z ->
  interp1 1 mode dat (inject_Z k) == nthZ 0 dat k.
Proof.
  intros Hk.
  assert (H0 : 0 <= inject_Z k) by (change 0 with (inject_Z 0); rewrite <- Zle_Qle; lia).
  assert (H1 : inject_Z k <= inject_Z (Zlen dat - 1)) by (rewrite <- Zle_Qle; lia).
  rewrite (order1_is_linear_interpolation mode dat (inject_Z k) H0 H1). cbv zeta. rewrite Qfloor_Z.
  assert (E : edge_index (Zlen dat) k = k).
  { unfold edge_index. destruct (Zlen dat <=? 1)%Z eqn:L; [lia|]. destruct (k <? 0)%Z eqn:A; [lia|]. destruct (k >=? Zlen dat)%Z eqn:B; [lia|reflexivity]. }
  rewrite E. ring.
Qed.

(* zoom maps corner samples to corner samples *)
Theorem zoom_maps_corners n_in n_out : (1 < n_out)%Z ->
  inject_Z 0 * zoom_factor n_in n_out == 0 /\ inject_Z (n_out - 1) * zoom_factor n_in n_out == inject_Z (n_in - 1).
Proof.
  intros H. unfold zoom_factor, zq. destruct (n_out =? 1)%Z eqn:E; [lia|]. split; [ring|].
  field. change 0 with (inject_Z 0). rewrite inject_Z_injective. lia.
Qed.

Theorem zoom_shape order mode dat n_out : (0 <= n_out)%Z -> Zlen (zoom1 order mode dat n_out) = n_out.
Proof. intros H. unfold zoom1, Zlen. rewrite map_length, Zseq_length. lia. Qed.
