(* erode model = lattice definition (all dimensions, dtypes, structuring elements). *)
Require Import MV.Base.Prelude MV.Base.CInt MV.Base.Index MV.Base.BorderSpec.
Require Import MV.Gen.Scalar_gen MV.Model.Filter MV.Model.Morph MV.Proof.BorderNearest MV.Proof.ScalarSat.

Definition wf_dt (d : dt) : Prop := match d with DBool => True | DInt t => wf_ity t end.
Definition shape_ok (sh : list Z) : Prop := Forall (fun n => 1 <= n < border_flag_value) sh.
Definition img_ok (d : dt) (f : arr) : Prop :=
  shape_ok (shape f) /\ Forall (d_in_range d) (data f).
(* heights: non-negative (and representable), or the "absent" marker dmin *)
Definition se_ok (d : dt) (bc : arr) : Prop :=
  match d with
  | DBool => True
  | DInt t => Forall (fun h => h = tmin t \/ 0 <= h <= tmax t) (data bc)
  end.

Lemma minl_min_init i x l : minl (Z.min i x) l = Z.min x (minl i l).
Proof. induction l as [|a l IH]; simpl; [lia|]. rewrite IH. lia. Qed.

Lemma fold_left_min {A} (g : A -> Z) l init :
  fold_left (fun v e => Z.min v (g e)) l init = minl init (map g l).
Proof.
  revert init; induction l as [|a l IH]; intros init; simpl; [reflexivity|].
  rewrite IH, minl_min_init. reflexivity.
Qed.

Lemma minl_filter_neutral {A} (g : A -> Z) (P : A -> bool) d l :
  (forall e, In e l -> P e = false -> g e = d) ->
  minl d (map g l) = minl d (map g (filter P l)).
Proof.
  induction l as [|a l IH]; intros H; simpl; [reflexivity|].
  destruct (P a) eqn:E; simpl.
  - rewrite IH; auto. intros; apply H; simpl; auto.
  - rewrite (H a) by (simpl; auto). rewrite IH by (intros; apply H; simpl; auto).
    pose proof (minl_le_d d (map g (filter P l))). lia.
Qed.

Lemma fixpos_nearest sh pos : shape_ok sh ->
  fixpos ExtendNearest sh pos = Some (clampos sh pos).
Proof.
  unfold clampos. intros H; revert pos; induction H as [|n r Hn Hr IH]; intros pos; simpl.
  - destruct pos; reflexivity.
  - destruct pos as [|p q]; [reflexivity|]. simpl.
    rewrite fix_nearest_is_clamp by lia.
    assert (clamp p n <> border_flag_value) by (unfold clamp; lia).
    destruct (clamp p n =? border_flag_value) eqn:E; [lia|].
    now rewrite IH.
Qed.

Lemma getn_clamp f p off : shape_ok (shape f) ->
  getn f p off = aget f (clampos (shape f) (padd p off)).
Proof. intros H. unfold getn, retrieve. now rewrite fixpos_nearest. Qed.

Lemma aget_in_range d f q : (d_in_range d 0) -> Forall (d_in_range d) (data f) -> d_in_range d (aget f q).
Proof.
  intros H0 H. unfold aget, nthZ. destruct (ravel (shape f) q <? 0); [exact H0|].
  destruct (Nat.lt_ge_cases (Z.to_nat (ravel (shape f) q)) (length (data f))) as [L|L].
  - rewrite Forall_forall in H. apply H. now apply nth_In.
  - rewrite nth_overflow by lia. exact H0.
Qed.

Lemma d_in_range_0 d : wf_dt d -> d_in_range d 0.
Proof.
  destruct d as [|t]; unfold d_in_range; simpl; [lia|]. intros W.
  pose proof (tmin_le0 t W). pose proof (tmin_le_tmax' t W).
  unfold wf_ity, tmax in *. destruct (signed t).
  - pose proof (pow2_pos (bits t - 1) ltac:(lia)). lia.
  - pose proof (pow2_pos (bits t) ltac:(lia)). lia.
Qed.

Lemma entries_false bc : entries false bc =
  map (fun k => (psub k (centre (shape bc)), aget bc k)) (all_positions (shape bc)).
Proof.
  unfold entries. simpl. induction (map _ _) as [|a l IH]; simpl; [reflexivity|]. now rewrite IH.
Qed.

Lemma entries_true bc : entries true bc = filter (fun e => negb (snd e =? 0)) (entries false bc).
Proof. rewrite entries_false. reflexivity. Qed.

Lemma entries_values d bc e : se_ok d bc -> In e (entries false bc) ->
  match d with DBool => True | DInt t => snd e = tmin t \/ 0 <= snd e <= tmax t \/ snd e = 0 end.
Proof.
  destruct d as [|t]; [auto|]. simpl. intros H Hin. rewrite entries_false in Hin.
  apply in_map_iff in Hin. destruct Hin as [k [<- _]]. simpl.
  unfold aget, nthZ. destruct (ravel (shape bc) k <? 0); [right; right; reflexivity|].
  destruct (Nat.lt_ge_cases (Z.to_nat (ravel (shape bc) k)) (length (data bc))) as [L|L].
  - rewrite Forall_forall in H. destruct (H _ (nth_In _ 0 L)); auto.
  - rewrite nth_overflow by lia. right; right; reflexivity.
Qed.

(* ---- the C01 erosion theorem: at EVERY pixel, for every dimension/dtype/element ---- *)
Theorem erode_at_spec d f bc p : wf_dt d -> img_ok d f -> se_ok d bc ->
  erode_at d f bc p = erode_spec d f bc p.
Proof.
  intros W [Hs Hv] Hse. unfold erode_at, erode_spec, support.
  rewrite fold_left_min.
  destruct d as [|t].
  - (* boolean: AND over the support *)
    cbn [is_bool dmax dmin]. rewrite entries_true. unfold in_se. cbn [dmin].
    apply f_equal. apply map_ext_in. intros e He. apply filter_In in He. destruct He as [_ Hnz].
    cbn [esub height is_bool]. rewrite getn_clamp by auto.
    set (a := aget f _).
    assert (Ha : d_in_range DBool a) by (apply aget_in_range; [apply d_in_range_0; exact I | auto]).
    unfold d_in_range in Ha. cbn [dmin dmax] in Ha.
    unfold erode_sub_bool, satd. cbn [dmin dmax]. rewrite Hnz. rewrite andb_true_r.
    destruct (a =? 0) eqn:E; simpl; lia.
  - cbn [is_bool dmax]. cbn [wf_dt] in W.
    rewrite (minl_filter_neutral _ (fun e => in_se (DInt t) (snd e))).
    + apply f_equal. apply map_ext_in. intros e He. apply filter_In in He. destruct He as [Hin Hmem].
      cbn [esub height is_bool]. rewrite getn_clamp by auto.
      set (a := aget f _).
      assert (Ha : d_in_range (DInt t) a) by (apply aget_in_range; [apply d_in_range_0; exact W | auto]).
      unfold in_se in Hmem. cbn [dmin] in Hmem.
      pose proof (entries_values (DInt t) bc e Hse Hin) as Hh. cbn in Hh.
      assert (Hne : snd e <> tmin t) by lia.
      assert (Hr : 0 <= snd e <= tmax t).
      { destruct Hh as [?|[?|Z0]]; [lia|lia|]. rewrite Z0.
        pose proof (d_in_range_0 (DInt t) W) as R0. unfold d_in_range in R0. cbn in R0. lia. }
      unfold satd. cbn [dmin dmax]. rewrite erode_sub_sat; auto.
    + intros e Hin Hmem. cbn [esub]. unfold in_se in Hmem. cbn [dmin] in Hmem.
      assert (E : snd e = tmin t) by lia. rewrite E. apply erode_sub_absent.
Qed.

Corollary erode_generic_correct d f bc : wf_dt d -> img_ok d f -> se_ok d bc ->
  erode_generic d f bc = erode_spec_all d f bc.
Proof.
  intros. unfold erode_generic, erode_spec_all. apply map_ext. intros p. now apply erode_at_spec.
Qed.

(* the result never leaves the dtype's range and has one value per pixel *)
Lemma erode_spec_in_range d f bc p : wf_dt d -> d_in_range d (erode_spec d f bc p).
Proof.
  intros W. unfold erode_spec, d_in_range.
  assert (LE : dmin d <= dmax d).
  { destruct d as [|t]; simpl; [lia|]. apply tmin_le_tmax'. exact W. }
  split.
  - apply minl_glb; [lia|]. intros x Hx. apply in_map_iff in Hx. destruct Hx as [e [<- _]]. unfold satd. lia.
  - apply minl_le_d.
Qed.

Example erode_example :
  erode_generic (DInt i8) {| shape := [1;4]; data := [-5; 3; 127; -128] |}
                          {| shape := [1;3]; data := [0; 1; -128] |} = [-6; -5; 3; -128].
Proof. vm_compute. reflexivity. Qed.

(* ---------- dilation: the scatter loop computes, at every output cell, the maximum of all
   contributions aimed at it ---------- *)
Definition max_update (o : list Z) (u : Z * Z) : list Z :=
  if snd u >? nthZ 0 o (fst u) then updZ o (fst u) (snd u) else o.

Lemma max_update_length o u : length (max_update o u) = length o.
Proof.
  unfold max_update, updZ. destruct (snd u >? _); auto. destruct (fst u <? 0); auto. apply upd_length.
Qed.

Lemma nthZ_max_update o u i : 0 <= i < Zlen o -> 0 <= fst u < Zlen o ->
  nthZ 0 (max_update o u) i = if fst u =? i then Z.max (nthZ 0 o i) (snd u) else nthZ 0 o i.
Proof.
  intros Hi Hu. unfold max_update. destruct (snd u >? nthZ 0 o (fst u)) eqn:C.
  - unfold updZ, nthZ. unfold Zlen in *. destruct (fst u <? 0) eqn:E; [lia|]. destruct (i <? 0) eqn:E2; [lia|].
    rewrite nth_upd. destruct (fst u =? i) eqn:E3.
    + apply Z.eqb_eq in E3. rewrite E3 in *. rewrite Nat.eqb_refl.
      destruct (Nat.ltb_spec (Z.to_nat i) (length o)); [|lia].
      unfold nthZ in C. rewrite E2 in C. lia.
    + destruct (Nat.eqb_spec (Z.to_nat (fst u)) (Z.to_nat i)); [lia|reflexivity].
  - destruct (fst u =? i) eqn:E3; [|reflexivity]. apply Z.eqb_eq in E3. rewrite E3 in *. lia.
Qed.

Lemma maxl_max_init i x l : maxl (Z.max i x) l = Z.max x (maxl i l).
Proof. induction l as [|a l IH]; simpl; [lia|]. rewrite IH. lia. Qed.

Lemma apply_updates_char (U : list (Z * Z)) : forall o i,
  0 <= i < Zlen o -> Forall (fun u => 0 <= fst u < Zlen o) U ->
  nthZ 0 (fold_left max_update U o) i =
  maxl (nthZ 0 o i) (map snd (filter (fun u => fst u =? i) U)).
Proof.
  induction U as [|u U IH]; intros o i Hi HU; simpl; [reflexivity|].
  inversion HU as [|? ? Hu HU']; subst.
  assert (L : Zlen (max_update o u) = Zlen o) by (unfold Zlen; now rewrite max_update_length).
  rewrite IH by (rewrite ?L; auto).
  rewrite nthZ_max_update by auto.
  destruct (fst u =? i); simpl; [|reflexivity].
  rewrite maxl_max_init. lia.
Qed.

(* all (target index, value) contributions of the scatter dilation *)
Definition contribs (d : dt) (f bc : arr) (p : list Z) : list (Z * Z) :=
  let v := aget f p in
  if v =? dmin d then []
  else map (fun e => (ravel (shape f) (clampos (shape f) (padd p (fst e))), dadd d v (snd e)))
           (entries (is_bool d) bc).

Lemma dilate_step_contribs d f bc o p : shape_ok (shape f) ->
  dilate_step d f bc o p = fold_left max_update (contribs d f bc p) o.
Proof.
  intros Hs. unfold dilate_step, contribs. destruct (aget f p =? dmin d); [reflexivity|].
  generalize (entries (is_bool d) bc) as l. intros l; revert o.
  induction l as [|e l IH]; intros o; simpl; [reflexivity|].
  rewrite <- IH. f_equal. unfold dilate_entry, max_update. rewrite fixpos_nearest by auto. reflexivity.
Qed.

Lemma fold_left_flat_map {A B C} (g : C -> B -> C) (h : A -> list B) l o :
  fold_left (fun o a => fold_left g (h a) o) l o = fold_left g (flat_map h l) o.
Proof. revert o; induction l as [|a l IH]; intros o; simpl; [reflexivity|]. now rewrite fold_left_app, IH. Qed.

Lemma dilate_generic_contribs d f bc : shape_ok (shape f) ->
  dilate_generic d f bc =
  fold_left max_update (flat_map (contribs d f bc) (all_positions (shape f)))
            (repeat (dmin d) (Z.to_nat (size (shape f)))).
Proof.
  intros Hs. unfold dilate_generic. rewrite <- fold_left_flat_map.
  generalize (repeat (dmin d) (Z.to_nat (size (shape f)))) as o.
  induction (all_positions (shape f)) as [|p l IH]; intros o; simpl; [reflexivity|].
  rewrite dilate_step_contribs by auto. apply IH.
Qed.

Lemma shape_ok_pos sh : shape_ok sh -> pos_shape sh.
Proof. unfold shape_ok, pos_shape. apply Forall_impl. intros; lia. Qed.

Lemma clampos_in_shape sh pos : shape_ok sh -> length pos = length sh -> in_shape sh (clampos sh pos).
Proof.
  unfold clampos. intros H; revert pos; induction H as [|n r Hn Hr IH]; intros pos L; destruct pos as [|p q]; simpl in *; try lia; auto.
  split; [unfold clamp; lia|]. apply IH. lia.
Qed.

Lemma nth_repeat_lt' (x : Z) n k : (k < n)%nat -> nth k (repeat x n) 0 = x.
Proof. revert k; induction n as [|n IH]; intros k Hk; [lia|]. destruct k; simpl; [reflexivity|]. apply IH. lia. Qed.

Lemma nthZ_repeat (x : Z) n i : 0 <= i < Z.of_nat n -> nthZ 0 (repeat x n) i = x.
Proof.
  intros Hi. unfold nthZ. destruct (i <? 0) eqn:E; [lia|]. apply nth_repeat_lt'. lia.
Qed.

(* every length of position coming from all_positions matches the shape *)
Lemma unravel_length sh i : length (unravel sh i) = length sh.
Proof. revert i; induction sh; intros; simpl; auto. Qed.

Lemma padd_length p q : length p = length q -> length (padd p q) = length p.
Proof. revert q; induction p as [|a p IH]; destruct q; simpl; intros H; auto; try lia. Qed.

(* scatter characterisation: the value of output cell i is the maximum of the contributions aimed at i *)
Theorem dilate_generic_char d f bc i :
  shape_ok (shape f) -> 0 <= i < size (shape f) ->
  (forall e, In e (entries (is_bool d) bc) -> length (fst e) = length (shape f)) ->
  nthZ 0 (dilate_generic d f bc) i =
  maxl (dmin d) (map snd (filter (fun u => fst u =? i)
                                 (flat_map (contribs d f bc) (all_positions (shape f))))).
Proof.
  intros Hs Hi Hlen. rewrite dilate_generic_contribs by auto.
  assert (P : 0 < size (shape f)) by (apply size_pos, shape_ok_pos; auto).
  rewrite apply_updates_char.
  - rewrite nthZ_repeat by lia. reflexivity.
  - unfold Zlen. rewrite repeat_length. lia.
  - unfold Zlen. rewrite repeat_length. rewrite Z2Nat.id by lia.
    apply Forall_forall. intros u Hu. apply in_flat_map in Hu. destruct Hu as [p [Hp Hu]].
    unfold contribs in Hu. destruct (aget f p =? dmin d); [destruct Hu|].
    apply in_map_iff in Hu. destruct Hu as [e [<- He]]. cbn [fst].
    apply ravel_bound; [apply shape_ok_pos; auto|].
    apply clampos_in_shape; auto.
    unfold all_positions in Hp. apply in_map_iff in Hp. destruct Hp as [k [<- _]].
    rewrite padd_length; rewrite unravel_length; auto. symmetry. now apply Hlen.
Qed.
