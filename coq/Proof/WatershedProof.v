(* C04: the margin shortcut of cwatershed is sound -- the code's flood equals the flood with explicit
   position checks -- and invariants of the flood. *)
Require Import MV.Base.Prelude MV.Base.CInt MV.Base.Index MV.Base.BorderSpec.
Require Import MV.Gen.Scalar_gen MV.Model.Filter MV.Model.Watershed MV.Proof.LabeledProof MV.Proof.LabelProof MV.Proof.ExtremaProof.

(* ---------- margins ---------- *)
Definition inset (m : Z) (sh pos : list Z) : Prop :=
  Forall (fun dp => m <= snd dp /\ m <= fst dp - snd dp - 1) (combine sh pos).

Lemma margin_fold_ge l : forall acc m,
  (m <= fold_left (fun m0 dp => let '(d, p) := dp in
                                let m1 := if p <? m0 then p else m0 in
                                let r := d - p - 1 in if r <? m1 then r else m1) l acc
   <-> m <= acc /\ Forall (fun dp => m <= snd dp /\ m <= fst dp - snd dp - 1) l).
Proof.
  induction l as [|[d p] l IH]; intros acc m; cbn [fold_left].
  - split; [intros; split; [auto|constructor]|tauto].
  - rewrite IH. rewrite Forall_cons_iff. cbn [fst snd].
    destruct (p <? acc) eqn:E1; [destruct (d - p - 1 <? p) eqn:E2|destruct (d - p - 1 <? acc) eqn:E2]; split; intros; intuition lia.
Qed.

Lemma margin_of_ge sh pos m : m <= margin_of sh pos <-> m <= big /\ inset m sh pos.
Proof. unfold margin_of, inset. apply margin_fold_ge. Qed.

Lemma inset_in_shape sh : forall pos, length pos = length sh -> (inset 0 sh pos <-> in_shape sh pos).
Proof.
  unfold inset. induction sh as [|d sh IH]; intros pos L; destruct pos as [|p pos]; simpl in L; try discriminate.
  - simpl. split; [auto|constructor].
  - cbn [combine in_shape]. rewrite Forall_cons_iff, IH by lia. cbn [fst snd]. intuition lia.
Qed.

Lemma cheb_fold_ge l : forall acc x, (In x l -> Z.abs x <= fold_left (fun m y => Z.max (Z.abs y) m) l acc)
                                     /\ acc <= fold_left (fun m y => Z.max (Z.abs y) m) l acc.
Proof.
  induction l as [|y l IH]; intros acc x; cbn [fold_left]; [split; [intros []|lia]|].
  destruct (IH (Z.max (Z.abs y) acc) x) as [I1 I2]. split; [|lia].
  intros [->|H]; [lia|auto].
Qed.
Lemma cheb_bound np x : In x np -> Z.abs x <= cheb np.
Proof. unfold cheb. apply cheb_fold_ge. Qed.
Lemma cheb_nonneg np : 0 <= cheb np.
Proof. unfold cheb. apply (cheb_fold_ge np 0 0). Qed.

Lemma inset_shift sh : forall pos np m s, length pos = length sh -> length np = length sh ->
  (forall x, In x np -> Z.abs x <= s) -> inset m sh pos -> inset (m - s) sh (padd pos np).
Proof.
  unfold inset. induction sh as [|d sh IH]; intros pos np m s Lp Ln Hs H;
    destruct pos as [|p pos]; destruct np as [|x np]; simpl in Lp, Ln; try discriminate; [constructor|].
  cbn [padd combine] in *. rewrite Forall_cons_iff in *. cbn [fst snd] in *. destruct H as [[A B] H].
  pose proof (Hs x (or_introl eq_refl)). split; [lia|]. apply IH; auto. intros; apply Hs; simpl; auto.
Qed.

Lemma padd_psub_cancel : forall pos np, length np = length pos -> padd (padd pos np) (map Z.opp np) = pos.
Proof.
  induction pos as [|p pos IH]; intros np L; destruct np as [|x np]; simpl in L; try discriminate; [reflexivity|].
  cbn [padd map]. f_equal; [lia|]. apply IH. lia.
Qed.

(* ---------- ravel is linear ---------- *)
Lemma ravel_padd sh : forall p q, length p = length sh -> length q = length sh ->
  ravel sh (padd p q) = ravel sh p + ravel sh q.
Proof.
  induction sh as [|d sh IH]; intros p q Lp Lq; destruct p as [|a p]; destruct q as [|b q]; simpl in Lp, Lq; try discriminate; [reflexivity|].
  cbn [padd ravel]. rewrite IH by lia. lia.
Qed.

Lemma unravel_length sh i : length (unravel sh i) = length sh.
Proof. revert i; induction sh as [|d sh IH]; intros i; simpl; [reflexivity|]. now rewrite IH. Qed.

Lemma inset_mono sh pos m m' : m' <= m -> inset m sh pos -> inset m' sh pos.
Proof. unfold inset. intros L H. eapply Forall_impl; [|exact H]. intros; simpl in *; lia. Qed.

Lemma big_pos : 0 < big. Proof. reflexivity. Qed.

Lemma margin_of_le_big sh pos : margin_of sh pos <= big.
Proof. apply (proj1 (margin_of_ge sh pos (margin_of sh pos))). lia. Qed.

Lemma margin_nonneg_iff sh pos : length pos = length sh -> (0 <= margin_of sh pos <-> in_shape sh pos).
Proof.
  intros L. rewrite margin_of_ge, <- inset_in_shape by auto. pose proof big_pos. intuition lia.
Qed.

Definition truem (sh : list Z) (pos : Z) : Z := margin_of sh (unravel sh pos).

(* a neighbour entry is well formed w.r.t. the image shape *)
Definition nb_ok (sh : list Z) (n : nb) : Prop :=
  length (nb_dpos n) = length sh /\ nb_delta n = ravel sh (nb_dpos n) /\ nb_step n = cheb (nb_dpos n).

Lemma resolve_sound sh pos m m0 n : pos_shape sh -> 0 <= pos < size sh -> m <= truem sh pos -> nb_ok sh n ->
  let r := resolve_margin sh pos m n in
  let r' := resolve_checked sh pos m0 n in
  m <= snd r /\ snd r <= truem sh pos /\ snd r' = m0 /\
  match fst r, fst r' with
  | Some (np, nm), Some (np', _) => np = np' /\ 0 <= np < size sh /\ nm <= truem sh np
  | None, None => True
  | _, _ => False
  end.
Proof.
  intros Ps Hp Hm (Ld & Hd & Hst). unfold truem in *.
  pose proof (unravel_in_shape sh pos Ps Hp) as IP.
  pose proof (ravel_unravel sh pos Ps Hp) as RP.
  set (P := unravel sh pos) in *.
  assert (LP : length P = length sh) by (apply in_shape_length; auto).
  set (long := padd P (nb_dpos n)).
  assert (LL : length long = length sh) by (unfold long; rewrite padd_length; lia).
  assert (RL : ravel sh long = pos + nb_delta n) by (unfold long; rewrite ravel_padd, Hd by auto; lia).
  pose proof (margin_of_le_big sh P) as MB. pose proof (cheb_nonneg (nb_dpos n)) as CN. pose proof big_pos as BP.
  assert (Hinset : inset m sh P) by (apply (margin_of_ge sh P m); lia).
  unfold resolve_margin, resolve_checked. fold P. fold long. rewrite Hst. cbv zeta.
  destruct (m - cheb (nb_dpos n) <? 0) eqn:C1.
  - destruct (margin_of sh long <? 0) eqn:C2.
    + cbn [fst snd]. assert (in_shapeb sh long = false) as ->.
      { destruct (in_shapeb sh long) eqn:B; [|reflexivity]. apply in_shapeb_iff in B.
        apply margin_nonneg_iff in B; auto. lia. }
      cbn [fst snd]. repeat split; lia.
    + assert (IL : in_shape sh long) by (apply margin_nonneg_iff; auto; lia).
      assert (in_shapeb sh long = true) as -> by (now apply in_shapeb_iff).
      cbn [fst snd]. pose proof (ravel_bound sh long Ps IL).
      assert (Back : margin_of sh long - cheb (nb_dpos n) <= margin_of sh P).
      { apply margin_of_ge. split; [pose proof (margin_of_le_big sh long); lia|].
        rewrite <- (padd_psub_cancel P (nb_dpos n)) by lia. fold long.
        apply inset_shift; auto; [rewrite map_length; lia| |apply (margin_of_ge sh long); lia].
        intros x Hx. apply in_map_iff in Hx. destruct Hx as [y [<- Hy]]. rewrite Z.abs_opp. now apply cheb_bound. }
      repeat split; try lia.
      * destruct (margin_of sh long - cheb (nb_dpos n) >? m) eqn:C3; lia.
      * destruct (margin_of sh long - cheb (nb_dpos n) >? m) eqn:C3; lia.
      * rewrite <- RL. rewrite unravel_ravel by auto. lia.
  - assert (IS : inset (m - cheb (nb_dpos n)) sh long).
    { unfold long. apply inset_shift; auto. intros; now apply cheb_bound. }
    assert (IL : in_shape sh long) by (apply inset_in_shape; auto; eapply inset_mono; [|exact IS]; lia).
    assert (in_shapeb sh long = true) as -> by (now apply in_shapeb_iff).
    cbn [fst snd]. pose proof (ravel_bound sh long Ps IL).
    repeat split; try lia.
    rewrite <- RL. rewrite unravel_ravel by auto. apply margin_of_ge. split; [lia|exact IS].
Qed.

(* ---------- simulation between the two floods ---------- *)
Section Sim.
  Variable sh : list Z.
  Hypothesis Ps : pos_shape sh.
  Variables (surf : list Z) (wl : bool).

  Definition qrel (e e' : qe) : Prop :=
    q_cost e = q_cost e' /\ q_idx e = q_idx e' /\ q_pos e = q_pos e' /\
    0 <= q_pos e < size sh /\ q_margin e <= truem sh (q_pos e).

  Definition rel (st st' : wstate) : Prop :=
    w_res st = w_res st' /\ w_lines st = w_lines st' /\ w_status st = w_status st' /\ w_idx st = w_idx st' /\
    Forall2 qrel (w_queue st) (w_queue st').

  Lemma visit_rel from st st' np nm nm' : rel st st' -> 0 <= np < size sh -> nm <= truem sh np ->
    rel (ws_visit surf wl from st (np, nm)) (ws_visit surf wl from st' (np, nm')).
  Proof.
    intros (R1 & R2 & R3 & R4 & R5) Hnp Hnm. unfold ws_visit. rewrite <- R1, <- R2, <- R3, <- R4.
    destruct (nthZ 0 (w_status st) np =? WHITE).
    - unfold rel; cbn. repeat split; auto. constructor; [|exact R5]. unfold qrel; cbn. repeat split; auto; lia.
    - destruct (nthZ 0 (w_status st) np =? GREY); [|unfold rel; repeat split; auto].
      destruct (wl && negb (nthZ 0 (w_res st) from =? nthZ 0 (w_res st) np)); unfold rel; cbn; repeat split; auto.
  Qed.

  Definition step_m (pos : Z) (sm : wstate * Z) (n : nb) : wstate * Z :=
    let '(tgt, m') := resolve_margin sh pos (snd sm) n in
    match tgt with Some t => (ws_visit surf wl pos (fst sm) t, m') | None => (fst sm, m') end.
  Definition step_c (pos : Z) (sm : wstate * Z) (n : nb) : wstate * Z :=
    let '(tgt, m') := resolve_checked sh pos (snd sm) n in
    match tgt with Some t => (ws_visit surf wl pos (fst sm) t, m') | None => (fst sm, m') end.

  Lemma step_rel pos sm sm' n : 0 <= pos < size sh -> nb_ok sh n ->
    rel (fst sm) (fst sm') -> snd sm <= truem sh pos ->
    rel (fst (step_m pos sm n)) (fst (step_c pos sm' n)) /\ snd (step_m pos sm n) <= truem sh pos.
  Proof.
    intros Hp Hn R M. unfold step_m, step_c.
    pose proof (resolve_sound sh pos (snd sm) (snd sm') n Ps Hp M Hn) as S. cbv zeta in S.
    destruct (resolve_margin sh pos (snd sm) n) as [t m1]. destruct (resolve_checked sh pos (snd sm') n) as [t' m1'].
    cbn [fst snd] in S. destruct S as (S1 & S2 & S3 & S4).
    destruct t as [[np nm]|]; destruct t' as [[np' nm']|]; try contradiction.
    - destruct S4 as (-> & Hr & Hm'). cbn [fst snd]. split; [apply visit_rel; auto|lia].
    - cbn [fst snd]. split; auto.
  Qed.

  (* a not-all-zero offset whose flat delta is 0 always points outside the image *)
  Lemma padd_fix_zero : forall P np, length np = length P -> padd P np = P -> forallb (Z.eqb 0) np = true.
  Proof.
    induction P as [|p P IH]; intros np L E; destruct np as [|x np]; simpl in L; try discriminate; [reflexivity|].
    cbn [padd] in E. injection E as E1 E2. cbn [forallb]. rewrite (IH np) by (auto; lia).
    assert (x = 0) by lia. subst. reflexivity.
  Qed.

  Lemma checked_zero_delta pos m n : 0 <= pos < size sh -> nb_ok sh n -> nb_delta n = 0 ->
    forallb (Z.eqb 0) (nb_dpos n) = false -> resolve_checked sh pos m n = (None, m).
  Proof.
    intros Hp (Ld & Hd & _) Z0 NZ. unfold resolve_checked.
    pose proof (unravel_in_shape sh pos Ps Hp) as IP. set (P := unravel sh pos) in *.
    assert (LP : length P = length sh) by (apply in_shape_length; auto).
    destruct (in_shapeb sh (padd P (nb_dpos n))) eqn:B; [|reflexivity].
    apply in_shapeb_iff in B. exfalso.
    assert (padd P (nb_dpos n) = P).
    { apply (ravel_inj sh); auto. rewrite ravel_padd by lia. lia. }
    apply padd_fix_zero in H; [congruence|lia].
  Qed.

  Lemma ravel_zeros : forall s np, forallb (Z.eqb 0) np = true -> ravel s np = 0.
  Proof.
    induction s as [|d s IH]; intros np H; destruct np as [|x np]; try reflexivity.
    cbn [forallb] in H. apply andb_true_iff in H. destruct H as [H1 H2]. cbn [ravel]. rewrite IH by auto. lia.
  Qed.

  Variable bc : arr.
  Hypothesis Pb : pos_shape (shape bc).
  Hypothesis Lb : length (shape bc) = length sh.

  Definition f_mod (k : list Z) : list nb :=
    if aget bc k =? 0 then []
    else let np := psub k (centre (shape bc)) in
         let delta := ravel sh np in
         if delta =? 0 then [] else [{| nb_delta := delta; nb_step := cheb np; nb_dpos := np |}].
  Definition f_all (k : list Z) : list nb :=
    if aget bc k =? 0 then []
    else let np := psub k (centre (shape bc)) in
         if forallb (Z.eqb 0) np then [] else [{| nb_delta := ravel sh np; nb_step := cheb np; nb_dpos := np |}].

  Lemma f_cases k : in_shape (shape bc) k ->
    (f_mod k = [] /\ f_all k = []) \/
    (exists n, nb_ok sh n /\ f_mod k = [n] /\ f_all k = [n]) \/
    (exists n, nb_ok sh n /\ nb_delta n = 0 /\ forallb (Z.eqb 0) (nb_dpos n) = false /\ f_mod k = [] /\ f_all k = [n]).
  Proof.
    intros Hk.
    assert (Ln : length (psub k (centre (shape bc))) = length sh).
    { rewrite psub_length; rewrite ?centre_length; rewrite (in_shape_length _ _ Hk); auto. }
    unfold f_mod, f_all. destruct (aget bc k =? 0); [left; auto|]. cbv zeta.
    set (np := psub k (centre (shape bc))) in *.
    set (n := {| nb_delta := ravel sh np; nb_step := cheb np; nb_dpos := np |}).
    assert (Hn : nb_ok sh n) by (unfold nb_ok, n; cbn; auto).
    destruct (forallb (Z.eqb 0) np) eqn:Zr.
    - left. rewrite (ravel_zeros sh np Zr). auto.
    - destruct (ravel sh np =? 0) eqn:D0.
      + right; right. exists n. repeat split; auto. unfold n; cbn. lia.
      + right; left. exists n. auto.
  Qed.

  Lemma folds_rel pos : 0 <= pos < size sh -> forall l, (forall k, In k l -> in_shape (shape bc) k) ->
    forall sm sm', rel (fst sm) (fst sm') -> snd sm <= truem sh pos ->
    rel (fst (fold_left (step_m pos) (flat_map f_mod l) sm)) (fst (fold_left (step_c pos) (flat_map f_all l) sm')).
  Proof.
    intros Hp. induction l as [|k l IH]; intros Hl sm sm' R M; [exact R|].
    cbn [flat_map]. rewrite !fold_left_app.
    assert (Hk : in_shape (shape bc) k) by (apply Hl; simpl; auto).
    assert (Hl' : forall k0, In k0 l -> in_shape (shape bc) k0) by (intros; apply Hl; simpl; auto).
    destruct (f_cases k Hk) as [[E1 E2]|[(n & Hn & E1 & E2)|(n & Hn & Z0 & NZ & E1 & E2)]]; rewrite E1, E2; cbn [fold_left].
    - apply IH; auto.
    - destruct (step_rel pos sm sm' n Hp Hn R M) as [R' M']. apply IH; auto.
    - unfold step_c at 2. rewrite (checked_zero_delta pos (snd sm') n) by auto.
      cbn [fst snd]. apply IH; auto.
  Qed.
End Sim.

Lemma q_remove_rel sh i q q' : Forall2 (qrel sh) q q' -> Forall2 (qrel sh) (q_remove i q) (q_remove i q').
Proof.
  induction 1 as [|e e' q q' He Hq IH]; [constructor|]. cbn [q_remove].
  destruct He as (H1 & H2 & H3 & H4). rewrite <- H2. destruct (q_idx e =? i); [exact Hq|].
  constructor; [unfold qrel; auto|exact IH].
Qed.

Lemma q_top_rel sh q q' : Forall2 (qrel sh) q q' ->
  match q_top q, q_top q' with
  | Some e, Some e' => qrel sh e e'
  | None, None => True
  | _, _ => False
  end.
Proof.
  intros H. destruct H as [|e e' q q' He Hq]; [exact I|]. cbn [q_top].
  revert e e' He. induction Hq as [|x x' q q' Hx Hq IH]; intros e e' He; [exact He|].
  cbn [fold_left]. apply IH.
  assert (qe_lt e x = qe_lt e' x') as <-.
  { unfold qe_lt. destruct He as (A & B & _), Hx as (C & D & _). now rewrite A, B, C, D. }
  destruct (qe_lt e x); auto.
Qed.

Section Main.
  Variables (surf markers bc : arr) (wl : bool) (res0 lines0 : list Z).
  Let sh := shape surf.
  Hypothesis Ps : pos_shape sh.
  Hypothesis Pb : pos_shape (shape bc).
  Hypothesis Lb : length (shape bc) = length sh.
  Hypothesis Lm : Zlen (data markers) = size sh.

  Lemma pop_rel next next' st st' : rel sh st st' -> qrel sh next next' ->
    rel sh (ws_pop resolve_margin sh (ws_neighbours sh bc) (data surf) wl next st)
           (ws_pop resolve_checked sh (ws_neighbours_all sh bc) (data surf) wl next' st').
  Proof.
    intros (R1 & R2 & R3 & R4 & R5) (N1 & N2 & N3 & N4 & N5). unfold ws_pop. rewrite <- N3, <- N2.
    change (ws_neighbours sh bc) with (flat_map (f_mod sh bc) (all_positions (shape bc))).
    change (ws_neighbours_all sh bc) with (flat_map (f_all sh bc) (all_positions (shape bc))).
    apply (folds_rel sh Ps (data surf) wl bc Lb (q_pos next) N4 (all_positions (shape bc))).
    - intros k Hk. now apply in_all_positions in Hk.
    - cbn [fst]. unfold rel; cbn. rewrite R1, R2, R3, R4. repeat split; auto. now apply q_remove_rel.
    - cbn [snd]. exact N5.
  Qed.

  Lemma loop_rel fuel : forall st st', rel sh st st' ->
    rel sh (ws_loop resolve_margin fuel sh (ws_neighbours sh bc) (data surf) wl st)
           (ws_loop resolve_checked fuel sh (ws_neighbours_all sh bc) (data surf) wl st').
  Proof.
    induction fuel as [|k IH]; intros st st' R; [exact R|]. cbn [ws_loop].
    pose proof (q_top_rel sh _ _ (proj2 (proj2 (proj2 (proj2 R))))) as T.
    destruct (q_top (w_queue st)) as [e|]; destruct (q_top (w_queue st')) as [e'|]; try contradiction; [|exact R].
    apply IH. now apply pop_rel.
  Qed.

  Lemma init_rel : let st := ws_init sh (data surf) (data markers) res0 lines0 in rel sh st st.
  Proof.
    cbv zeta. unfold ws_init.
    set (f := fun st im => let '(i, m) := im in if m =? 0 then st else _).
    assert (G : forall l st, (forall i m, In (i, m) l -> 0 <= i < size sh) -> Forall2 (qrel sh) (w_queue st) (w_queue st) ->
                Forall2 (qrel sh) (w_queue (fold_left f l st)) (w_queue (fold_left f l st))).
    { induction l as [|[i m] l IH]; intros st Hl Hq; [exact Hq|]. cbn [fold_left]. apply IH; [intros; eapply Hl; simpl; eauto|].
      unfold f. destruct (m =? 0); [exact Hq|]. cbn [w_queue]. constructor; [|exact Hq].
      unfold qrel, truem; cbn. pose proof (Hl i m (or_introl eq_refl)). repeat split; auto; lia. }
    unfold rel. repeat split; auto. apply G; [|constructor].
    intros i m Hin. apply in_combine_l in Hin. apply in_Zseq in Hin. unfold Zlen in Lm. lia.
  Qed.

  (* the code's flood (flat deltas + margin lower bounds) computes exactly the flood with explicit bounds checks *)
  Theorem ws_margin_shortcut_sound :
    ws_run resolve_margin ws_neighbours surf markers bc wl res0 lines0 =
    ws_run resolve_checked ws_neighbours_all surf markers bc wl res0 lines0.
  Proof.
    unfold ws_run. fold sh.
    pose proof (loop_rel (S (length (data surf))) _ _ init_rel) as (R1 & R2 & _).
    now rewrite R1, R2.
  Qed.
End Main.

Theorem cwatershed_is_flood surf markers bc wl : pos_shape (shape surf) -> pos_shape (shape bc) ->
  length (shape bc) = length (shape surf) -> Zlen (data markers) = size (shape surf) ->
  cwatershed surf markers bc wl = flood_spec surf markers bc wl.
Proof. intros. unfold cwatershed, flood_spec. now apply ws_margin_shortcut_sound. Qed.

(* ---------- invariants of the flood (stated for the flood with explicit checks; they transfer to the code
   through cwatershed_is_flood) ---------- *)
Section Inv.
  Variables (surf markers bc : arr) (wl : bool).
  Let sh := shape surf.
  Let N := size sh.
  Let M := data markers.
  Hypothesis Ps : pos_shape sh.
  Hypothesis Lm : Zlen M = N.

  (* p is linked to a marker carrying its own label by neighbourhood steps through labelled pixels with that label *)
  Inductive linked (S res : list Z) : Z -> Prop :=
  | lk_marker : forall p, 0 <= p < N -> nthZ 0 M p <> 0 -> nthZ 0 res p = nthZ 0 M p -> nthZ 0 S p <> WHITE -> linked S res p
  | lk_step : forall q p n, linked S res q -> In n (ws_neighbours_all sh bc) ->
      in_shape sh (padd (unravel sh q) (nb_dpos n)) -> p = ravel sh (padd (unravel sh q) (nb_dpos n)) ->
      nthZ 0 S p <> WHITE -> nthZ 0 res p = nthZ 0 res q -> linked S res p.

  Lemma linked_nonwhite S res p : linked S res p -> nthZ 0 S p <> WHITE.
  Proof. destruct 1; auto. Qed.

  Lemma linked_mono S res S' res' p : linked S res p ->
    (forall q, nthZ 0 S q <> WHITE -> nthZ 0 S' q <> WHITE /\ nthZ 0 res' q = nthZ 0 res q) -> linked S' res' p.
  Proof.
    intros L H. induction L as [p Hp Hm He Hs|q p n Lq IH Hn Hi Hpq Hs He].
    - destruct (H p Hs) as [A B]. apply lk_marker; auto. congruence.
    - destruct (H p Hs) as [A B]. destruct (H q (linked_nonwhite _ _ _ Lq)) as [_ C].
      eapply lk_step; eauto. congruence.
  Qed.

  Record J (st : wstate) : Prop := {
    j_lr : Zlen (w_res st) = N;
    j_ls : Zlen (w_status st) = N;
    j_white : forall p, 0 <= p < N -> nthZ 0 (w_status st) p = WHITE -> nthZ 0 (w_res st) p = 0;
    j_marker : forall p, 0 <= p < N -> nthZ 0 M p <> 0 -> nthZ 0 (w_status st) p <> WHITE /\ nthZ 0 (w_res st) p = nthZ 0 M p;
    j_linked : forall p, 0 <= p < N -> nthZ 0 (w_status st) p <> WHITE -> linked (w_status st) (w_res st) p;
    j_queue : Forall (fun e => 0 <= q_pos e < N /\ nthZ 0 (w_status st) (q_pos e) <> WHITE) (w_queue st)
  }.

  Lemma J_visit st from n nm : J st -> 0 <= from < N -> nthZ 0 (w_status st) from <> WHITE ->
    In n (ws_neighbours_all sh bc) -> in_shape sh (padd (unravel sh from) (nb_dpos n)) ->
    J (ws_visit (data surf) wl from st (ravel sh (padd (unravel sh from) (nb_dpos n)), nm)).
  Proof.
    intros [LR LS JW JM JL JQ] Hf Sf Hn Hin.
    pose proof (ravel_bound sh _ Ps Hin) as Rb. fold N in Rb.
    set (np := ravel sh (padd (unravel sh from) (nb_dpos n))) in *. unfold ws_visit.
    destruct (nthZ 0 (w_status st) np =? WHITE) eqn:W.
    - assert (Wn : nthZ 0 (w_status st) np = WHITE) by lia.
      assert (KEEP : forall q, nthZ 0 (w_status st) q <> WHITE ->
                nthZ 0 (updZ (w_status st) np GREY) q <> WHITE /\
                nthZ 0 (updZ (w_res st) np (nthZ 0 (w_res st) from)) q = nthZ 0 (w_res st) q).
      { intros q Sq. assert (np <> q) by congruence.
        destruct (Z_lt_ge_dec q 0) as [Lq|Lq].
        - unfold nthZ in *. destruct (q <? 0) eqn:T; [|lia]. unfold WHITE in *. lia.
        - rewrite !nthZ_updZ by lia. destruct (np =? q) eqn:E; [lia|]. auto. }
      constructor; cbn [w_res w_status w_queue w_lines w_idx].
      + now rewrite updZ_Zlen.
      + now rewrite updZ_Zlen.
      + intros p Hp. rewrite !nthZ_updZ by lia. destruct (np =? p) eqn:E; [unfold GREY, WHITE; discriminate|]. apply JW; auto.
      + intros p Hp Mp. destruct (JM p Hp Mp) as [A B]. destruct (KEEP p A) as [C D]. split; [exact C|congruence].
      + intros p Hp Sp. rewrite nthZ_updZ in Sp by lia. destruct (np =? p) eqn:E.
        * assert (np = p) by lia. subst p.
          eapply (lk_step _ _ from np n); eauto.
          -- eapply linked_mono; [apply JL; auto|exact KEEP].
          -- rewrite nthZ_updZ by lia. rewrite Z.eqb_refl. unfold GREY, WHITE. discriminate.
          -- rewrite !nthZ_updZ by lia. rewrite Z.eqb_refl.
             destruct (np =? from) eqn:E2; [assert (np = from) by lia; congruence|reflexivity].
        * eapply linked_mono; [apply JL; auto|exact KEEP].
      + constructor.
        * cbn [q_pos]. split; [exact Rb|]. rewrite nthZ_updZ by lia. rewrite Z.eqb_refl. unfold GREY, WHITE. discriminate.
        * eapply Forall_impl; [|exact JQ]. intros e [A B]. split; [exact A|]. apply KEEP. exact B.
    - destruct (nthZ 0 (w_status st) np =? GREY); [|constructor; auto].
      destruct (wl && negb (nthZ 0 (w_res st) from =? nthZ 0 (w_res st) np)); constructor; auto.
  Qed.

  Lemma J_black st p : J st -> 0 <= p < N -> nthZ 0 (w_status st) p <> WHITE -> forall i,
    J {| w_res := w_res st; w_lines := w_lines st; w_status := updZ (w_status st) p BLACK;
         w_queue := q_remove i (w_queue st); w_idx := w_idx st |}.
  Proof.
    intros [LR LS JW JM JL JQ] Hp Sp i.
    assert (KEEP : forall q, nthZ 0 (w_status st) q <> WHITE ->
              nthZ 0 (updZ (w_status st) p BLACK) q <> WHITE /\ nthZ 0 (w_res st) q = nthZ 0 (w_res st) q).
    { intros q Sq. split; [|reflexivity]. destruct (Z_lt_ge_dec q 0) as [Lq|Lq].
      - unfold nthZ in *. destruct (q <? 0) eqn:T; [|lia]. exact Sq.
      - rewrite nthZ_updZ by lia. destruct (p =? q); [unfold BLACK, WHITE; discriminate|exact Sq]. }
    constructor; cbn [w_res w_status w_queue w_lines w_idx]; auto.
    - now rewrite updZ_Zlen.
    - intros q Hq. rewrite nthZ_updZ by lia. destruct (p =? q) eqn:E; [unfold BLACK, WHITE; discriminate|]. apply JW; auto.
    - intros q Hq Mq. destruct (JM q Hq Mq) as [A B]. split; [apply KEEP; exact A|exact B].
    - intros q Hq Sq. rewrite nthZ_updZ in Sq by lia.
      assert (nthZ 0 (w_status st) q <> WHITE).
      { destruct (p =? q) eqn:E; [assert (p = q) by lia; congruence|exact Sq]. }
      eapply linked_mono; [apply JL; auto|exact KEEP].
    - assert (G : forall l, Forall (fun e => 0 <= q_pos e < N /\ nthZ 0 (w_status st) (q_pos e) <> WHITE) l ->
                  Forall (fun e => 0 <= q_pos e < N /\ nthZ 0 (updZ (w_status st) p BLACK) (q_pos e) <> WHITE) (q_remove i l)).
      { induction 1 as [|e l [A B] Hl IH]; [constructor|]. cbn [q_remove].
        assert (Forall (fun e0 => 0 <= q_pos e0 < N /\ nthZ 0 (updZ (w_status st) p BLACK) (q_pos e0) <> WHITE) l).
        { eapply Forall_impl; [|exact Hl]. intros e0 [A0 B0]. split; [exact A0|apply KEEP; exact B0]. }
        destruct (q_idx e =? i); [exact H|]. constructor; [split; [exact A|apply KEEP; exact B]|exact IH]. }
      apply G. exact JQ.
  Qed.

  Lemma q_top_in q e : q_top q = Some e -> In e q.
  Proof.
    destruct q as [|x q]; [discriminate|]. cbn [q_top]. intros H. apply some_inj in H. subst e.
    revert x. induction q as [|y q IH]; intros x; cbn [fold_left]; [left; reflexivity|].
    destruct (IH (if qe_lt x y then y else x)) as [E|I]; [|right; right; exact I].
    destruct (qe_lt x y); [right; left; exact E|left; exact E].
  Qed.

  Lemma J_pop st next : J st -> In next (w_queue st) ->
    J (ws_pop resolve_checked sh (ws_neighbours_all sh bc) (data surf) wl next st).
  Proof.
    intros HJ Hin. pose proof (j_queue _ HJ) as JQ. rewrite Forall_forall in JQ. destruct (JQ next Hin) as [Hp Sp].
    unfold ws_pop.
    set (st1 := {| w_res := w_res st; w_lines := w_lines st; w_status := updZ (w_status st) (q_pos next) BLACK;
                   w_queue := q_remove (q_idx next) (w_queue st); w_idx := w_idx st |}).
    assert (J1 : J st1) by (apply J_black; auto).
    assert (S1 : nthZ 0 (w_status st1) (q_pos next) <> WHITE).
    { unfold st1; cbn [w_status]. rewrite nthZ_updZ by (try rewrite (j_ls _ HJ); lia). rewrite Z.eqb_refl. unfold BLACK, WHITE; discriminate. }
    assert (G : forall l sm, (forall n, In n l -> In n (ws_neighbours_all sh bc)) -> J (fst sm) ->
              nthZ 0 (w_status (fst sm)) (q_pos next) <> WHITE ->
              J (fst (fold_left (fun sm n => let '(tgt, m') := resolve_checked sh (q_pos next) (snd sm) n in
                                  match tgt with Some t => (ws_visit (data surf) wl (q_pos next) (fst sm) t, m')
                                               | None => (fst sm, m') end) l sm))).
    { induction l as [|n l IH]; intros sm Hl Js Ss; [exact Js|]. cbn [fold_left].
      destruct (in_shapeb sh (padd (unravel sh (q_pos next)) (nb_dpos n))) eqn:B.
      - assert (RC : resolve_checked sh (q_pos next) (snd sm) n =
                     (Some (ravel sh (padd (unravel sh (q_pos next)) (nb_dpos n)), 0), snd sm))
          by (unfold resolve_checked; now rewrite B).
        rewrite RC. apply in_shapeb_iff in B. apply IH; [intros; apply Hl; simpl; auto| |]; cbn [fst].
        + apply J_visit; auto. apply Hl; simpl; auto.
        + assert (JV := J_visit (fst sm) (q_pos next) n 0 Js Hp Ss (Hl n (or_introl eq_refl)) B).
          (* status of a non-white pixel stays non-white *)
          unfold ws_visit. destruct (nthZ 0 (w_status (fst sm)) _ =? WHITE) eqn:W.
          * cbn [w_status]. set (np := ravel sh _) in *.
            destruct (Z.eq_dec np (q_pos next)) as [E|E]; [rewrite E in W; lia|].
            pose proof (ravel_bound sh _ Ps B) as RB; fold N in RB; fold np in RB.
            rewrite nthZ_updZ by (try rewrite (j_ls _ Js); lia).
            destruct (np =? q_pos next) eqn:E2; [lia|exact Ss].
          * destruct (nthZ 0 (w_status (fst sm)) _ =? GREY); [|exact Ss].
            destruct (wl && _); exact Ss.
      - assert (RC : resolve_checked sh (q_pos next) (snd sm) n = (None, snd sm))
          by (unfold resolve_checked; now rewrite B).
        rewrite RC. apply IH; [intros; apply Hl; simpl; auto|exact Js|exact Ss]. }
    apply G; auto.
  Qed.

  Lemma J_loop fuel : forall st, J st -> J (ws_loop resolve_checked fuel sh (ws_neighbours_all sh bc) (data surf) wl st).
  Proof.
    induction fuel as [|k IH]; intros st HJ; [exact HJ|]. cbn [ws_loop].
    destruct (q_top (w_queue st)) as [e|] eqn:T; [|exact HJ]. apply IH. apply J_pop; auto. now apply q_top_in.
  Qed.
End Inv.

(* ---------- the initial state and the user-facing statements ---------- *)
Section Final.
  Variables (surf markers bc : arr) (wl : bool).
  Let sh := shape surf.
  Let N := size sh.
  Let M := data markers.
  Hypothesis Ps : pos_shape sh.
  Hypothesis Lm : Zlen M = N.
  Hypothesis Ls : Zlen (data surf) = N.

  Definition init_step (st : wstate) (im : Z * Z) : wstate :=
    let '(i, m) := im in
    if m =? 0 then st
    else {| w_res := updZ (w_res st) i m; w_lines := w_lines st; w_status := updZ (w_status st) i GREY;
            w_queue := {| q_cost := nthZ 0 (data surf) i; q_idx := w_idx st; q_pos := i;
                          q_margin := margin_of sh (unravel sh i) |} :: w_queue st;
            w_idx := w_idx st + 1 |}.

  Lemma init_fold l : forall a st, 0 <= a -> a + Zlen l = N -> Zlen (w_res st) = N -> Zlen (w_status st) = N ->
    let st' := fold_left init_step (combine (Zseq a (length l)) l) st in
    Zlen (w_res st') = N /\ Zlen (w_status st') = N /\
    (forall p, 0 <= p < a -> nthZ 0 (w_res st') p = nthZ 0 (w_res st) p /\ nthZ 0 (w_status st') p = nthZ 0 (w_status st) p) /\
    (forall p, a <= p < N -> nthZ 0 (w_res st') p = (if nthZ 0 l (p - a) =? 0 then nthZ 0 (w_res st) p else nthZ 0 l (p - a)) /\
                             nthZ 0 (w_status st') p = (if nthZ 0 l (p - a) =? 0 then nthZ 0 (w_status st) p else GREY)) /\
    (Forall (fun e => 0 <= q_pos e < N /\ nthZ 0 M (q_pos e) <> 0) (w_queue st) ->
     (forall p, a <= p < N -> nthZ 0 l (p - a) = nthZ 0 M p) ->
     Forall (fun e => 0 <= q_pos e < N /\ nthZ 0 M (q_pos e) <> 0) (w_queue st')).
  Proof.
    induction l as [|m l IH]; intros a st Ha Hal Hr Hs; cbn [length Zseq combine fold_left].
    - unfold Zlen in Hal; simpl in Hal. repeat split; auto; intros; lia.
    - assert (Hal' : (a + 1) + Zlen l = N) by (unfold Zlen in *; simpl length in Hal; lia).
      assert (Ra : 0 <= a < N) by (unfold Zlen in *; simpl length in Hal; lia).
      set (st1 := init_step st (a, m)).
      assert (R1 : Zlen (w_res st1) = N) by (unfold st1, init_step; destruct (m =? 0); cbn; rewrite ?updZ_Zlen; auto).
      assert (S1 : Zlen (w_status st1) = N) by (unfold st1, init_step; destruct (m =? 0); cbn; rewrite ?updZ_Zlen; auto).
      destruct (IH (a + 1) st1 ltac:(lia) Hal' R1 S1) as (A & B & C & D & E). cbv zeta in *.
      assert (ST1 : forall p, 0 <= p < N -> nthZ 0 (w_res st1) p = (if a =? p then (if m =? 0 then nthZ 0 (w_res st) p else m) else nthZ 0 (w_res st) p)
                                       /\ nthZ 0 (w_status st1) p = (if a =? p then (if m =? 0 then nthZ 0 (w_status st) p else GREY) else nthZ 0 (w_status st) p)).
      { intros p Hp. unfold st1, init_step. destruct (m =? 0); cbn [w_res w_status].
        - destruct (a =? p); auto.
        - rewrite !nthZ_updZ by lia. destruct (a =? p); auto. }
      split; [exact A|]. split; [exact B|]. split; [|split].
      + intros p Hp. destruct (C p ltac:(lia)) as [C1 C2]. destruct (ST1 p ltac:(lia)) as [T1 T2].
        rewrite C1, C2, T1, T2. destruct (a =? p) eqn:X; [lia|auto].
      + intros p Hp. destruct (Z.eq_dec p a) as [->|Ne].
        * destruct (C a ltac:(lia)) as [C1 C2]. destruct (ST1 a Ra) as [T1 T2].
          rewrite C1, C2, T1, T2, Z.eqb_refl, Z.sub_diag. change (nthZ 0 (m :: l) 0) with m. auto.
        * destruct (D p ltac:(lia)) as [D1 D2]. destruct (ST1 p ltac:(lia)) as [T1 T2].
          assert (X : nthZ 0 (m :: l) (p - a) = nthZ 0 l (p - (a + 1))).
          { unfold nthZ. destruct (p - a <? 0) eqn:Y; [lia|]. destruct (p - (a + 1) <? 0) eqn:Y2; [lia|].
            replace (Z.to_nat (p - a)) with (S (Z.to_nat (p - (a + 1)))) by lia. reflexivity. }
          rewrite D1, D2, T1, T2, X. destruct (a =? p) eqn:Y; [lia|auto].
      + intros Q HM. apply E.
        * unfold st1, init_step. destruct (m =? 0) eqn:Zm; [exact Q|]. cbn [w_queue]. constructor; [|exact Q].
          cbn [q_pos]. split; [exact Ra|]. rewrite <- (HM a ltac:(lia)), Z.sub_diag. change (nthZ 0 (m :: l) 0) with m. lia.
        * intros p Hp. rewrite <- (HM p ltac:(lia)).
          unfold nthZ. destruct (p - (a + 1) <? 0) eqn:Y2; [lia|]. destruct (p - a <? 0) eqn:Y; [lia|].
          replace (Z.to_nat (p - a)) with (S (Z.to_nat (p - (a + 1)))) by lia. reflexivity.
  Qed.

  Let zeros := repeat 0 (length (data surf)).
  Let st0 := ws_init sh (data surf) M zeros zeros.

  Lemma zeros_len : Zlen zeros = N.
  Proof. unfold zeros, Zlen in *. rewrite repeat_length. exact Ls. Qed.

  Lemma J_init : J surf markers bc st0.
  Proof.
    unfold st0, ws_init.
    change (fun st im => let '(i, m) := im in if m =? 0 then st else _) with init_step.
    set (s := {| w_res := zeros; w_lines := zeros; w_status := repeat WHITE (length M); w_queue := []; w_idx := 0 |}).
    assert (LW : Zlen (repeat WHITE (length M)) = N) by (unfold Zlen in *; rewrite repeat_length; exact Lm).
    destruct (init_fold M 0 s ltac:(lia) ltac:(lia) zeros_len LW) as (A & B & _ & D & E). cbv zeta in *.
    assert (Z0 : forall p, 0 <= p < N -> nthZ 0 zeros p = 0).
    { intros p Hp. unfold zeros. apply nthZ_repeat. unfold Zlen in Ls. lia. }
    assert (W0 : forall p, 0 <= p < N -> nthZ 0 (repeat WHITE (length M)) p = WHITE).
    { intros p Hp. apply nthZ_repeat. unfold Zlen in Lm. lia. }
    assert (CH : forall p, 0 <= p < N ->
       nthZ 0 (w_res (fold_left init_step (combine (Zseq 0 (length M)) M) s)) p = nthZ 0 M p /\
       nthZ 0 (w_status (fold_left init_step (combine (Zseq 0 (length M)) M) s)) p = (if nthZ 0 M p =? 0 then WHITE else GREY)).
    { intros p Hp. destruct (D p ltac:(lia)) as [D1 D2]. rewrite Z.sub_0_r in *. rewrite D1, D2. cbn [w_res w_status s].
      rewrite Z0, W0 by auto. destruct (nthZ 0 M p =? 0) eqn:Y; split; auto; lia. }
    constructor.
    - exact A.
    - exact B.
    - intros p Hp Wp. destruct (CH p Hp) as [C1 C2]. rewrite C2 in Wp. destruct (nthZ 0 M p =? 0) eqn:Y; [lia|discriminate].
    - intros p Hp Mp. destruct (CH p Hp) as [C1 C2]. rewrite C1, C2. destruct (nthZ 0 M p =? 0) eqn:Y; [apply Z.eqb_eq in Y; contradiction|]. split; [discriminate|reflexivity].
    - intros p Hp Sp. destruct (CH p Hp) as [C1 C2]. rewrite C2 in Sp. destruct (nthZ 0 M p =? 0) eqn:Y; [contradiction|].
      apply lk_marker; [exact Hp|apply Z.eqb_neq; exact Y|exact C1|rewrite C2; rewrite ?Y; discriminate].
    - assert (Q : Forall (fun e => 0 <= q_pos e < N /\ nthZ 0 M (q_pos e) <> 0)
                         (w_queue (fold_left init_step (combine (Zseq 0 (length M)) M) s))).
      { apply E; [constructor|]. intros p Hp. now rewrite Z.sub_0_r. }
      eapply Forall_impl; [|exact Q]. intros e [R1 R2]. split; [exact R1|].
      destruct (CH (q_pos e) R1) as [_ C2]. rewrite C2. destruct (nthZ 0 M (q_pos e) =? 0) eqn:Y; [apply Z.eqb_eq in Y; contradiction|discriminate].
  Qed.

  (* chain predicate on the final label image only *)
  Inductive linked_res (res : list Z) : Z -> Prop :=
  | lr_marker : forall p, 0 <= p < N -> nthZ 0 M p <> 0 -> nthZ 0 res p = nthZ 0 M p -> linked_res res p
  | lr_step : forall q p n, linked_res res q -> In n (ws_neighbours_all sh bc) ->
      in_shape sh (padd (unravel sh q) (nb_dpos n)) -> p = ravel sh (padd (unravel sh q) (nb_dpos n)) ->
      nthZ 0 res p = nthZ 0 res q -> linked_res res p.

  Lemma linked_forget S res p : linked surf markers bc S res p -> linked_res res p.
  Proof. induction 1; [apply lr_marker; auto|eapply lr_step; eauto]. Qed.

  Theorem flood_markers_and_regions :
    let res := fst (flood_spec surf markers bc wl) in
    (forall p, 0 <= p < N -> nthZ 0 M p <> 0 -> nthZ 0 res p = nthZ 0 M p) /\
    (forall p, 0 <= p < N -> nthZ 0 res p = 0 \/ linked_res res p).
  Proof.
    cbv zeta. unfold flood_spec, ws_run. cbn [fst]. fold sh. fold M. fold zeros. fold st0.
    pose proof (J_loop surf markers bc wl Ps (S (length (data surf))) st0 J_init) as HJ.
    set (stf := ws_loop _ _ _ _ _ _ _) in *. split.
    - intros p Hp Mp. apply (j_marker _ _ _ _ HJ p Hp Mp).
    - intros p Hp. destruct (Z.eq_dec (nthZ 0 (w_status stf) p) WHITE) as [W|W].
      + left. apply (j_white _ _ _ _ HJ p Hp W).
      + right. eapply linked_forget. apply (j_linked _ _ _ _ HJ p Hp W).
  Qed.
End Final.
