(* The first-appearance numbering depends only on the equality pattern of the list (and on where the background is). *)
Require Import MV.Base.Prelude MV.Base.Renumber.

Section Pattern.
  Variable rel : Z -> Z -> Prop.
  Hypothesis rel_fun : forall a b b', rel a b -> rel a b' -> b = b'.
  Hypothesis rel_inj : forall a a' b, rel a b -> rel a' b -> a = a'.

  Definition seen_ok (s1 s2 : list (Z * Z)) : Prop := forall a b, rel a b -> assoc a s1 = assoc b s2.

  Lemma renum_go_pattern : forall l1 l2 s1 s2 next, Forall2 rel l1 l2 -> seen_ok s1 s2 ->
    renum_go s1 next l1 = renum_go s2 next l2.
  Proof.
    induction l1 as [|v1 l1 IH]; intros l2 s1 s2 next F S; inversion F as [|? v2 ? l2' R F']; subst; [reflexivity|].
    cbn [renum_go]. rewrite (S v1 v2 R). destruct (assoc v2 s2) as [n|] eqn:E.
    - rewrite (IH l2' s1 s2 next F' S). reflexivity.
    - rewrite (IH l2' ((v1, next) :: s1) ((v2, next) :: s2) (next + 1) F'); [reflexivity|].
      intros a b Rab. cbn [assoc].
      destruct (Z.eqb_spec v1 a) as [A|A]; destruct (Z.eqb_spec v2 b) as [B|B].
      + reflexivity.
      + exfalso. subst a. apply B. apply (rel_fun v1 v2 b R Rab).
      + exfalso. subst b. apply A. apply (rel_inj v1 a v2 R Rab).
      + apply S. exact Rab.
  Qed.
End Pattern.

Lemma Forall2_impl' {A B} (P Q : A -> B -> Prop) l1 l2 : (forall a b, P a b -> Q a b) -> Forall2 P l1 l2 -> Forall2 Q l1 l2.
Proof. intros H F. induction F; constructor; auto. Qed.

(* two lists with the same equality pattern and the same background positions get the same numbering *)
Theorem renumber_pattern bg1 bg2 l1 l2 : length l1 = length l2 ->
  (forall i j, (i < length l1)%nat -> (j < length l1)%nat -> (nth i l1 0 = nth j l1 0 <-> nth i l2 0 = nth j l2 0)) ->
  (forall i, (i < length l1)%nat -> (nth i l1 0 = bg1 <-> nth i l2 0 = bg2)) ->
  renumber bg1 l1 = renumber bg2 l2.
Proof.
  intros Hl Pat Bg. unfold renumber.
  set (rel := fun a b => (a = bg1 /\ b = bg2) \/ exists i, (i < length l1)%nat /\ nth i l1 0 = a /\ nth i l2 0 = b).
  apply (renum_go_pattern rel).
  - intros a b b' [[A B]|(i & Hi & A & B)] [[A' B']|(j & Hj & A' & B')].
    + congruence.
    + rewrite B. rewrite <- B'. symmetry. apply Bg; [exact Hj | congruence].
    + rewrite B'. rewrite <- B. apply Bg; [exact Hi | congruence].
    + rewrite <- B, <- B'. apply Pat; [exact Hi | exact Hj | congruence].
  - intros a a' b [[A B]|(i & Hi & A & B)] [[A' B']|(j & Hj & A' & B')].
    + congruence.
    + rewrite A. rewrite <- A'. symmetry. apply Bg; [exact Hj | congruence].
    + rewrite A'. rewrite <- A. apply Bg; [exact Hi | congruence].
    + rewrite <- A, <- A'. apply Pat; [exact Hi | exact Hj | congruence].
  - (* pointwise related *)
    clear Pat Bg. revert l2 Hl rel. induction l1 as [|x l1 IH]; intros [|y l2] Hl rel; try discriminate; [constructor|].
    constructor.
    + right. exists 0%nat. cbn. split; [lia | split; reflexivity].
    + injection Hl as Hl. specialize (IH l2 Hl).
      eapply Forall2_impl'; [|exact IH]. intros a b [[A B]|(i & Hi & A & B)]; [left; split; assumption|].
      right. exists (S i). cbn. split; [lia | split; assumption].
  - intros a b [[A B]|(i & Hi & A & B)]; subst; cbn [assoc].
    + rewrite !Z.eqb_refl. reflexivity.
    + destruct (Z.eqb_spec bg1 (nth i l1 0)) as [E1|E1]; destruct (Z.eqb_spec bg2 (nth i l2 0)) as [E2|E2]; try reflexivity; exfalso.
      * apply E2. symmetry. apply Bg; [exact Hi | symmetry; exact E1].
      * apply E1. symmetry. apply Bg; [exact Hi | symmetry; exact E2].
Qed.
