(* The offsets table in N dimensions: at every pixel of the filtering loop the iterator's table pointer selects a row
   that equals, entry by entry, the row computed directly at that pixel. *)
Require Import MV.Base.Prelude MV.Base.CInt MV.Base.Index MV.Base.BorderSpec MV.Gen.Scalar_gen MV.Gen.Offsets_gen
  MV.Model.OffsetsTable MV.Proof.Border MV.Proof.OffsetsAxis.

(* ---------- mixed-radix digits ---------- *)
Definition dims_ok (dims : list Z) : Prop := Forall (fun d => 1 <= d) dims.

Lemma prodZ_pos dims : dims_ok dims -> 1 <= prodZ dims.
Proof. induction 1; simpl; nia. Qed.

Fixpoint digits_in (digits dims : list Z) : Prop :=
  match digits, dims with
  | [], [] => True
  | p :: ps, d :: ds => 0 <= p < d /\ digits_in ps ds
  | _, _ => False
  end.

Lemma le_digits_in dims : dims_ok dims -> forall i, 0 <= i < prodZ dims -> digits_in (le_digits dims i) dims.
Proof.
  induction 1 as [|d ds Hd Hds IH]; intros i Hi; simpl in *; [exact I|].
  pose proof (prodZ_pos ds Hds). split; [apply Z.mod_pos_bound; lia|].
  apply IH. split; [apply Z.div_pos; lia|]. apply Z.div_lt_upper_bound; lia.
Qed.

Lemma le_value_digits dims : dims_ok dims -> forall i, 0 <= i < prodZ dims -> le_value (le_digits dims i) dims = i.
Proof.
  induction 1 as [|d ds Hd Hds IH]; intros i Hi; simpl in *; [lia|].
  pose proof (prodZ_pos ds Hds). rewrite IH.
  - pose proof (Z.div_mod i d). lia.
  - split; [apply Z.div_pos; lia|]. apply Z.div_lt_upper_bound; lia.
Qed.

Lemma le_value_range digits dims : dims_ok dims -> digits_in digits dims -> 0 <= le_value digits dims < prodZ dims.
Proof.
  intros H; revert digits; induction H as [|d ds Hd Hds IH]; intros [|p ps]; simpl; try tauto; try lia.
  intros [Hp Hps]. specialize (IH ps Hps). nia.
Qed.

Lemma le_digits_value dims : dims_ok dims -> forall digits, digits_in digits dims ->
  le_digits dims (le_value digits dims) = digits.
Proof.
  induction 1 as [|d ds Hd Hds IH]; intros [|p ps]; simpl; try tauto.
  intros [Hp Hps]. f_equal.
  - symmetry. apply Z.mod_unique with (q := le_value ps ds); lia.
  - rewrite <- (Z.div_unique (p + d * le_value ps ds) d (le_value ps ds) p) by lia. apply IH; auto.
Qed.

Lemma le_digits_0 dims : dims_ok dims -> le_digits dims 0 = map (fun _ => 0) dims.
Proof. induction 1 as [|d ds Hd Hds IH]; simpl; [reflexivity|]. rewrite Z.mod_0_l, Z.div_0_l by lia. now rewrite IH. Qed.

(* the odometer advances the digits of i to those of i+1 *)
Lemma odo_next_digits dims : dims_ok dims -> forall i, 0 <= i -> i + 1 < prodZ dims ->
  odo_next dims (le_digits dims i) = le_digits dims (i + 1).
Proof.
  induction 1 as [|d ds Hd Hds IH]; intros i Hi Hn; simpl in *; [reflexivity|].
  pose proof (prodZ_pos ds Hds) as P.
  pose proof (Z.mod_pos_bound i d ltac:(lia)) as M.
  destruct (i mod d <? d - 1) eqn:E.
  - pose proof (Z.div_mod i d ltac:(lia)).
    assert ((i + 1) mod d = i mod d + 1 /\ (i + 1) / d = i / d) as [-> ->]; [|reflexivity].
    split; [symmetry; apply Z.mod_unique with (q := i / d); lia | symmetry; apply Z.div_unique with (r := i mod d + 1); lia].
  - pose proof (Z.div_mod i d ltac:(lia)).
    assert ((i + 1) mod d = 0 /\ (i + 1) / d = i / d + 1) as [-> ->].
    { split; [symmetry; apply Z.mod_unique with (q := i / d + 1); lia | symmetry; apply Z.div_unique with (r := 0); lia]. }
    f_equal. apply IH.
    + apply Z.div_pos; lia.
    + assert (i / d + 1 <= (prodZ ds) - 1 \/ prodZ ds <= i / d + 1) as [|C] by lia; [lia|]. exfalso. nia.
Qed.

(* ---------- per-axis maps lifted to positions ---------- *)
Fixpoint map2 (f : axis -> Z -> Z) (axes : list axis) (l : list Z) : list Z :=
  match axes, l with x :: axes', p :: l' => f x p :: map2 f axes' l' | _, _ => [] end.

Definition axes_ok (axes : list axis) : Prop := Forall axis_ok axes.

Lemma adims_ok axes : axes_ok axes -> dims_ok (adims axes).
Proof. induction 1 as [|x r [H _] _ IH]; simpl; constructor; auto. Qed.
Lemma fdims_ok axes : axes_ok axes -> dims_ok (fdims axes).
Proof. induction 1 as [|x r [_ [H _]] _ IH]; simpl; constructor; auto. Qed.
Lemma nregs_ok axes : axes_ok axes -> dims_ok (nregs axes).
Proof.
  induction 1 as [|x r [H1 [H2 _]] _ IH]; simpl; constructor; auto. rewrite nreg_eq. lia.
Qed.

Lemma map2_ridx_in axes : axes_ok axes -> forall pos, digits_in pos (adims axes) ->
  digits_in (map2 ridx axes pos) (nregs axes).
Proof.
  induction 1 as [|x r Hx _ IH]; intros [|p ps]; simpl; try tauto.
  intros [Hp Hps]. split; [apply ridx_range; auto | apply IH; auto].
Qed.

(* ---------- the region enumeration ---------- *)
Lemma regions_next_rpos axes : axes_ok axes -> forall idxs, digits_in idxs (nregs axes) ->
  regions_next axes (map2 rpos axes idxs) = map2 rpos axes (odo_next (nregs axes) idxs).
Proof.
  induction 1 as [|x r Hx _ IH]; intros [|i is]; simpl; try tauto.
  intros [Hi His].
  destruct (i <? nreg x - 1) eqn:E.
  - rewrite next_region_rpos by (auto; lia).
    pose proof (rpos_range x (i + 1) Hx ltac:(lia)).
    destruct (rpos x (i + 1) <? alen x) eqn:E2; [reflexivity|lia].
  - assert (i = nreg x - 1) by lia. subst i.
    pose proof (next_region_last x Hx).
    destruct (gen_next_region (rpos x (nreg x - 1)) (forg x) (alen x) (flen x) <? alen x) eqn:E2; [lia|].
    rewrite IH by auto. simpl. now rewrite rpos_0.
Qed.

Lemma map2_rpos_zeros axes : axes_ok axes -> map2 rpos axes (map (fun _ => 0) (nregs axes)) = zeros axes.
Proof. induction 1 as [|x r Hx _ IH]; simpl; [reflexivity|]. rewrite rpos_0 by auto. f_equal. exact IH. Qed.

(* the n-th stored row is computed at the positions of the n-th region *)
Lemma table_rows_nth mode axes fp : axes_ok axes -> forall n k,
  0 <= k -> k + Z.of_nat n <= offsets_size axes -> forall j, (j < n)%nat ->
  nth j (table_rows mode axes fp n (map2 rpos axes (le_digits (nregs axes) k))) []
  = row mode axes fp (map2 rpos axes (le_digits (nregs axes) (k + Z.of_nat j))).
Proof.
  intros Hax. induction n as [|n IH]; intros k Hk Hn j Hj; [lia|].
  cbn [table_rows]. destruct j as [|j].
  - cbn [nth]. now rewrite Z.add_0_r.
  - cbn [nth]. unfold offsets_size in Hn.
    rewrite regions_next_rpos; [| assumption | apply le_digits_in; [apply nregs_ok; assumption | lia]].
    rewrite odo_next_digits; [| apply nregs_ok; assumption | lia | lia].
    rewrite IH by (unfold offsets_size; lia). f_equal. f_equal. f_equal. lia.
Qed.

Lemma table_rows_length mode axes fp n pos : length (table_rows mode axes fp n pos) = n.
Proof. revert pos; induction n; intros; simpl; auto. Qed.

(* ---------- rows ---------- *)
Lemma row_length mode axes fp pos : Zlen (row mode axes fp pos) = rowlen_of fp.
Proof.
  unfold row, rowlen_of, Zlen. f_equal.
  assert (G : forall fp ks, (length fp <= length ks)%nat ->
    length (flat_map (fun kb : Z * bool => if snd kb then [entry mode axes pos (le_digits (fdims axes) (fst kb)) 0] else [])
                     (combine ks fp)) = length (filter (fun b : bool => b) fp)).
  { clear fp. induction fp as [|b fp IH]; intros ks Hl.
    - destruct ks; reflexivity.
    - destruct ks as [|k ks]; [simpl in Hl; lia|]. simpl in Hl. cbn [combine flat_map filter snd].
      rewrite app_length, IH by lia. destruct b; reflexivity. }
  apply G. rewrite Zseq_length. lia.
Qed.

Lemma entry_region mode axes : valid_mode mode -> axes_ok axes -> forall pos coords acc,
  digits_in pos (adims axes) -> digits_in coords (fdims axes) ->
  entry mode axes (map2 rpos axes (map2 ridx axes pos)) coords acc = entry mode axes pos coords acc.
Proof.
  intros Hm. induction 1 as [|x r Hx _ IH]; intros [|p ps] [|c cs] acc; simpl; try tauto.
  intros [Hp Hps] [Hc Hcs]. rewrite axis_off_region by auto.
  destruct (axis_off mode x p c); [apply IH; auto | reflexivity].
Qed.

Lemma row_region mode axes fp pos : valid_mode mode -> axes_ok axes -> Zlen fp = prodZ (fdims axes) ->
  digits_in pos (adims axes) ->
  row mode axes fp (map2 rpos axes (map2 ridx axes pos)) = row mode axes fp pos.
Proof.
  intros Hm Hax Hfp Hpos. unfold row.
  assert (G : forall l, (forall kb, In kb l -> 0 <= fst kb < prodZ (fdims axes)) ->
    flat_map (fun kb : Z * bool => if snd kb then [entry mode axes (map2 rpos axes (map2 ridx axes pos)) (le_digits (fdims axes) (fst kb)) 0] else []) l
    = flat_map (fun kb : Z * bool => if snd kb then [entry mode axes pos (le_digits (fdims axes) (fst kb)) 0] else []) l).
  { induction l as [|kb l IH]; intros Hl; [reflexivity|]. cbn [flat_map]. rewrite IH by (intros; apply Hl; simpl; auto).
    f_equal. destruct (snd kb); [|reflexivity]. f_equal. apply entry_region; auto.
    apply le_digits_in; [apply fdims_ok; auto | apply Hl; simpl; auto]. }
  apply G. intros [k b] Hin. apply in_combine_l in Hin. apply in_Zseq in Hin. unfold Zlen in Hfp. cbn [fst]. lia.
Qed.

(* ---------- the iterator's table index ---------- *)
Definition rvalue (axes : list axis) (pos : list Z) : Z := le_value (map2 ridx axes pos) (nregs axes).

Lemma ib_step_value axes : axes_ok axes -> forall s pos cur, digits_in pos (adims axes) ->
  ib_step axes (it_strides s axes) pos cur
  = cur + s * (rvalue axes (odo_next (adims axes) pos) - rvalue axes pos).
Proof.
  unfold rvalue. induction 1 as [|x r Hx _ IH]; intros s [|p ps] cur; simpl; try tauto; try lia.
  intros [Hp Hps]. unfold gen_ib_not_last.
  destruct (p <? alen x - 1) eqn:E.
  - simpl. rewrite ridx_step by (auto; lia).
    destruct (gen_ib_in_border p (it_minb x) (it_maxb x)); lia.
  - assert (p = alen x - 1) by lia. subst p.
    rewrite it_step_next_eq. unfold gen_it_stride. rewrite IH by auto. simpl.
    rewrite ridx_0, ridx_last, it_back_eq by auto. ring.
Qed.

Lemma map2_ridx_zeros axes : axes_ok axes -> map2 ridx axes (zeros axes) = map (fun _ => 0) (nregs axes).
Proof. induction 1 as [|x r Hx _ IH]; simpl; [reflexivity|]. rewrite ridx_0 by auto. f_equal. exact IH. Qed.

Lemma le_value_zeros dims : le_value (map (fun _ => 0) dims) dims = 0.
Proof. induction dims; simpl; lia. Qed.

Lemma zeros_digits axes : axes_ok axes -> zeros axes = le_digits (adims axes) 0.
Proof.
  intros H. rewrite le_digits_0 by (apply adims_ok; auto). unfold zeros, adims. now rewrite map_map.
Qed.

Theorem walk_spec axes rl : axes_ok axes -> forall n, Z.of_nat n < prodZ (adims axes) ->
  walk axes rl n = (rl * rvalue axes (le_digits (adims axes) (Z.of_nat n)), le_digits (adims axes) (Z.of_nat n)).
Proof.
  intros Hax. induction n as [|n IH]; intros Hn.
  - cbn [walk]. change (Z.of_nat 0) with 0. rewrite <- zeros_digits by auto. unfold rvalue.
    rewrite map2_ridx_zeros, le_value_zeros by auto. f_equal. lia.
  - cbn [walk]. rewrite IH by lia. cbn [fst snd].
    rewrite ib_step_value; [| assumption | apply le_digits_in; [apply adims_ok; assumption | lia]].
    rewrite odo_next_digits; [| apply adims_ok; assumption | lia | lia].
    replace (Z.of_nat n + 1) with (Z.of_nat (S n)) by lia. f_equal. ring.
Qed.

(* ---------- slices of the concatenated table ---------- *)
Lemma concat_slice (rows : list (list Z)) (L : nat) : (forall r, In r rows -> length r = L) ->
  forall n, (n < length rows)%nat -> firstn L (skipn (n * L) (concat rows)) = nth n rows [].
Proof.
  intros HL. induction rows as [|r rows IH]; intros n Hn; simpl in Hn; [lia|].
  assert (Hr : length r = L) by (apply HL; simpl; auto).
  destruct n as [|n]; cbn [concat nth].
  - cbn [Nat.mul skipn]. rewrite firstn_app, Hr, Nat.sub_diag. cbn [firstn]. rewrite app_nil_r.
    rewrite <- Hr. apply firstn_all.
  - replace (S n * L)%nat with (length r + n * L)%nat by lia.
    rewrite skipn_app, skipn_all2 by lia. replace (length r + n * L - length r)%nat with (n * L)%nat by lia.
    cbn [app]. apply IH; [intros; apply HL; simpl; auto | lia].
Qed.

(* ---------- MAIN: the row the iterator presents at a pixel is the row computed at that pixel ---------- *)
Theorem offsets_row_at_pixel mode axes fp n :
  valid_mode mode -> axes_ok axes -> Zlen fp = prodZ (fdims axes) -> Z.of_nat n < prodZ (adims axes) ->
  let cp := walk axes (rowlen_of fp) n in
  snd cp = le_digits (adims axes) (Z.of_nat n) /\
  firstn (Z.to_nat (rowlen_of fp)) (skipn (Z.to_nat (fst cp)) (table mode axes fp)) = row mode axes fp (snd cp).
Proof.
  intros Hm Hax Hfp Hn. cbv zeta. rewrite walk_spec by auto. cbn [fst snd]. split; [reflexivity|].
  set (pos := le_digits (adims axes) (Z.of_nat n)).
  assert (Hpos : digits_in pos (adims axes)) by (apply le_digits_in; [apply adims_ok; auto | lia]).
  pose proof (le_value_range _ _ (nregs_ok axes Hax) (map2_ridx_in axes Hax pos Hpos)) as HV.
  fold (rvalue axes pos) in HV. fold (offsets_size axes) in HV.
  assert (HL : 0 <= rowlen_of fp) by (unfold rowlen_of, Zlen; lia).
  replace (Z.to_nat (rowlen_of fp * rvalue axes pos)) with (Z.to_nat (rvalue axes pos) * Z.to_nat (rowlen_of fp))%nat by nia.
  unfold table. rewrite concat_slice.
  - assert (Z0 : zeros axes = map2 rpos axes (le_digits (nregs axes) 0)).
    { rewrite le_digits_0 by (apply nregs_ok; auto). symmetry. apply map2_rpos_zeros; auto. }
    rewrite Z0, table_rows_nth; [| assumption | lia | lia | lia].
    rewrite Z.add_0_l, Z2Nat.id by lia. unfold rvalue.
    rewrite le_digits_value; [| apply nregs_ok; assumption | apply map2_ridx_in; assumption].
    apply row_region; auto.
  - intros r Hr. assert (G : forall k p, In r (table_rows mode axes fp k p) -> length r = Z.to_nat (rowlen_of fp)).
    { induction k as [|k IHk]; intros p Hin; simpl in Hin; [tauto|]. destruct Hin as [<-|Hin]; [|eauto].
      pose proof (row_length mode axes fp p) as RL. unfold Zlen in RL. lia. }
    eapply G; eauto.
  - rewrite table_rows_length. lia.
Qed.

(* ---------- what an entry is: the flag iff some axis is outside, otherwise the strided sum of the mapped coordinates --- *)
Fixpoint entry_sum (mode : Z) (axes : list axis) (pos coords : list Z) : option Z :=
  match axes, pos, coords with
  | x :: axes', q :: pos', c :: coords' =>
      match axis_off mode x q c, entry_sum mode axes' pos' coords' with
      | Some d, Some t => Some (astr x * d + t)
      | _, _ => None
      end
  | _, _, _ => Some 0
  end.

Theorem entry_char mode axes : forall pos coords acc,
  entry mode axes pos coords acc
  = match entry_sum mode axes pos coords with Some t => acc + t | None => border_flag_value end.
Proof.
  induction axes as [|x r IH]; intros [|q ps] [|c cs] acc; simpl; try lia.
  destruct (axis_off mode x q c) as [d|]; [|reflexivity].
  rewrite IH. destruct (entry_sum mode r ps cs); [lia|reflexivity].
Qed.

(* the relative offset of one axis is the mathematical border map of the window coordinate, relative to the pixel *)
Lemma border_map_range m cc len v : 1 <= len -> border_map m cc len = Some v -> 0 <= v < len.
Proof.
  intros H. unfold border_map, clamp, reflect_spec, mirror_spec.
  repeat match goal with |- context[if ?b then _ else _] => let E := fresh "E" in destruct b eqn:E end;
    intros Hv; try discriminate; apply some_inj in Hv; subst v; lia.
Qed.

Theorem axis_off_spec mode x q c : valid_mode mode -> axis_ok x -> 0 <= q < alen x ->
  axis_off mode x q c = match border_map mode (c - forg x + q) (alen x) with Some v => Some (v - q) | None => None end.
Proof.
  intros Hm [Ha [Hf Hb]] Hq. unfold axis_off, gen_cc. cbv zeta.
  rewrite fix_offset_spec by auto. unfold border_spec.
  destruct (border_map mode (c - forg x + q) (alen x)) as [v|] eqn:B.
  - apply border_map_range in B; [|lia]. destruct (v =? border_flag_value) eqn:E; [lia|reflexivity].
  - now rewrite Z.eqb_refl.
Qed.

(* ---------- what the pointer arithmetic of retrieve / set reaches ---------- *)
(* element address (in elements, relative to the array's first element) of a little-endian position *)
Fixpoint addr (axes : list axis) (pos : list Z) : Z :=
  match axes, pos with x :: r, p :: ps => astr x * p + addr r ps | _, _ => 0 end.

(* the window position of filter coordinate coords at pixel pos, mapped into the array by the border rule *)
Fixpoint mapped (mode : Z) (axes : list axis) (pos coords : list Z) : option (list Z) :=
  match axes, pos, coords with
  | x :: r, p :: ps, c :: cs =>
      match border_map mode (c - forg x + p) (alen x), mapped mode r ps cs with
      | Some v, Some t => Some (v :: t)
      | _, _ => None
      end
  | _, _, _ => Some []
  end.

Theorem entry_sum_is_address mode axes : valid_mode mode -> axes_ok axes -> forall pos coords,
  digits_in pos (adims axes) -> length coords = length axes ->
  entry_sum mode axes pos coords
  = match mapped mode axes pos coords with Some q => Some (addr axes q - addr axes pos) | None => None end.
Proof.
  intros Hm. induction 1 as [|x r Hx _ IH]; intros [|p ps] [|c cs] Hd Hl; simpl in *; try tauto; try discriminate;
    try reflexivity.
  destruct Hd as [Hp Hps]. rewrite axis_off_spec, IH by (auto; lia).
  destruct (border_map mode (c - forg x + p) (alen x)) as [v|]; [|reflexivity].
  destruct (mapped mode r ps cs) as [t|]; [|reflexivity]. f_equal. ring.
Qed.

Lemma mapped_in_range mode axes : axes_ok axes -> forall pos coords q,
  length pos = length axes -> length coords = length axes ->
  mapped mode axes pos coords = Some q -> digits_in q (adims axes).
Proof.
  induction 1 as [|x r Hx _ IH]; intros [|p ps] [|c cs] q Hl1 Hl2 E; simpl in *; try discriminate.
  - apply some_inj in E. subst q. exact I.
  - destruct (border_map mode (c - forg x + p) (alen x)) as [v|] eqn:B; [|discriminate].
    destruct (mapped mode r ps cs) as [t|] eqn:M; [|discriminate].
    apply some_inj in E. subst q. destruct Hx as [Ha _]. split.
    + eapply border_map_range; eauto.
    + apply (IH ps cs t); auto; lia.
Qed.

(* C10 form: a stored entry is the flag, or leads from the pixel to an element inside the array *)
Theorem entry_reads_inside mode axes pos coords : valid_mode mode -> axes_ok axes ->
  digits_in pos (adims axes) -> length coords = length axes ->
  entry mode axes pos coords 0 = border_flag_value \/
  exists q, digits_in q (adims axes) /\ addr axes pos + entry mode axes pos coords 0 = addr axes q.
Proof.
  intros Hm Hax Hpos Hlc. rewrite entry_char, entry_sum_is_address by auto.
  destruct (mapped mode axes pos coords) as [q|] eqn:M; [|left; reflexivity].
  right. exists q. split; [|lia].
  assert (G : forall axes pos, digits_in pos (adims axes) -> length pos = length axes).
  { clear. unfold adims. induction axes as [|x r IH]; intros [|p ps]; simpl; try tauto.
    intros [_ H]. f_equal. apply IH; auto. }
  apply (mapped_in_range mode axes Hax pos coords q); auto.
Qed.

(* non-vacuity: a 2-D array of 4 x 5 with Fortran strides, a 3 x 2 filter, reflect mode, the last pixel *)
Definition ex_axes : list axis := [ {| alen := 5; flen := 2; astr := 4 |}; {| alen := 4; flen := 3; astr := 1 |} ].
Definition ex_fp : list bool := [true; true; false; true; true; true].
Example offsets_example_ok : axes_ok ex_axes /\ valid_mode ExtendReflect /\ Zlen ex_fp = prodZ (fdims ex_axes).
Proof.
  split; [|split].
  - repeat constructor; cbn; unfold border_flag_value; lia.
  - unfold valid_mode, ExtendReflect. lia.
  - reflexivity.
Qed.
Example offsets_example_row :
  walk ex_axes (rowlen_of ex_fp) 19 = (25, [4; 3]) /\
  firstn 5 (skipn 25 (table ExtendReflect ex_axes ex_fp)) = row ExtendReflect ex_axes ex_fp [4; 3] /\
  row ExtendReflect ex_axes ex_fp [4; 3] = [-5; -1; 0; -4; 0].
Proof. vm_compute. repeat split; reflexivity. Qed.
