(* C05: putting the pieces together -- the lower-envelope pass meets the 1-D specification for every line, hence the
   transform computed by distance() is the exact squared Euclidean distance transform for every shape and every image. *)
Require Import MV.Base.Prelude MV.Base.CInt MV.Base.Index MV.Model.Distance MV.Proof.LabeledProof MV.Proof.DistanceProof MV.Proof.EnvelopeProof.

Lemma dt1d_length f : length (dt1d f) = length f.
Proof.
  destruct f as [|a f'] eqn:E; [reflexivity|]. rewrite <- E.
  assert (Hn : (1 <= length f)%nat) by (rewrite E; cbn; lia).
  destruct (dt1d_with_origin_spec f Hn) as (outs & R1 & R2 & _). unfold dt1d. rewrite R1, map_length. exact R2.
Qed.
Theorem dt1d_len f : Zlen (dt1d f) = Zlen f.
Proof. unfold Zlen. rewrite dt1d_length. reflexivity. Qed.

Theorem dt1d_spec f q : 0 <= q < Zlen f ->
  is_min (fun v => exists p, 0 <= p < Zlen f /\ v = (q - p) * (q - p) + nthZ 0 f p) (nthZ 0 (dt1d f) q).
Proof.
  intros Hq. assert (Hn : (1 <= length f)%nat) by (unfold Zlen in Hq; lia).
  destruct (dt1d_with_origin_spec f Hn) as (outs & R1 & R2 & R3).
  assert (Hi : (Z.to_nat q < length f)%nat) by (unfold Zlen in Hq; lia).
  specialize (R3 (Z.to_nat q) Hi). rewrite Z2Nat.id in R3 by lia.
  unfold dt1d. rewrite R1.
  assert (E : nthZ 0 (map fst outs) q = fst (nth (Z.to_nat q) outs (0, 0))).
  { unfold nthZ. destruct (q <? 0) eqn:A; [lia|]. change 0 with (fst (0, 0)) at 1. apply map_nth. }
  rewrite E. destruct R3 as (Rv & Rf & Rm). unfold n, P in *. split.
  - exists (snd (nth (Z.to_nat q) outs (0, 0))). split; [exact Rv | exact Rf].
  - intros s (p & Hp & ->). apply Rm. exact Hp.
Qed.

(* the transform of distance(): exact for every shape and every initial image *)
Theorem dt_nd_dt1d_exact sh : pos_shape sh -> forall dat, Zlen dat = size sh ->
  Zlen (dt_nd dt1d sh dat) = size sh /\
  forall p, in_shape sh p ->
    is_min (fun v => exists q, in_shape sh q /\ v = sqdist p q + nthZ 0 dat (ravel sh q))
           (nthZ 0 (dt_nd dt1d sh dat) (ravel sh p)).
Proof. apply (dt_nd_exact dt1d dt1d_len dt1d_spec). Qed.

(* and the equality with the executable 1-D specification used by the check *)
Lemma lmin_is_min x l : is_min (fun v => In v (x :: l)) (lmin (x :: l)).
Proof.
  cbn [lmin]. revert x. induction l as [|y l IH]; intro x; cbn [fold_left].
  - split; [left; reflexivity | intros s [<-|[]]; lia].
  - destruct (IH (Z.min x y)) as [I1 I2]. split.
    + destruct I1 as [E|I1]; [|right; right; exact I1]. rewrite <- E. destruct (Z.min_spec x y) as [[_ ->]|[_ ->]]; [left | right; left]; reflexivity.
    + intros s [<-|[<-|Hs]]; [pose proof (I2 (Z.min x y) (or_introl eq_refl)); lia | pose proof (I2 (Z.min x y) (or_introl eq_refl)); lia | apply I2; right; exact Hs].
Qed.

Theorem dt1d_is_minplus1d f : dt1d f = minplus1d f.
Proof.
  apply nth_ext with (d := 0) (d' := 0).
  - rewrite dt1d_length. unfold minplus1d. rewrite map_length, Zseq_length. reflexivity.
  - intros i Hi. rewrite dt1d_length in Hi.
    assert (Hq : 0 <= Z.of_nat i < Zlen f) by (unfold Zlen; lia).
    pose proof (dt1d_spec f (Z.of_nat i) Hq) as [(p & Hp & Ev) Lo].
    assert (En : nth i (dt1d f) 0 = nthZ 0 (dt1d f) (Z.of_nat i)).
    { unfold nthZ. destruct (Z.of_nat i <? 0) eqn:A; [lia|]. rewrite Nat2Z.id. reflexivity. }
    rewrite En. unfold minplus1d.
    rewrite (nth_map_lt (fun q => lmin (map (fun p => (q - p) * (q - p) + nthZ 0 f p) (Zseq 0 (length f))))) by (rewrite Zseq_length; exact Hi).
    assert (Eq : nth i (Zseq 0 (length f)) 0 = Z.of_nat i).
    { pose proof (nthZ_Zseq 0 (length f) (Z.of_nat i) ltac:(lia)) as Q. unfold nthZ in Q. destruct (Z.of_nat i <? 0) eqn:A; [lia|].
      rewrite Nat2Z.id in Q. rewrite Q. lia. }
    rewrite Eq. set (q := Z.of_nat i) in *.
    destruct (Zseq 0 (length f)) as [|p0 ps] eqn:Es.
    { assert (length (Zseq 0 (length f)) = 0%nat) by (rewrite Es; reflexivity). rewrite Zseq_length in H. lia. }
    cbn [map]. pose proof (lmin_is_min ((q - p0) * (q - p0) + nthZ 0 f p0) (map (fun p1 => (q - p1) * (q - p1) + nthZ 0 f p1) ps)) as [M1 M2].
    apply Z.le_antisymm.
    + apply Lo. change ((q - p0) * (q - p0) + nthZ 0 f p0 :: map (fun p1 => (q - p1) * (q - p1) + nthZ 0 f p1) ps)
        with (map (fun p1 => (q - p1) * (q - p1) + nthZ 0 f p1) (p0 :: ps)) in M1.
      apply in_map_iff in M1. destruct M1 as (p1 & E1 & H1). exists p1. split; [|symmetry; exact E1].
      rewrite <- Es in H1. apply in_Zseq in H1. unfold Zlen. lia.
    + apply M2. change ((q - p0) * (q - p0) + nthZ 0 f p0 :: map (fun p1 => (q - p1) * (q - p1) + nthZ 0 f p1) ps)
        with (map (fun p1 => (q - p1) * (q - p1) + nthZ 0 f p1) (p0 :: ps)).
      apply in_map_iff. exists p. split; [symmetry; exact Ev|]. rewrite <- Es. apply in_Zseq. unfold Zlen in Hp. lia.
Qed.

(* ---- distance(): the statement about the function users call *)
Lemma dist_init_at a q : wf_arr a -> in_shape (shape a) q ->
  nthZ 0 (dist_init a) (ravel (shape a) q) = if aget a q =? 0 then 0 else dist_inf (shape a).
Proof.
  intros [Ps Hl] Hq. unfold dist_init, aget.
  pose proof (ravel_bound (shape a) q Ps Hq) as B.
  rewrite nthZ_map with (da := 0) by (rewrite Hl; exact B). reflexivity.
Qed.

Theorem distance_exact a : wf_arr a -> forall p, in_shape (shape a) p ->
  let r := nthZ 0 (distance a) (ravel (shape a) p) in
  (aget a p = 0 -> r = 0) /\
  ((exists q0, in_shape (shape a) q0 /\ aget a q0 = 0) ->
     is_min (fun v => exists q, in_shape (shape a) q /\ aget a q = 0 /\ v = sqdist p q) r) /\
  ((forall q, in_shape (shape a) q -> aget a q <> 0) ->
     forall u v, in_shape (shape a) u -> in_shape (shape a) v -> sqdist u v < r).
Proof.
  intros W p Hp. cbv zeta. destruct W as [Ps Hl]. unfold distance.
  assert (Li : Zlen (dist_init a) = size (shape a)) by (unfold dist_init, Zlen in *; rewrite map_length; exact Hl).
  destruct (dt_nd_dt1d_exact (shape a) Ps (dist_init a) Li) as [_ Ex]. specialize (Ex p Hp).
  assert (F0 : forall q, in_shape (shape a) q ->
               nthZ 0 (dist_init a) (ravel (shape a) q) = 0 \/ nthZ 0 (dist_init a) (ravel (shape a) q) = dist_inf (shape a)).
  { intros q Hq. rewrite (dist_init_at a q (conj Ps Hl) Hq). destruct (aget a q =? 0); [left | right]; reflexivity. }
  assert (Inf_pos : 0 < dist_inf (shape a)).
  { unfold dist_inf. pose proof (Zlen_nonneg (shape a)). nia. }
  destruct (edt_with_sentinel (shape a) (dist_init a) p _ Ps Hp F0 Ex) as (S1 & S2 & S3).
  assert (Z0 : forall q, in_shape (shape a) q -> (nthZ 0 (dist_init a) (ravel (shape a) q) = 0 <-> aget a q = 0)).
  { intros q Hq. rewrite (dist_init_at a q (conj Ps Hl) Hq). destruct (aget a q =? 0) eqn:E; [apply Z.eqb_eq in E | apply Z.eqb_neq in E]; split; intro; try assumption; try reflexivity; lia. }
  split; [|split].
  - intro H. apply S1. apply Z0; assumption.
  - intros (q0 & Hq0 & E0). destruct (S2 (ex_intro _ q0 (conj Hq0 (proj2 (Z0 q0 Hq0) E0)))) as [(q & Hq & Eq & Ev) Lo]. split.
    + exists q. split; [exact Hq|]. split; [apply Z0; assumption | exact Ev].
    + intros s (q' & Hq' & E' & ->). apply Lo. exists q'. split; [exact Hq'|]. split; [apply Z0; assumption | reflexivity].
  - intros NB. apply S3. intros q Hq E. apply (NB q Hq). apply Z0; assumption.
Qed.

(* C10: the envelope stack of _distance.cpp (arrays v[0..n-1], z[0..n]) is never over-full and only holds positions of the line:
   after the first pass it has at most n entries, every stored vertex is an index of the line *)
Theorem envelope_stack_in_bounds f : (1 <= length f)%nat ->
  Z.of_nat (length (build_hull f)) <= Zlen f /\ forall e, In e (build_hull f) -> 0 <= fst e < Zlen f.
Proof.
  intros Hn. destruct (build_hull_spec f Hn) as (_ & V & _ & L). cbv zeta in *. unfold n in *. split; [exact L|].
  intros e He. apply V. apply in_map. exact He.
Qed.
