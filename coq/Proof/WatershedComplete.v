(* C04, completeness of the flood: the queue is empty when the loop stops (the fuel of the model is sufficient), every pixel
   that a marker can reach by steps of the neighbourhood inside the image is finalised and carries a non-zero label; together
   with WatershedProof (labelled => linked to a marker) the labelled set is EXACTLY the set of reachable pixels. *)
Require Import MV.Base.Prelude MV.Base.CInt MV.Base.Index MV.Base.BorderSpec.
Require Import MV.Gen.Scalar_gen MV.Model.Filter MV.Model.Watershed MV.Proof.LabeledProof MV.Proof.WatershedProof.

(* ---------- list helpers ---------- *)
Lemma q_remove_in i q e : In e (q_remove i q) -> In e q.
Proof.
  induction q as [|x q IH]; cbn [q_remove]; [auto|]. destruct (q_idx x =? i); [intros; right; auto|].
  intros [<-|H]; [left; reflexivity | right; auto].
Qed.

Lemma q_remove_idx i q e : NoDup (map q_idx q) -> In e (q_remove i q) -> q_idx e <> i.
Proof.
  induction q as [|x q IH]; cbn [q_remove map]; [intros _ []|]. intros ND. inversion ND as [|? ? Hx ND']; subst.
  destruct (q_idx x =? i) eqn:E.
  - intros He Hi. apply Hx. apply Z.eqb_eq in E. rewrite E, <- Hi. apply in_map. exact He.
  - intros [<-|H]; [lia | auto].
Qed.

Lemma q_remove_keep i q e : In e q -> q_idx e <> i -> In e (q_remove i q).
Proof.
  induction q as [|x q IH]; cbn [q_remove]; [auto|]. intros [->|H] Hi.
  - destruct (q_idx e =? i) eqn:E; [lia | left; reflexivity].
  - destruct (q_idx x =? i); [exact H | right; auto].
Qed.

Lemma q_remove_nodup {B} (f : qe -> B) i q : NoDup (map f q) -> NoDup (map f (q_remove i q)).
Proof.
  induction q as [|x q IH]; cbn [q_remove map]; [auto|]. intros ND. inversion ND as [|? ? Hx ND']; subst.
  destruct (q_idx x =? i); [exact ND'|]. cbn [map]. constructor; [|auto].
  intros H. apply Hx. apply in_map_iff in H. destruct H as [e [E He]]. rewrite <- E. apply in_map. eapply q_remove_in; eauto.
Qed.

Lemma nodup_map_inj {A B} (f : A -> B) l a b : NoDup (map f l) -> In a l -> In b l -> f a = f b -> a = b.
Proof.
  induction l as [|x l IH]; [intros _ []|]. cbn [map]. intros ND. inversion ND as [|? ? Hx ND']; subst.
  intros [->|Ha] [->|Hb] E; auto.
  - exfalso. apply Hx. rewrite E. apply in_map. exact Hb.
  - exfalso. apply Hx. rewrite <- E. apply in_map. exact Ha.
Qed.

Lemma q_top_none q : q_top q = None -> q = [].
Proof. destruct q; [auto|discriminate]. Qed.

(* number of finalised pixels *)
Definition nblack (S : list Z) : nat := count_occ Z.eq_dec S BLACK.

Lemma count_upd (l : list Z) : forall i v x, (i < length l)%nat ->
  (count_occ Z.eq_dec (upd l i v) x + (if Z.eq_dec (nth i l 0%Z) x then 1 else 0) =
   count_occ Z.eq_dec l x + (if Z.eq_dec v x then 1 else 0))%nat.
Proof.
  induction l as [|h t IH]; intros i v x Hi; [simpl in Hi; lia|]. destruct i as [|i]; cbn [upd nth count_occ].
  - destruct (Z.eq_dec v x); destruct (Z.eq_dec h x); lia.
  - simpl in Hi. specialize (IH i v x ltac:(lia)). destruct (Z.eq_dec h x); lia.
Qed.

Lemma nblack_updZ S i v : 0 <= i < Zlen S ->
  (nblack (updZ S i v) + (if Z.eq_dec (nthZ 0%Z S i) BLACK then 1 else 0) = nblack S + (if Z.eq_dec v BLACK then 1 else 0))%nat.
Proof.
  intros Hi. unfold nblack, updZ, nthZ, Zlen in *. destruct (i <? 0) eqn:E; [lia|]. apply count_upd. lia.
Qed.

Lemma count_le (l : list Z) x : (count_occ Z.eq_dec l x <= length l)%nat.
Proof. induction l as [|h t IH]; simpl; [lia|]. destruct (Z.eq_dec h x); lia. Qed.

Section Complete.
  Variables (surf markers bc : arr) (wl : bool).
  Let sh := shape surf.
  Let N := size sh.
  Let M := data markers.
  Let NB := ws_neighbours_all sh bc.
  Hypothesis Ps : pos_shape sh.

  Definition tgt (p : Z) (n : nb) : list Z := padd (unravel sh p) (nb_dpos n).

  Definition closed_at (S : list Z) (p : Z) : Prop :=
    forall n, In n NB -> in_shape sh (tgt p n) -> nthZ 0 S (ravel sh (tgt p n)) <> WHITE.

  Record K (x : option Z) (st : wstate) : Prop := {
    k_ls : Zlen (w_status st) = N;
    k_tri : forall p, 0 <= p < N ->
              nthZ 0 (w_status st) p = WHITE \/ nthZ 0 (w_status st) p = GREY \/ nthZ 0 (w_status st) p = BLACK;
    k_q : forall e, In e (w_queue st) -> 0 <= q_pos e < N /\ nthZ 0 (w_status st) (q_pos e) = GREY /\ q_idx e < w_idx st;
    k_grey : forall p, 0 <= p < N -> nthZ 0 (w_status st) p = GREY -> exists e, In e (w_queue st) /\ q_pos e = p;
    k_idx : NoDup (map q_idx (w_queue st));
    k_pos : NoDup (map q_pos (w_queue st));
    k_closed : forall p, 0 <= p < N -> nthZ 0 (w_status st) p = BLACK -> Some p <> x -> closed_at (w_status st) p
  }.

  Lemma K_ext x st st' : w_status st' = w_status st -> w_queue st' = w_queue st -> w_idx st' = w_idx st -> K x st -> K x st'.
  Proof. intros E1 E2 E3 [A B C D E F G]. constructor; rewrite ?E1, ?E2, ?E3; auto. Qed.

  Lemma closed_mono S S' p : (forall q, 0 <= q < N -> nthZ 0 S q <> WHITE -> nthZ 0 S' q <> WHITE) -> closed_at S p -> closed_at S' p.
  Proof.
    intros H C n Hn Hi. apply H; [|apply C; auto]. apply ravel_bound; auto.
  Qed.

  (* queueing a white pixel *)
  Lemma K_push x st np res' lines' c mg : K x st -> 0 <= np < N -> nthZ 0 (w_status st) np = WHITE ->
    K x {| w_res := res'; w_lines := lines'; w_status := updZ (w_status st) np GREY;
           w_queue := {| q_cost := c; q_idx := w_idx st; q_pos := np; q_margin := mg |} :: w_queue st;
           w_idx := w_idx st + 1 |}.
  Proof.
    intros [LS TRI Q GR IDX POS CL] Hnp W.
    assert (NW : forall q, 0 <= q < N -> nthZ 0 (w_status st) q <> WHITE -> nthZ 0 (updZ (w_status st) np GREY) q <> WHITE).
    { intros q Hq Sq. rewrite nthZ_updZ by lia. destruct (np =? q); [unfold GREY, WHITE; discriminate | exact Sq]. }
    constructor; cbn [w_status w_queue w_idx].
    - now rewrite updZ_Zlen.
    - intros p Hp. rewrite nthZ_updZ by lia. destruct (np =? p); [right; left; reflexivity | apply TRI; auto].
    - intros e [<-|He]; cbn [q_pos q_idx].
      + split; [exact Hnp|]. split; [|lia]. rewrite nthZ_updZ by lia. now rewrite Z.eqb_refl.
      + destruct (Q e He) as (A & B & C). split; [exact A|]. split; [|lia].
        rewrite nthZ_updZ by lia. destruct (np =? q_pos e) eqn:E; [|exact B].
        assert (np = q_pos e) by lia. subst np. unfold GREY, WHITE in *. lia.
    - intros p Hp Gp. rewrite nthZ_updZ in Gp by lia. destruct (np =? p) eqn:E.
      + eexists. split; [left; reflexivity|]. cbn [q_pos]. lia.
      + destruct (GR p Hp Gp) as [e [He Ee]]. exists e. split; [right; exact He | exact Ee].
    - cbn [map q_idx]. constructor; [|exact IDX]. intros H. apply in_map_iff in H. destruct H as [e [Ee He]].
      destruct (Q e He) as (_ & _ & C). lia.
    - cbn [map q_pos]. constructor; [|exact POS]. intros H. apply in_map_iff in H. destruct H as [e [Ee He]].
      destruct (Q e He) as (_ & B & _). rewrite Ee in B. unfold GREY, WHITE in *. lia.
    - intros p Hp Bp Hx. rewrite nthZ_updZ in Bp by lia. destruct (np =? p) eqn:E; [unfold GREY, BLACK in *; lia|].
      eapply closed_mono; [exact NW | apply CL; auto].
  Qed.

  (* a visit keeps the invariant, never whitens, leaves the number of finalised pixels alone and makes its target non-white *)
  Lemma K_visit x st from np nm : K x st -> 0 <= np < N ->
    let st' := ws_visit (data surf) wl from st (np, nm) in
    K x st' /\ nblack (w_status st') = nblack (w_status st) /\ nthZ 0 (w_status st') np <> WHITE /\
    (forall q, 0 <= q < N -> nthZ 0 (w_status st) q <> WHITE -> nthZ 0 (w_status st') q <> WHITE) /\
    (forall q, 0 <= q < N -> nthZ 0 (w_status st) q = BLACK -> nthZ 0 (w_status st') q = BLACK).
  Proof.
    intros HK Hnp. cbv zeta. unfold ws_visit.
    destruct (nthZ 0 (w_status st) np =? WHITE) eqn:W.
    - assert (Wn : nthZ 0 (w_status st) np = WHITE) by lia.
      split; [apply K_push; auto|]. cbn [w_status].
      pose proof (k_ls _ _ HK) as LS.
      split.
      + pose proof (nblack_updZ (w_status st) np GREY ltac:(lia)) as E. rewrite Wn in E.
        destruct (Z.eq_dec WHITE BLACK) as [X|_]; [discriminate X|]. destruct (Z.eq_dec GREY BLACK) as [X|_]; [discriminate X|]. lia.
      + split; [rewrite nthZ_updZ by lia; rewrite Z.eqb_refl; unfold GREY, WHITE; discriminate|]. split.
        * intros q Hq Sq. rewrite nthZ_updZ by lia. destruct (np =? q); [unfold GREY, WHITE; discriminate | exact Sq].
        * intros q Hq Sq. rewrite nthZ_updZ by lia. destruct (np =? q) eqn:E; [|exact Sq].
          assert (np = q) by lia. subst. unfold WHITE, BLACK in *. lia.
    - assert (Wn : nthZ 0 (w_status st) np <> WHITE) by lia.
      assert (G : forall st', w_status st' = w_status st -> w_queue st' = w_queue st -> w_idx st' = w_idx st ->
                K x st' /\ nblack (w_status st') = nblack (w_status st) /\ nthZ 0 (w_status st') np <> WHITE /\
                (forall q, 0 <= q < N -> nthZ 0 (w_status st) q <> WHITE -> nthZ 0 (w_status st') q <> WHITE) /\
                (forall q, 0 <= q < N -> nthZ 0 (w_status st) q = BLACK -> nthZ 0 (w_status st') q = BLACK)).
      { intros st' E1 E2 E3. split; [eapply K_ext; eauto|]. rewrite E1. repeat split; auto. }
      destruct (nthZ 0 (w_status st) np =? GREY); [|apply G; reflexivity].
      destruct (wl && negb (nthZ 0 (w_res st) from =? nthZ 0 (w_res st) np)); apply G; reflexivity.
  Qed.

  (* finalising a queued pixel: the invariant holds except for the closure of that pixel, still to be established *)
  Lemma K_black st next : K None st -> In next (w_queue st) ->
    let st1 := {| w_res := w_res st; w_lines := w_lines st; w_status := updZ (w_status st) (q_pos next) BLACK;
                  w_queue := q_remove (q_idx next) (w_queue st); w_idx := w_idx st |} in
    K (Some (q_pos next)) st1 /\ nblack (w_status st1) = S (nblack (w_status st)) /\
    nthZ 0 (w_status st1) (q_pos next) = BLACK.
  Proof.
    intros [LS TRI Q GR IDX POS CL] Hin. cbv zeta. destruct (Q next Hin) as (Hp & Gp & _).
    set (p := q_pos next) in *.
    assert (NW : forall q, 0 <= q < N -> nthZ 0 (w_status st) q <> WHITE -> nthZ 0 (updZ (w_status st) p BLACK) q <> WHITE).
    { intros q Hq Sq. rewrite nthZ_updZ by lia. destruct (p =? q); [unfold BLACK, WHITE; discriminate | exact Sq]. }
    split; [constructor; cbn [w_status w_queue w_idx]|].
    - now rewrite updZ_Zlen.
    - intros q Hq. rewrite nthZ_updZ by lia. destruct (p =? q); [right; right; reflexivity | apply TRI; auto].
    - intros e He. pose proof (q_remove_in _ _ _ He) as He'. pose proof (q_remove_idx _ _ _ IDX He) as Hi.
      destruct (Q e He') as (A & B & C). split; [exact A|]. split; [|exact C].
      rewrite nthZ_updZ by lia. destruct (p =? q_pos e) eqn:E; [|exact B]. exfalso.
      assert (e = next) by (apply (nodup_map_inj q_pos (w_queue st)); auto; unfold p in E; lia). subst e. apply Hi. reflexivity.
    - intros q Hq Gq. rewrite nthZ_updZ in Gq by lia. destruct (p =? q) eqn:E; [unfold BLACK, GREY in *; lia|].
      destruct (GR q Hq Gq) as [e [He Ee]]. exists e. split; [|exact Ee]. apply q_remove_keep; [exact He|].
      intros Hi. assert (e = next) by (apply (nodup_map_inj q_idx (w_queue st)); auto). subst e. unfold p in E. lia.
    - apply q_remove_nodup. exact IDX.
    - apply q_remove_nodup. exact POS.
    - intros q Hq Bq Hx. rewrite nthZ_updZ in Bq by lia. destruct (p =? q) eqn:E; [exfalso; apply Hx; f_equal; lia|].
      eapply closed_mono; [exact NW | apply CL; auto; discriminate].
    - cbn [w_status]. split; [|rewrite nthZ_updZ by lia; now rewrite Z.eqb_refl].
      pose proof (nblack_updZ (w_status st) p BLACK ltac:(lia)) as E. fold p in Gp. rewrite Gp in E.
      destruct (Z.eq_dec GREY BLACK) as [X|_]; [discriminate X|]. destruct (Z.eq_dec BLACK BLACK) as [_|X]; [|contradiction]. lia.
  Qed.

  Definition popf (p : Z) := fun (sm : wstate * Z) (n : nb) =>
    let '(t, m') := resolve_checked sh p (snd sm) n in
    match t with Some t => (ws_visit (data surf) wl p (fst sm) t, m') | None => (fst sm, m') end.

  Lemma fold_visits p : 0 <= p < N -> forall l sm, (forall n, In n l -> In n NB) ->
    K (Some p) (fst sm) -> nthZ 0 (w_status (fst sm)) p = BLACK ->
    let st' := fst (fold_left (popf p) l sm) in
    K (Some p) st' /\ nthZ 0 (w_status st') p = BLACK /\ nblack (w_status st') = nblack (w_status (fst sm)) /\
    (forall n, In n l -> in_shape sh (tgt p n) -> nthZ 0 (w_status st') (ravel sh (tgt p n)) <> WHITE) /\
    (forall q, 0 <= q < N -> nthZ 0 (w_status (fst sm)) q <> WHITE -> nthZ 0 (w_status st') q <> WHITE).
  Proof.
    intros Hp. induction l as [|n l IH]; intros sm Hl HK Bp; cbv zeta; cbn [fold_left].
    - split; [exact HK|]. split; [exact Bp|]. split; [reflexivity|]. split; [intros n [] | auto].
    - set (sm1 := popf p sm n).
      assert (S1 : K (Some p) (fst sm1) /\ nthZ 0 (w_status (fst sm1)) p = BLACK /\
                   nblack (w_status (fst sm1)) = nblack (w_status (fst sm)) /\
                   (in_shape sh (tgt p n) -> nthZ 0 (w_status (fst sm1)) (ravel sh (tgt p n)) <> WHITE) /\
                   (forall q, 0 <= q < N -> nthZ 0 (w_status (fst sm)) q <> WHITE -> nthZ 0 (w_status (fst sm1)) q <> WHITE)).
      { unfold sm1, popf, resolve_checked. fold (tgt p n).
        destruct (in_shapeb sh (tgt p n)) eqn:B; cbn [fst].
        - apply in_shapeb_iff in B. pose proof (ravel_bound sh _ Ps B) as RB. fold N in RB.
          destruct (K_visit (Some p) (fst sm) p (ravel sh (tgt p n)) 0 HK RB) as (A1 & A2 & A3 & A4 & A5).
          split; [exact A1|]. split; [apply A5; auto|]. split; [exact A2|]. split; [intros _; exact A3 | exact A4].
        - split; [exact HK|]. split; [exact Bp|]. split; [reflexivity|]. split; [|auto].
          intros Hi. apply in_shapeb_iff in Hi. congruence. }
      destruct S1 as (K1 & B1 & N1 & T1 & W1).
      destruct (IH sm1 (fun n0 H => Hl n0 (or_intror H)) K1 B1) as (K2 & B2 & N2 & T2 & W2). cbv zeta in *.
      split; [exact K2|]. split; [exact B2|]. split; [congruence|]. split.
      + intros n0 [<-|Hn0] Hi; [|apply T2; auto]. apply W2; [apply ravel_bound; auto | apply T1; auto].
      + intros q Hq Sq. apply W2; auto.
  Qed.

  Lemma K_pop st next : K None st -> In next (w_queue st) ->
    let st' := ws_pop resolve_checked sh NB (data surf) wl next st in
    K None st' /\ nblack (w_status st') = S (nblack (w_status st)).
  Proof.
    intros HK Hin. cbv zeta. destruct (k_q _ _ HK next Hin) as (Hp & _ & _).
    destruct (K_black st next HK Hin) as (K1 & N1 & B1). cbv zeta in *.
    unfold ws_pop.
    set (st1 := {| w_res := w_res st; w_lines := w_lines st; w_status := updZ (w_status st) (q_pos next) BLACK;
                   w_queue := q_remove (q_idx next) (w_queue st); w_idx := w_idx st |}) in *.
    change (fun sm n => let '(tgt0, m') := resolve_checked sh (q_pos next) (snd sm) n in
                        match tgt0 with Some t => (ws_visit (data surf) wl (q_pos next) (fst sm) t, m') | None => (fst sm, m') end)
      with (popf (q_pos next)).
    destruct (fold_visits (q_pos next) Hp NB (st1, q_margin next) (fun n H => H) K1 B1) as (K2 & B2 & N2 & T2 & _).
    cbv zeta in *. cbn [fst] in *. split; [|congruence].
    destruct K2 as [LS TRI Q GR IDX POS CL]. constructor; auto.
    intros q Hq Bq _. destruct (Z.eq_dec q (q_pos next)) as [->|Ne].
    - intros n Hn Hi. apply T2; auto.
    - apply CL; auto. intros E. apply Ne. congruence.
  Qed.

  (* the loop stops with an empty queue as soon as the fuel exceeds the number of pixels not yet finalised *)
  Lemma loop_empties fuel : forall st, K None st -> (Z.to_nat N < fuel + nblack (w_status st))%nat ->
    let st' := ws_loop resolve_checked fuel sh NB (data surf) wl st in K None st' /\ w_queue st' = [].
  Proof.
    induction fuel as [|k IH]; intros st HK Hf.
    { exfalso. pose proof (count_le (w_status st) BLACK) as C. pose proof (k_ls _ _ HK) as L. unfold nblack, Zlen in *. lia. }
    cbv zeta. cbn [ws_loop].
    destruct (q_top (w_queue st)) as [e|] eqn:T.
    - pose proof (q_top_in _ _ T) as Hin. destruct (K_pop st e HK Hin) as [K1 N1]. cbv zeta in *.
      apply IH; [exact K1|]. rewrite N1. lia.
    - split; [exact HK | apply q_top_none; exact T].
  Qed.
End Complete.

Section Final2.
  Variables (surf markers bc : arr) (wl : bool).
  Let sh := shape surf.
  Let N := size sh.
  Let M := data markers.
  Let NB := ws_neighbours_all sh bc.
  Hypothesis Ps : pos_shape sh.
  Hypothesis Lm : Zlen M = N.
  Hypothesis Ls : Zlen (data surf) = N.

  Lemma Kinit_fold l : forall a st, 0 <= a -> a + Zlen l = N -> K surf bc None st ->
    (forall p, a <= p < N -> nthZ 0 (w_status st) p = WHITE) -> (forall p, 0 <= p < N -> nthZ 0 (w_status st) p <> BLACK) ->
    let st' := fold_left (init_step surf) (combine (Zseq a (length l)) l) st in
    K surf bc None st' /\ (forall p, 0 <= p < N -> nthZ 0 (w_status st') p <> BLACK).
  Proof.
    induction l as [|m l IH]; intros a st Ha Hal HK HW HB; cbv zeta; cbn [length Zseq combine fold_left]; [auto|].
    assert (Hal' : (a + 1) + Zlen l = N) by (unfold Zlen in *; simpl length in Hal; lia).
    assert (Ra : 0 <= a < N) by (unfold Zlen in *; simpl length in Hal; lia).
    pose proof (k_ls _ _ _ _ HK) as LS. fold sh in LS. fold N in LS.
    assert (S1 : K surf bc None (init_step surf st (a, m)) /\
                 (forall p, a + 1 <= p < N -> nthZ 0 (w_status (init_step surf st (a, m))) p = WHITE) /\
                 (forall p, 0 <= p < N -> nthZ 0 (w_status (init_step surf st (a, m))) p <> BLACK)).
    { unfold init_step. destruct (m =? 0).
      - split; [exact HK|]. split; [intros p Hp; apply HW; lia | exact HB].
      - split; [apply K_push; auto; apply HW; lia|]. cbn [w_status]. split.
        + intros p Hp. rewrite nthZ_updZ by lia. destruct (a =? p) eqn:E; [lia|]. apply HW. lia.
        + intros p Hp. rewrite nthZ_updZ by lia. destruct (a =? p); [unfold GREY, BLACK; discriminate|]. apply HB; auto. }
    destruct S1 as (K1 & W1 & B1). apply IH; auto; lia.
  Qed.

  Let zeros := repeat 0 (length (data surf)).
  Let st0 := ws_init sh (data surf) M zeros zeros.

  Lemma K_init : K surf bc None st0 /\ (forall p, 0 <= p < N -> nthZ 0 (w_status st0) p <> BLACK).
  Proof.
    unfold st0, ws_init.
    change (fun st im => let '(i, m) := im in if m =? 0 then st else _) with (init_step surf).
    set (s := {| w_res := zeros; w_lines := zeros; w_status := repeat WHITE (length M); w_queue := []; w_idx := 0 |}).
    assert (W0 : forall p, 0 <= p < N -> nthZ 0 (repeat WHITE (length M)) p = WHITE).
    { intros p Hp. apply nthZ_repeat. unfold Zlen in Lm. lia. }
    apply (Kinit_fold M 0 s); try lia.
    - constructor; cbn [s w_status w_queue w_idx].
      + unfold Zlen in *. rewrite repeat_length. exact Lm.
      + intros p Hp. left. apply W0; auto.
      + intros e [].
      + intros p Hp G. rewrite W0 in G by auto. discriminate.
      + constructor.
      + constructor.
      + intros p Hp B. rewrite W0 in B by auto. discriminate.
    - intros p Hp. apply W0. lia.
    - intros p Hp. cbn [s w_status]. rewrite W0 by auto. discriminate.
  Qed.

  (* what a marker can reach by neighbourhood steps inside the image *)
  Inductive reach : Z -> Prop :=
  | r_marker : forall p, 0 <= p < N -> nthZ 0 M p <> 0 -> reach p
  | r_step : forall q p n, reach q -> In n NB -> in_shape sh (padd (unravel sh q) (nb_dpos n)) ->
      p = ravel sh (padd (unravel sh q) (nb_dpos n)) -> reach p.

  Lemma linked_nonzero S res p : linked surf markers bc S res p -> nthZ 0 res p <> 0.
  Proof. induction 1 as [p Hp Hm He Hs | q p n Lq IH Hn Hi Hpq Hs He]; [rewrite He; exact Hm | rewrite He; exact IH]. Qed.

  Lemma linked_reach S res p : linked surf markers bc S res p -> reach p.
  Proof. induction 1 as [p Hp Hm He Hs | q p n Lq IH Hn Hi Hpq Hs He]; [apply r_marker; auto | eapply r_step; eauto]. Qed.

  Let stf := ws_loop resolve_checked (S (length (data surf))) sh NB (data surf) wl st0.

  Lemma final_state : J surf markers bc stf /\ K surf bc None stf /\ w_queue stf = [].
  Proof.
    split; [apply J_loop; auto; apply J_init; auto|].
    destruct K_init as [K0 _].
    apply (loop_empties surf bc wl Ps (S (length (data surf))) st0 K0).
    fold sh. fold N. unfold Zlen in Ls. lia.
  Qed.

  Lemma reach_black p : reach p -> 0 <= p < N /\ nthZ 0 (w_status stf) p = BLACK.
  Proof.
    destruct final_state as (HJ & HK & HQ).
    assert (NG : forall q, 0 <= q < N -> nthZ 0 (w_status stf) q <> WHITE -> nthZ 0 (w_status stf) q = BLACK).
    { intros q Hq W. destruct (k_tri _ _ _ _ HK q Hq) as [A|[A|A]]; [contradiction | | exact A].
      destruct (k_grey _ _ _ _ HK q Hq A) as [e [He _]]. rewrite HQ in He. destruct He. }
    induction 1 as [p Hp Hm | q p n Rq IH Hn Hi Hpq].
    - split; [exact Hp|]. apply NG; auto. apply (j_marker _ _ _ _ HJ p Hp Hm).
    - destruct IH as [Hq Bq]. pose proof (ravel_bound sh _ Ps Hi) as Rb. fold N in Rb. rewrite <- Hpq in Rb.
      split; [exact Rb|]. apply NG; auto. rewrite Hpq.
      apply (k_closed _ _ _ _ HK q Hq Bq ltac:(discriminate) n Hn Hi).
  Qed.

  (* the labelled set is exactly the reachable set, and nothing is left queued *)
  Theorem flood_complete :
    let res := fst (flood_spec surf markers bc wl) in
    forall p, 0 <= p < N -> (nthZ 0 res p <> 0 <-> reach p).
  Proof.
    cbv zeta. unfold flood_spec, ws_run. cbn [fst]. fold sh. fold M. fold zeros. fold st0. fold NB. fold stf.
    destruct final_state as (HJ & HK & HQ). intros p Hp. split.
    - intros Hr. destruct (Z.eq_dec (nthZ 0 (w_status stf) p) WHITE) as [W|W].
      + exfalso. apply Hr. apply (j_white _ _ _ _ HJ p Hp W).
      + eapply linked_reach. apply (j_linked _ _ _ _ HJ p Hp W).
    - intros R. destruct (reach_black p R) as [_ B].
      eapply linked_nonzero. apply (j_linked _ _ _ _ HJ p Hp). rewrite B. discriminate.
  Qed.

  Theorem flood_queue_empty_at_exit : w_queue stf = [].
  Proof. exact (proj2 (proj2 final_state)). Qed.
End Final2.
