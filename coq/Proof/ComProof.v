(* C13: center_of_mass -- the per-label accumulators of the model (total weight and weighted coordinate sums, exact integers)
   are the defining sums over exactly the pixels carrying the label; the centroid is their quotient. *)
Require Import MV.Base.Prelude MV.Base.CInt MV.Base.Index MV.Model.Labeled.

Definition com_sel (lab : list Z) (l : Z) (ips : list (Z * list Z)) : list (Z * list Z) :=
  filter (fun ip => nthZ 0 lab (fst ip) =? l) ips.

Definition com_step (f : arr) (lab : list Z) (l : Z) (acc : Z * list Z) (ip : Z * list Z) : Z * list Z :=
  let '(i, p) := ip in
  if nthZ 0 lab i =? l then (fst acc + aget f p, map (fun sc => fst sc + aget f p * snd sc) (combine (snd acc) p)) else acc.

Lemma com_sums_unfold f lab l :
  com_sums f lab l = fold_left (com_step f lab l)
                       (combine (Zseq 0 (Z.to_nat (size (shape f)))) (all_positions (shape f))) (0, map (fun _ => 0) (shape f)).
Proof. reflexivity. Qed.

Lemma nthZ_map_combine (s p : list Z) w j : length s = length p -> 0 <= j < Zlen p ->
  nthZ 0 (map (fun sc => fst sc + w * snd sc) (combine s p)) j = nthZ 0 s j + w * nthZ 0 p j.
Proof.
  intros L Hj. rewrite nthZ_map with (da := (0, 0)) by (unfold Zlen in *; rewrite combine_length; lia).
  unfold nthZ. destruct (j <? 0) eqn:E; [unfold Zlen in Hj; lia|]. rewrite combine_nth by exact L. reflexivity.
Qed.

Lemma com_fold f lab l nd : forall ips acc, length (snd acc) = nd -> (forall ip, In ip ips -> length (snd ip) = nd) ->
  let r := fold_left (com_step f lab l) ips acc in
  length (snd r) = nd /\
  fst r = fst acc + sumZ (map (fun ip => aget f (snd ip)) (com_sel lab l ips)) /\
  forall j, 0 <= j < Z.of_nat nd ->
    nthZ 0 (snd r) j = nthZ 0 (snd acc) j + sumZ (map (fun ip => aget f (snd ip) * nthZ 0 (snd ip) j) (com_sel lab l ips)).
Proof.
  induction ips as [|[i p] ips IH]; intros acc La Hp; cbv zeta; cbn [fold_left com_sel filter map].
  - split; [exact La|]. split; [unfold sumZ; simpl; lia|]. intros; unfold sumZ; simpl; lia.
  - assert (Lp : length p = nd) by (apply (Hp (i, p)); left; reflexivity).
    assert (Hp' : forall ip, In ip ips -> length (snd ip) = nd) by (intros; apply Hp; right; auto).
    cbn [fst snd]. destruct (nthZ 0 lab i =? l) eqn:E; cbn [map fst snd]; fold (com_sel lab l ips).
    + set (acc1 := (fst acc + aget f p, map (fun sc => fst sc + aget f p * snd sc) (combine (snd acc) p))).
      assert (S1 : com_step f lab l acc (i, p) = acc1) by (unfold com_step; rewrite E; reflexivity).
      rewrite S1. cbn [fst].
      assert (L1 : length (snd acc1) = nd) by (unfold acc1; cbn [snd]; rewrite map_length, combine_length; lia).
      destruct (IH acc1 L1 Hp') as (I1 & I2 & I3). cbv zeta in *.
      split; [exact I1|]. split.
      * rewrite I2. unfold acc1. cbn [fst map snd]. unfold sumZ. cbn [fold_right]. lia.
      * intros j Hj. rewrite I3 by auto. unfold acc1. cbn [snd map fst].
        rewrite nthZ_map_combine by (unfold Zlen; lia).
        unfold sumZ. cbn [fold_right]. lia.
    + assert (S1 : com_step f lab l acc (i, p) = acc) by (unfold com_step; rewrite E; reflexivity).
      rewrite S1. apply IH; auto.
Qed.

Theorem com_sums_spec f lab l : pos_shape (shape f) ->
  let ips := combine (Zseq 0 (Z.to_nat (size (shape f)))) (all_positions (shape f)) in
  fst (com_sums f lab l) = sumZ (map (fun ip => aget f (snd ip)) (com_sel lab l ips)) /\
  forall j, 0 <= j < Zlen (shape f) ->
    nthZ 0 (snd (com_sums f lab l)) j = sumZ (map (fun ip => aget f (snd ip) * nthZ 0 (snd ip) j) (com_sel lab l ips)).
Proof.
  intros Ps. cbv zeta. rewrite com_sums_unfold.
  set (ips := combine _ _).
  destruct (com_fold f lab l (length (shape f)) ips (0, map (fun _ => 0) (shape f))) as (_ & A & B).
  - cbn [snd]. apply map_length.
  - intros [i p] Hin. apply in_combine_r in Hin. cbn [snd]. apply in_all_positions in Hin; auto.
    clear - Hin. revert p Hin. induction (shape f) as [|d r IH]; destruct p; simpl; try tauto. intros [_ H]. f_equal. auto.
  - cbv zeta in *. split; [rewrite A; cbn [fst]; lia|]. intros j Hj. rewrite B by (unfold Zlen in Hj; lia). cbn [snd].
    rewrite nthZ_map with (da := 0) by exact Hj. lia.
Qed.

(* the pairs (flat index, position) enumerate the pixels: index i goes with the position unravel i *)
Lemma in_combine_map {A B} (g : A -> B) (l : list A) a b : In (a, b) (combine l (map g l)) -> In a l /\ b = g a.
Proof.
  induction l as [|x l IH]; simpl; [tauto|]. intros [E|H]; [injection E as <- <-; auto | destruct (IH H); auto].
Qed.

Lemma com_pairs f i p : pos_shape (shape f) ->
  In (i, p) (combine (Zseq 0 (Z.to_nat (size (shape f)))) (all_positions (shape f))) ->
  0 <= i < size (shape f) /\ p = unravel (shape f) i.
Proof.
  intros Ps H. unfold all_positions in H. apply in_combine_map in H. destruct H as [Hi ->]. apply in_Zseq in Hi.
  split; [lia | reflexivity].
Qed.

(* hence, stated on pixels: total weight and first moments of label l *)
Corollary com_sums_over_pixels f lab l : pos_shape (shape f) ->
  let idx := filter (fun i => nthZ 0 lab i =? l) (Zseq 0 (Z.to_nat (size (shape f)))) in
  fst (com_sums f lab l) = sumZ (map (fun i => aget f (unravel (shape f) i)) idx) /\
  forall j, 0 <= j < Zlen (shape f) ->
    nthZ 0 (snd (com_sums f lab l)) j = sumZ (map (fun i => aget f (unravel (shape f) i) * nthZ 0 (unravel (shape f) i) j) idx).
Proof.
  intros Ps. cbv zeta. destruct (com_sums_spec f lab l Ps) as [A B]. cbv zeta in *.
  assert (G : forall (h : Z -> list Z -> Z) l0,
            map (fun ip : Z * list Z => h (fst ip) (snd ip)) (com_sel lab l (combine l0 (map (unravel (shape f)) l0))) =
            map (fun i => h i (unravel (shape f) i)) (filter (fun i => nthZ 0 lab i =? l) l0)).
  { intros h l0. induction l0 as [|x l0 IH]; [reflexivity|]. cbn [map combine com_sel filter fst snd].
    destruct (nthZ 0 lab x =? l); cbn [map fst snd]; fold (com_sel lab l (combine l0 (map (unravel (shape f)) l0))); rewrite IH; reflexivity. }
  split.
  - rewrite A. unfold all_positions. f_equal. apply (G (fun _ p => aget f p)).
  - intros j Hj. rewrite B by auto. unfold all_positions. f_equal. apply (G (fun _ p => aget f p * nthZ 0 p j)).
Qed.
