(* C13: bbox (generic N-D scan of _bbox.cpp) returns the tight bounding box of the non-zero positions: for every axis the least
   coordinate and one more than the greatest; all zeros when the image is empty -- for every array of any dimension. *)
Require Import MV.Base.Prelude MV.Base.CInt MV.Base.Index MV.Model.Filter MV.Model.Labeled.

Definition hdZ (p : list Z) : Z := nthZ 0 p 0.

Lemma fold_min_minl l a : fold_left Z.min l a = minl a l.
Proof. unfold minl. apply fold_symmetric; intros; lia. Qed.
Lemma fold_max_maxl l a : fold_left Z.max l a = maxl a l.
Proof. unfold maxl. apply fold_symmetric; intros; lia. Qed.

(* the scan, axis by axis *)
Lemma fold_upd_ext_cons : forall ps lo hi r, (forall p, In p ps -> p <> []) ->
  fold_left upd_ext ps (lo :: hi :: r) =
  fold_left Z.min (map hdZ ps) lo :: fold_left Z.max (map (fun p => hdZ p + 1) ps) hi :: fold_left upd_ext (map (@tl Z) ps) r.
Proof.
  induction ps as [|p ps IH]; intros lo hi r Hne; [reflexivity|].
  destruct p as [|a q]; [exfalso; apply (Hne [] (or_introl eq_refl)); reflexivity|].
  cbn [fold_left map upd_ext tl]. rewrite IH by (intros p Hp; apply Hne; right; exact Hp).
  unfold hdZ at 1 3. unfold nthZ. cbn. reflexivity.
Qed.

Fixpoint ext_rec (sh : list Z) (ps : list (list Z)) : list Z :=
  match sh with
  | [] => []
  | d :: r => minl d (map hdZ ps) :: maxl 0 (map (fun p => hdZ p + 1) ps) :: ext_rec r (map (@tl Z) ps)
  end.

Lemma fold_upd_ext_nil ps : fold_left upd_ext ps [] = [].
Proof. induction ps as [|p ps IH]; [reflexivity|]. cbn [fold_left upd_ext]. exact IH. Qed.

Lemma scan_is_ext_rec : forall sh ps, (forall p, In p ps -> length p = length sh) ->
  fold_left upd_ext ps (ext_init sh) = ext_rec sh ps.
Proof.
  induction sh as [|d r IH]; intros ps Hl.
  - cbn [ext_init flat_map ext_rec]. apply fold_upd_ext_nil.
  - change (ext_init (d :: r)) with (d :: 0 :: ext_init r). rewrite fold_upd_ext_cons.
    + cbn [ext_rec]. rewrite fold_min_minl, fold_max_maxl. f_equal. f_equal. apply IH.
      intros q Hq. apply in_map_iff in Hq. destruct Hq as (p & <- & Hp). specialize (Hl p Hp). destruct p; cbn in *; lia.
    + intros p Hp E. specialize (Hl p Hp). subst p. cbn in Hl. lia.
Qed.

(* the specification formula, axis by axis *)
Definition spec_form (sh : list Z) (ps : list (list Z)) : list Z :=
  flat_map (fun j => [minl (nthZ 0 sh j) (map (fun p => nthZ 0 p j) ps); maxl 0 (map (fun p => nthZ 0 p j + 1) ps)])
           (Zseq 0 (length sh)).

Lemma Zseq_succ a k : Zseq (a + 1) k = map (fun j => j + 1) (Zseq a k).
Proof. revert a. induction k as [|k IH]; intro a; [reflexivity|]. cbn [Zseq map]. rewrite IH. reflexivity. Qed.

Lemma nthZ_succ {A} (d : A) x l j : 0 <= j -> nthZ d (x :: l) (j + 1) = nthZ d l j.
Proof.
  intro Hj. unfold nthZ. destruct (j + 1 <? 0) eqn:E1; [lia|]. destruct (j <? 0) eqn:E2; [lia|].
  replace (Z.to_nat (j + 1)) with (S (Z.to_nat j)) by lia. reflexivity.
Qed.
Lemma nthZ_tl (p : list Z) j : 0 <= j -> nthZ 0 p (j + 1) = nthZ 0 (tl p) j.
Proof. intro Hj. destruct p as [|a q]; [unfold nthZ; destruct (j + 1 <? 0); destruct (j <? 0); try reflexivity; destruct (Z.to_nat (j + 1)); destruct (Z.to_nat j); reflexivity | apply nthZ_succ; exact Hj]. Qed.

Lemma flat_map_map' {A B C} (g : A -> B) (h : B -> list C) l : flat_map h (map g l) = flat_map (fun x => h (g x)) l.
Proof. induction l as [|x l IH]; [reflexivity|]. cbn [map flat_map]. rewrite IH. reflexivity. Qed.

Lemma flat_map_ext_in' {A B} (g h : A -> list B) l : (forall x, In x l -> g x = h x) -> flat_map g l = flat_map h l.
Proof. induction l as [|x l IH]; intro E; [reflexivity|]. cbn [flat_map]. rewrite (E x (or_introl eq_refl)), IH; [reflexivity | intros y Hy; apply E; right; exact Hy]. Qed.

Lemma ext_rec_spec_form : forall sh ps, ext_rec sh ps = spec_form sh ps.
Proof.
  induction sh as [|d r IH]; intro ps; [reflexivity|].
  unfold spec_form. cbn [length Zseq flat_map ext_rec app]. rewrite IH. unfold spec_form.
  f_equal. f_equal.
  change (0 + 1) with 1. rewrite (Zseq_succ 0). rewrite flat_map_map'.
  apply flat_map_ext_in'. intros j Hj. apply in_Zseq in Hj.
  rewrite nthZ_succ by lia. rewrite !map_map.
  f_equal; [f_equal | f_equal; f_equal]; apply map_ext; intro p; rewrite nthZ_tl by lia; reflexivity.
Qed.

Lemma fold_filter {A B} (g : B -> A -> B) (P : A -> bool) l b :
  fold_left (fun acc x => if P x then g acc x else acc) l b = fold_left g (filter P l) b.
Proof. revert b. induction l as [|x l IH]; intro b; [reflexivity|]. cbn [fold_left filter]. destruct (P x); [cbn [fold_left]|]; apply IH. Qed.

Lemma fold_left_ext' {A B} (g h : B -> A -> B) l b : (forall x y, g x y = h x y) -> fold_left g l b = fold_left h l b.
Proof. intro E. revert b. induction l as [|x l IH]; intro b; [reflexivity|]. cbn [fold_left]. rewrite E. apply IH. Qed.

Lemma bbox_scan_spec f : pos_shape (shape f) -> bbox_scan f = spec_form (shape f) (nz_positions f).
Proof.
  intro Ps. unfold bbox_scan, nz_positions.
  rewrite (fold_left_ext' _ (fun ext p => if negb (aget f p =? 0) then upd_ext ext p else ext)).
  - rewrite fold_filter. rewrite scan_is_ext_rec; [apply ext_rec_spec_form|].
    intros p Hp. apply filter_In in Hp. destruct Hp as [Hp _]. apply (in_all_positions _ _ Ps) in Hp.
    clear - Hp. revert p Hp. induction (shape f) as [|d r IH]; intros [|a q] H; cbn in *; try tauto. f_equal. apply IH. tauto.
  - intros ext p. destruct (aget f p =? 0); reflexivity.
Qed.

Lemma flat_map_const_len {A B C} (c : list C) (l1 : list A) (l2 : list B) : length l1 = length l2 ->
  flat_map (fun _ => c) l1 = flat_map (fun _ => c) l2.
Proof.
  revert l2. induction l1 as [|a l1 IH]; intros [|b l2] H; try discriminate; [reflexivity|].
  cbn [flat_map]. f_equal. apply IH. injection H as H. exact H.
Qed.
Lemma map_const_flat_map {A} (g : A -> Z * Z) (l : list A) :
  map (fun _ : Z => 0) (flat_map (fun j => [fst (g j); snd (g j)]) l) = flat_map (fun _ => [0; 0]) l.
Proof. induction l as [|a l IH]; [reflexivity|]. cbn [flat_map app map]. rewrite IH. reflexivity. Qed.

Lemma maxl_ge d l x : In x l -> x <= maxl d l.
Proof. unfold maxl. induction l as [|a l IH]; intros []; cbn [fold_right]; [subst; lia | specialize (IH H); lia]. Qed.

Theorem bbox_generic_is_spec f : pos_shape (shape f) -> bbox_generic f = bbox_spec f.
Proof.
  intro Ps. unfold bbox_generic, bbox_spec. cbv zeta. rewrite (bbox_scan_spec f Ps).
  fold (spec_form (shape f) (nz_positions f)).
  destruct (nz_positions f) as [|p0 ps] eqn:En.
  - (* empty image: extrema[1] is still 0 *)
    assert (Z1 : nthZ 0 (spec_form (shape f) []) 1 = 0).
    { unfold spec_form. destruct (shape f) as [|d r]; [reflexivity|]. cbn [length Zseq flat_map map app]. reflexivity. }
    rewrite Z1. cbn [Z.eqb]. unfold spec_form.
    rewrite (map_const_flat_map (fun j => (minl (nthZ 0 (shape f) j) (map (fun p : list Z => nthZ 0 p j) []), maxl 0 (map (fun p : list Z => nthZ 0 p j + 1) [])))).
    apply flat_map_const_len. apply Zseq_length.
  - fold (spec_form (shape f) (p0 :: ps)).
    assert (Hp0 : in_shape (shape f) p0).
    { assert (In p0 (nz_positions f)) by (rewrite En; left; reflexivity). unfold nz_positions in H. apply filter_In in H.
      apply (in_all_positions _ _ Ps). apply H. }
    destruct (shape f) as [|d r] eqn:Es.
    + reflexivity.
    + destruct p0 as [|a q]; [destruct Hp0|]. destruct Hp0 as [Ha _].
      assert (Z1 : nthZ 0 (spec_form (d :: r) ((a :: q) :: ps)) 1 <> 0).
      { assert (Eh : forall x y (l : list Z), nthZ 0 (x :: y :: l) 1 = y) by reflexivity.
        unfold spec_form. cbn [length Zseq flat_map app]. rewrite Eh.
        pose proof (maxl_ge 0 (map (fun p : list Z => nthZ 0 p 0 + 1) ((a :: q) :: ps)) (a + 1)) as M.
        assert (In (a + 1) (map (fun p : list Z => nthZ 0 p 0 + 1) ((a :: q) :: ps))) by (left; reflexivity).
        specialize (M H). lia. }
      destruct (nthZ 0 (spec_form (d :: r) ((a :: q) :: ps)) 1 =? 0) eqn:E; [apply Z.eqb_eq in E; contradiction | reflexivity].
Qed.
