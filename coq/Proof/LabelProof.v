(* C03: label() = connected components, numbered in scan order. *)
Require Import MV.Base.Prelude MV.Base.CInt MV.Base.Index MV.Base.BorderSpec MV.Base.Renumber.
Require Import MV.Gen.Scalar_gen MV.Model.Filter MV.Model.Label MV.Proof.Border MV.Proof.ConvProof MV.Proof.FiltersProof.

Lemma conn_incl E E' a b : (forall x, In x E -> In x E') -> conn E a b -> conn E' a b.
Proof.
  intros H C. induction C as [a|a b I|a b _ IH|a b c _ IH1 _ IH2].
  - apply conn_refl. - apply conn_edge; auto. - apply conn_sym; auto. - eapply conn_trans; eauto.
Qed.

Lemma conn_nil a b : conn [] a b -> a = b.
Proof. induction 1 as [a|a b I|a b _ IH|a b c _ IH1 _ IH2]; [reflexivity|destruct I|congruence|congruence]. Qed.

Section QF.
  Variable D : list Z.               (* the (binarised) image data *)
  Let N := Zlen D.
  Definition fg (a : Z) : Prop := 0 <= a < N /\ nthZ 0 D a <> 0.

  Record QInv (cls : list Z) (E : list (Z * Z)) : Prop := {
    q_len : Zlen cls = N;
    q_bg : forall a, 0 <= a < N -> (nthZ 0 cls a = -1 <-> nthZ 0 D a = 0);
    q_eq : forall a b, fg a -> fg b -> (nthZ 0 cls a = nthZ 0 cls b <-> conn E a b);
    q_fg : forall x y, In (x, y) E -> fg x /\ fg y
  }.

  Lemma nthZ_join cls i j a : 0 <= a < Zlen cls ->
    nthZ 0 (qf_join cls i j) a = if nthZ 0 cls a =? nthZ 0 cls i then nthZ 0 cls j else nthZ 0 cls a.
  Proof. intros Ha. unfold qf_join. now rewrite nthZ_map with (da := 0) by auto. Qed.

  Lemma QInv_join cls E i j : QInv cls E -> fg i -> fg j -> QInv (qf_join cls i j) ((i, j) :: E).
  Proof.
    intros [HL HB HE HF] Fi Fj.
    assert (Ci : nthZ 0 cls i <> -1) by (destruct Fi as [R Z]; rewrite HB by auto; exact Z).
    assert (Cj : nthZ 0 cls j <> -1) by (destruct Fj as [R Z]; rewrite HB by auto; exact Z).
    assert (NJ : forall a, 0 <= a < N -> nthZ 0 (qf_join cls i j) a =
                 if nthZ 0 cls a =? nthZ 0 cls i then nthZ 0 cls j else nthZ 0 cls a)
      by (intros; apply nthZ_join; lia).
    constructor.
    - unfold qf_join, Zlen in *. now rewrite map_length.
    - intros a Ha. rewrite NJ by auto. specialize (HB a Ha).
      destruct (nthZ 0 cls a =? nthZ 0 cls i) eqn:T; split; intros H.
      + congruence.
      + assert (nthZ 0 cls a = -1) by tauto. lia.
      + tauto.
      + tauto.
    - intros a b Fa Fb. pose proof Fa as [Ra _]. pose proof Fb as [Rb _]. rewrite !NJ by auto.
      assert (W : forall x y, conn E x y -> conn ((i, j) :: E) x y) by (intros; eapply conn_incl; [|eauto]; intros; simpl; auto).
      assert (EJ : conn ((i, j) :: E) i j) by (apply conn_edge; simpl; auto).
      split.
      + destruct (nthZ 0 cls a =? nthZ 0 cls i) eqn:Ta; destruct (nthZ 0 cls b =? nthZ 0 cls i) eqn:Tb; intros H.
        * apply W. apply HE; auto. lia.
        * assert (conn E a i) by (apply HE; auto; lia). assert (conn E j b) by (apply HE; auto).
          eapply conn_trans; [apply W; eauto|]. eapply conn_trans; [exact EJ|apply W; auto].
        * assert (conn E b i) by (apply HE; auto; lia). assert (conn E j a) by (apply HE; auto).
          apply conn_sym. eapply conn_trans; [apply W; eauto|]. eapply conn_trans; [exact EJ|apply W; auto].
        * apply W. apply HE; auto.
      + intros C.
        assert (P : a = b \/ (fg a /\ fg b /\ nthZ 0 (qf_join cls i j) a = nthZ 0 (qf_join cls i j) b)).
        { clear Fa Fb Ra Rb. induction C as [a|a b I|a b _ IH|a b c _ IH1 _ IH2].
          - left; reflexivity.
          - right. destruct I as [I|I].
            + apply pair_equal_spec in I. destruct I; subst a b. split; [exact Fi|split; [exact Fj|]].
              rewrite !NJ by (destruct Fi, Fj; auto). rewrite Z.eqb_refl.
              destruct (nthZ 0 cls j =? nthZ 0 cls i); reflexivity.
            + destruct (HF _ _ I) as [Fa Fb]. split; [exact Fa|split; [exact Fb|]].
              assert (nthZ 0 cls a = nthZ 0 cls b) by (apply HE; auto; now apply conn_edge).
              rewrite !NJ by (destruct Fa, Fb; auto). rewrite H. reflexivity.
          - destruct IH as [->|(?&?&?)]; [left; reflexivity|right; split; [assumption|split; [assumption|congruence]]].
          - destruct IH1 as [->|(?&?&?)]; [exact IH2|]. destruct IH2 as [<-|(?&?&?)]; [right; split; [assumption|split; [assumption|congruence]]|].
            right. split; [assumption|split; [assumption|congruence]]. }
        destruct P as [->|(_&_&P)]; [reflexivity|]. rewrite !NJ in P by auto. exact P.
    - intros x y [I|I]; [apply pair_equal_spec in I; destruct I; subst; auto|eauto].
  Qed.

  Lemma QInv_fold l : forall cls E, QInv cls E -> (forall x y, In (x, y) l -> fg x /\ fg y) ->
    QInv (fold_left (fun c ij => qf_join c (fst ij) (snd ij)) l cls) (rev l ++ E).
  Proof.
    induction l as [|[i j] l IH]; intros cls E H Hl; [exact H|].
    cbn [fold_left fst snd rev]. rewrite <- app_assoc. cbn [app].
    apply IH; [|intros; apply Hl; simpl; auto].
    apply QInv_join; auto; apply (Hl i j); simpl; auto.
  Qed.
End QF.

Lemma nthZ_init f a : 0 <= a < Zlen (data f) ->
  nthZ 0 (init_classes f) a = if nthZ 0 (data f) a =? 0 then -1 else a.
Proof.
  intros Ha. unfold init_classes, Zlen in *.
  rewrite nthZ_map with (da := 0) by (unfold Zlen; rewrite Zseq_length; lia).
  rewrite nthZ_Zseq by lia. rewrite Z.add_0_l. reflexivity.
Qed.

Lemma QInv_init f : QInv (data f) (init_classes f) [].
Proof.
  constructor.
  - unfold init_classes, Zlen. now rewrite map_length, Zseq_length.
  - intros a Ha. rewrite nthZ_init by auto. destruct (nthZ 0 (data f) a =? 0) eqn:E; split; intros; lia.
  - intros a b [Ra Za] [Rb Zb]. rewrite !nthZ_init by auto.
    destruct (nthZ 0 (data f) a =? 0) eqn:Ea; [lia|]. destruct (nthZ 0 (data f) b =? 0) eqn:Eb; [lia|].
    split; [intros ->; apply conn_refl|apply conn_nil].
  - intros x y [].
Qed.

(* every join performed by the scan links two non-zero pixels *)
Definition wf_img (f : arr) : Prop := shape_ok (shape f) /\ Zlen (data f) = size (shape f).

Lemma shape_ok_pos sh : shape_ok sh -> pos_shape sh.
Proof. unfold shape_ok, pos_shape. intros H. eapply Forall_impl; [|exact H]. intros; simpl in *; lia. Qed.

Lemma border_pos_constant sh : forall pos q, length pos = length sh ->
  (border_pos M_constant sh pos = Some q <-> in_shape sh pos /\ q = pos).
Proof.
  induction sh as [|d r IH]; intros pos q L; destruct pos as [|p t]; simpl in L; try discriminate.
  - simpl. split; [intros H; apply some_inj in H; subst; auto|intros [_ ->]; reflexivity].
  - cbn [border_pos in_shape]. unfold border_map. cbn [Z.eqb M_constant M_nearest M_wrap M_reflect M_mirror].
    change (4 =? 0) with false. change (4 =? 1) with false. change (4 =? 2) with false. change (4 =? 3) with false. cbv iota.
    destruct ((0 <=? p) && (p <? d)) eqn:R.
    + destruct (border_pos M_constant r t) as [u|] eqn:B.
      * pose proof (proj1 (IH t u ltac:(lia)) B) as [I ->].
        split; [intros H; apply some_inj in H; subst; split; [split; [lia|auto]|reflexivity]|intros [_ ->]; reflexivity].
      * split; [discriminate|]. intros [[_ I] ->].
        pose proof (proj2 (IH t t ltac:(lia)) (conj I eq_refl)). congruence.
    + split; [discriminate|]. intros [[? _] _]. lia.
Qed.

Lemma psub_length a b : length b = length a -> length (psub a b) = length a.
Proof. revert b; induction a as [|x a IH]; destruct b; simpl; intros; try discriminate; auto. Qed.
Lemma padd_length a b : length b = length a -> length (padd a b) = length a.
Proof. revert b; induction a as [|x a IH]; destruct b; simpl; intros; try discriminate; auto. Qed.
Lemma in_shape_length sh p : in_shape sh p -> length p = length sh.
Proof. revert p; induction sh as [|d r IH]; destruct p; simpl; try tauto. intros [_ H]. f_equal; auto. Qed.
Lemma centre_length sh : length (centre sh) = length sh.
Proof. unfold centre. apply map_length. Qed.

Theorem label_pairs_adjacent f bc i j : wf_img f -> pos_shape (shape bc) -> length (shape bc) = length (shape f) ->
  (In (i, j) (label_pairs f bc) <-> adjacent f bc i j).
Proof.
  intros [Hs Hd] Pb Ln. pose proof (shape_ok_pos _ Hs) as Pf. unfold label_pairs, adjacent.
  rewrite in_flat_map. split.
  - intros [p [Hp H]]. apply in_all_positions in Hp; auto.
    destruct (aget f p =? 0) eqn:Zp; [destruct H|].
    apply in_flat_map in H. destruct H as [e [He H]].
    rewrite entries_true_filter, entries_false_all in He. apply filter_In in He. destruct He as [He Nz].
    apply in_map_iff in He. destruct He as [k [<- Hk]]. apply in_all_positions in Hk; auto. cbn [fst snd] in *.
    rewrite fixpos_border in H by (auto; unfold valid_mode, ExtendConstant; lia).
    change ExtendConstant with M_constant in H.
    destruct (border_pos M_constant (shape f) (padd p (psub k (centre (shape bc))))) as [q|] eqn:B; [|destruct H].
    apply border_pos_constant in B.
    2:{ rewrite padd_length; [now apply in_shape_length|]. rewrite psub_length; rewrite ?centre_length;
        rewrite (in_shape_length _ _ Hk), ?(in_shape_length _ _ Hp); auto. }
    destruct B as [Iq ->]. destruct (aget f (padd p (psub k (centre (shape bc)))) =? 0) eqn:Zq; [destruct H|].
    destruct H as [H|[]]. apply pair_equal_spec in H. destruct H as [<- <-].
    exists p, k. cbv zeta. repeat split; auto; lia.
  - intros (p & k & Hp & Hk & Nk & Iq & Np & Nq & -> & ->). cbv zeta in *.
    exists p. split; [apply in_all_positions; auto|].
    destruct (aget f p =? 0) eqn:Zp; [lia|]. apply in_flat_map.
    exists (psub k (centre (shape bc)), aget bc k). split.
    + rewrite entries_true_filter, entries_false_all. apply filter_In. split; [|cbn [snd]; destruct (aget bc k =? 0) eqn:T; [lia|reflexivity]].
      apply in_map_iff. exists k. split; [reflexivity|apply in_all_positions; auto].
    + cbn [fst]. rewrite fixpos_border by (auto; unfold valid_mode, ExtendConstant; lia). change ExtendConstant with M_constant.
      assert (B : border_pos M_constant (shape f) (padd p (psub k (centre (shape bc)))) = Some (padd p (psub k (centre (shape bc))))).
      { apply border_pos_constant; [|split; auto].
        rewrite padd_length; [now apply in_shape_length|]. rewrite psub_length; rewrite ?centre_length;
        rewrite (in_shape_length _ _ Hk), ?(in_shape_length _ _ Hp); auto. }
      rewrite B. destruct (aget f (padd p (psub k (centre (shape bc)))) =? 0) eqn:Zq; [lia|]. left; reflexivity.
Qed.

Lemma label_pairs_fg f bc x y : wf_img f -> In (x, y) (label_pairs f bc) -> fg (data f) x /\ fg (data f) y.
Proof.
  intros [Hs Hd] H. pose proof (shape_ok_pos _ Hs) as Pf. unfold label_pairs in H.
  apply in_flat_map in H. destruct H as [p [Hp H]]. apply in_all_positions in Hp; auto.
  destruct (aget f p =? 0) eqn:Zp; [destruct H|].
  apply in_flat_map in H. destruct H as [e [He H]].
  destruct (fixpos ExtendConstant (shape f) (padd p (fst e))) as [q|] eqn:B; [|destruct H].
  destruct (aget f q =? 0) eqn:Zq; [destruct H|]. destruct H as [H|[]]. apply pair_equal_spec in H. destruct H as [<- <-].
  unfold fg, aget in *. pose proof (ravel_bound _ _ Pf Hp).
  split; [split; [lia|lia]|].
  (* q: in range because its value is non-zero and data has exactly size elements *)
  split; [|lia].
  destruct (Z_lt_ge_dec (ravel (shape f) q) 0) as [L|L].
  { unfold nthZ in Zq. destruct (ravel (shape f) q <? 0) eqn:T; lia. }
  destruct (Z_lt_ge_dec (ravel (shape f) q) (Zlen (data f))) as [U|U]; [lia|].
  exfalso. unfold nthZ, Zlen in *. destruct (ravel (shape f) q <? 0) eqn:T; [lia|].
  rewrite nth_overflow in Zq by lia. lia.
Qed.

Lemma nthZ_nat (l : list Z) a : 0 <= a -> nthZ 0 l a = nth (Z.to_nat a) l 0.
Proof. intros. unfold nthZ. destruct (a <? 0) eqn:E; [lia|reflexivity]. Qed.

Section Main.
  Variables f bc : arr.
  Hypothesis Wf : wf_img f.
  Let out := fst (label f bc).
  Let cls := label_classes f bc.
  Let N := Zlen (data f).

  Lemma cls_inv : QInv (data f) cls (rev (label_pairs f bc) ++ []).
  Proof. apply QInv_fold; [apply QInv_init|]. intros x y H. now apply label_pairs_fg with (bc := bc). Qed.

  Lemma cls_len : length cls = length (data f).
  Proof. pose proof (q_len _ _ _ cls_inv) as H. unfold Zlen in H. lia. Qed.

  (* 0 exactly where the input is 0 *)
  Theorem label_zero_iff a : 0 <= a < N -> (nthZ 0 out a = 0 <-> nthZ 0 (data f) a = 0).
  Proof.
    intros Ha. unfold out, label. rewrite nthZ_nat by lia. fold cls.
    rewrite renumber_zero_iff by (rewrite cls_len; unfold N, Zlen in Ha; lia).
    rewrite <- nthZ_nat by lia. apply (q_bg _ _ _ cls_inv). exact Ha.
  Qed.

  (* two non-zero pixels get the same label exactly when a chain of joins (= adjacencies) links them *)
  Theorem label_same_iff_connected a b : 0 <= a < N -> 0 <= b < N ->
    nthZ 0 (data f) a <> 0 -> nthZ 0 (data f) b <> 0 ->
    (nthZ 0 out a = nthZ 0 out b <-> conn (label_pairs f bc) a b).
  Proof.
    intros Ha Hb Za Zb. unfold out, label. rewrite !nthZ_nat by lia. fold cls.
    rewrite renumber_same_iff by (rewrite cls_len; unfold N, Zlen in *; lia).
    rewrite <- !nthZ_nat by lia.
    rewrite (q_eq _ _ _ cls_inv a b) by (split; auto).
    split; apply conn_incl; intros x; rewrite app_nil_r, <- in_rev; auto.
  Qed.

  (* labels are 1..n in order of first appearance in C scan order; the count is n *)
  Theorem label_numbering :
    (forall i, (i < length (data f))%nat -> 0 <= nth i out 0 <= snd (label f bc)) /\
    (forall n, 1 <= n <= snd (label f bc) -> In n out) /\
    (forall i, (i < length (data f))%nat -> nth i out 0 <= 1 + maxl 0 (firstn i out)).
  Proof.
    unfold out, label. fold cls. rewrite <- cls_len. split; [|split].
    - intros i Hi. now apply renumber_range.
    - apply renumber_all_labels_used.
    - intros i Hi. now apply renumber_scan_order.
  Qed.
End Main.

Example label_examples :
  label {| shape := [3; 4]; data := [1;1;0;1; 0;0;0;1; 1;0;1;1] |} {| shape := [3; 3]; data := [0;1;0; 1;1;1; 0;1;0] |}
    = ([1;1;0;2; 0;0;0;2; 3;0;2;2], 3)
  (* a diagonal-only element does not link (0,0) and (0,1) through the border (no clamping) *)
  /\ label {| shape := [2; 3]; data := [1;1;0; 0;0;0] |} {| shape := [3; 3]; data := [0;0;1; 0;0;0; 0;0;0] |} = ([1;2;0; 0;0;0], 2).
Proof. vm_compute. split; reflexivity. Qed.
