(* C13: is_same_labeling (two insert-if-absent maps, as in _labeled.cpp) decides exactly "the two label maps are related by a
   bijection between their label sets that fixes 0" -- for all lists. *)
Require Import MV.Base.Prelude MV.Base.Renumber MV.Model.Labeled.

Definition rel (m : list (Z * Z)) (x y : Z) : Prop := assoc x m = Some y.
Definition minv (index rindex : list (Z * Z)) : Prop := forall x y, rel index x y <-> rel rindex y x.
(* a pair is consistent with a relation / a list of pairs is a partial bijection *)
Definition cons_with (R : Z -> Z -> Prop) (p : Z * Z) : Prop := forall x y, R x y -> (fst p = x <-> snd p = y).
Definition PB (l : list (Z * Z)) : Prop := forall p q, In p l -> In q l -> (fst p = fst q <-> snd p = snd q).

Lemma assoc_cons_same k v m : assoc k ((k, v) :: m) = Some v.
Proof. cbn [assoc]. rewrite Z.eqb_refl. reflexivity. Qed.
Lemma assoc_cons_other k k' v m : k' <> k -> assoc k ((k', v) :: m) = assoc k m.
Proof. intro H. cbn [assoc]. destruct (k' =? k) eqn:E; [apply Z.eqb_eq in E; congruence | reflexivity]. Qed.

(* the test performed on one pixel pair = consistency of the pair with what has been recorded *)
Lemma step_test index rindex x y : minv index rindex ->
  let index' := match assoc x index with Some _ => index | None => (x, y) :: index end in
  let rindex' := match assoc y rindex with Some _ => rindex | None => (y, x) :: rindex end in
  ((get x index' =? y) && (get y rindex' =? x) = true <-> cons_with (rel index) (x, y)) /\
  (cons_with (rel index) (x, y) -> minv index' rindex' /\ forall a b, rel index' a b <-> (rel index a b \/ (a = x /\ b = y))).
Proof.
  intros I. cbv zeta. unfold cons_with. cbn [fst snd].
  destruct (assoc x index) as [y0|] eqn:Fx; destruct (assoc y rindex) as [x1|] eqn:Gy.
  - (* both present *)
    unfold get. rewrite Fx, Gy. split.
    + rewrite andb_true_iff, !Z.eqb_eq. split.
      * intros [-> ->] a b R. unfold rel in R. split; intro E.
        -- subst a. congruence.
        -- subst b. apply I in R. unfold rel in R. congruence.
      * intros C. split.
        -- symmetry. apply (C x y0 Fx). reflexivity.
        -- assert (R1 : rel index x1 y) by (apply I; exact Gy). symmetry. apply (C x1 y R1). reflexivity.
    + intros C. split; [exact I|]. intros a b. split; [intro R; left; exact R|].
      intros [R|[-> ->]]; [exact R|]. unfold rel. rewrite Fx. f_equal. symmetry. apply (C x y0 Fx). reflexivity.
  - (* x known, y new: impossible to be consistent *)
    unfold get. rewrite Fx, assoc_cons_same. split.
    + rewrite andb_true_iff, !Z.eqb_eq. split.
      * intros [-> _]. exfalso. assert (R : rel rindex y x) by (apply I; exact Fx). unfold rel in R. congruence.
      * intros C. exfalso. assert (E : y = y0) by (apply (C x y0 Fx); reflexivity). subst y0.
        assert (R : rel rindex y x) by (apply I; exact Fx). unfold rel in R. congruence.
    + intros C. exfalso. assert (E : y = y0) by (apply (C x y0 Fx); reflexivity). subst y0.
      assert (R : rel rindex y x) by (apply I; exact Fx). unfold rel in R. congruence.
  - (* x new, y known: impossible *)
    unfold get. rewrite Gy, assoc_cons_same. assert (R1 : rel index x1 y) by (apply I; exact Gy). split.
    + rewrite andb_true_iff, !Z.eqb_eq. split.
      * intros [_ ->]. exfalso. unfold rel in R1. congruence.
      * intros C. exfalso. assert (E : x = x1) by (apply (C x1 y R1); reflexivity). subst x1. unfold rel in R1. congruence.
    + intros C. exfalso. assert (E : x = x1) by (apply (C x1 y R1); reflexivity). subst x1. unfold rel in R1. congruence.
  - (* both new *)
    unfold get. rewrite !assoc_cons_same, !Z.eqb_refl. split.
    + split; [|reflexivity]. intros _ a b R. unfold rel in R. split; intro E.
      * subst a. congruence.
      * subst b. apply I in R. unfold rel in R. congruence.
    + intros C. split.
      * intros a b. unfold rel. destruct (Z.eq_dec x a) as [->|Na]; destruct (Z.eq_dec y b) as [->|Nb].
        -- rewrite !assoc_cons_same. tauto.
        -- rewrite assoc_cons_same, (assoc_cons_other b y) by exact Nb. split; intro H.
           ++ congruence.
           ++ exfalso. apply I in H. unfold rel in H. congruence.
        -- rewrite (assoc_cons_other a x) by exact Na. rewrite assoc_cons_same. split; intro H.
           ++ exfalso. apply I in H. unfold rel in H. congruence.
           ++ congruence.
        -- rewrite (assoc_cons_other a x), (assoc_cons_other b y) by assumption. apply I.
      * intros a b. unfold rel. destruct (Z.eq_dec x a) as [->|Na].
        -- rewrite assoc_cons_same. split; [intro H; right; split; congruence | intros [H|[_ ->]]; [congruence | reflexivity]].
        -- rewrite (assoc_cons_other a x) by exact Na. split; [intro H; left; exact H | intros [H|[-> _]]; [exact H | congruence]].
Qed.

Lemma same_go_spec : forall a b index rindex, minv index rindex ->
  (same_go index rindex a b = true <->
   (forall p, In p (combine a b) -> cons_with (rel index) p) /\ PB (combine a b)).
Proof.
  induction a as [|x a IH]; intros b index rindex I.
  - cbn [same_go combine]. split; [intros _; split; [intros p []| intros p q []] | reflexivity].
  - destruct b as [|y b].
    + cbn [same_go combine]. split; [intros _; split; [intros p []| intros p q []] | reflexivity].
    + cbn [same_go combine].
      destruct (step_test index rindex x y I) as [T K]. cbv zeta in T, K.
      set (index' := match assoc x index with Some _ => index | None => (x, y) :: index end) in *.
      set (rindex' := match assoc y rindex with Some _ => rindex | None => (y, x) :: rindex end) in *.
      destruct ((get x index' =? y) && (get y rindex' =? x)) eqn:Tst.
      * assert (C : cons_with (rel index) (x, y)) by (apply T; reflexivity).
        destruct (K C) as [I' R']. rewrite (IH b index' rindex' I'). split.
        -- intros [A B]. split.
           ++ intros p [<-|Hp]; [exact C|]. intros u v Ruv. apply (A p Hp). apply R'. left. exact Ruv.
           ++ intros p q [<-|Hp] [<-|Hq].
              ** tauto.
              ** cbn [fst snd]. assert (Q : fst q = x <-> snd q = y) by (apply (A q Hq); apply R'; right; split; reflexivity).
                 split; intro E; symmetry; apply Q; symmetry; exact E.
              ** cbn [fst snd]. apply (A p Hp). apply R'. right. split; reflexivity.
              ** apply B; assumption.
        -- intros [A B]. split.
           ++ intros p Hp u v Ruv. apply R' in Ruv. destruct Ruv as [Ruv|[-> ->]].
              ** apply (A p (or_intror Hp)). exact Ruv.
              ** apply (B p (x, y) (or_intror Hp) (or_introl eq_refl)).
           ++ intros p q Hp Hq. apply B; right; assumption.
      * split; [discriminate|]. intros [A _]. exfalso.
        assert (C : cons_with (rel index) (x, y)) by (apply A; left; reflexivity).
        apply T in C. congruence.
Qed.

Lemma rel_init x y : rel [(0, 0)] x y <-> x = 0 /\ y = 0.
Proof.
  unfold rel. cbn [assoc]. destruct (0 =? x) eqn:A; [apply Z.eqb_eq in A | apply Z.eqb_neq in A].
  - split; [intro H; injection H as H; lia | intros [_ ->]; reflexivity].
  - split; [discriminate | lia].
Qed.
Lemma minv_init : minv [(0, 0)] [(0, 0)].
Proof. intros x y. rewrite !rel_init. tauto. Qed.

(* the relational specification: pairs (a[i], b[i]) form a partial bijection, and 0 is paired exactly with 0 *)
Definition same_labeling_rel (a b : list Z) : Prop :=
  PB (combine a b) /\ forall p, In p (combine a b) -> (fst p = 0 <-> snd p = 0).

Theorem is_same_labeling_correct a b : is_same_labeling a b = true <-> same_labeling_rel a b.
Proof.
  unfold is_same_labeling, same_labeling_rel. rewrite (same_go_spec a b _ _ minv_init). split.
  - intros [A B]. split; [exact B|]. intros p Hp. apply (A p Hp 0 0). apply rel_init. split; reflexivity.
  - intros [B A]. split; [|exact B]. intros p Hp x y R. apply rel_init in R. destruct R as [-> ->]. apply A. exact Hp.
Qed.

(* the executable specification used by the check says the same *)
Theorem same_labeling_spec_correct a b : same_labeling_spec a b = true <-> same_labeling_rel a b.
Proof.
  unfold same_labeling_spec, same_labeling_rel. rewrite forallb_forall. split.
  - intros H. split.
    + intros p q Hp Hq. specialize (H (p, q) (proj2 (in_prod_iff _ _ p q) (conj Hp Hq))).
      destruct p as [x y], q as [x' y']. cbn [fst snd] in *. apply andb_true_iff in H. destruct H as [H _].
      apply eqb_prop in H. split; intro E.
      * apply Z.eqb_eq. rewrite <- H. apply Z.eqb_eq. exact E.
      * apply Z.eqb_eq. rewrite H. apply Z.eqb_eq. exact E.
    + intros p Hp. specialize (H (p, p) (proj2 (in_prod_iff _ _ p p) (conj Hp Hp))).
      destruct p as [x y]. cbn [fst snd] in *. apply andb_true_iff in H. destruct H as [_ H].
      apply eqb_prop in H. split; intro E.
      * apply Z.eqb_eq. rewrite <- H. apply Z.eqb_eq. exact E.
      * apply Z.eqb_eq. rewrite H. apply Z.eqb_eq. exact E.
  - intros [B A] [[x y] [x' y']] Hin. apply in_prod_iff in Hin. destruct Hin as [Hp Hq]. cbn [fst snd].
    apply andb_true_iff. split.
    + pose proof (B _ _ Hp Hq) as E. cbn [fst snd] in E.
      destruct (x =? x') eqn:E1; destruct (y =? y') eqn:E2; try reflexivity;
        try apply Z.eqb_eq in E1; try apply Z.eqb_eq in E2; try apply Z.eqb_neq in E1; try apply Z.eqb_neq in E2; exfalso; tauto.
    + pose proof (A _ Hp) as E. cbn [fst snd] in E.
      destruct (x =? 0) eqn:E1; destruct (y =? 0) eqn:E2; try reflexivity;
        try apply Z.eqb_eq in E1; try apply Z.eqb_eq in E2; try apply Z.eqb_neq in E1; try apply Z.eqb_neq in E2; exfalso; tauto.
Qed.

Theorem is_same_labeling_eq_spec a b : is_same_labeling a b = same_labeling_spec a b.
Proof.
  destruct (is_same_labeling a b) eqn:E1; destruct (same_labeling_spec a b) eqn:E2; try reflexivity.
  - apply is_same_labeling_correct in E1. apply same_labeling_spec_correct in E1. congruence.
  - apply same_labeling_spec_correct in E2. apply is_same_labeling_correct in E2. congruence.
Qed.
