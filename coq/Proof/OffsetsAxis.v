(* The offsets table, one axis: closed forms of the region positions and of the iterator's region index, and the key
   fact that the row stored for the region of pixel p holds, entry by entry, what a direct computation at p gives. *)
Require Import MV.Base.Prelude MV.Base.CInt MV.Base.Index MV.Base.BorderSpec MV.Gen.Scalar_gen MV.Gen.Offsets_gen
  MV.Model.OffsetsTable MV.Proof.Border.

(* lengths are positive; an axis is shorter than the flag value 2^63-1 (npy_intp's maximum) *)
Definition axis_ok (x : axis) : Prop := 1 <= alen x /\ 1 <= flen x /\ alen x < border_flag_value.

(* position of the i-th region along the axis; region of pixel p *)
Definition rpos (x : axis) (i : Z) : Z := if i <=? forg x then i else i + Z.max 0 (alen x - flen x).
Definition ridx (x : axis) (p : Z) : Z :=
  Z.min p (forg x) + Z.max 0 (p - Z.max (forg x) (alen x - flen x + forg x)).

Lemma forg_range x : axis_ok x -> 0 <= forg x < flen x /\ 2 * forg x <= flen x.
Proof. unfold axis_ok, forg, gen_forigin. intros [_ [H _]]. split; [split|]; lia. Qed.

Lemma nreg_eq x : nreg x = Z.min (alen x) (flen x).
Proof. unfold nreg, gen_nregions. destruct (alen x <? flen x) eqn:E; lia. Qed.

Lemma rpos_0 x : axis_ok x -> rpos x 0 = 0.
Proof. intros H. pose proof (forg_range x H). unfold rpos. destruct (0 <=? forg x) eqn:E; lia. Qed.

Lemma rpos_range x i : axis_ok x -> 0 <= i < nreg x -> 0 <= rpos x i < alen x.
Proof.
  intros H Hi. pose proof (forg_range x H). rewrite nreg_eq in Hi. unfold rpos.
  destruct (i <=? forg x) eqn:E; lia.
Qed.

(* stepping from region i to region i+1; leaving the axis after the last region *)
Lemma next_region_rpos x i : axis_ok x -> 0 <= i -> i + 1 < nreg x ->
  gen_next_region (rpos x i) (forg x) (alen x) (flen x) = rpos x (i + 1).
Proof.
  intros H Hi Hn. pose proof (forg_range x H). rewrite nreg_eq in Hn. unfold gen_next_region, rpos. cbv zeta.
  destruct (i <=? forg x) eqn:E1; destruct (i + 1 <=? forg x) eqn:E2; try lia.
  - destruct (i =? forg x) eqn:E3; [lia|]. reflexivity.
  - destruct (i =? forg x) eqn:E3; [|lia].
    destruct (i + (alen x - flen x + 1) <=? forg x) eqn:E4; lia.
  - destruct (i + Z.max 0 (alen x - flen x) =? forg x) eqn:E3; [lia|]. lia.
Qed.

Lemma next_region_last x : axis_ok x ->
  alen x <= gen_next_region (rpos x (nreg x - 1)) (forg x) (alen x) (flen x).
Proof.
  intros H. pose proof (forg_range x H). rewrite nreg_eq. unfold gen_next_region, rpos. cbv zeta.
  destruct (Z.min (alen x) (flen x) - 1 <=? forg x) eqn:E1.
  - destruct (Z.min (alen x) (flen x) - 1 =? forg x) eqn:E3.
    + destruct (Z.min (alen x) (flen x) - 1 + (alen x - flen x + 1) <=? forg x) eqn:E4; lia.
    + lia.
  - destruct (Z.min (alen x) (flen x) - 1 + Z.max 0 (alen x - flen x) =? forg x) eqn:E3; lia.
Qed.

(* the iterator's region index *)
Lemma ridx_0 x : axis_ok x -> ridx x 0 = 0.
Proof. intros H. pose proof (forg_range x H). unfold ridx. lia. Qed.

Lemma ridx_last x : axis_ok x -> ridx x (alen x - 1) = nreg x - 1.
Proof. intros H. pose proof (forg_range x H). destruct H as [? [? ?]]. rewrite nreg_eq. unfold ridx. lia. Qed.

Lemma ridx_range x p : axis_ok x -> 0 <= p < alen x -> 0 <= ridx x p < nreg x.
Proof. intros H Hp. pose proof (forg_range x H). destruct H as [? [? ?]]. rewrite nreg_eq. unfold ridx. lia. Qed.

Lemma orgn_is_forg x : gen_it_orgn (flen x) = forg x.
Proof. reflexivity. Qed.

Lemma ridx_step x p : axis_ok x -> 0 <= p -> p < alen x - 1 ->
  ridx x (p + 1) = ridx x p + (if gen_ib_in_border p (it_minb x) (it_maxb x) then 1 else 0).
Proof.
  intros H Hp Hl. pose proof (forg_range x H). destruct H as [? [? ?]].
  unfold gen_ib_in_border, it_minb, it_maxb, gen_it_minbound, gen_it_maxbound. rewrite orgn_is_forg. unfold ridx.
  destruct ((p <? forg x) || (p >=? alen x - flen x + forg x)) eqn:E; lia.
Qed.

Lemma it_back_eq x s : it_back x s = (nreg x - 1) * s.
Proof. reflexivity. Qed.

Lemma it_step_next_eq x : gen_it_step_next (alen x) (flen x) = nreg x.
Proof. reflexivity. Qed.

(* the pixel's own region: either the pixel itself, or the interior region, in which every window lies inside the axis *)
Lemma rpos_ridx x p : axis_ok x -> 0 <= p < alen x ->
  rpos x (ridx x p) = p \/
  (rpos x (ridx x p) = forg x /\ forg x <= p <= alen x - flen x + forg x).
Proof.
  intros H Hp. pose proof (forg_range x H). destruct H as [? [? ?]]. unfold rpos, ridx.
  destruct (Z.min p (forg x) + Z.max 0 (p - Z.max (forg x) (alen x - flen x + forg x)) <=? forg x) eqn:E; lia.
Qed.

(* KEY: the entry stored for the region of p is the entry computed at p *)
Theorem axis_off_region mode x p c : valid_mode mode -> axis_ok x -> 0 <= p < alen x -> 0 <= c < flen x ->
  axis_off mode x (rpos x (ridx x p)) c = axis_off mode x p c.
Proof.
  intros Hm H Hp Hc. destruct (rpos_ridx x p H Hp) as [E|[E Hi]]; [now rewrite E|].
  rewrite E. pose proof (forg_range x H). destruct H as [? [? HB]]. unfold axis_off, gen_cc. cbv zeta.
  rewrite !fix_offset_id_inside by (auto; lia).
  destruct (c - forg x + forg x =? border_flag_value) eqn:E1; destruct (c - forg x + p =? border_flag_value) eqn:E2;
    try lia. f_equal. lia.
Qed.
