(* Closing the loop between the two views of a neighbourhood access: the LOGICAL retrieve of Model/Filter.v, through which
   every kernel model (erode, dilate, extrema, label, borders, convolve, rank/mean filter, template_match, cooccurence)
   reads its samples, and the pointer arithmetic of the real filter_iterator (base pointer of the pixel + entry of the
   offsets table).  For a C-ordered array they read the same element, and flag the same accesses. *)
Require Import MV.Base.Prelude MV.Base.CInt MV.Base.Index MV.Base.BorderSpec MV.Gen.Scalar_gen MV.Gen.Offsets_gen
  MV.Model.Filter MV.Model.OffsetsTable MV.Proof.Border MV.Proof.ConvProof MV.Proof.OffsetsAxis MV.Proof.OffsetsProof.

(* the axes of a C-ordered array of shape sh under a filter of shape fsh, first axis first *)
Fixpoint be_axes (sh fsh : list Z) : list axis :=
  match sh, fsh with
  | d :: r, f :: fr => {| alen := d; flen := f; astr := size r |} :: be_axes r fr
  | _, _ => []
  end.

(* ---------- entry_sum does not depend on the order in which the axes are visited ---------- *)
Lemma entry_sum_app mode a1 : forall p1 c1 a2 p2 c2, length p1 = length a1 -> length c1 = length a1 ->
  entry_sum mode (a1 ++ a2) (p1 ++ p2) (c1 ++ c2)
  = match entry_sum mode a1 p1 c1, entry_sum mode a2 p2 c2 with Some s, Some t => Some (s + t) | _, _ => None end.
Proof.
  induction a1 as [|x r IH]; intros [|p ps] [|c cs] a2 p2 c2 H1 H2; simpl in *; try discriminate.
  - destruct (entry_sum mode a2 p2 c2); [f_equal; lia | reflexivity].
  - rewrite IH by lia.
    destruct (axis_off mode x p c); [|reflexivity].
    destruct (entry_sum mode r ps cs); [|reflexivity].
    destruct (entry_sum mode a2 p2 c2); [f_equal; lia | reflexivity].
Qed.

Lemma entry_sum_rev mode axes : forall pos coords, length pos = length axes -> length coords = length axes ->
  entry_sum mode (rev axes) (rev pos) (rev coords) = entry_sum mode axes pos coords.
Proof.
  induction axes as [|x r IH]; intros [|p ps] [|c cs] H1 H2; simpl in *; try discriminate; [reflexivity|].
  rewrite entry_sum_app by (rewrite !rev_length; lia). rewrite IH by lia. simpl.
  destruct (axis_off mode x p c); destruct (entry_sum mode r ps cs); try reflexivity. f_equal. lia.
Qed.

Lemma entry_rev mode axes pos coords : length pos = length axes -> length coords = length axes ->
  entry mode (rev axes) (rev pos) (rev coords) 0 = entry mode axes pos coords 0.
Proof. intros H1 H2. now rewrite !entry_char, entry_sum_rev. Qed.

(* ---------- first-axis-first: the mapped window position is the border position of Model/Filter.v ---------- *)
Lemma be_axes_length sh fsh : length fsh = length sh -> length (be_axes sh fsh) = length sh.
Proof. revert fsh; induction sh as [|d r IH]; intros [|f fr] H; simpl in *; try discriminate; auto. Qed.

Lemma be_axes_ok sh fsh : shape_ok sh -> Forall (fun f => 1 <= f) fsh -> axes_ok (be_axes sh fsh).
Proof.
  intros Hs; revert fsh; induction Hs as [|d r Hd Hr IH]; intros fsh Hf; simpl; [constructor|].
  destruct Hf as [|f fr Hf1 Hfr]; constructor; [|apply IH; auto].
  unfold axis_ok; simpl. lia.
Qed.

Lemma be_adims sh fsh : length fsh = length sh -> adims (be_axes sh fsh) = sh.
Proof. revert fsh; induction sh as [|d r IH]; intros [|f fr] H; simpl in *; try discriminate; auto. f_equal. apply IH; lia. Qed.

Lemma digits_in_shape pos sh : digits_in pos sh <-> in_shape sh pos.
Proof. revert sh; induction pos as [|p ps IH]; intros [|d r]; simpl; try tauto. rewrite IH. tauto. Qed.

Lemma mapped_border_pos mode sh : forall fsh p k, length fsh = length sh -> length p = length sh -> length k = length sh ->
  mapped mode (be_axes sh fsh) p k = border_pos mode sh (padd p (psub k (centre fsh))).
Proof.
  induction sh as [|d r IH]; intros [|f fr] [|p ps] [|k ks] H1 H2 H3; simpl in *; try discriminate; [reflexivity|].
  unfold forg, gen_forigin. simpl. replace (k - Z.quot f 2 + p) with (p + (k - Z.quot f 2)) by lia.
  rewrite IH by lia. reflexivity.
Qed.

Lemma addr_ravel sh : forall fsh q, length fsh = length sh -> length q = length sh ->
  addr (be_axes sh fsh) q = ravel sh q.
Proof.
  induction sh as [|d r IH]; intros [|f fr] [|q qs] H1 H2; simpl in *; try discriminate; [reflexivity|].
  rewrite IH by lia. lia.
Qed.

Lemma border_pos_in_shape mode sh : shape_ok sh -> forall pos q, length pos = length sh ->
  border_pos mode sh pos = Some q -> in_shape sh q.
Proof.
  induction 1 as [|d r Hd Hr IH]; intros [|p ps] q Hl E; simpl in *; try discriminate.
  - apply some_inj in E. subst q. exact I.
  - destruct (border_map mode p d) as [v|] eqn:B; [|discriminate].
    destruct (border_pos mode r ps) as [t|] eqn:M; [|discriminate].
    apply some_inj in E. subst q. split; [eapply border_map_range; eauto; lia | apply (IH ps t); auto; lia].
Qed.

Lemma in_shape_length sh pos : in_shape sh pos -> length pos = length sh.
Proof. revert pos; induction sh as [|d r IH]; intros [|p ps]; simpl; try tauto. intros [_ H]. f_equal. auto. Qed.

Lemma padd_psub_length (sh p k c : list Z) : length p = length sh -> length k = length sh -> length c = length sh ->
  length (padd p (psub k c)) = length sh.
Proof.
  revert p k c; induction sh as [|d r IH]; intros [|p ps] [|k ks] [|g gs] H1 H2 H3; simpl in *; try discriminate; auto.
Qed.

(* ---------- MAIN ---------- *)
Theorem retrieve_is_table_access mode f fsh p k :
  valid_mode mode -> shape_ok (shape f) -> size (shape f) < border_flag_value -> Forall (fun n => 1 <= n) fsh ->
  length fsh = length (shape f) -> in_shape (shape f) p -> in_shape fsh k ->
  let axes := rev (be_axes (shape f) fsh) in          (* last axis first, as the iterator keeps them *)
  let e := entry mode axes (rev p) (rev k) 0 in        (* the table entry for this pixel and filter coordinate *)
  retrieve mode f p (psub k (centre fsh))
  = if e =? border_flag_value then None else Some (nthZ 0 (data f) (ravel (shape f) p + e)).
Proof.
  intros Hm Hs Hsz Hf Hl Hp Hk. cbv zeta.
  pose proof (in_shape_length _ _ Hp) as Lp. pose proof (in_shape_length _ _ Hk) as Lk.
  assert (La : length (be_axes (shape f) fsh) = length (shape f)) by (apply be_axes_length; auto).
  rewrite entry_rev by lia.
  assert (Hax : axes_ok (be_axes (shape f) fsh)) by (apply be_axes_ok; auto).
  assert (Hd : digits_in p (adims (be_axes (shape f) fsh))) by (rewrite be_adims by auto; apply digits_in_shape; auto).
  rewrite entry_char, entry_sum_is_address by (auto; lia).
  rewrite mapped_border_pos by lia.
  unfold retrieve. rewrite fixpos_border by auto.
  destruct (border_pos mode (shape f) (padd p (psub k (centre fsh)))) as [q|] eqn:B.
  - assert (Hq : in_shape (shape f) q).
    { apply (border_pos_in_shape mode (shape f) Hs (padd p (psub k (centre fsh))) q); [|exact B].
      apply padd_psub_length; [lia | lia | unfold centre; rewrite map_length; lia]. }
    pose proof (in_shape_length _ _ Hq) as Lq.
    rewrite !addr_ravel by lia.
    assert (PS : pos_shape (shape f)).
    { clear -Hs. induction Hs; constructor; auto. lia. }
    pose proof (ravel_bound _ _ PS Hq). pose proof (ravel_bound _ _ PS Hp).
    destruct (0 + (ravel (shape f) q - ravel (shape f) p) =? border_flag_value) eqn:E; [lia|].
    unfold aget. f_equal. f_equal. lia.
  - now rewrite Z.eqb_refl.
Qed.

(* non-vacuity: a 3 x 4 image, a 3 x 3 filter, the top-right pixel, the bottom-right filter entry, reflect and constant mode *)
Example retrieve_table_example :
  let f := {| shape := [3; 4]; data := [10; 11; 12; 13; 20; 21; 22; 23; 30; 31; 32; 33] |} in
  let axes := rev (be_axes (shape f) [3; 3]) in
  (shape_ok (shape f) /\ size (shape f) < border_flag_value /\ in_shape (shape f) [0; 3] /\ in_shape [3; 3] [2; 2]) /\
  retrieve ExtendReflect f [0; 3] (psub [2; 2] (centre [3; 3])) = Some 23 /\
  entry ExtendReflect axes (rev [0; 3]) (rev [2; 2]) 0 = 4 /\
  nthZ 0 (data f) (ravel (shape f) [0; 3] + 4) = 23 /\
  retrieve ExtendConstant f [0; 3] (psub [2; 2] (centre [3; 3])) = None /\
  entry ExtendConstant axes (rev [0; 3]) (rev [2; 2]) 0 = border_flag_value.
Proof.
  cbv zeta. split.
  - repeat split; try (repeat constructor; cbn; unfold border_flag_value; lia); cbn; unfold border_flag_value; lia.
  - vm_compute. repeat split; reflexivity.
Qed.
