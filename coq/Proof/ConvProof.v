(* C06: the generic convolution model (GENERATED fix_offset, compressed kernel entries) equals
   the defining sum with the mathematical border rule, for all six modes and any dimension. *)
Require Import MV.Base.Prelude MV.Base.CInt MV.Base.Index MV.Base.BorderSpec.
Require Import MV.Gen.Scalar_gen MV.Model.Filter MV.Model.Convolve MV.Proof.BorderNearest MV.Proof.Border.

Definition shape_ok (sh : list Z) : Prop := Forall (fun n => 1 <= n < border_flag_value) sh.

Lemma border_map_range m cc len c : 1 <= len -> border_map m cc len = Some c -> 0 <= c < len.
Proof.
  intros Hl E.
  unfold border_map, clamp, reflect_spec, mirror_spec in E.
  repeat match type of E with
  | (if ?b then _ else _) = _ => destruct b eqn:?
  end; try discriminate; apply some_inj in E; subst c; cbv zeta;
  repeat match goal with |- context[if ?b then _ else _] => destruct b eqn:? end; lia.
Qed.

Lemma fixpos_border m sh pos : valid_mode m -> shape_ok sh -> fixpos m sh pos = border_pos m sh pos.
Proof.
  intros Hm H; revert pos; induction H as [|n r Hn Hr IH]; intros pos; simpl.
  - destruct pos; reflexivity.
  - destruct pos as [|p q]; [reflexivity|].
    rewrite fix_offset_spec by (auto; lia). unfold border_spec.
    destruct (border_map m p n) as [c|] eqn:E.
    + pose proof (border_map_range m p n c ltac:(lia) E).
      destruct (c =? border_flag_value) eqn:F; [lia|]. rewrite IH. reflexivity.
    + rewrite Z.eqb_refl. reflexivity.
Qed.

Lemma retrieve_sample m f p off : valid_mode m -> shape_ok (shape f) ->
  match retrieve m f p off with Some v => v | None => 0 end = sample m f (padd p off).
Proof. intros Hm Hs. unfold retrieve, sample. rewrite fixpos_border by auto. destruct (border_pos _ _ _); reflexivity. Qed.

Lemma fold_left_add_sum {A} (g : A -> Z) l acc :
  fold_left (fun a e => a + g e) l acc = acc + sumZ (map g l).
Proof. revert acc; induction l as [|x l IH]; intros acc; simpl; [lia|]. rewrite IH. lia. Qed.

Lemma sumZ_filter_zero {A} (g : A -> Z) (P : A -> bool) l :
  (forall e, In e l -> P e = false -> g e = 0) -> sumZ (map g (filter P l)) = sumZ (map g l).
Proof.
  induction l as [|a l IH]; intros H; simpl; [reflexivity|].
  destruct (P a) eqn:E; simpl.
  - rewrite IH; auto. intros; apply H; simpl; auto.
  - rewrite (H a) by (simpl; auto). rewrite IH by (intros; apply H; simpl; auto). lia.
Qed.

Lemma fold_left_ext {A B} (f g : A -> B -> A) l a : (forall x y, f x y = g x y) ->
  fold_left f l a = fold_left g l a.
Proof. intros H; revert a; induction l as [|y l IH]; intros a; simpl; [reflexivity|]. now rewrite H, IH. Qed.

Lemma entries_false_all w : entries false w =
  map (fun k => (psub k (centre (shape w)), aget w k)) (all_positions (shape w)).
Proof.
  unfold entries. simpl. induction (map _ _) as [|a l IH]; simpl; [reflexivity|]. now rewrite IH.
Qed.

Lemma entries_true_filter w : entries true w = filter (fun e => negb (snd e =? 0)) (entries false w).
Proof. rewrite entries_false_all. reflexivity. Qed.

(* C06 main theorem: every mode, every dimension, kernels of any shape (odd/even/oversized/with zeros) *)
Theorem conv_at_spec m f w p : valid_mode m -> shape_ok (shape f) ->
  conv_at m f w p = conv_spec m f w p.
Proof.
  intros Hm Hs. unfold conv_at, conv_spec.
  transitivity (sumZ (map (fun e => snd e * sample m f (padd p (fst e))) (entries true w))).
  - rewrite <- (Z.add_0_l (sumZ _)). rewrite <- fold_left_add_sum. apply fold_left_ext.
    intros acc e. rewrite <- retrieve_sample by auto. destruct (retrieve m f p (fst e)); lia.
  - rewrite entries_true_filter.
    rewrite sumZ_filter_zero.
    + rewrite entries_false_all, map_map. reflexivity.
    + intros e _ Hz. simpl in Hz. assert (snd e = 0) by lia. lia.
Qed.

Corollary convolve_generic_correct m f w : valid_mode m -> shape_ok (shape f) ->
  convolve_generic m f w = conv_spec_all m f w.
Proof. intros. unfold convolve_generic, conv_spec_all. apply map_ext. intros; now apply conv_at_spec. Qed.

Example conv_examples :
  convolve_generic M_reflect {| shape := [4]; data := [1; 2; 3; 4] |} {| shape := [3]; data := [1; 10; 100] |}
    = [211; 321; 432; 443]
  /\ convolve_generic M_constant {| shape := [4]; data := [1; 2; 3; 4] |} {| shape := [2]; data := [1; 10] |}
    = [10; 21; 32; 43].
Proof. vm_compute. split; reflexivity. Qed.
