(* C05: gvoronoi labels every pixel with the label of a NEAREST labelled pixel (squared Euclidean distance, any dimension):
   the origin carried through the separable passes is the position of a minimiser. *)
Require Import MV.Base.Prelude MV.Base.CInt MV.Base.Index MV.Model.Distance.
Require Import MV.Proof.LabeledProof MV.Proof.DistanceProof MV.Proof.EnvelopeProof MV.Proof.DistanceExact.

Notation PZ := (0, 0) (only parsing).
Definition nthP (l : list (Z * Z)) (i : Z) : Z * Z := nthZ (0, 0) l i.

(* ---------- list plumbing for lists of pairs ---------- *)
Lemma nthP_app_l (a b : list (Z * Z)) j : 0 <= j < Zlen a -> nthP (a ++ b) j = nthP a j.
Proof. intros H. unfold nthP, nthZ, Zlen in *. destruct (j <? 0) eqn:E; [lia|]. apply app_nth1. lia. Qed.
Lemma nthP_app_r (a b : list (Z * Z)) j : Zlen a <= j -> nthP (a ++ b) j = nthP b (j - Zlen a).
Proof.
  intros H. unfold nthP, nthZ, Zlen in *. destruct (j <? 0) eqn:E; [lia|]. destruct (j - Z.of_nat (length a) <? 0) eqn:F; [lia|].
  rewrite app_nth2 by lia. f_equal. lia.
Qed.

Lemma blocksP_gen (L : Z -> list (Z * Z)) sz : 0 <= sz -> forall n a,
  (forall i, a <= i < a + Z.of_nat n -> Zlen (L i) = sz) ->
  Zlen (flat_map L (Zseq a n)) = Z.of_nat n * sz /\
  forall i j, 0 <= i < Z.of_nat n -> 0 <= j < sz -> nthP (flat_map L (Zseq a n)) (i * sz + j) = nthP (L (a + i)) j.
Proof.
  intros Hsz. induction n as [|n IH]; intros a HL.
  - simpl. split; [unfold Zlen; simpl; lia|intros; lia].
  - cbn [Zseq flat_map]. assert (HL' : forall i, a + 1 <= i < a + 1 + Z.of_nat n -> Zlen (L i) = sz) by (intros; apply HL; lia).
    destruct (IH (a + 1) HL') as [I1 I2].
    assert (La : Zlen (L a) = sz) by (apply HL; lia).
    split; [rewrite Zlen_app, I1, La; lia|].
    intros i j Hi Hj. destruct (Z.eq_dec i 0) as [->|Ne].
    + rewrite nthP_app_l by lia. replace (a + 0) with a by lia. replace (0 * sz + j) with j by lia. reflexivity.
    + rewrite nthP_app_r by nia. rewrite La.
      replace (i * sz + j - sz) with ((i - 1) * sz + j) by lia.
      rewrite I2 by lia. replace (a + 1 + (i - 1)) with (a + i) by lia. reflexivity.
Qed.

Lemma blocksP (L : Z -> list (Z * Z)) n sz : 0 <= sz -> 0 <= n -> (forall i, 0 <= i < n -> Zlen (L i) = sz) ->
  Zlen (flat_map L (Zseq 0 (Z.to_nat n))) = n * sz /\
  forall i j, 0 <= i < n -> 0 <= j < sz -> nthP (flat_map L (Zseq 0 (Z.to_nat n))) (i * sz + j) = nthP (L i) j.
Proof.
  intros Hs Hn HL. assert (HL' : forall i, 0 <= i < 0 + Z.of_nat (Z.to_nat n) -> Zlen (L i) = sz) by (intros; apply HL; lia).
  destruct (blocksP_gen L sz Hs (Z.to_nat n) 0 HL') as [A B].
  split; [rewrite A; lia|]. intros i j Hi Hj. rewrite B by lia. replace (0 + i) with i by lia. reflexivity.
Qed.

Lemma nthP_map_Zseq (F : Z -> Z * Z) n j : 0 <= j < n -> nthP (map F (Zseq 0 (Z.to_nat n))) j = F j.
Proof.
  intros H. unfold nthP. rewrite nthZ_map with (da := 0) by (unfold Zlen; rewrite Zseq_length; lia).
  rewrite nthZ_Zseq by lia. f_equal.
Qed.

Lemma blockoP_spec sz i (g : list (Z * Z)) : 0 <= sz -> 0 <= i -> i * sz + sz <= Zlen g ->
  Zlen (blocko sz i g) = sz /\ forall j, 0 <= j < sz -> nthP (blocko sz i g) j = nthP g (i * sz + j).
Proof.
  intros Hs Hi Hg. unfold blocko, Zlen in *. split.
  - rewrite firstn_length, skipn_length. nia.
  - intros j Hj. unfold nthP, nthZ. destruct (j <? 0) eqn:E; [lia|]. destruct (i * sz + j <? 0) eqn:F; [nia|].
    rewrite nth_firstn_lt by lia. rewrite nth_skipn_add. f_equal. nia.
Qed.

(* ---------- one pass with origins ---------- *)
Lemma T1o_len l : Zlen (T1o l) = Zlen l.
Proof.
  unfold T1o, Zlen. rewrite map_length.
  destruct l as [|a l'] eqn:E; [reflexivity|]. rewrite <- E.
  assert (Hn : (1 <= length (map fst l))%nat) by (rewrite E; cbn; lia).
  destruct (dt1d_with_origin_spec (map fst l) Hn) as (outs & R1 & R2 & _). rewrite R1, R2, map_length. reflexivity.
Qed.

Lemma T1o_spec l q : 0 <= q < Zlen l ->
  exists p, 0 <= p < Zlen l /\
    fst (nthP (T1o l) q) = (q - p) * (q - p) + fst (nthP l p) /\ snd (nthP (T1o l) q) = snd (nthP l p) /\
    forall p', 0 <= p' < Zlen l -> fst (nthP (T1o l) q) <= (q - p') * (q - p') + fst (nthP l p').
Proof.
  intros Hq. set (f := map fst l).
  assert (Lf : length f = length l) by (unfold f; apply map_length).
  assert (Hn : (1 <= length f)%nat) by (unfold Zlen in Hq; lia).
  destruct (dt1d_with_origin_spec f Hn) as (outs & R1 & R2 & R3).
  assert (Hi : (Z.to_nat q < length f)%nat) by (unfold Zlen in Hq; lia).
  specialize (R3 (Z.to_nat q) Hi). rewrite Z2Nat.id in R3 by lia.
  assert (Ff : forall p, 0 <= p < Zlen l -> nthZ 0 f p = fst (nthP l p)).
  { intros p Hp. unfold f, nthP, nthZ. destruct (p <? 0) eqn:A; [lia|]. change 0 with (fst (0, 0)) at 1. apply map_nth. }
  unfold T1o. fold f. rewrite R1.
  assert (E : nthP (map (fun dv => (fst dv, snd (nthZ (0, 0) l (snd dv)))) outs) q =
              (fst (nth (Z.to_nat q) outs (0, 0)), snd (nthZ (0, 0) l (snd (nth (Z.to_nat q) outs (0, 0)))))).
  { unfold nthP, nthZ at 1. destruct (q <? 0) eqn:A; [lia|].
    rewrite nth_indep with (d' := (fun dv : Z * Z => (fst dv, snd (nthZ (0, 0) l (snd dv)))) (0, 0))
      by (rewrite map_length; lia).
    apply (map_nth (fun dv : Z * Z => (fst dv, snd (nthZ (0, 0) l (snd dv))))). }
  rewrite E. cbn [fst snd]. destruct R3 as (Rv & Rf & Rm). unfold n, P in *.
  set (vk := snd (nth (Z.to_nat q) outs (0, 0))) in *.
  assert (Hvk : 0 <= vk < Zlen l) by (unfold Zlen in *; lia).
  exists vk. split; [exact Hvk|]. split; [rewrite Rf, Ff by auto; reflexivity|]. split; [reflexivity|].
  intros p' Hp'. rewrite <- Ff by auto. apply Rm. unfold Zlen in *. lia.
Qed.

(* ---------- all axes ---------- *)
Definition optnd (sh : list Z) (dat : list (Z * Z)) (p : list Z) (r : Z * Z) : Prop :=
  exists q, in_shape sh q /\ fst r = sqdist p q + fst (nthP dat (ravel sh q)) /\ snd r = snd (nthP dat (ravel sh q)) /\
            forall q', in_shape sh q' -> fst r <= sqdist p q' + fst (nthP dat (ravel sh q')).

Theorem dt_ndo_exact sh : pos_shape sh -> forall dat, Zlen dat = size sh ->
  Zlen (dt_ndo sh dat) = size sh /\
  forall p, in_shape sh p -> optnd sh dat p (nthP (dt_ndo sh dat) (ravel sh p)).
Proof.
  induction 1 as [|d r Hd Hr IH]; intros dat Hlen.
  - cbn [dt_ndo size] in *. split; [exact Hlen|]. intros p Hp. destruct p; [|destruct Hp]. cbn [ravel].
    exists []. split; [exact I|]. cbn [ravel]. split; [unfold sqdist; simpl; lia|]. split; [reflexivity|].
    intros q' Hq'. destruct q'; [|destruct Hq']. cbn [ravel]. unfold sqdist; simpl; lia.
  - cbn [dt_ndo size] in *. set (sz := size r) in *.
    assert (Psz : 0 < sz) by (apply size_pos; exact Hr).
    set (g := pass_axis0o d sz dat).
    assert (LL : forall j, Zlen (line0o d sz dat j) = d) by (intros; unfold line0o; rewrite map_Zseq_len; lia).
    assert (NL : forall j i', 0 <= i' < d -> nthP (line0o d sz dat j) i' = nthP dat (i' * sz + j))
      by (intros; unfold line0o; now rewrite nthP_map_Zseq).
    destruct (blocksP (fun i => map (fun j => nthZ (0, 0) (T1o (line0o d sz dat j)) i) (Zseq 0 (Z.to_nat sz))) d sz) as [G1 G2];
      [lia|lia|intros; rewrite map_Zseq_len; lia|]. fold (pass_axis0o d sz dat) in G1, G2. fold g in G1, G2.
    assert (GV : forall i j, 0 <= i < d -> 0 <= j < sz -> nthP g (i * sz + j) = nthP (T1o (line0o d sz dat j)) i)
      by (intros; rewrite G2 by auto; now rewrite nthP_map_Zseq).
    assert (BK : forall i, 0 <= i < d -> Zlen (blocko sz i g) = sz /\ forall j, 0 <= j < sz -> nthP (blocko sz i g) j = nthP g (i * sz + j))
      by (intros; apply blockoP_spec; nia).
    destruct (blocksP (fun i => dt_ndo r (blocko sz i g)) d sz) as [R1 R2]; [lia|lia| |].
    { intros i Hi. destruct (BK i Hi) as [B1 _]. apply (IH (blocko sz i g) B1). }
    split; [rewrite R1; lia|].
    intros p Hp. destruct p as [|i p']; [destruct Hp|]. destruct Hp as [Hi Hp']. cbn [ravel]. fold sz.
    pose proof (ravel_bound r p' Hr Hp') as Rb. fold sz in Rb.
    rewrite R2 by auto. destruct (BK i Hi) as [B1 B2]. destruct (IH (blocko sz i g) B1) as [_ IHs].
    destruct (IHs p' Hp') as (q' & Hq' & Ev & Eo & Lo).
    pose proof (ravel_bound r q' Hr Hq') as Rq. fold sz in Rq.
    rewrite B2 in Ev, Eo by auto. rewrite GV in Ev, Eo by auto.
    destruct (T1o_spec (line0o d sz dat (ravel r q')) i ltac:(rewrite LL; lia)) as (i' & Hi' & Tv & To & Tl).
    rewrite LL in Hi'. rewrite NL in Tv, To by auto.
    exists (i' :: q'). split; [split; auto|]. rewrite sqdist_cons. cbn [ravel]. fold sz.
    split; [rewrite Ev, Tv; lia|]. split; [rewrite Eo, To; reflexivity|].
    intros q'' Hq''. destruct q'' as [|i'' q2]; [destruct Hq''|]. destruct Hq'' as [Hi'' Hq2].
    pose proof (ravel_bound r q2 Hr Hq2) as Rq2. fold sz in Rq2.
    rewrite sqdist_cons. cbn [ravel]. fold sz.
    specialize (Lo q2 Hq2). rewrite B2 in Lo by auto. rewrite GV in Lo by auto.
    destruct (T1o_spec (line0o d sz dat (ravel r q2)) i ltac:(rewrite LL; lia)) as (_ & _ & _ & _ & Tl2).
    specialize (Tl2 i'' ltac:(rewrite LL; lia)). rewrite NL in Tl2 by auto. lia.
Qed.

(* ---------- gvoronoi ---------- *)
Lemma nthP_combine (f : list Z) k : 0 <= k < Zlen f -> nthP (combine f (Zseq 0 (length f))) k = (nthZ 0 f k, k).
Proof.
  intros Hk. unfold nthP, nthZ, Zlen in *. destruct (k <? 0) eqn:E; [lia|].
  rewrite combine_nth by (rewrite Zseq_length; reflexivity). rewrite nth_Zseq by lia. f_equal. lia.
Qed.

Lemma sqdist_self p : sqdist p p = 0.
Proof.
  unfold sqdist. induction p as [|a p IH]; [reflexivity|]. cbn [combine map sumZ fold_right fst snd] in *. unfold sumZ in IH. rewrite IH. lia.
Qed.

Lemma sqdist_zero_eq sh : forall p q, in_shape sh p -> in_shape sh q -> sqdist p q = 0 -> p = q.
Proof.
  induction sh as [|d r IH]; intros p q Hp Hq Z0; destruct p as [|a p]; destruct q as [|b q];
    try (destruct Hp; fail); try (destruct Hq; fail); try reflexivity.
  destruct Hp as [_ Hp], Hq as [_ Hq]. rewrite sqdist_cons in Z0. pose proof (sqdist_nonneg p q).
  pose proof (Z.square_nonneg (a - b)) as SQ. assert (E0 : (a - b) * (a - b) = 0) by lia.
  assert (a = b) by nia. subst. f_equal. apply (IH p q Hp Hq). lia.
Qed.

Theorem gvoronoi_nearest_label lab : wf_arr lab -> (exists q0, in_shape (shape lab) q0 /\ aget lab q0 <> 0) ->
  forall p, in_shape (shape lab) p ->
  exists q, in_shape (shape lab) q /\ aget lab q <> 0 /\
            nthZ 0 (gvoronoi lab) (ravel (shape lab) p) = aget lab q /\
            forall q', in_shape (shape lab) q' -> aget lab q' <> 0 -> sqdist p q <= sqdist p q'.
Proof.
  intros [Ps Ld] [q0 [Hq0 L0]] p Hp. unfold gvoronoi.
  set (sh := shape lab) in *. set (inf := dist_inf sh).
  set (f := map (fun v => if v =? 0 then inf else 0) (data lab)).
  assert (Lf : Zlen f = size sh) by (unfold f, Zlen in *; rewrite map_length; exact Ld).
  set (dat := combine f (Zseq 0 (length f))).
  assert (Ldat : Zlen dat = size sh).
  { unfold dat, Zlen in *. rewrite combine_length, Zseq_length. lia. }
  assert (Df : forall q, in_shape sh q -> nthP dat (ravel sh q) = ((if aget lab q =? 0 then inf else 0), ravel sh q)).
  { intros q Hq. pose proof (ravel_bound sh q Ps Hq) as Rb. unfold dat. rewrite nthP_combine by lia. f_equal.
    unfold f. rewrite nthZ_map with (da := 0) by lia. reflexivity. }
  destruct (dt_ndo_exact sh Ps dat Ldat) as [Lo Ho]. destruct (Ho p Hp) as (q & Hq & Ev & Eo & Low).
  pose proof (ravel_bound sh p Ps Hp) as Rp.
  rewrite nthZ_map with (da := (0, 0)) by lia. fold (nthP (dt_ndo sh dat) (ravel sh p)).
  rewrite Df in Ev, Eo by auto. cbn [fst snd] in Ev, Eo.
  (* the minimiser is labelled: otherwise its cost would exceed that of q0 *)
  assert (Lq : aget lab q <> 0).
  { intros Z0. rewrite Z0 in Ev. cbn in Ev. specialize (Low q0 Hq0). rewrite Df in Low by auto. cbn [fst] in Low.
    destruct (aget lab q0 =? 0) eqn:E0; [lia|].
    destruct (sqdist_bound sh p q0 Hp Hq0) as [B _]. pose proof (sqdist_nonneg p q). unfold inf, dist_inf in *. lia. }
  exists q. split; [exact Hq|]. split; [exact Lq|]. split; [rewrite Eo; reflexivity|].
  intros q' Hq' Lq'. specialize (Low q' Hq'). rewrite Df in Low by auto. cbn [fst] in Low.
  destruct (aget lab q =? 0) eqn:E1; [lia|]. destruct (aget lab q' =? 0) eqn:E2; [lia|]. lia.
Qed.

(* labelled pixels keep their label *)
Corollary gvoronoi_keeps_labels lab : wf_arr lab -> forall p, in_shape (shape lab) p -> aget lab p <> 0 ->
  nthZ 0 (gvoronoi lab) (ravel (shape lab) p) = aget lab p.
Proof.
  intros W p Hp Lp. destruct (gvoronoi_nearest_label lab W (ex_intro _ p (conj Hp Lp)) p Hp) as (q & Hq & Lq & E & Low).
  specialize (Low p Hp Lp). rewrite sqdist_self in Low. pose proof (sqdist_nonneg p q).
  assert (Z0 : sqdist p q = 0) by lia.
  assert (p = q) by (apply (sqdist_zero_eq (shape lab)); auto).
  subst q. exact E.
Qed.

Example gvoronoi_example :
  gvoronoi {| shape := [2; 4]; data := [3; 0; 0; 0;  0; 0; 0; 5] |} = [3; 3; 5; 5;  3; 3; 5; 5].
Proof. vm_compute. reflexivity. Qed.
