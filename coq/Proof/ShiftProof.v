(* C18: an integer shift (order 1) is an exact translation, and the vacated pixels are filled by the border rule: 0 (cval) in the
   constant / ignore modes, the edge sample in nearest mode. *)
Require Import QArith Qabs Qround Lqa.
Require Import MV.Base.Prelude MV.Base.QHelp MV.Gen.Scalar_gen MV.Model.Interp MV.Proof.InterpProof.
Open Scope Q_scope.

Lemma nthZ_shift1 order mode dat s k : (0 <= k < Zlen dat)%Z ->
  nthZ 0 (shift1 order mode dat s) k = interp1 order mode dat (zq k - s).
Proof.
  intros Hk. unfold shift1. rewrite nthZ_map with (da := 0%Z) by (unfold Zlen in *; rewrite Zseq_length; lia).
  rewrite nthZ_Zseq by (unfold Zlen in Hk; lia). rewrite Z.add_0_l. reflexivity.
Qed.

Lemma zdiff k s : zq k - zq s == inject_Z (k - s).
Proof. unfold zq. unfold Qminus. rewrite <- inject_Z_opp, <- inject_Z_plus. reflexivity. Qed.

Lemma edge_inside len j : (0 <= j < len)%Z -> edge_index len j = j.
Proof.
  intros H. unfold edge_index. destruct (len <=? 1)%Z eqn:L; [lia|]. destruct (j <? 0)%Z eqn:A; [lia|].
  destruct (j >=? len)%Z eqn:B; [lia | reflexivity].
Qed.

(* source pixel inside the array: the sample, whatever the mode *)
Theorem shift_integer_inside mode dat s k : (0 <= k < Zlen dat)%Z -> (0 <= k - s < Zlen dat)%Z ->
  nthZ 0 (shift1 1 mode dat (zq s)) k == nthZ 0 dat (k - s)%Z.
Proof.
  intros Hk Hs. rewrite nthZ_shift1 by exact Hk. set (x := zq k - zq s).
  assert (Ex : x == inject_Z (k - s)) by apply zdiff.
  assert (H0 : 0 <= x) by (rewrite Ex; change 0 with (inject_Z 0); rewrite <- Zle_Qle; lia).
  assert (H1 : x <= inject_Z (Zlen dat - 1)) by (rewrite Ex; rewrite <- Zle_Qle; lia).
  rewrite (order1_is_linear_interpolation mode dat x H0 H1). cbv zeta.
  assert (Ef : Qfloor x = (k - s)%Z) by (rewrite (Qfloor_comp x (inject_Z (k - s)) Ex); apply Qfloor_Z).
  rewrite Ef. rewrite edge_inside by exact Hs. rewrite Ex. ring.
Qed.

(* source pixel outside: constant and ignore modes give cval = 0 *)
Theorem shift_integer_outside_constant mode dat s k : (0 <= k < Zlen dat)%Z -> (k - s < 0 \/ Zlen dat <= k - s)%Z ->
  mode = ExtendConstant \/ mode = ExtendIgnore ->
  nthZ 0 (shift1 1 mode dat (zq s)) k == 0.
Proof.
  intros Hk Hs Hm. rewrite nthZ_shift1 by exact Hk. set (x := zq k - zq s).
  assert (Ex : x == inject_Z (k - s)) by apply zdiff.
  unfold interp1, map_coordinate.
  destruct Hs as [Hs|Hs].
  - rewrite (qltb_t x 0) by (rewrite Ex; change 0 with (inject_Z 0); rewrite <- Zlt_Qlt; lia).
    destruct Hm as [-> | ->]; reflexivity.
  - rewrite (qltb_f x 0) by (rewrite Ex; change 0 with (inject_Z 0); rewrite <- Zle_Qle; lia).
    rewrite (qltb_t (zq (Zlen dat - 1)) x) by (rewrite Ex; unfold zq; rewrite <- Zlt_Qlt; lia).
    destruct Hm as [-> | ->]; reflexivity.
Qed.

(* source pixel outside: nearest mode replicates the edge sample *)
Theorem shift_integer_outside_nearest dat s k : (0 <= k < Zlen dat)%Z -> (k - s < 0 \/ Zlen dat <= k - s)%Z ->
  nthZ 0 (shift1 1 ExtendNearest dat (zq s)) k == nthZ 0 dat (if (k - s <? 0)%Z then 0 else Zlen dat - 1)%Z.
Proof.
  intros Hk Hs. rewrite nthZ_shift1 by exact Hk. set (x := zq k - zq s).
  assert (Ex : x == inject_Z (k - s)) by apply zdiff.
  assert (Lpos : (1 <= Zlen dat)%Z) by lia.
  destruct Hs as [Hs|Hs].
  - destruct (k - s <? 0)%Z eqn:B; [|lia].
    assert (M : map_coordinate ExtendNearest (Zlen dat) x = Some 0).
    { unfold map_coordinate. rewrite (qltb_t x 0) by (rewrite Ex; change 0 with (inject_Z 0); rewrite <- Zlt_Qlt; lia). reflexivity. }
    transitivity (interp1 1 ExtendNearest dat (inject_Z 0)).
    + unfold interp1. rewrite M. rewrite map_coordinate_inside; [reflexivity | apply Qle_refl | rewrite <- Zle_Qle; lia].
    + apply order1_at_integer_is_sample. lia.
  - destruct (k - s <? 0)%Z eqn:B; [lia|].
    assert (M : map_coordinate ExtendNearest (Zlen dat) x = Some (zq (Zlen dat - 1))).
    { unfold map_coordinate. rewrite (qltb_f x 0) by (rewrite Ex; change 0 with (inject_Z 0); rewrite <- Zle_Qle; lia).
      rewrite (qltb_t (zq (Zlen dat - 1)) x) by (rewrite Ex; unfold zq; rewrite <- Zlt_Qlt; lia). reflexivity. }
    transitivity (interp1 1 ExtendNearest dat (inject_Z (Zlen dat - 1))).
    + unfold interp1. rewrite M. unfold zq. rewrite map_coordinate_inside;
        [reflexivity | change 0 with (inject_Z 0); rewrite <- Zle_Qle; lia | apply Qle_refl].
    + apply order1_at_integer_is_sample. lia.
Qed.

Example shift_example :
  shift1 1 ExtendConstant [5; 7; 11; 13] (zq 1) = [0; 5; 7; 11] /\ shift1 1 ExtendNearest [5; 7; 11; 13] (zq (-2)) = [11; 13; 13; 13].
Proof. vm_compute. split; reflexivity. Qed.
