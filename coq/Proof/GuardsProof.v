(* C11: a call that passes the (re-translated) guards of a native entry point meets the preconditions its kernel relies on. *)
Require Import ZArith List Bool Lia String.
Require Import MV.Base.Desc MV.Gen.Guards_gen.
Import ListNotations.
Open Scope Z_scope.

Ltac guard_split H :=
  repeat match type of H with
         | (_ || _)%bool = false => let H1 := fresh "G" in let H2 := fresh "G" in
                                    apply orb_false_iff in H; destruct H as [H1 H2]; guard_split H1; guard_split H2
         | negb _ = false => apply negb_false_iff in H; guard_split H
         | (_ && _)%bool = true => let H1 := fresh "G" in let H2 := fresh "G" in
                                   apply andb_true_iff in H; destruct H as [H1 H2]; guard_split H1; guard_split H2
         | (_ =? _) = true => apply Z.eqb_eq in H
         | (_ <? _) = false => apply Z.ltb_ge in H
         | (_ <=? _) = false => apply Z.leb_gt in H
         | (_ >? _) = false => rewrite Z.gtb_ltb in H; apply Z.ltb_ge in H
         | shape_eqb _ _ = true => apply shape_eqb_eq in H
         end.

Lemma ndim_of_shape a b : d_shape a = d_shape b -> ndim a = ndim b.
Proof. unfold ndim. intros ->. reflexivity. Qed.

(* what the neighbourhood kernels need: arrays, output of the input's shape, one rank, one type class *)
Record nb_pre (array Bc output : desc) : Prop := {
  nb_arrays : d_arr array = true /\ d_arr Bc = true /\ d_arr output = true;
  nb_shape : d_shape array = d_shape output;
  nb_rank : ndim array = ndim Bc;
  nb_type : d_type array = d_type Bc }.

Theorem erode_guard array Bc output unk :
  rejects_py_erode array Bc output unk = false -> nb_pre array Bc output /\ d_type Bc = d_type output.
Proof. unfold rejects_py_erode. intro H. guard_split H. repeat split; assumption. Qed.
Theorem dilate_guard array Bc output unk :
  rejects_py_dilate array Bc output unk = false -> nb_pre array Bc output /\ d_type Bc = d_type output.
Proof. unfold rejects_py_dilate. intro H. guard_split H. repeat split; assumption. Qed.
Theorem locminmax_guard array Bc output m unk :
  rejects_py_locminmax array Bc output m unk = false -> nb_pre array Bc output /\ d_type output = 0 /\ d_carray output = true.
Proof. unfold rejects_py_locminmax. intro H. guard_split H. repeat split; assumption. Qed.
Theorem regminmax_guard array Bc output m unk :
  rejects_py_regminmax array Bc output m unk = false -> nb_pre array Bc output /\ d_type output = 0 /\ d_carray output = true.
Proof. unfold rejects_py_regminmax. intro H. guard_split H. repeat split; congruence. Qed.
Theorem hitmiss_guard array Bc res unk :
  rejects_py_hitmiss array Bc res unk = false ->
  nb_pre array Bc res /\ d_type Bc = d_type res /\ 1 <= ndim array /\ d_carray res = true.
Proof. unfold rejects_py_hitmiss. intro H. guard_split H. repeat split; assumption. Qed.
Theorem template_match_guard array t output mode je unk :
  rejects_py_template_match array t output mode je unk = false ->
  nb_pre array t output /\ d_type t = d_type output /\ d_carray output = true.
Proof. unfold rejects_py_template_match. intro H. guard_split H. repeat split; assumption. Qed.
Theorem rank_filter_guard array Bc output rank mode unk :
  rejects_py_rank_filter array Bc output rank mode unk = false ->
  ndim array = ndim Bc /\ d_type array = d_type Bc /\ d_type array = d_type output /\ d_carray output = true.
Proof. unfold rejects_py_rank_filter. intro H. guard_split H. repeat split; assumption. Qed.
Theorem convolve_guard array f output mode unk :
  rejects_py_convolve array f output mode unk = false -> ndim array = ndim f /\ d_type array = d_type f.
Proof. unfold rejects_py_convolve. intro H. guard_split H. split; assumption. Qed.
Theorem convolve1d_guard array f output mode unk :
  rejects_py_convolve1d array f output mode unk = false ->
  d_shape output = d_shape array /\ d_type output = d_type array /\ d_carray output = true.
Proof. unfold rejects_py_convolve1d. intro H. guard_split H. repeat split; assumption. Qed.

(* 2-D only kernels *)
Theorem find2d_guard array target output unk :
  rejects_py_find2d array target output unk = false ->
  ndim array = 2 /\ ndim target = 2 /\ d_shape output = d_shape array /\ d_type array = d_type target /\
  d_type output = 0 /\ d_carray output = true.
Proof. unfold rejects_py_find2d. intro H. guard_split H. repeat split; assumption. Qed.
Theorem majority_filter_guard array N res unk :
  rejects_py_majority_filter array N res unk = false ->
  ndim array = 2 /\ d_shape array = d_shape res /\ d_type array = 0 /\ d_type res = 0 /\ d_carray res = true.
Proof. unfold rejects_py_majority_filter. intro H. guard_split H. repeat split; assumption. Qed.
Theorem haar_guards a unk : (rejects_py_haar a unk = false -> ndim a = 2) /\ (rejects_py_ihaar a unk = false -> ndim a = 2).
Proof. split; [unfold rejects_py_haar | unfold rejects_py_ihaar]; intro H; guard_split H; assumption. Qed.
Theorem wavelet_guards a c unk :
  (rejects_py_wavelet a c unk = false -> ndim a = 2 /\ d_carray c = true) /\
  (rejects_py_iwavelet a c unk = false -> ndim a = 2 /\ d_carray c = true).
Proof. split; [unfold rejects_py_wavelet | unfold rejects_py_iwavelet]; intro H; guard_split H; split; assumption. Qed.
Theorem thin_guard a b n unk :
  rejects_py_thin a b n unk = false -> d_shape a = d_shape b /\ d_type a = 0 /\ d_type b = 0 /\ d_contig a = true /\ d_contig b = true.
Proof. unfold rejects_py_thin. intro H. guard_split H. repeat split; assumption. Qed.

(* labelled-array kernels read the label map at the positions of the data array *)
Theorem labeled_sum_guard a l o unk :
  rejects_py_labeled_sum a l o unk = false -> d_shape a = d_shape l /\ d_type l = 5 /\ d_carray o = true.
Proof. unfold rejects_py_labeled_sum. intro H. guard_split H. repeat split; assumption. Qed.
Theorem labeled_max_min_guard a l o m unk :
  rejects_py_labeled_max_min a l o m unk = false -> d_shape a = d_shape l /\ d_type l = 5 /\ d_carray o = true.
Proof. unfold rejects_py_labeled_max_min. intro H. guard_split H. repeat split; assumption. Qed.
Theorem is_same_labeling_guard a b unk :
  rejects_py_is_same_labeling a b unk = false -> d_shape a = d_shape b /\ d_carray a = true /\ d_carray b = true.
Proof. unfold rejects_py_is_same_labeling. intro H. guard_split H. repeat split; assumption. Qed.
Theorem center_of_mass_guard a l unk :
  rejects_py_center_of_mass a l unk = false -> d_none l = false -> d_shape a = d_shape l /\ d_arr l = true.
Proof.
  unfold rejects_py_center_of_mass. intros H N. rewrite N in H. cbn [negb andb] in H.
  guard_split H. split; assumption.
Qed.
Theorem borders_guards a f o m i j r unk :
  (rejects_py_borders a f o m unk = false -> d_shape a = d_shape o /\ d_type o = 0 /\ d_carray o = true) /\
  (rejects_py_border a f o i j r unk = false -> d_shape a = d_shape o /\ d_type o = 0 /\ d_carray o = true).
Proof. split; [unfold rejects_py_borders | unfold rejects_py_border]; intro H; guard_split H; repeat split; assumption. Qed.
Theorem bbox_labeled_guard a o unk :
  rejects_py_bbox_labeled a o unk = false -> 2 * ndim a <= dimZ o 0 /\ d_carray o = true.
Proof. unfold rejects_py_bbox_labeled. intro H. guard_split H. split; [lia | assumption]. Qed.

(* slic: the (h, w, 3) layout its kernel indexes, and a positive seed spacing (the seeding loop advances by S) *)
Theorem slic_guard a l S m it unk :
  rejects_py_slic a l S m it unk = false ->
  ndim a = 3 /\ ndim l = 2 /\ dimZ a 0 = dimZ l 0 /\ dimZ a 1 = dimZ l 1 /\ dimZ a 2 = 3 /\ 0 < S /\
  d_carray a = true /\ d_carray l = true.
Proof. unfold rejects_py_slic. intro H. guard_split H. repeat split; try assumption; lia. Qed.

(* distance transform: every axis length divides the size (the kernel computes size / n lines per axis) *)
Lemma size_nonzero_axes sh : fold_right Z.mul 1 sh <> 0 -> Forall (fun n => n <> 0) sh.
Proof.
  induction sh as [|n sh IH]; cbn [fold_right]; intro H; constructor.
  - intro E. apply H. rewrite E. reflexivity.
  - apply IH. intro E. apply H. rewrite E. apply Z.mul_0_r.
Qed.
Theorem dt_guard f orig unk :
  rejects_py_dt f orig unk = false -> 1 <= ndim f /\ Forall (fun n => n <> 0) (d_shape f).
Proof.
  unfold rejects_py_dt. intro H. guard_split H. split; [assumption|].
  apply size_nonzero_axes.
  match goal with G : (sizeZ f =? 0) = false |- _ => apply Z.eqb_neq in G; exact G end.
Qed.

(* the guards are not vacuous: a plain 2-D call is accepted *)
Definition arr2 (t : Z) (h w : Z) : desc :=
  {| d_none := false; d_arr := true; d_shape := [h; w]; d_type := t; d_carray := true; d_carray_ro := true; d_contig := true |}.
Example erode_accepts : rejects_py_erode (arr2 2 5 6) (arr2 2 3 3) (arr2 2 5 6) (fun _ => false) = false.
Proof. vm_compute. reflexivity. Qed.
Example hitmiss_accepts : rejects_py_hitmiss (arr2 2 5 6) (arr2 2 3 3) (arr2 2 5 6) (fun _ => false) = false.
Proof. vm_compute. reflexivity. Qed.
Example hitmiss_rejects_rank : rejects_py_hitmiss (arr2 2 5 6) {| d_none := false; d_arr := true; d_shape := [3]; d_type := 2; d_carray := true; d_carray_ro := true; d_contig := true |} (arr2 2 5 6) (fun _ => false) = true.
Proof. vm_compute. reflexivity. Qed.
Example dt_rejects_empty : rejects_py_dt (arr2 12 0 3) (arr2 5 0 3) (fun _ => false) = true.
Proof. vm_compute. reflexivity. Qed.

(* Python level: the raise sites that stand between the public API and kernels without a native check *)
Open Scope string_scope.
Definition has_raise (fn test : string) : bool :=
  existsb (fun row => String.eqb (fst row) fn && existsb (String.eqb test) (snd row)) py_raises.
Definition required_py_raises : list (string * string) :=
  [ ("morph.get_structuring_elem", "if A.ndim != Bc.ndim")
  ; ("morph.dilate", "call get_structuring_elem(A)"); ("morph.erode", "call get_structuring_elem(A)")
  ; ("morph.cwatershed", "call get_structuring_elem(surface)"); ("morph.cwatershed", "if surface.shape != markers.shape")
  ; ("morph.cwatershed", "call _verify_is_integer_type(markers)")
  ; ("morph.hitmiss", "if input.ndim != Bc.ndim or input.ndim == 0"); ("morph.hitmiss", "if out.shape != input.shape")
  ; ("morph.majority_filter", "if img.ndim != 2"); ("morph.majority_filter", "if N <= 1")
  ; ("morph.close_holes", "call _check_2(ref)")
  ; ("morph.locmax", "call get_structuring_elem(f)"); ("morph.regmin", "call get_structuring_elem(f)")
  ; ("convolve.convolve", "if f.ndim != weights.ndim"); ("convolve.convolve1d", "if weights.ndim != 1")
  ; ("convolve.convolve1d", "call _get_axis(f)")
  ; ("convolve.median_filter", "if f.ndim != Bc.ndim")
  ; ("convolve.template_match", "if template.ndim != f.ndim")
  ; ("convolve.find", "if f.ndim != 2"); ("convolve.find", "if template.ndim != 2")
  ; ("convolve._wavelet_array", "if f.ndim != 2")
  ; ("distance.distance", "if bw.ndim == 0")
  ; ("segmentation.slic", "call _check_3(array)"); ("segmentation.slic", "if int(spacer) <= 0")
  ; ("labeled.label", "call get_structuring_elem(output)"); ("labeled.borders", "call get_structuring_elem(labeled)")
  ; ("labeled._as_labeled", "if array.shape != labeled.shape")
  ; ("interpolate._check_interpolate", "if not 0 < order < 5"); ("interpolate._maybe_filter", "if array.ndim < 1")
  ; ("interpolate.zoom", "if len(zoom) != array.ndim")
  ; ("internal._get_output", "if out.shape != array.shape"); ("internal._get_output", "if out.dtype != dtype")
  ; ("internal._get_axis", "if not 0 <= axis < len(array.shape)")
  ; ("internal._check_3", "if arr.ndim != 3 or arr.shape[2] != 3"); ("internal._check_2", "if arr.ndim != 2")
  ; ("internal._verify_is_integer_type", "if k not in 'iub'")
  ; ("features.lbp.lbp_transform", "if image.ndim != 2"); ("features.surf.integral", "if f.ndim != 2")
  ; ("features.texture.cooccurence", "if len(f.shape) not in (2, 3)") ].
Theorem python_raise_sites_present : forallb (fun p => has_raise (fst p) (snd p)) required_py_raises = true.
Proof. vm_compute. reflexivity. Qed.

(* ---- bounded time: the seeding loops of slic, `for (y = S/2; y < Ny; y += S)`, as a fuelled model.
        Under the guard 0 < S (C11_slic_guarded) the loop ends within Ny + 1 iterations; with S = 0 it never ends. *)
Close Scope string_scope.
Fixpoint seed_loop (fuel : nat) (y S Ny : Z) (acc : list Z) : option (list Z) :=
  match fuel with
  | O => None                                    (* out of fuel: the model of "does not return" *)
  | Datatypes.S k => if y <? Ny then seed_loop k (y + S) S Ny (y :: acc) else Some (rev acc)
  end.

Lemma seed_loop_ends S Ny : 0 < S -> forall fuel y acc, (Z.to_nat (Ny - y) < fuel)%nat ->
  exists ys, seed_loop fuel y S Ny acc = Some (rev acc ++ ys) /\ Forall (fun v => y <= v < Ny) ys.
Proof.
  intros HS. induction fuel as [|k IH]; intros y acc Hf; [lia|].
  cbn [seed_loop]. destruct (y <? Ny) eqn:E.
  - apply Z.ltb_lt in E. destruct (IH (y + S) (y :: acc) ltac:(lia)) as (ys & R & F).
    exists (y :: ys). split.
    + rewrite R. cbn [rev]. rewrite <- app_assoc. reflexivity.
    + constructor; [lia|]. eapply Forall_impl; [|exact F]. cbv beta. intros v Hv. lia.
  - exists []. split; [rewrite app_nil_r; reflexivity | constructor].
Qed.
Theorem slic_seeding_terminates S Ny : 0 < S -> 0 <= Ny ->
  exists ys, seed_loop (Z.to_nat Ny + 1) (Z.quot S 2) S Ny [] = Some ys /\ Forall (fun v => 0 <= v < Ny) ys.
Proof.
  intros HS HN. assert (Q : 0 <= Z.quot S 2) by (apply Z.quot_pos; lia).
  destruct (seed_loop_ends S Ny HS (Z.to_nat Ny + 1)%nat (Z.quot S 2) [] ltac:(lia)) as (ys & R & F).
  exists ys. split; [exact R|]. eapply Forall_impl; [|exact F]. cbv beta. intros v Hv. lia.
Qed.
(* without the guard: a zero spacing makes no progress, for every amount of fuel *)
Theorem slic_seeding_hangs_without_guard Ny : forall fuel y acc, y < Ny -> seed_loop fuel y 0 Ny acc = None.
Proof.
  induction fuel as [|k IH]; intros y acc H; [reflexivity|]. cbn [seed_loop].
  destruct (y <? Ny) eqn:E; [|apply Z.ltb_ge in E; lia]. rewrite Z.add_0_r. apply IH. exact H.
Qed.
