
val negb : bool -> bool

type nat =
| O
| S of nat

val fst : ('a1 * 'a2) -> 'a1

val snd : ('a1 * 'a2) -> 'a2

val length : 'a1 list -> nat

val app : 'a1 list -> 'a1 list -> 'a1 list

type comparison =
| Eq
| Lt
| Gt

val compOpp : comparison -> comparison

val add : nat -> nat -> nat

val mul : nat -> nat -> nat

val sub : nat -> nat -> nat

type positive =
| XI of positive
| XO of positive
| XH

type n =
| N0
| Npos of positive

type z =
| Z0
| Zpos of positive
| Zneg of positive

val eqb : bool -> bool -> bool

val gmin : ('a1 -> 'a1 -> comparison) -> 'a1 -> 'a1 -> 'a1

module Nat :
 sig
  val eqb : nat -> nat -> bool

  val leb : nat -> nat -> bool

  val divmod : nat -> nat -> nat -> nat -> nat * nat

  val div : nat -> nat -> nat
 end

module Pos :
 sig
  type mask =
  | IsNul
  | IsPos of positive
  | IsNeg
 end

module Coq_Pos :
 sig
  val succ : positive -> positive

  val add : positive -> positive -> positive

  val add_carry : positive -> positive -> positive

  val pred_double : positive -> positive

  type mask = Pos.mask =
  | IsNul
  | IsPos of positive
  | IsNeg

  val succ_double_mask : mask -> mask

  val double_mask : mask -> mask

  val double_pred_mask : positive -> mask

  val sub_mask : positive -> positive -> mask

  val sub_mask_carry : positive -> positive -> mask

  val sub : positive -> positive -> positive

  val mul : positive -> positive -> positive

  val iter : ('a1 -> 'a1) -> 'a1 -> positive -> 'a1

  val size_nat : positive -> nat

  val size : positive -> positive

  val compare_cont : comparison -> positive -> positive -> comparison

  val compare : positive -> positive -> comparison

  val eqb : positive -> positive -> bool

  val ggcdn : nat -> positive -> positive -> positive * (positive * positive)

  val ggcd : positive -> positive -> positive * (positive * positive)

  val iter_op : ('a1 -> 'a1 -> 'a1) -> positive -> 'a1 -> 'a1

  val to_nat : positive -> nat

  val of_succ_nat : nat -> positive
 end

module N :
 sig
  val succ_double : n -> n

  val double : n -> n

  val sub : n -> n -> n

  val compare : n -> n -> comparison

  val leb : n -> n -> bool

  val pos_div_eucl : positive -> n -> n * n
 end

module Z :
 sig
  val double : z -> z

  val succ_double : z -> z

  val pred_double : z -> z

  val pos_sub : positive -> positive -> z

  val add : z -> z -> z

  val opp : z -> z

  val sub : z -> z -> z

  val mul : z -> z -> z

  val pow_pos : z -> positive -> z

  val pow : z -> z -> z

  val compare : z -> z -> comparison

  val sgn : z -> z

  val leb : z -> z -> bool

  val ltb : z -> z -> bool

  val geb : z -> z -> bool

  val gtb : z -> z -> bool

  val eqb : z -> z -> bool

  val max : z -> z -> z

  val min : z -> z -> z

  val abs : z -> z

  val to_nat : z -> nat

  val of_nat : nat -> z

  val of_N : n -> z

  val to_pos : z -> positive

  val pos_div_eucl : positive -> z -> z * z

  val div_eucl : z -> z -> z * z

  val div : z -> z -> z

  val modulo : z -> z -> z

  val quotrem : z -> z -> z * z

  val quot : z -> z -> z

  val even : z -> bool

  val odd : z -> bool

  val log2 : z -> z

  val ggcd : z -> z -> z * (z * z)
 end

val hd : 'a1 -> 'a1 list -> 'a1

val tl : 'a1 list -> 'a1 list

val nth : nat -> 'a1 list -> 'a1 -> 'a1

val last : 'a1 list -> 'a1 -> 'a1

val removelast : 'a1 list -> 'a1 list

val rev : 'a1 list -> 'a1 list

val concat : 'a1 list list -> 'a1 list

val map : ('a1 -> 'a2) -> 'a1 list -> 'a2 list

val flat_map : ('a1 -> 'a2 list) -> 'a1 list -> 'a2 list

val fold_left : ('a1 -> 'a2 -> 'a1) -> 'a2 list -> 'a1 -> 'a1

val fold_right : ('a2 -> 'a1 -> 'a1) -> 'a1 -> 'a2 list -> 'a1

val existsb : ('a1 -> bool) -> 'a1 list -> bool

val forallb : ('a1 -> bool) -> 'a1 list -> bool

val filter : ('a1 -> bool) -> 'a1 list -> 'a1 list

val combine : 'a1 list -> 'a2 list -> ('a1 * 'a2) list

val list_prod : 'a1 list -> 'a2 list -> ('a1 * 'a2) list

val firstn : nat -> 'a1 list -> 'a1 list

val skipn : nat -> 'a1 list -> 'a1 list

val repeat : 'a1 -> nat -> 'a1 list

type q = { qnum : z; qden : positive }

val inject_Z : z -> q

val qcompare : q -> q -> comparison

val qplus : q -> q -> q

val qmult : q -> q -> q

val qopp : q -> q

val qminus : q -> q -> q

val qinv : q -> q

val qdiv : q -> q -> q

val qred : q -> q

val nthZ : 'a1 -> 'a1 list -> z -> 'a1

val zlen : 'a1 list -> z

val zseq : z -> nat -> z list

val upd : 'a1 list -> nat -> 'a1 -> 'a1 list

val updZ : 'a1 list -> z -> 'a1 -> 'a1 list

val sumZ : z list -> z

val minl : z -> z list -> z

val maxl : z -> z list -> z

type ity = { bits : z; signed : bool }

val tmin : ity -> z

val tmax : ity -> z

val wrap : ity -> z -> z

val size0 : z list -> z

val ravel : z list -> z list -> z

val unravel : z list -> z -> z list

val in_shapeb : z list -> z list -> bool

val all_positions : z list -> z list list

type arr = { shape : z list; data : z list }

val aget : arr -> z list -> z

val padd : z list -> z list -> z list

val psub : z list -> z list -> z list

val centre : z list -> z list

val m_nearest : z

val m_wrap : z

val m_reflect : z

val m_mirror : z

val m_constant : z

val clamp : z -> z -> z

val reflect_spec : z -> z -> z

val mirror_spec : z -> z -> z

val border_map : z -> z -> z -> z option

val border_pos : z -> z list -> z list -> z list option

val clampos : z list -> z list -> z list

val border_flag_value : z

val extendNearest : z

val extendWrap : z

val extendReflect : z

val extendMirror : z

val extendConstant : z

val extendIgnore : z

val fix_offset : z -> z -> z -> z

val erode_sub : ity -> z -> z -> z

val erode_sub_bool : z -> z -> z

val dilate_add : ity -> z -> z -> z

val dilate_add_bool : z -> z -> z

val subm : ity -> z -> z -> z

val markerinfo_lt : z -> z -> z -> z -> bool

type dt =
| DBool
| DInt of ity

val dmin : dt -> z

val dmax : dt -> z

val is_bool : dt -> bool

val fixpos : z -> z list -> z list -> z list option

val entries : bool -> arr -> (z list * z) list

val retrieve : z -> arr -> z list -> z list -> z option

val esub : dt -> z -> z -> z

val dadd : dt -> z -> z -> z

val getn : arr -> z list -> z list -> z

val erode_at : dt -> arr -> arr -> z list -> z

val erode_generic : dt -> arr -> arr -> z list

val dilate_entry :
  dt -> arr -> z list -> z -> z list -> (z list * z) -> z list

val dilate_step : dt -> arr -> arr -> z list -> z list -> z list

val dilate_generic : dt -> arr -> arr -> z list

val satd : dt -> z -> z

val height : dt -> z -> z

val in_se : dt -> z -> bool

val support : dt -> arr -> (z list * z) list

val erode_spec : dt -> arr -> arr -> z list -> z

val dilate_spec : dt -> arr -> arr -> z list -> z

val erode_spec_all : dt -> arr -> arr -> z list

val dilate_spec_all : dt -> arr -> arr -> z list

val nbh_inside : dt -> arr -> arr -> z list -> bool

val mk : arr -> z list -> arr

val pmin : z list -> z list -> z list

val pmax : z list -> z list -> z list

val mh_open : dt -> arr -> arr -> z list

val mh_close : dt -> arr -> arr -> z list

val list_eqb : z list -> z list -> bool

val cdilate_loop : dt -> arr -> z list -> arr -> nat -> z list

val mh_cdilate : dt -> arr -> z list -> arr -> nat -> z list

val mh_cerode : dt -> arr -> z list -> arr -> z list

val subm_d : dt -> z -> z -> z

val psubm : dt -> z list -> z list -> z list

val mh_tophat_open : dt -> arr -> arr -> z list

val mh_tophat_close : dt -> arr -> arr -> z list

val conv_at : z -> arr -> arr -> z list -> z

val convolve_generic : z -> arr -> arr -> z list

val sample : z -> arr -> z list -> z

val conv_spec : z -> arr -> arr -> z list -> z

val conv_spec_all : z -> arr -> arr -> z list

val dot_interior : z list -> z list -> z -> z -> z

val dot_border : z -> z list -> z list -> z -> z -> z

val row_fast : z -> z list -> z list -> z list -> z list

val row_spec : z -> z list -> z list -> z list

val gather : z -> arr -> arr -> z -> z list -> z list

val insert : z -> z list -> z list

val isort : z list -> z list

val rank_at : z -> arr -> arr -> z -> z list -> z option

val rank_filter : z -> arr -> arr -> z -> z list -> z list

val median_rank : arr -> z

val mean_at : z -> arr -> arr -> z list -> z * z

val mean_filter : z -> arr -> arr -> (z * z) list

val wrapd : dt -> z -> z

val tm_sample : z -> arr -> z list -> z list -> z option

val tm_at : dt -> z -> arr -> arr -> z list -> z

val template_match : dt -> z -> arr -> arr -> z list

val window_eq : arr -> arr -> z -> z -> bool

val find2d : arr -> arr -> z list

val samples_spec : z -> arr -> arr -> z list -> z list

val count_lt : z -> z list -> z

val count_le : z -> z list -> z

val window_sample : z -> arr -> z list -> z list -> z option

val ssd_spec : z -> arr -> arr -> z list -> z

val assoc : z -> (z * z) list -> z option

val renum_go : (z * z) list -> z -> z list -> z list * z

val renumber : z -> z list -> z list * z

val get : z -> (z * z) list -> z

val fstep : (z -> z -> z) -> z -> z list -> (z * z) -> z list

val foldl_labeled : (z -> z -> z) -> z -> z -> z list -> z list -> z list

val f_sum : ity option -> z -> z -> z

val f_max : z -> z -> z

val f_min : z -> z -> z

val labeled_sum : ity option -> z -> z list -> z list -> z list

val labeled_max : z -> z -> z list -> z list -> z list

val labeled_min : z -> z -> z list -> z list -> z list

val region : z -> z list -> z list -> z list

val relabel : z list -> z list * z

val same_go : (z * z) list -> (z * z) list -> z list -> z list -> bool

val is_same_labeling : z list -> z list -> bool

val same_labeling_spec : z list -> z list -> bool

val remove_regions : z list -> z list -> z list

val borders_at : z -> arr -> arr -> z list -> bool

val borders : z -> arr -> arr -> z list

val border_at : arr -> arr -> z -> z -> z list -> bool

val border : arr -> arr -> z -> z -> z list

val borders_spec : z -> arr -> arr -> z list -> bool

val upd_ext : z list -> z list -> z list

val ext_init : z list -> z list

val bbox_scan : arr -> z list

val bbox_generic : arr -> z list

val bbox2_row : nat -> z list -> z -> z -> z -> z list -> z list

val rows_of : nat -> nat -> z list -> z list list

val bbox_fast2 : arr -> z list

val nz_positions : arr -> z list list

val bbox_spec : arr -> z list

val bbox_labeled_spec : arr -> z -> z list list

val fullhistogram : z list -> z list

val count_eq : z -> z list -> z

val com_sums : arr -> z list -> z -> z * z list

val lbb_update : z list list -> z -> z list -> z list list

val lbb_scan : arr -> z -> z list list

val bbox_labeled : arr -> z -> z list list

val qf_join : z list -> z -> z -> z list

val label_pairs : arr -> arr -> (z * z) list

val init_classes : arr -> z list

val label_classes : arr -> arr -> z list

val label : arr -> arr -> z list * z

val remove_centre : arr -> arr

val better : bool -> z -> z -> bool

val locmm_at : bool -> arr -> arr -> z list -> bool

val locmm : bool -> arr -> arr -> z list

val locmm_spec : bool -> arr -> arr -> z list -> bool

val nbr_offsets : arr -> z list list

val flood_unmark :
  nat -> z list -> z list list -> z list -> z list list -> z list

val weakly_better : bool -> z -> z -> bool

val regmm_step : bool -> arr -> z list list -> z list -> z list -> z list

val regmm : bool -> arr -> arr -> z list

val inimg_nbrs : arr -> z list list -> z list -> z list list

val plateau_pairs : arr -> z list list -> (z * z) list

val plateau_classes : arr -> z list list -> z list

val regmm_spec : bool -> arr -> arr -> z list

val flood_mark : nat -> arr -> z list list -> z list -> z list list -> z list

val on_border : z list -> z list -> bool

val close_holes : arr -> arr -> z list

val bg_pairs : arr -> z list list -> (z * z) list

val close_holes_spec : arr -> arr -> z list

val margin_ok : z -> z -> z -> bool

val hm_inside : z list -> z list -> z list -> bool

val hm_match : arr -> arr -> z list -> bool

val hitmiss : arr -> arr -> z list

val template_inside : arr -> arr -> z list -> bool

val hitmiss_spec : arr -> arr -> z list

type qe = { q_cost : z; q_idx : z; q_pos : z; q_margin : z }

val qe_lt : qe -> qe -> bool

val q_top : qe list -> qe option

val q_remove : z -> qe list -> qe list

type nb = { nb_delta : z; nb_step : z; nb_dpos : z list }

val cheb : z list -> z

val ws_neighbours : z list -> arr -> nb list

val ws_neighbours_all : z list -> arr -> nb list

val big : z

val margin_of : z list -> z list -> z

type resolver = z list -> z -> z -> nb -> (z * z) option * z

val resolve_margin : resolver

val resolve_checked : resolver

type wstate = { w_res : z list; w_lines : z list; w_status : z list;
                w_queue : qe list; w_idx : z }

val wHITE : z

val gREY : z

val bLACK : z

val ws_visit : z list -> bool -> z -> wstate -> (z * z) -> wstate

val ws_pop :
  resolver -> z list -> nb list -> z list -> bool -> qe -> wstate -> wstate

val ws_loop :
  resolver -> nat -> z list -> nb list -> z list -> bool -> wstate -> wstate

val ws_init : z list -> z list -> z list -> z list -> z list -> wstate

val ws_run :
  resolver -> (z list -> arr -> nb list) -> arr -> arr -> arr -> bool -> z
  list -> z list -> z list * z list

val cwatershed : arr -> arr -> arr -> bool -> z list * z list

val flood_spec : arr -> arr -> arr -> bool -> z list * z list

type ext =
| NegInf
| Fin of z * z

val ext_lt_frac : ext -> z -> z -> bool

val ext_lt_int : ext -> z -> bool

val hull_pop : z list -> z -> (z * ext) list -> (z * ext) list

val build_hull : z list -> (z * ext) list

val sweep_adv : nat -> z -> (z * ext) list -> (z * ext) list

val dt1d_with_origin : z list -> (z * z) list

val dt1d : z list -> z list

val lmin : z list -> z

val minplus1d : z list -> z list

val line0 : z -> z -> z list -> z -> z list

val pass_axis0 : (z list -> z list) -> z -> z -> z list -> z list

val block : z -> z -> z list -> z list

val dt_nd : (z list -> z list) -> z list -> z list -> z list

val dist_inf : z list -> z

val dist_init : arr -> z list

val distance : arr -> z list

val sqdist : z list -> z list -> z

val distance_spec : arr -> z list

val line0o : z -> z -> (z * z) list -> z -> (z * z) list

val t1o : (z * z) list -> (z * z) list

val pass_axis0o : z -> z -> (z * z) list -> (z * z) list

val blocko : z -> z -> (z * z) list -> (z * z) list

val dt_ndo : z list -> (z * z) list -> (z * z) list

val gvoronoi : arr -> z list

val qabs : q -> q

val qmin : q -> q -> q

val qltb : q -> q -> bool

val zq : z -> q

val prefix_sums : z -> z list -> z list

type ostate = { o_muB : q; o_muO : q; o_best : q; o_bestT : z; o_stop : bool }

val otsu_step : z list -> z list -> z list -> ostate -> z -> ostate

val weighted : z list -> z

val otsu : z list -> z

val cnt_le : z list -> z -> z

val sum_le : z list -> z -> z

val sigma_spec : z list -> z -> q

val otsu_spec : z list -> z

val cnt_gt : z list -> z -> z

val sum_gt : z list -> z -> z

val rc_mid : z list -> z -> q

val last_nonzero : z list -> z -> z -> z

val rc_loop : nat -> z list -> z -> q -> z -> q

val rc : z list -> q

val thin_elems : ((z * z) * bool) list list

val euler_lookup4_x4 : z list

val euler_lookup8_x4 : z list

val euler_powers : z list list

val daubechies_tables : q list list

val fgb : arr -> z list -> bool

val tmatch : arr -> ((z * z) * bool) list -> z list -> bool

val thin_pass : arr -> ((z * z) * bool) list -> arr

val thin_round : arr -> arr

val thin_loop : nat -> arr -> arr

val thin : arr -> z list

val pad_br : arr -> arr

val euler_x4 : bool -> arr -> z

type pt = z * z

val forward_lt : pt -> pt -> bool

val reverse_lt : pt -> pt -> bool

val is_left : pt -> pt -> pt -> z

val pinsert : (pt -> pt -> bool) -> pt -> pt list -> pt list

val psort : (pt -> pt -> bool) -> pt list -> pt list

val chain_pop : pt list -> pt -> pt list -> pt list * pt list

val chain_step : (pt list * pt list) -> pt -> pt list * pt list

val scan : (pt -> pt -> bool) -> pt list -> pt list * pt list

val graham : pt list -> pt list

val fg_points : arr -> pt list

val convexhull : arr -> pt list

val pairs : z list -> (z * z) list

val haar_row : z list -> z list

val ihaar_row : z list -> z list

val transpose : nat -> z list list -> z list list

val haar2d : nat -> nat -> z list list -> z list list

val ihaar2d : nat -> nat -> z list list -> z list list

val qacc : q list -> z -> q

val qsum : q list -> q

val wavelet_row : q list -> q list -> q list

val iwavelet_row : q list -> q list -> q list

val axis_geom : z -> z -> z * z

val center_search : nat -> z list -> z -> z -> (z * z) list option

val center_geom : z list -> z -> (z * z) list option

val qfloor : q -> z

val zq0 : z -> q

val spline_start : z -> q -> z

val bspline : z -> q -> q

val spline_weights : z -> q -> q list

val qtrunc : q -> z

val map_coordinate : z -> z -> q -> q option

val edge_index : z -> z -> z

val qsum0 : q list -> q

val interp1 : z -> z -> q list -> q -> q

val shift1 : z -> z -> q list -> q -> q list

val zoom_factor : z -> z -> q

val zoom1 : z -> z -> q list -> z -> q list

val cooc_pairs : arr -> z list -> (z * z) list

val cooc : arr -> z list -> z -> z list

val cooc_sym : arr -> z list -> z -> z list

val roll_right : z -> z -> z

val lbp_map_go : nat -> z -> z -> z -> z

val lbp_map : z -> z -> z

val prefix_row : z -> z list -> z list

val next_row : z list -> z list -> z -> z -> z list

val integral_go : z list -> z list list -> z list list

val integral : z list list -> z list list

val moments : arr -> z -> z -> z -> z -> z

val gbernsen_px : q -> q -> q -> q -> q -> bool

val soft_threshold_px : q -> q -> q

val uf_find : nat -> z list -> z -> z list * z

val uf_join : nat -> z list -> z -> z -> z list

val uf_classes : arr -> arr -> z list

val uf_label : arr -> arr -> z list * z
