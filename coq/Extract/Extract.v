(* Extraction of the executable models and specifications (ExtrOcamlBasic only; Z kept as
   the extracted inductive). *)
Require Import MV.Base.Prelude MV.Base.CInt MV.Base.Index MV.Base.BorderSpec.
Require Import MV.Gen.Scalar_gen MV.Model.Filter MV.Model.Morph MV.Model.Convolve MV.Model.Filters MV.Model.Labeled MV.Model.Label MV.Model.Extrema MV.Model.Watershed MV.Model.Distance MV.Model.Threshold MV.Model.Topology MV.Model.Wavelet MV.Model.Interp MV.Model.Texture MV.Gen.Tables_gen MV.Gen.PyThresh_gen MV.Base.QHelp MV.Base.Renumber.
Require Import MV.Model.UnionFind.
Require Import QArith.
Require Extraction.
Require Import ExtrOcamlBasic.
Extraction Language OCaml.

Extraction "model.ml"
  Z.add Z.mul Z.sub Z.opp Z.div Z.modulo Z.quotrem Z.compare Z.eqb Z.ltb Z.of_nat Z.to_nat
  fix_offset border_map
  erode_sub dilate_add subm erode_sub_bool dilate_add_bool markerinfo_lt
  erode_generic dilate_generic erode_spec_all dilate_spec_all nbh_inside all_positions
  convolve_generic conv_spec_all row_fast row_spec
  rank_filter median_rank mean_filter template_match find2d samples_spec ssd_spec count_lt count_le
  labeled_sum labeled_max labeled_min region relabel is_same_labeling same_labeling_spec remove_regions
  borders border borders_spec bbox_generic bbox_fast2 bbox_spec bbox_labeled_spec bbox_labeled fullhistogram count_eq com_sums
  label label_pairs uf_label
  locmm locmm_spec regmm regmm_spec close_holes close_holes_spec hitmiss hitmiss_spec
  cwatershed flood_spec
  distance distance_spec gvoronoi dt1d minplus1d
  otsu otsu_spec sigma_spec rc gbernsen_px soft_threshold_px Qred inject_Z
  thin euler_x4 convexhull
  haar2d ihaar2d wavelet_row iwavelet_row daubechies_tables center_geom
  shift1 zoom1 spline_weights
  cooc cooc_sym lbp_map integral moments
  mh_open mh_close mh_cdilate mh_cerode mh_tophat_open mh_tophat_close psubm.
